#!/usr/bin/env python3
"""Own mutant catalogue: each entry is (name, file, old, new), applied to a scratch copy of /repo.
Writes mutants/<name>.diff (git-apply format) and mutants/INDEX.json (compiles? passes the 95 tests?)."""
import sys,subprocess,shutil,os,json,tempfile
M=[
("C04_guard_only_start","parser.go","\t\tif size == 0 || (char == utf8.RuneError && size == 1) {\n\t\t\treturn nil, 0, fmt.Errorf(\"not an UTF-8 encoding\")\n\t\t}\n\n\t\tif char == '\\n' {\n\t\t\t*line++\n\t\t}\n\n\t\tswitch state {\n\n\t\t// List creation",
   "\t\tif state == stateStart && (size == 0 || (char == utf8.RuneError && size == 1)) {\n\t\t\treturn nil, 0, fmt.Errorf(\"not an UTF-8 encoding\")\n\t\t}\n\n\t\tif char == '\\n' {\n\t\t\t*line++\n\t\t}\n\n\t\tswitch state {\n\n\t\t// List creation"),
("C03_afterval_space_only","parser.go","\t\tcase stateAfterVal:\n\n\t\t\t// Whitespace (skipping)\n\t\t\tif unicode.IsSpace(char) {","\t\tcase stateAfterVal:\n\n\t\t\t// Whitespace (skipping)\n\t\t\tif char == ' ' {"),
("C05_insert_cap","list_impl.go","if index < 0 || index > ego.Ego().Count() {\n\t\tpanic(fmt.Sprintf(\"index %d out of range with count %d\", index, ego.Ego().Count()))\n\t}\n\tif index == ego","if index < 0 || index > cap(ego.val) {\n\t\tpanic(fmt.Sprintf(\"index %d out of range with count %d\", index, ego.Ego().Count()))\n\t}\n\tif index == ego"),
("C05_delete_offbyone","list_impl.go","\t\tindex := indexes[i]\n\t\tif index < 0 || index >= ego.Ego().Count() {","\t\tindex := indexes[i]\n\t\tif index < 0 || index > ego.Ego().Count() {"),
("C05_insert_shift_short","list_impl.go","\tego.val = append(ego.val[:index+1], ego.val[index:]...)","\tego.val = append(ego.val[:index], ego.val[index:]...)"),
("C05_add_prepends","list_impl.go","\t\tego.val = append(ego.val, parseVal(val))","\t\tego.val = append([]field{parseVal(val)}, ego.val...)"),
("C05_delete_keeps_wrong","list_impl.go","\t\tego.val = append(ego.val[:index], ego.val[index+1:]...)","\t\tego.val = append(ego.val[:index], ego.val[index:]...)[:len(ego.val)-1]"),
("C05_concat_twice_other","list_impl.go","\tnewList.val = append(newList.val, ego.val...)","\tnewList.val = append(newList.val, other.val...)"),
("C05_listof_convert_in_loop","list_impl.go","\telem := parseVal(value)\n\tfor i := 0; i < count; i++ {\n\t\tego.val = append(ego.val, elem)","\tfor i := 0; i < count; i++ {\n\t\tego.val = append(ego.val, parseVal(value))"),
("C06_merge_prefers_receiver","object_impl.go","\tresult := ego.Clone()\n\tanother.ForEach(func(key string, val any) {","\tresult := another.Clone()\n\tego.ForEach(func(key string, val any) {"),
("C06_pluck_skips_missing","object_impl.go","\t\tresult.Set(key, ego.Get(key))","\t\tif ego.KeyExists(key) {\n\t\t\tresult.Set(key, ego.Get(key))\n\t\t}"),
("C07_object_no_count","object_impl.go","if !ok || ego.Ego().Count() != obj.Count() {\n\t\treturn false\n\t}\n\tfor k := range ego.val","if !ok {\n\t\treturn false\n\t}\n\tfor k := range ego.val"),
("C07_list_no_count_min","list_impl.go","if !ok || ego.Ego().Count() != list.Count() {\n\t\treturn false\n\t}\n\tfor i := range ego.val {","if !ok || ego.Ego().Count() > list.Count() {\n\t\treturn false\n\t}\n\tfor i := range ego.val {"),
("C08_shallow_list_copy","list_impl.go","\t\tlist.val[i] = parseVal(value.copy())","\t\tlist.val[i] = value"),
("C08_shallow_object_copy","object_impl.go","\t\tobj.Set(key, value.copy())","\t\tobj.Set(key, value.getVal())"),
("C09_sublist_alias","list_impl.go","\tlist := &list{val: make([]field, end-start)}\n\tlist.Init(list)\n\tcopy(list.val, ego.val[start:end])","\tlist := &list{val: ego.val[start:end]}\n\tlist.Init(list)"),
("C10_typeoftf_noguard","list_impl.go","\t\tindex := int(integer)\n\t\tif ego.Ego().TypeOf(index) != TypeList {\n\t\t\treturn TypeUndefined\n\t\t}\n","\t\tindex := int(integer)\n"),
("C11_object_dot_keyexists","object_impl.go","\t\tif ego.TypeOf(key) == TypeObject {\n\t\t\tobject = ego.GetObject(key)","\t\tif ego.KeyExists(key) {\n\t\t\tobject = ego.GetObject(key)"),
("C11_pad_offbyone","list_impl.go","\t\tcount := ego.Ego().Count()\n\t\tif index >= count {\n\t\t\tlist = NewList()\n\t\t\tfor i := 0; i < index-count; i++ {","\t\tcount := ego.Ego().Count()\n\t\tif index >= count {\n\t\t\tlist = NewList()\n\t\t\tfor i := 1; i < index-count; i++ {"),
("C12_uint8_via_int8","anytype.go","\tcase uint8:\n\t\treturn newInt(int(v))","\tcase uint8:\n\t\treturn newInt(int(int8(v)))"),
("C12_typeof_swap","object_impl.go","\tcase *atInt:\n\t\treturn TypeInt\n\tcase *atBool:\n\t\treturn TypeBool\n\tcase *atFloat:\n\t\treturn TypeFloat\n\tdefault:","\tcase *atInt:\n\t\treturn TypeFloat\n\tcase *atBool:\n\t\treturn TypeBool\n\tcase *atFloat:\n\t\treturn TypeInt\n\tdefault:"),
("C13_native_shallow_list","anytype.go","\t\tv.ForEachValue(func(h any) {\n\t\t\tresult = append(result, native(h))\n\t\t})","\t\tv.ForEachValue(func(h any) {\n\t\t\tresult = append(result, h)\n\t\t})"),
("C14_foreachint_first_only","list_impl.go","\t\tval, ok := item.getVal().(int)\n\t\tif ok {\n\t\t\tfunction(val)\n\t\t}\n\t}\n\treturn ego.Ego()","\t\tval, ok := item.getVal().(int)\n\t\tif ok {\n\t\t\tfunction(val)\n\t\t\tbreak\n\t\t}\n\t}\n\treturn ego.Ego()"),
("C14_allnumeric_loose","list_impl.go","\t\t\t_, ok := item.(*atFloat)\n\t\t\tif !ok {\n\t\t\t\treturn false\n\t\t\t}","\t\t\t_, ok := item.(*atFloat)\n\t\t\tif !ok {\n\t\t\t\tcontinue\n\t\t\t}"),
("C15_mapasync_nomutex","list_impl.go","\t\tmutex.Lock()\n\t\tresult.Replace(i, function(i, x))\n\t\tmutex.Unlock()","\t\tresult.Replace(i, function(i, x))"),
("C15_foreachasync_nowait","object_impl.go","\t\tgo step(&wg, key, item.getVal())\n\t}\n\twg.Wait()\n\treturn ego.Ego()","\t\tgo step(&wg, key, item.getVal())\n\t}\n\treturn ego.Ego()"),
("C16_indent_bound","object_impl.go","if indent < 0 || indent > 10 {\n\t\tpanic(fmt.Sprintf(\"indentation","if indent < 0 || indent > 100 {\n\t\tpanic(fmt.Sprintf(\"indentation"),
("C17_reverse_even","list_impl.go","for i := ego.Ego().Count()/2 - 1; i >= 0; i-- {","for i := (ego.Ego().Count()-1)/2 - 1; i >= 0; i-- {"),
("C17_sort_wrong_slice","list_impl.go","\tcase *atInt:\n\t\tslice := ego.IntSlice()\n\t\tsort.Ints(slice)\n\t\tego.val = NewListFrom(slice).(*list).val","\tcase *atInt:\n\t\tslice := ego.IntSlice()\n\t\tsort.Ints(slice)\n\t\treturn NewListFrom(slice)"),
("C18_max_init_zero","list_impl.go","max := ego.Ego().Reduce(-math.MaxFloat64, func(max any, item any) any {","max := ego.Ego().Reduce(0.0, func(max any, item any) any {"),
("C18_min_float_branch_swapped","list_impl.go","\t\t\tif item.(float64) < min.(float64) {","\t\t\tif item.(float64) > min.(float64) {"),
("C18_intmin_init","list_impl.go","min := ego.Ego().ReduceInts(math.MaxInt, func","min := ego.Ego().ReduceInts(0, func"),
("C19_insert_bare_ego","list_impl.go","\tego.val[index] = parseVal(value)\n\treturn ego.Ego()\n}\n\nfunc (ego *list) Replace","\tego.val[index] = parseVal(value)\n\treturn ego\n}\n\nfunc (ego *list) Replace"),
("C19_getval_bare","object_impl.go","func (ego *object) getVal() any {\n\treturn ego.Ego()","func (ego *object) getVal() any {\n\treturn ego"),
("C20_seed_no_count","parser.go","\tstartLine := strings.Count(json[:start], \"\\n\") + 1\n\troot, _, err := parseObject","\tstartLine := 1\n\troot, _, err := parseObject"),
("C20_line_copy","parser.go","\t\t\t\tl, pos, err := parseList(json[i:], line)\n\t\t\t\tif err != nil {\n\t\t\t\t\treturn nil, 0, err\n\t\t\t\t}\n\t\t\t\ti += pos\n\t\t\t\tlist.Add(l)","\t\t\t\tcp := *line\n\t\t\t\tl, pos, err := parseList(json[i:], &cp)\n\t\t\t\tif err != nil {\n\t\t\t\t\treturn nil, 0, err\n\t\t\t\t}\n\t\t\t\ti += pos\n\t\t\t\tlist.Add(l)"),
("C02_list_trailing_comma","list_impl.go","\t\tif i+1 < len(ego.val) {\n\t\t\tresult.WriteRune(',')","\t\tif i < len(ego.val) {\n\t\t\tresult.WriteRune(',')"),
("C02_strconv_quote_value","anytype.go","\treturn quote(val)\n","\treturn strconv.Quote(val)\n"),
# adversarial: wrong programs written in the styles the normalisations accept (each must still be reported)
("C05_contains_empty_guard_true","list_impl.go","func (ego *list) Contains(elem any) bool {\n\tfor _, item := range ego.val {","func (ego *list) Contains(elem any) bool {\n\tif len(ego.val) == 0 {\n\t\treturn true\n\t}\n\tfor _, item := range ego.val {"),
("C17_reverse_guard_lt3","list_impl.go","func (ego *list) Reverse() List {\n\tfor i := ego.Ego().Count()/2 - 1; i >= 0; i-- {","func (ego *list) Reverse() List {\n\tif len(ego.val) < 3 {\n\t\treturn ego.Ego()\n\t}\n\tfor i := ego.Ego().Count()/2 - 1; i >= 0; i-- {"),
("C05_indexof_flag_no_break","list_impl.go","\tfor i, item := range ego.val {\n\t\tif item.getVal() == elem {\n\t\t\treturn i\n\t\t}\n\t}\n\treturn -1","\tindex := -1\n\tfor i, item := range ego.val {\n\t\tif item.getVal() == elem {\n\t\t\tindex = i\n\t\t}\n\t}\n\treturn index"),
("C07_list_flag_last_only","list_impl.go","\tfor i := range ego.val {\n\t\tif !ego.val[i].isEqual(list.val[i]) {\n\t\t\treturn false\n\t\t}\n\t}\n\treturn true","\tequal := true\n\tfor i := range ego.val {\n\t\tequal = ego.val[i].isEqual(list.val[i])\n\t}\n\treturn equal"),
("C14_foreach_pos_by_two","list_impl.go","\tfor i, item := range ego.val {\n\t\tfunction(i, item.getVal())\n\t}\n\treturn ego.Ego()","\tpos := 0\n\tfor _, item := range ego.val {\n\t\tfunction(pos, item.getVal())\n\t\tpos += 2\n\t}\n\treturn ego.Ego()"),
("C14_filterints_collects_all","list_impl.go","\tresult := NewList()\n\tfor _, item := range ego.val {\n\t\tval, ok := item.getVal().(int)\n\t\tif ok && function(val) {\n\t\t\tresult.Add(val)\n\t\t}\n\t}\n\treturn result","\tvar kept []any\n\tfor _, item := range ego.val {\n\t\tval, ok := item.getVal().(int)\n\t\tif ok {\n\t\t\tfunction(val)\n\t\t\tkept = append(kept, val)\n\t\t}\n\t}\n\treturn NewList(kept...)"),
("C05_delete_forever_guard_le0","list_impl.go","\tfor i := len(indexes) - 1; i >= 0; i-- {\n\t\tindex := indexes[i]","\ti := len(indexes) - 1\n\tfor {\n\t\tif i <= 0 {\n\t\t\tbreak\n\t\t}\n\t\tindex := indexes[i]\n\t\ti--"),
("C02_list_parts_first_repeated","list_impl.go","\tvar result strings.Builder\n\tresult.WriteRune('[')\n\tfor i, value := range ego.val {\n\t\tresult.WriteString(value.serialize())\n\t\tif i+1 < len(ego.val) {\n\t\t\tresult.WriteRune(',')\n\t\t}\n\t}","\tparts := make([]string, len(ego.val))\n\tfor i, value := range ego.val {\n\t\tparts[i] = value.serialize()\n\t}\n\tvar result strings.Builder\n\tresult.WriteRune('[')\n\tfor i := 0; i < len(parts); i++ {\n\t\tif i > 0 {\n\t\t\tresult.WriteRune(',')\n\t\t}\n\t\tresult.WriteString(parts[0])\n\t}"),
("C07_object_snapshot_skips_first","object_impl.go","\tfor k := range ego.val {\n\t\tif !ego.val[k].isEqual(obj.val[k]) {\n\t\t\treturn false\n\t\t}\n\t}\n\treturn true","\tkeys := make([]string, 0, len(ego.val))\n\tfor k := range ego.val {\n\t\tkeys = append(keys, k)\n\t}\n\tfor i, k := range keys {\n\t\tif i > 0 && !ego.val[k].isEqual(obj.val[k]) {\n\t\t\treturn false\n\t\t}\n\t}\n\treturn true"),
("C07_list_cursor_wrong_verdict","list_impl.go","\tfor i := range ego.val {\n\t\tif !ego.val[i].isEqual(list.val[i]) {\n\t\t\treturn false\n\t\t}\n\t}\n\treturn true","\tcursor := 0\n\tfor cursor < len(ego.val) && ego.val[cursor].isEqual(list.val[cursor]) {\n\t\tcursor++\n\t}\n\treturn cursor <= len(ego.val)"),
("C14_reducestrings_countdown_skips_first","list_impl.go","\tresult := initial\n\tfor _, item := range ego.val {\n\t\tval, ok := item.getVal().(string)\n\t\tif ok {\n\t\t\tresult = function(result, val)\n\t\t}\n\t}\n\treturn result","\tresult := initial\n\tfor left := len(ego.val) - 1; left > 0; left-- {\n\t\tval, ok := ego.val[len(ego.val)-left].getVal().(string)\n\t\tif ok {\n\t\t\tresult = function(result, val)\n\t\t}\n\t}\n\treturn result"),
("C14_mapstrings_push_element","list_impl.go","\t\tval, ok := item.getVal().(string)\n\t\tif ok {\n\t\t\tresult.Add(function(val))\n\t\t}\n\t}\n\treturn result","\t\tval, ok := item.getVal().(string)\n\t\tif ok {\n\t\t\tfunction(val)\n\t\t\tout := result.(*list)\n\t\t\tout.val = append(out.val, parseVal(val))\n\t\t}\n\t}\n\treturn result"),
("C16_format_fastpath_empty_text","list_impl.go","\tbuffer := new(bytes.Buffer)\n\tjson.Indent(buffer, []byte(ego.String()), \"\", strings.Repeat(\" \", indent))\n\treturn buffer.String()","\tcompact := ego.String()\n\tif compact == \"[]\" {\n\t\treturn \"\"\n\t}\n\tbuffer := new(bytes.Buffer)\n\tjson.Indent(buffer, []byte(compact), \"\", strings.Repeat(\" \", indent))\n\treturn buffer.String()"),
("C17_sort_reverse_adapter","list_impl.go","\t\tslice := ego.IntSlice()\n\t\tsort.Ints(slice)","\t\tslice := ego.IntSlice()\n\t\tsort.Sort(sort.Reverse(sort.IntSlice(slice)))"),
("C06_unset_window_by_two","object_impl.go","\tfor _, key := range keys {\n\t\tdelete(ego.val, key)\n\t}\n\treturn ego.Ego()","\tfor len(keys) > 1 {\n\t\tdelete(ego.val, keys[0])\n\t\tkeys = keys[2:]\n\t}\n\treturn ego.Ego()"),
("C01_cascade_table_float_first","parser.go","\tinteger, err := strconv.ParseInt(field, 0, bits.UintSize)\n\tif err == nil {\n\t\treturn int(integer), nil\n\t}\n\tfloat, err := strconv.ParseFloat(field, 64)\n\tif err == nil {\n\t\treturn float, nil\n\t}","\tfirst := [...]func(string) (any, error){\n\t\tfunc(s string) (any, error) { return strconv.ParseFloat(s, 64) },\n\t\tfunc(s string) (any, error) {\n\t\t\tinteger, err := strconv.ParseInt(s, 0, bits.UintSize)\n\t\t\treturn int(integer), err\n\t\t},\n\t}\n\tfor _, try := range first {\n\t\tif value, err := try(field); err == nil {\n\t\t\treturn value, nil\n\t\t}\n\t}"),
("C01_cascade_float_first","parser.go","\tinteger, err := strconv.ParseInt(field, 0, bits.UintSize)\n\tif err == nil {\n\t\treturn int(integer), nil\n\t}\n\tfloat, err := strconv.ParseFloat(field, 64)\n\tif err == nil {\n\t\treturn float, nil\n\t}","\tfloat, err := strconv.ParseFloat(field, 64)\n\tif err == nil {\n\t\treturn float, nil\n\t}\n\tinteger, err := strconv.ParseInt(field, 0, bits.UintSize)\n\tif err == nil {\n\t\treturn int(integer), nil\n\t}"),
# adversarial, round 9: wrong programs in the unboxed / kind-arm / fast-path styles
("C12_getint_unboxed_float_fastpath","object_impl.go","func (ego *object) GetInt(key string) int {\n\to, ok := ego.Get(key).(int)","func (ego *object) GetInt(key string) int {\n\tif f, isFloat := ego.val[key].(*atFloat); isFloat {\n\t\treturn int(f.val)\n\t}\n\to, ok := ego.Get(key).(int)"),
("C18_intsum_unboxed_counts_floats","list_impl.go","\t\tvalue, ok := item.getVal().(int)\n\t\tif ok {\n\t\t\tresult += value\n\t\t}\n\t}\n\treturn\n}","\t\tif a, ok := item.(*atInt); ok {\n\t\t\tresult += a.val\n\t\t} else if f, ok := item.(*atFloat); ok {\n\t\t\tresult += int(f.val)\n\t\t}\n\t}\n\treturn\n}"),
("C14_filterints_newint_shifted","list_impl.go","\tresult := NewList()\n\tfor _, item := range ego.val {\n\t\tval, ok := item.getVal().(int)\n\t\tif ok && function(val) {\n\t\t\tresult.Add(val)\n\t\t}\n\t}\n\treturn result","\tresult := NewList().(*list)\n\tfor _, item := range ego.val {\n\t\tval, ok := item.getVal().(int)\n\t\tif ok && function(val) {\n\t\t\tresult.val = append(result.val, newInt(val+1))\n\t\t}\n\t}\n\treturn result"),
("C16_format_fastpath_len_le4","list_impl.go","\tbuffer := new(bytes.Buffer)\n\tjson.Indent(buffer, []byte(ego.String()), \"\", strings.Repeat(\" \", indent))\n\treturn buffer.String()","\tcompact := ego.String()\n\tif len(compact) <= 4 {\n\t\treturn compact\n\t}\n\tbuffer := new(bytes.Buffer)\n\tjson.Indent(buffer, []byte(compact), \"\", strings.Repeat(\" \", indent))\n\treturn buffer.String()"),
("C05_get_unsigned_guard_cap","list_impl.go","\tif len(ego.val) <= index || index < 0 {\n\t\tpanic(fmt.Sprintf(\"index %d out of range with count %d\", index, ego.Ego().Count()))\n\t}\n\treturn ego.val[index].getVal()","\tif uint(index) > uint(len(ego.val)) {\n\t\tpanic(fmt.Sprintf(\"index %d out of range with count %d\", index, ego.Ego().Count()))\n\t}\n\treturn ego.val[index].getVal()"),
("C01_float_scratch_suffix_on_no_e","anytype.go","\tresult := strconv.FormatFloat(val, 'f', -1, 64)\n\tif !strings.Contains(result, \".\") {\n\t\tresult += \".0\"\n\t}\n\treturn result","\tvar scratch [32]byte\n\tresult := strconv.AppendFloat(scratch[:0], val, 'f', -1, 64)\n\tif !strings.Contains(string(result[1:]), \".\") {\n\t\tresult = append(result, '.', '0')\n\t}\n\treturn string(result)"),
("C13_native_scalar_arm_nil_to_zero","anytype.go","func native(value any) any {\n\tswitch v := value.(type) {\n\tcase Object:","func native(value any) any {\n\tswitch v := value.(type) {\n\tcase nil:\n\t\treturn 0\n\tcase Object:"),
("C08_copy_kindarm_shares_list","object_impl.go","\tfor key, value := range ego.val {\n\t\tobj.Set(key, value.copy())\n\t}\n\treturn obj","\tfor key, value := range ego.val {\n\t\tswitch v := value.(type) {\n\t\tcase *atString:\n\t\t\tobj.Set(key, v.val)\n\t\tcase *list:\n\t\t\tobj.Set(key, v)\n\t\tdefault:\n\t\t\tobj.Set(key, value.copy())\n\t\t}\n\t}\n\treturn obj"),
("C08_copy_kindarm_nil_as_string","list_impl.go","\tfor i, value := range ego.val {\n\t\tlist.val[i] = parseVal(value.copy())\n\t}\n\treturn list","\tfor i, value := range ego.val {\n\t\tswitch v := value.(type) {\n\t\tcase *atInt:\n\t\t\tlist.val[i] = &atInt{val: v.val}\n\t\tcase *atNil:\n\t\t\tlist.val[i] = &atString{val: \"\"}\n\t\tdefault:\n\t\t\tlist.val[i] = parseVal(value.copy())\n\t\t}\n\t}\n\treturn list"),
("C02_list_first_then_rest_from_two","list_impl.go","\tvar result strings.Builder\n\tresult.WriteRune('[')\n\tfor i, value := range ego.val {\n\t\tresult.WriteString(value.serialize())\n\t\tif i+1 < len(ego.val) {\n\t\t\tresult.WriteRune(',')\n\t\t}\n\t}","\tvar result strings.Builder\n\tresult.WriteRune('[')\n\tif len(ego.val) > 0 {\n\t\tresult.WriteString(ego.val[0].serialize())\n\t\tif len(ego.val) > 1 {\n\t\t\tfor _, value := range ego.val[2:] {\n\t\t\t\tresult.WriteRune(',')\n\t\t\t\tresult.WriteString(value.serialize())\n\t\t\t}\n\t\t}\n\t}"),
("C17_reverse_pointer_sequential","list_impl.go","\t\tego.val[i], ego.val[opp] = ego.val[opp], ego.val[i]","\t\tlower := &ego.val[i]\n\t\tupper := &ego.val[opp]\n\t\t*lower = *upper\n\t\t*upper = *lower"),
# adversarial, round 10: wrong defensive guards in the styles guardSpecNorm / the guarded accessors accept
("C06_keyexists_empty_guard_true","object_impl.go","func (ego *object) KeyExists(key string) bool {\n\t_, ok := ego.val[key]","func (ego *object) KeyExists(key string) bool {\n\tif len(ego.val) == 0 {\n\t\treturn true\n\t}\n\t_, ok := ego.val[key]"),
("C13_native_nil_guard_zero","anytype.go","func native(value any) any {\n\tswitch v := value.(type) {","func native(value any) any {\n\tif value == nil {\n\t\treturn 0\n\t}\n\tswitch v := value.(type) {"),
("C06_count_nil_guard_one","object_impl.go","func (ego *object) Count() int {\n\treturn len(ego.val)","func (ego *object) Count() int {\n\tif ego.val == nil {\n\t\treturn 1\n\t}\n\treturn len(ego.val)"),
("C07_equals_nil_guard_true","list_impl.go","func (ego *list) Equals(another List) bool {\n","func (ego *list) Equals(another List) bool {\n\tif another == nil {\n\t\treturn true\n\t}\n"),
("C02_quote_empty_fastpath_bare","anytype.go","func quote(val string) string {\n\tvar buffer bytes.Buffer","func quote(val string) string {\n\tif len(val) == 0 {\n\t\treturn \"\"\n\t}\n\tvar buffer bytes.Buffer"),
("C17_sort_guard_gt2","list_impl.go","\t\tslice := ego.IntSlice()\n\t\tsort.Ints(slice)","\t\tslice := ego.IntSlice()\n\t\tif len(slice) > 2 {\n\t\t\tsort.Ints(slice)\n\t\t}"),
("C05_add_push_value_receiver","list_impl.go","func (ego *list) Add(values ...any) List {\n\tfor _, val := range values {\n\t\tego.val = append(ego.val, parseVal(val))","type spine []field\n\nfunc (s spine) push(f field) { s = append(s, f) }\n\nfunc (ego *list) Add(values ...any) List {\n\tfor _, val := range values {\n\t\tspine(ego.val).push(parseVal(val))"),
("C09_concat_grows_receiver_through_pointer","list_impl.go","\tnewList := &list{val: make([]field, 0, len(ego.val)+len(other.val))}\n\tnewList.val = append(newList.val, ego.val...)\n\tnewList.val = append(newList.val, other.val...)\n\tnewList.Init(newList)\n\treturn newList\n}","\tgrow := func(spine *[]field, more []field) { *spine = append(*spine, more...) }\n\tgrow(&ego.val, other.val)\n\tnewList := &list{val: make([]field, len(ego.val))}\n\tcopy(newList.val, ego.val)\n\tnewList.Init(newList)\n\treturn newList\n}"),
("C07_object_presence_missing_key_skipped","object_impl.go","\tfor k := range ego.val {\n\t\tif !ego.val[k].isEqual(obj.val[k]) {\n\t\t\treturn false\n\t\t}\n\t}\n\treturn true","\tfor k, mine := range ego.val {\n\t\ttheirs, found := obj.val[k]\n\t\tif !found {\n\t\t\tcontinue\n\t\t}\n\t\tif !mine.isEqual(theirs) {\n\t\t\treturn false\n\t\t}\n\t}\n\treturn true"),
("C20_errhelper_line_minus_one","parser.go","func unquote(str string, line int) (string, error) {\n\tvar result string\n\tif err := json.Unmarshal([]byte(`\"`+str+`\"`), &result); err != nil {\n\t\treturn \"\", fmt.Errorf(\"not a valid JSON - invalid string '%s' on line %d\", str, line)","func syntaxError(line int, format string, args ...any) error {\n\treturn fmt.Errorf(\"not a valid JSON - \"+format+\" on line %d\", append(args, line-1)...)\n}\n\nfunc unquote(str string, line int) (string, error) {\n\tvar result string\n\tif err := json.Unmarshal([]byte(`\"`+str+`\"`), &result); err != nil {\n\t\treturn \"\", syntaxError(line, \"invalid string '%s'\", str)"),
("C17_sort_nil_arm_silent","list_impl.go","\tdefault:\n\t\tpanic(\"the first element of the list has to be either string, int or float\")","\tcase *atNil:\n\t\treturn ego.Ego()\n\tdefault:\n\t\tpanic(\"the first element of the list has to be either string, int or float\")"),
("C01_float_helper_point_or_seven","anytype.go","\tresult := strconv.FormatFloat(val, 'f', -1, 64)\n\tif !strings.Contains(result, \".\") {\n\t\tresult += \".0\"\n\t}\n\treturn result\n}","\treturn withDecimalPoint(strconv.FormatFloat(val, 'f', -1, 64))\n}\n\nfunc withDecimalPoint(text string) string {\n\tif !strings.ContainsAny(text, \".7\") {\n\t\ttext += \".0\"\n\t}\n\treturn text\n}"),
]

env=dict(os.environ, GOFLAGS="-mod=mod", GOPROXY="off", GOSUMDB="off", GOTOOLCHAIN="local", GOWORK="off")
here=os.path.dirname(os.path.dirname(os.path.abspath(__file__)))
out=os.path.join(here,"mutants")
index={}
only=set(sys.argv[1:])
if os.path.exists(os.path.join(out,"INDEX.json")):
    index=json.load(open(os.path.join(out,"INDEX.json")))
for name,f,old,new in M:
    if only and name not in only: continue
    d=tempfile.mkdtemp(prefix="anymut-")
    try:
        subprocess.run(["git","clone","-q","/repo",d+"/r"],check=True)
        r=d+"/r"
        p=f"{r}/{f}"; s=open(p).read()
        if s.count(old)<1:
            print(f"{name:34s} PATTERN-NOT-FOUND"); index[name]={"status":"pattern-not-found"}; continue
        open(p,"w").write(s.replace(old,new,1))
        diff=subprocess.run(["git","diff"],cwd=r,capture_output=True,text=True).stdout
        b=subprocess.run(["go","build","./..."],cwd=r,capture_output=True,text=True,env=env)
        if b.returncode!=0:
            print(f"{name:34s} NO-COMPILE  {b.stderr.strip().splitlines()[-1][:80]}"); index[name]={"status":"no-compile"}; continue
        res=[]
        for k in range(3 if "C15" in name else 1):
            t=subprocess.run(["go","test","-vet=off","-count=1","./..."],cwd=r,capture_output=True,text=True,env=env)
            res.append(t.returncode==0)
        open(os.path.join(out,name+".diff"),"w").write(diff)
        index[name]={"status":"ok","property":name.split("_")[0],"file":f,"tests_pass":all(res)}
        print(f"{name:34s} compiles, tests: {'pass' if all(res) else 'FAIL'}")
    finally:
        shutil.rmtree(d,ignore_errors=True)
json.dump(index,open(os.path.join(out,"INDEX.json"),"w"),indent=1,sort_keys=True)
