#!/usr/bin/env python3
"""verify_benign.py [dir...]: every benign/<id>/patch.diff (or the given dirs) must apply to a scratch clone of /repo, build and pass the
unedited test-suite. Prints the ones that do not. Scratch clones are removed."""
import sys,subprocess,shutil,os,tempfile,glob,concurrent.futures
here=os.path.dirname(os.path.dirname(os.path.abspath(__file__)))
env=dict(os.environ, GOFLAGS="-mod=mod", GOPROXY="off", GOSUMDB="off", GOTOOLCHAIN="local", GOWORK="off")
dirs=[os.path.abspath(a) for a in sys.argv[1:]] or sorted(d for d in glob.glob(here+"/benign/*") if os.path.isdir(d))
def one(dd):
    d=tempfile.mkdtemp(prefix="anyvb-")
    try:
        subprocess.run(["git","clone","-q","/repo",d+"/r"],check=True)
        a=subprocess.run(["git","apply",dd+"/patch.diff"],cwd=d+"/r",capture_output=True,text=True)
        if a.returncode!=0: return (dd,"does not apply: "+a.stderr.strip()[:120])
        b=subprocess.run(["go","build","./..."],cwd=d+"/r",capture_output=True,text=True,env=env)
        if b.returncode!=0: return (dd,"does not build: "+b.stderr.strip()[:160])
        t=subprocess.run(["go","test","-vet=off","-count=1","./..."],cwd=d+"/r",capture_output=True,text=True,env=env)
        if t.returncode!=0: return (dd,"tests fail")
        return (dd,"")
    finally:
        shutil.rmtree(d,ignore_errors=True)
bad=0
with concurrent.futures.ThreadPoolExecutor(8) as ex:
    for dd,why in ex.map(one,dirs):
        if why:
            bad+=1; print("BAD ",os.path.basename(dd) if "benign" in dd else dd,why)
print(len(dirs),"patches,",bad,"bad")
