#!/usr/bin/env python3
"""rfcheck.py [dir...]: applies behaviour-preserving refactorings (benign/<id>/patch.diff or given dirs) to a scratch clone of /repo,
confirms build+tests, and runs ALL checks; any exit 1 is a false alarm. Scratch clones are removed."""
import sys,subprocess,shutil,os,json,tempfile,glob,concurrent.futures
here=os.path.dirname(os.path.dirname(os.path.abspath(__file__)))
env=dict(os.environ, GOFLAGS="-mod=mod", GOPROXY="off", GOSUMDB="off", GOTOOLCHAIN="local", GOWORK="off")
reg=sorted({l.split()[0] for l in subprocess.check_output([os.environ.get("ANYCHECK",here+"/bin/anycheck"),"-list"],text=True).splitlines()})
if os.environ.get("ANYCHECK_PROPS"): reg=[p for p in reg if p in os.environ["ANYCHECK_PROPS"].split(",")]  # delta runs after a change to the rules of a few properties
dirs=sys.argv[1:] or sorted(d for d in glob.glob(here+"/benign/*") if os.path.isdir(d))
def one(dname):
    patch=os.path.abspath(os.path.join(dname,"patch.diff"))
    d=tempfile.mkdtemp(prefix="anyrf-")
    try:
        subprocess.run(["git","clone","-q","/repo",d+"/r"],check=True)
        a=subprocess.run(["git","apply",patch],cwd=d+"/r",capture_output=True,text=True)
        if a.returncode!=0: return (dname,"apply-failed",{})
        t=subprocess.run("go build ./... && go test -vet=off -count=1 ./...",shell=True,cwd=d+"/r",capture_output=True,text=True,env=env)
        if t.returncode!=0: return (dname,"tests-fail",{})
        res={}
        for p in reg:
            r=subprocess.run([os.environ.get("ANYCHECK",here+"/bin/anycheck"),"-repo",d+"/r","-prop",p,"-tier","quick","-known",here+"/KNOWN_FINDINGS.txt","-replaydir",d+"/rp"],capture_output=True,text=True,env=env)
            if r.returncode!=0:
                first=[l for l in r.stdout.splitlines() if ": C" in l and ("VIOLATED" in l or "UNDECIDED" in l or "ANCHOR" in l)]
                res[p]=[f.replace(d+"/r/","")[:260] for f in first[:3]] or [r.stderr.strip()[:200]]
        return (dname,"ok",res)
    finally:
        shutil.rmtree(d,ignore_errors=True)
tot=0; fa=0
with concurrent.futures.ThreadPoolExecutor(6) as ex:
    for dname,st,res in ex.map(one,dirs):
        tot+=1
        tag=os.path.basename(os.path.dirname(dname+"/"))
        label="/".join(dname.rstrip("/").split("/")[-2:])
        if st!="ok": print(f"SKIP   {label}: {st}"); continue
        if not res: print(f"SILENT {label}")
        else:
            fa+=1
            print(f"ALARM  {label}: {','.join(res)}")
            for p,ls in res.items():
                for l in ls: print(f"         {l}")
print(f"{tot} refactorings, {fa} with alarms")
