#!/usr/bin/env python3
"""selfval.py <Cxx> <evidence.json>: thorough-tier self-validation. Applies every catalogued change that targets the property
(mutants/*.diff, seeded/*/patch.diff) to a scratch clone of /repo (outside /repo and /verif, removed afterwards), runs the
quick check of that property on the clone and records the kill matrix in the evidence file. It never changes the verdict."""
import sys,subprocess,shutil,os,json,tempfile,glob,concurrent.futures
prop,evpath=sys.argv[1],sys.argv[2]
here=os.path.dirname(os.path.dirname(os.path.abspath(__file__)))
repo=os.environ.get("VERIF_REPO","/repo")
env=dict(os.environ, GOFLAGS="-mod=mod", GOPROXY="off", GOSUMDB="off", GOTOOLCHAIN="local", GOWORK="off")
items=[]
idx=json.load(open(here+"/mutants/INDEX.json")) if os.path.exists(here+"/mutants/INDEX.json") else {}
for p in sorted(glob.glob(here+"/mutants/*.diff")):
    n=os.path.basename(p)[:-5]
    if idx.get(n,{}).get("property",n.split("_")[0])==prop: items.append((n,p))
for p in sorted(glob.glob(here+"/seeded/*/patch.diff")):
    m=json.load(open(os.path.dirname(p)+"/meta.json"))
    if m["property"]==prop: items.append(("seeded/"+os.path.basename(os.path.dirname(p)),p))
def one(it):
    name,patch=it
    d=tempfile.mkdtemp(prefix="anysv-")
    try:
        r=subprocess.run(["git","clone","-q",repo,d+"/r"],capture_output=True,text=True)
        if r.returncode!=0: return (name,"clone-failed","")
        # the working tree may carry uncommitted edits: copy them over the clone
        subprocess.run("cd %s && git diff HEAD | (cd %s/r && git apply --allow-empty 2>/dev/null || true)"%(repo,d),shell=True)
        a=subprocess.run(["git","apply",patch],cwd=d+"/r",capture_output=True,text=True)
        if a.returncode!=0: return (name,"patch-does-not-apply","")
        r=subprocess.run([here+"/bin/anycheck","-repo",d+"/r","-prop",prop,"-tier","quick","-known",here+"/KNOWN_FINDINGS.txt","-replaydir",d+"/rp"],capture_output=True,text=True,env=env)
        first=[l for l in r.stdout.splitlines() if ": C" in l and ("VIOLATED" in l or "UNDECIDED" in l or "ANCHOR" in l)]
        return (name,{0:"missed",1:"killed",2:"checker-broken"}.get(r.returncode,"?"),first[0].replace(d+"/r/","")[:200] if first else "")
    finally:
        shutil.rmtree(d,ignore_errors=True)
res=[]
with concurrent.futures.ThreadPoolExecutor(8) as ex:
    res=list(ex.map(one,items))
ev=json.load(open(evpath))
killed=[r for r in res if r[1]=="killed"]
ev["coverage"]["self_validation"]={"rule":"every catalogued property-breaking change for this property (own catalogue + changes seeded by independent sub-agents), applied to a scratch clone, must make the quick check exit 1",
    "changes":len(res),"killed":len(killed),"not_killed":[{"change":r[0],"outcome":r[1]} for r in res if r[1]!="killed"],
    "matrix":[{"change":r[0],"outcome":r[1],"first_report":r[2]} for r in res]}
json.dump(ev,open(evpath,"w"),indent=1); open(evpath,"a").write("\n")
print(f"self-validation {prop}: {len(killed)}/{len(res)} catalogued changes detected")
for r in res:
    if r[1]!="killed": print(f"  NOT DETECTED: {r[0]} ({r[1]})")
