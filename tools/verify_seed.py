#!/usr/bin/env python3
"""verify_seed.py <src-dir> <seed-id> <property> : confirms a seeded change in a scratch clone of /repo
(clean+demo passes; patched passes the unedited suite; patched+demo fails) and, if confirmed, stores it as
/verif/seeded/<seed-id>/{patch.diff,demo_test.go,notes.md,meta.json}. The scratch clone is removed."""
import sys,subprocess,shutil,os,json,tempfile
src,sid,prop=sys.argv[1:4]
env=dict(os.environ, GOFLAGS="-mod=mod", GOPROXY="off", GOSUMDB="off", GOTOOLCHAIN="local", GOWORK="off")
here=os.path.dirname(os.path.dirname(os.path.abspath(__file__)))
d=tempfile.mkdtemp(prefix="anyseed-")
def run(cmd,**kw): return subprocess.run(cmd,cwd=d+"/r",capture_output=True,text=True,env=env,**kw)
try:
    subprocess.run(["git","clone","-q","/repo",d+"/r"],check=True)
    head=run(["git","rev-parse","--short","HEAD"]).stdout.strip()
    demo=os.path.join(src,"demo_test.go"); patch=os.path.join(src,"patch.diff")
    res={}
    shutil.copy(demo,d+"/r/zz_seed_demo_test.go")
    t=run(["go","test","-vet=off","-count=1","-run","TestSeed","./..."]); res["clean_plus_demo_passes"]=t.returncode==0
    os.remove(d+"/r/zz_seed_demo_test.go")
    a=run(["git","apply",patch]); res["patch_applies"]=a.returncode==0
    b=run(["go","build","./..."]); res["patched_builds"]=b.returncode==0
    ok=True
    for k in range(3):
        t=run(["go","test","-vet=off","-count=1","./..."]); ok=ok and t.returncode==0
    res["patched_passes_suite_3x"]=ok
    shutil.copy(demo,d+"/r/zz_seed_demo_test.go")
    fails=0
    for k in range(3):
        t=run(["go","test","-vet=off","-count=1","-run","TestSeed","./..."]); fails+= t.returncode!=0
    res["patched_plus_demo_fails"]=f"{fails}/3"
    good=res["clean_plus_demo_passes"] and res["patch_applies"] and res["patched_builds"] and res["patched_passes_suite_3x"] and fails>0
    print(sid, "CONFIRMED" if good else "REJECTED", res)
    if good:
        out=os.path.join(here,"seeded",sid); os.makedirs(out,exist_ok=True)
        shutil.copy(patch,out+"/patch.diff"); shutil.copy(demo,out+"/demo_test.go")
        notes=os.path.join(src,"notes.md")
        needs=""
        if os.path.exists(notes):
            shutil.copy(notes,out+"/notes.md"); needs=open(notes).read()
        meta={"id":sid,"property":prop,"source":"independent sub-agent given only the property text and a scratch worktree",
              "repo_head":head,"needs_to_manifest":"see notes.md","confirmed_by":"tools/verify_seed.py in a scratch clone of /repo (removed afterwards)",
              "ran":["go test -vet=off -count=1 -run TestSeed ./...  (clean tree + demo): pass",
                     "git apply patch.diff && go build ./... && go test -vet=off -count=1 ./... x3 (demo removed): pass",
                     f"go test -vet=off -count=1 -run TestSeed ./... x3 (patched + demo): {fails}/3 runs fail"],
              "result":res}
        json.dump(meta,open(out+"/meta.json","w"),indent=1)
finally:
    shutil.rmtree(d,ignore_errors=True)
