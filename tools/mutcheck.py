#!/usr/bin/env python3
"""mutcheck.py [-a] [name...] : applies each patch of mutants/*.diff and seeded/*/patch.diff to a scratch clone of
/repo (outside /repo and /verif, removed afterwards) and runs the checker for the target property (-a: all
registered properties). Prints the kill matrix and writes tools/killmatrix.json."""
import sys,subprocess,shutil,os,json,tempfile,glob,concurrent.futures
here=os.path.dirname(os.path.dirname(os.path.abspath(__file__)))
args=[a for a in sys.argv[1:] if not a.startswith("-")]; allprops="-a" in sys.argv
env=dict(os.environ, GOFLAGS="-mod=mod", GOPROXY="off", GOSUMDB="off", GOTOOLCHAIN="local", GOWORK="off")
reg=sorted({l.split()[0] for l in subprocess.check_output([os.environ.get("ANYCHECK",here+"/bin/anycheck"),"-list"],text=True).splitlines()})
if os.environ.get("ANYCHECK_PROPS"): reg=[p for p in reg if p in os.environ["ANYCHECK_PROPS"].split(",")]  # delta runs after a change to the rules of a few properties
items=[]
idx=json.load(open(here+"/mutants/INDEX.json")) if os.path.exists(here+"/mutants/INDEX.json") else {}
for p in sorted(glob.glob(here+"/mutants/*.diff")):
    n=os.path.basename(p)[:-5]; items.append((n,p,idx.get(n,{}).get("property",n.split("_")[0]),idx.get(n,{}).get("tests_pass")))
for p in sorted(glob.glob(here+"/seeded/*/patch.diff")):
    n=os.path.basename(os.path.dirname(p)); m=json.load(open(os.path.dirname(p)+"/meta.json")); items.append(("seeded/"+n,p,m["property"],True))
if args: items=[i for i in items if any(a in i[0] for a in args)]
def one(it):
    name,patch,prop,tp=it
    d=tempfile.mkdtemp(prefix="anymc-")
    try:
        subprocess.run(["git","clone","-q","/repo",d+"/r"],check=True)
        a=subprocess.run(["git","apply",patch],cwd=d+"/r",capture_output=True,text=True)
        if a.returncode!=0: return (name,prop,tp,{"apply":"FAILED "+a.stderr.strip()[:100]})
        res={}
        for p in (reg if allprops else [prop]):
            if p not in reg: res[p]="no-check"; continue
            r=subprocess.run([os.environ.get("ANYCHECK",here+"/bin/anycheck"),"-repo",d+"/r","-prop",p,"-tier","quick","-known",here+"/KNOWN_FINDINGS.txt","-replaydir",d+"/rp"],capture_output=True,text=True,env=env)
            first=[l for l in r.stdout.splitlines() if ": C" in l and ("VIOLATED" in l or "UNDECIDED" in l or "ANCHOR" in l)]
            res[p]={"exit":r.returncode,"first":(first[0].replace(d+"/r/","")[:230] if first else (r.stderr.strip()[:200] if r.returncode==2 else ""))}
        return (name,prop,tp,res)
    finally:
        shutil.rmtree(d,ignore_errors=True)
out={}
with concurrent.futures.ThreadPoolExecutor(8) as ex:
    for name,prop,tp,res in ex.map(one,items):
        out[name]={"property":prop,"passes_tests":tp,"checks":res}
        tgt=res.get(prop)
        if isinstance(tgt,dict):
            tag={0:"MISSED",1:"KILLED",2:"BROKEN"}.get(tgt["exit"],"?")
            others=[p for p,v in res.items() if p!=prop and isinstance(v,dict) and v["exit"]==1]
            print(f"{tag:7s} {name:40s} {prop} tests={'pass' if tp else 'FAIL' if tp is False else '?'} {('also:'+','.join(others)) if others else ''}\n          {tgt['first']}")
        else:
            others=[p for p,v in res.items() if isinstance(v,dict) and v["exit"]==1]
            print(f"{'NOCHECK':7s} {name:40s} {prop} {tgt if tgt else res} {('killed-by:'+','.join(others)) if others else ''}")
if allprops and not args and not os.environ.get("ANYCHECK_PROPS"):
    json.dump(out,open(here+"/tools/killmatrix.json","w"),indent=1,sort_keys=True)  # only a complete run replaces the recorded matrix
if os.environ.get("ANYCHECK_OUT"): json.dump(out,open(os.environ["ANYCHECK_OUT"],"w"),indent=1,sort_keys=True)  # delta runs: merged by hand into killmatrix.json
