#!/bin/bash
# Offline build of the checker from files on disk only.
set -e
cd "$(dirname "$0")"
export GOFLAGS=-mod=mod GOPROXY=off GOSUMDB=off GOTOOLCHAIN=local GOWORK=off
mkdir -p bin evidence
(cd checker && go build -o ../bin/anycheck .)
# warm the export data of /repo's dependencies so that the first check is not slow
(cd "${VERIF_REPO:-/repo}" && go build ./... >/dev/null 2>&1 || true)
echo "setup ok: $(./bin/anycheck -list | wc -l) rules"
