#!/usr/bin/env python3
"""Regenerates MANIFEST.json from the rules actually registered in bin/anycheck.
A property with no registered rule is listed under not_applicable (with the reason below)."""
import json, subprocess, collections, sys

rules = collections.OrderedDict()
for line in subprocess.check_output(["./bin/anycheck", "-list"], text=True).splitlines():
    pid, rid, doc = line.split(" ", 2)
    rules.setdefault(pid, []).append((rid, doc))

TECH = {
 "C01": "encoder/decoder pairing and float kind-marking decided on symbolic paths (SX) of the serialize family and the decoder helper; per-GOARCH constant evaluation of the literal cascade; UTF-8 guard folded over the character-class table; parser transition-table inclusion (E5)",
 "C02": "emission folding: the serialisers' symbolic paths are folded into token sequences for 0..3 elements and compared with the JSON shape; token sources checked against a trusted encoder-language table",
 "C03": "parser transition-table extraction (abstract evaluation of the machines' symbolic iteration paths over a finite character-class alphabet) and per-nesting-level product with an RFC 8259 automaton; wrappers folded over all short inputs",
 "C04": "transition-table obligations over all (state, class, flags): exits, termination, UTF-8 guard; symbolic-path rule for ParseFile; call-closure rules for panics, input indexing and nondeterminism",
 "C05": "finite folding of guard domains and of every spine index/slice against the current length over integer break-points (symbolic paths, helpers in caller context); SSA ownership analysis of spines (E3); write-before-panic on paths",
 "C06": "operand-role rules on the symbolic paths of Set/Unset/Merge/Pluck/Keys/Values/Contains with loop-header simulation; SSA purity (E3)",
 "C07": "truth tables over the decision atoms of the 7 isEqual implementations' symbolic paths; in-order complete element loop in normal form; purity via E3",
 "C08": "SSA origin analysis (E3 DEEP/OWN): origins of every value stored into the fresh copy; coverage of the copy loop on symbolic paths; scalar copy typing",
 "C09": "SSA write-effect and spine-ownership analysis (E3 PURE/OWN/RESULT-FRESH) with fix-point function summaries, generic instances, literal parameters of private higher-order helpers, and ownership obligations transferred to call sites of private constructor helpers",
 "C10": "string folding: the symbolic paths of GetTF/TypeOfTF are evaluated over every path string over {.,#,a,1} up to length 5 against a step-by-step navigation oracle on the same atoms",
 "C11": "string folding of SetTF/UnsetTF over all short path strings: reject-before-write, reuse-or-replace kind triples, padding loop simulated with the live count, mutation frame",
 "C12": "type-case paths of parseVal and the From-constructors (value-preserving conversion chains, element-wise construction); kind-table bijection; PRODUCERS via SSA origins (E3)",
 "C13": "arm rules on the symbolic paths of native/NativeDict/NativeSlice/Dict (one total iteration storing native(x) into a result made on the path); fresh-result origins via E3; typing argument for non-aliasing",
 "C14": "loop normal form (in-order visit of the receiver's spine, no early exit) and kind-test/action agreement on the symbolic paths of every typed view, including generic-helper and function-value spellings",
 "C15": "WaitGroup/Mutex protocol on symbolic paths (step order = dominance on straight-line paths), spawned-literal bodies evaluated in their captured environment, loop-variable capture, lock set, E3 purity of read-only operations",
 "C16": "guard domain and indentation unit folded over 0..10; argument roles of json.Indent on symbolic paths; inherits the C02 emission folding and float marking",
 "C17": "Sort: kind test / typed slice / trusted sort / spine rebuild agreement on type-case paths; Reverse: header simulated for n=0..9 giving the exact swapped index pairs",
 "C18": "constant evaluation of identities; accumulation operators on loop normal form; Min/Max reducers folded numerically over a float/int sample grid in their captured environment; presence-flag dataflow",
 "C19": "SSA returns-summary classification (E3) of every self-typed interface method; Init/Ego/ptr discipline incl. whole-struct stores; hand-out origins; no concrete-container type test on stored elements; parseVal container arms on symbolic case paths",
 "C20": "line-counter rule: transition-table delta per character class for every entry, pointer identity at nested calls, seed expression folded over short inputs, integers flowing into error formats traced on symbolic paths",
}
NOTE = ("Trusted base (DESIGN.md §7): go/types, go/ssa, go/packages of x/tools v0.29.0; the library-language table for strconv / encoding/json / sort / unicode / utf8 / strings; "
        "Go semantics of maps, append, slicing, range, sync; user callbacks are outside the library. Decides structural necessary conditions (and finitely folded value conditions), not run-time value equality; "
        "a construct outside a rule's vocabulary is reported UNDECIDED and fails the check.")

props = [json.loads(l) for l in open("properties.jsonl")]
checks, na = [], []
for p in props:
    pid = p["id"]
    if pid not in rules:
        na.append({"property_id": pid, "reason": "no structural rule built yet for this property in this revision (static analysis is the only admitted technique; see DESIGN.md §4 for the planned clauses)"})
        continue
    rl = "; ".join(f"{r} {d}" for r, d in rules[pid])
    checks.append({
        "property_id": pid,
        "quick_cmd": f"./check.sh {pid} quick",
        "thorough_cmd": f"./check.sh {pid} thorough",
        "evidence_file": f"evidence/{pid}.json",
        "replay_cmd_template": f"./check.sh {pid} replay {{path}}",
        "engine": "anycheck",
        "level_claimed": {
            "category": "other",
            "text": ("Static analysis of /repo's current type-checked source (syntax tree, symbolic path normal form, go/ssa): every listed rule is a universally quantified structural clause that is a necessary condition of the property; "
                     "all obligations must be discharged, an undecided or missing anchor fails. It does not prove the behavioural statement as a whole (run-time value equality is out of static reach); see DESIGN.md §4 "
                     f"for what is and is not covered. Rules: {rl}"),
            "design_ref": f"DESIGN.md §4 {pid}",
        },
        "level_note": NOTE,
        "technique": "static analysis: " + TECH[pid],
    })

manifest = {
    "version": 1,
    "setup_cmd": "./setup.sh",
    "hooks": {
        "guard": "verif",
        "enable": "none needed: the checks read /repo's source and never build or run it; the thorough tier additionally type-checks the -tags verif configuration so that a guarded file would be analysed too",
        "baseline_off_cmd": "cd /repo && GOFLAGS=-mod=mod GOPROXY=off GOSUMDB=off go test -json -vet=off -count=1 -timeout 25m ./...",
        "source_commits": [],
        "add_only": True,
    },
    "engines": [{"name": "anycheck", "path": "checker/", "serves_properties": list(rules.keys()),
                 "kind_free_text": "purpose-built Go static analyser (go/packages + go/types + go/ssa): SSA origin/effect/ownership analysis (E3), symbolic path executor over the typed syntax tree with finite folding of terms (SX), parser transition-table extraction and automaton product (E5)"}],
    "checks": checks,
    "not_applicable": na,
    "notes": "All checks are static: they re-load /repo's working tree on every run (go/packages), never execute library code, and fail on UNDECIDED or missing anchors. KNOWN_FINDINGS.txt lists repaired defects (fixed:) and suppresses nothing.",
}
json.dump(manifest, open("MANIFEST.json", "w"), indent=1)
print(f"MANIFEST.json: {len(checks)} checks, {len(na)} not_applicable")
