#!/usr/bin/env python3
"""Regenerates MANIFEST.json from the rules actually registered in bin/anycheck.
A property with no registered rule is listed under not_applicable (with the reason below)."""
import json, subprocess, collections, sys

rules = collections.OrderedDict()
for line in subprocess.check_output(["./bin/anycheck", "-list"], text=True).splitlines():
    pid, rid, doc = line.split(" ", 2)
    rules.setdefault(pid, []).append((rid, doc))

TECH = {
 "C01": "encoder/decoder pairing and kind-marking dataflow over the serialize family; per-GOARCH constant evaluation of the literal cascade; finite evaluation of the UTF-8 guard",
 "C02": "token-source dataflow of the 7 serialize implementations against a trusted encoder-language table; separator-guard normal form",
 "C03": "parser transition-table extraction (abstract interpretation over a finite character-class alphabet) and per-nesting-level inclusion in the RFC 8259 automaton",
 "C04": "transition-table obligations over all (state, class, flags): exits, termination, UTF-8 guard dominance; call-graph closure for panics and nondeterminism",
 "C05": "symbolic-interval guard-domain analysis, SAFE-INDEX on every spine index/slice, E3 ownership of spines, write-before-panic",
 "C06": "operand-role rules on Set/Unset/Merge/Pluck over resolved AST + E3 origins",
 "C07": "sibling agreement over the 7 isEqual implementations; dominance of the length check; purity via E3",
 "C08": "E3 DEEP rule: origins of every value stored into the fresh copy; scalar copy typing",
 "C09": "E3 PURE/OWN: SSA write-effect and spine-ownership analysis with fix-point function summaries",
 "C10": "tree-form skeleton extraction; branch predicates decided over the finite order types of (dot, hash); guard dominance before panicking getters",
 "C11": "tree-form write skeleton: reuse-or-replace kind triples, padding trip-count normal form, mutation frame via E3",
 "C12": "kind-table extraction from parseVal/TypeOf/getters/constructors and bijection check; value-preserving conversion chains; PRODUCERS via E3",
 "C13": "shape rules on native/Dict/Slice; fresh-result origins via E3; typing argument for non-aliasing",
 "C14": "loop-shape rule over every range loop on a spine; kind test derived from callback signature",
 "C15": "WaitGroup/Mutex protocol rules on go/cfg (must-pass-through, dominance), loop-variable capture, lock-set, E3 purity of read-only operations",
 "C16": "guard-domain interval rule; argument roles of json.Indent; inherits C02 emitter discipline",
 "C17": "Sort kind table and hand-over via E3; Reverse loop index-set normal form",
 "C18": "constant evaluation of identities; reducer-direction sibling/contradiction rule; presence-flag dataflow",
 "C19": "E3 returns-summary classification of every self-typed interface method; Init/Ego/ptr discipline; hand-out origins",
 "C20": "line-counter rule: dominance and uniqueness of the increment, transition-table delta per character class, pointer identity at nested calls, seed expression normal form",
}
NOTE = ("Trusted base (DESIGN.md §7): go/types, go/ssa, go/cfg of x/tools v0.29.0; the library-language table for strconv / encoding/json / sort / unicode / utf8; "
        "Go semantics of maps, append, slicing, range, sync; user callbacks are outside the library. Decides structural necessary conditions, not run-time value equality.")

props = [json.loads(l) for l in open("properties.jsonl")]
checks, na = [], []
for p in props:
    pid = p["id"]
    if pid not in rules:
        na.append({"property_id": pid, "reason": "no structural rule built yet for this property in this revision (static analysis is the only admitted technique; see DESIGN.md §4 for the planned clauses)"})
        continue
    rl = "; ".join(f"{r} {d}" for r, d in rules[pid])
    checks.append({
        "property_id": pid,
        "quick_cmd": f"./check.sh {pid} quick",
        "thorough_cmd": f"./check.sh {pid} thorough",
        "evidence_file": f"evidence/{pid}.json",
        "replay_cmd_template": f"./check.sh {pid} replay {{path}}",
        "engine": "anycheck",
        "level_claimed": {
            "category": "other",
            "text": ("Static analysis of /repo's current type-checked source (AST, go/cfg, go/ssa): every listed rule is a universally quantified structural clause that is a necessary condition of the property; "
                     "all obligations must be discharged, an undecided or missing anchor fails. It does not prove the behavioural statement as a whole (run-time value equality is out of static reach); see DESIGN.md §4 "
                     f"for what is and is not covered. Rules: {rl}"),
            "design_ref": f"DESIGN.md §4 {pid}",
        },
        "level_note": NOTE,
        "technique": "static analysis: " + TECH[pid],
    })

manifest = {
    "version": 1,
    "setup_cmd": "./setup.sh",
    "hooks": {
        "guard": "verif",
        "enable": "none needed: the checks read /repo's source and never build or run it; the thorough tier additionally type-checks the -tags verif configuration so that a guarded file would be analysed too",
        "baseline_off_cmd": "cd /repo && GOFLAGS=-mod=mod GOPROXY=off GOSUMDB=off go test -json -vet=off -count=1 -timeout 25m ./...",
        "source_commits": [],
        "add_only": True,
    },
    "engines": [{"name": "anycheck", "path": "checker/", "serves_properties": list(rules.keys()),
                 "kind_free_text": "purpose-built Go static analyser (go/packages + go/types + go/ssa + own CFG/dominators): origin/effect analysis, symbolic intervals, parser transition-table extraction, protocol rules"}],
    "checks": checks,
    "not_applicable": na,
    "notes": "All checks are static: they re-load /repo's working tree on every run (go/packages), never execute library code, and fail on UNDECIDED or missing anchors. KNOWN_FINDINGS.txt lists repaired defects (fixed:) and suppresses nothing.",
}
json.dump(manifest, open("MANIFEST.json", "w"), indent=1)
print(f"MANIFEST.json: {len(checks)} checks, {len(na)} not_applicable")
