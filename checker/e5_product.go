package main

import (
	"fmt"
	"go/token"
	"sort"
	"strings"
)

// Specification automaton of one JSON nesting level, and its product with the
// abstract transition function.

type SpecState string

// product state
type PState struct {
	Spec    SpecState
	St      string
	InVal   Tri
	ValLen  Tri  // val buffer non-empty?
	ValOK   bool // val == raw text of current token (modulo pending backslash)
	KeyOK   bool
	KeyDec  bool // key buffer holds decoded key of the current pair
	NameDec bool // a string register (a local assigned the decoder's result) holds the decoded key of the current pair
	Pending bool // spec: previous symbol was an escape backslash (not yet written)
	InKeyP  bool
	Events  string // events since the last delimiter
	Expect  string // kind of the value token seen since the last delimiter
	First   bool
}

type specEdge struct {
	cls  string
	next SpecState
	kind string // "", TOKSTART_STR, TOKSTART_LIT, CONTENT, ESCSTART, ESCAPED, STREND, NESTED_OBJ, NESTED_LIST, DELIM, CLOSE, KEYSTART, KEYCONTENT, KEYESC, KEYESCAPED, KEYEND, COLON, OPEN
}

func specEdges(isList bool, s SpecState) []specEdge {
	closer := "RBRACE"
	if isList {
		closer = "RBRACK"
	}
	content := []string{"WS", "LBRACE", "RBRACE", "LBRACK", "RBRACK", "COMMA", "COLON", "LIT", "FFFD", "OTHER"}
	escaped := []string{"QUOTE", "BSL", "LIT", "OTHER"}
	valueStart := func(next func(string) SpecState) []specEdge {
		return []specEdge{
			{"QUOTE", "IN_STR", "TOKSTART_STR"},
			{"LBRACE", "AFTER_VAL", "NESTED_OBJ"},
			{"LBRACK", "AFTER_VAL", "NESTED_LIST"},
			{"LIT", "IN_LIT", "TOKSTART_LIT"},
		}
	}
	var out []specEdge
	ws := func(self SpecState) {
		out = append(out, specEdge{"NL", self, ""}, specEdge{"WS", self, ""})
	}
	switch s {
	case "OPEN":
		if isList {
			out = append(out, specEdge{"LBRACK", "FIRST", "OPEN"})
		} else {
			out = append(out, specEdge{"LBRACE", "FIRST", "OPEN"})
		}
	case "FIRST":
		ws(s)
		out = append(out, specEdge{closer, "DONE", "CLOSE_EMPTY"})
		if isList {
			out = append(out, valueStart(nil)...)
		} else {
			out = append(out, specEdge{"QUOTE", "IN_KEY", "KEYSTART"})
		}
	case "NEXT": // after a comma
		ws(s)
		if isList {
			out = append(out, valueStart(nil)...)
		} else {
			out = append(out, specEdge{"QUOTE", "IN_KEY", "KEYSTART"})
		}
	case "IN_KEY":
		out = append(out, specEdge{"QUOTE", "AFTER_KEY", "KEYEND"}, specEdge{"BSL", "IN_KEY_ESC", "KEYESC"})
		for _, c := range content {
			out = append(out, specEdge{c, "IN_KEY", "KEYCONTENT"})
		}
	case "IN_KEY_ESC":
		for _, c := range escaped {
			out = append(out, specEdge{c, "IN_KEY", "KEYESCAPED"})
		}
	case "AFTER_KEY":
		ws(s)
		out = append(out, specEdge{"COLON", "VALUE", "COLON"})
	case "VALUE":
		ws(s)
		out = append(out, valueStart(nil)...)
	case "IN_STR":
		out = append(out, specEdge{"QUOTE", "AFTER_VAL", "STREND"}, specEdge{"BSL", "IN_STR_ESC", "ESCSTART"})
		for _, c := range content {
			out = append(out, specEdge{c, "IN_STR", "CONTENT"})
		}
	case "IN_STR_ESC":
		for _, c := range escaped {
			out = append(out, specEdge{c, "IN_STR", "ESCAPED"})
		}
	case "IN_LIT":
		out = append(out, specEdge{"LIT", "IN_LIT", "CONTENT"}, specEdge{"NL", "AFTER_LIT", ""}, specEdge{"WS", "AFTER_LIT", ""},
			specEdge{"COMMA", "NEXT", "DELIM_LIT"}, specEdge{closer, "DONE", "CLOSE_LIT"})
	case "AFTER_LIT":
		ws(s)
		out = append(out, specEdge{"COMMA", "NEXT", "DELIM_LIT"}, specEdge{closer, "DONE", "CLOSE_LIT"})
	case "AFTER_VAL":
		ws(s)
		out = append(out, specEdge{"COMMA", "NEXT", "DELIM"}, specEdge{closer, "DONE", "CLOSE"})
	}
	return out
}

type incViol struct {
	Key string
	Msg string
	Pos token.Pos
}

type incResult struct {
	Viol    []incViol
	States  int
	Trans   int
	Visited []string // product transitions "spec/impl --class(kind)-->"
}

// inclusion explores the product of the extracted transition function with the specification automaton
// of one nesting level of RFC 8259.
func (m *Machine) inclusion(isList bool) incResult {
	var res incResult
	seenV := map[string]bool{}
	var curPos token.Pos
	bad := func(ps PState, e specEdge, f string, a ...any) {
		key := fmt.Sprintf("%s:%s:%s(%s)", ps.Spec, ps.St, e.cls, e.kind)
		msg := fmt.Sprintf("spec=%s impl=%s inVal=%v on %s(%s): %s", ps.Spec, ps.St, ps.InVal, e.cls, e.kind, fmt.Sprintf(f, a...))
		if !seenV[key+msg] {
			seenV[key+msg] = true
			res.Viol = append(res.Viol, incViol{key, msg, curPos})
		}
	}
	start := PState{Spec: "OPEN", St: m.initialState(), InVal: F, ValLen: F, ValOK: true, KeyOK: true}
	seen := map[PState]bool{start: true}
	work := []PState{start}
	for len(work) > 0 {
		ps := work[0]
		work = work[1:]
		res.States++
		if res.States > 1500 {
			// the reference product closes after a few hundred states: a machine that keeps producing new product states emits
			// events the specification never consumes (e.g. white space that is sometimes taken for the start of a literal)
			res.Viol = append(res.Viol, incViol{"product:open", fmt.Sprintf("the product with the specification does not close within %d states (last: spec=%s impl=%s, pending events %q): events accumulate that no symbol of the grammar accounts for", res.States, ps.Spec, ps.St, ps.Events), curPos})
			break
		}
		for _, e := range specEdges(isList, ps.Spec) {
			exits := m.Step(ps.St, ps.InVal, map[string]Tri{"val": ps.ValLen, "key": U}, classByName(e.cls))
			for _, ex := range exits {
				res.Trans++
				curPos = ex.Pos
				if !curPos.IsValid() && len(ex.Env.Acts) > 0 {
					curPos = ex.Env.Acts[len(ex.Env.Acts)-1].Pos
				}
				res.Visited = append(res.Visited, fmt.Sprintf("%s/%s --%s(%s)--> %s", ps.Spec, ps.St, e.cls, e.kind, ex.Kind))
				// error-propagation branches of nested/parseField calls are outside the inductive hypothesis
				if ex.Kind == "ERR" && ex.Note == "propagated" {
					continue
				}
				np := ps
				np.Spec = e.next
				np.St = ex.Env.State
				np.InVal = ex.Env.InVal
				np.ValLen = ex.Env.BufLen["val"]
				// interpret actions
				var wrote = map[string][]string{}
				nestedCalls, iadds := 0, 0
				lines := 0
				for _, a := range ex.Env.Acts {
					switch a.Op {
					case "LINE":
						lines++
					case "RESET":
						if a.Buf == "val" {
							np.ValOK = true
						} else {
							np.KeyOK, np.KeyDec = true, false
						}
						wrote[a.Buf] = nil
					case "W":
						if a.What == "val" { // WriteString(decoded)
							if a.Buf == "key" && a.Val != nil && a.Val.Kind == "STR" && a.Val.Buf == "key" && len(wrote["key"]) == 0 && np.KeyOK {
								// must directly follow a reset: checked via KeyOK && emptiness
								np.KeyDec = true
							} else {
								bad(ps, e, "unexpected WriteString into %s", a.Buf)
							}
						} else {
							wrote[a.Buf] = append(wrote[a.Buf], a.What)
						}
					case "KEYREG":
						if a.Val != nil && a.Val.Kind == "STR" && a.Val.Buf == "key" {
							np.NameDec = true
						} else {
							bad(ps, e, "the key register is assigned something other than the decoded key buffer")
						}
					case "USE":
						// token buffer consumed by decoder/parseField: must be exact raw token
						ok := (a.Buf == "val" && np.ValOK && !np.Pending) || (a.Buf == "key" && np.KeyOK && !np.InKeyP)
						if !ok {
							bad(ps, e, "%s applied to a buffer that is not the raw token (%s)", a.What, a.Buf)
						}
						if a.Buf == "val" {
							np.ValOK = false // stale until reset
						} else {
							np.KeyOK = false
						}
					case "EVENT":
						desc := a.What + ":" + a.Val.Kind
						if a.What == "Set" {
							if !(a.Buf == "key" && np.KeyDec) && !(a.Buf == "keyreg" && np.NameDec) {
								bad(ps, e, "Set under a key buffer that does not hold the decoded key of this pair")
							}
						}
						np.Events += desc + ";"
					case "NESTED":
						nestedCalls++
					case "IADD":
						iadds++
					}
				}
				wantLines := 0
				if e.cls == "NL" {
					wantLines = 1
				}
				if lines != wantLines {
					bad(ps, e, "line counter moved by %d, expected %d", lines, wantLines)
				}
				// buffer write expectations
				expectVal, expectKey := []string(nil), []string(nil)
				switch e.kind {
				case "TOKSTART_LIT":
					if !(ps.ValOK && ps.ValLen == F) {
						bad(ps, e, "literal starts with a non-empty or stale val buffer")
					}
					expectVal = []string{"char"}
				case "TOKSTART_STR":
					// buffer must be clean by the time content arrives; checked at first content via ValOK/len
					if !(np.ValOK && np.ValLen == F) {
						bad(ps, e, "string starts with a non-empty or stale val buffer")
					}
				case "CONTENT":
					expectVal = []string{"char"}
				case "ESCSTART":
					if len(wrote["val"]) == 0 {
						np.Pending = true
					} else {
						expectVal = []string{"\\"}
					}
				case "ESCAPED":
					if ps.Pending {
						expectVal = []string{"\\", "char"}
						np.Pending = false
					} else {
						expectVal = []string{"char"}
					}
				case "KEYSTART":
					if !(np.KeyOK) {
						bad(ps, e, "key starts with a stale key buffer")
					}
					np.NameDec = false // a register still holding the previous pair's key does not name this pair
				case "KEYCONTENT":
					expectKey = []string{"char"}
				case "KEYESC":
					if len(wrote["key"]) == 0 {
						np.InKeyP = true
					} else {
						expectKey = []string{"\\"}
					}
				case "KEYESCAPED":
					if ps.InKeyP {
						expectKey = []string{"\\", "char"}
						np.InKeyP = false
					} else {
						expectKey = []string{"char"}
					}
				}
				if strings.Join(wrote["val"], ",") != strings.Join(expectVal, ",") && (e.kind != "ESCSTART") {
					bad(ps, e, "val buffer writes %v, expected %v", wrote["val"], expectVal)
					np.ValOK = false
				}
				if strings.Join(wrote["key"], ",") != strings.Join(expectKey, ",") && (e.kind != "KEYESC") && !np.KeyDec {
					bad(ps, e, "key buffer writes %v, expected %v", wrote["key"], expectKey)
					np.KeyOK = false
				}
				// nested macro symbol
				if e.kind == "NESTED_OBJ" || e.kind == "NESTED_LIST" {
					if nestedCalls != 1 || iadds != 1 || (ex.Kind != "CONTINUE" && ex.Kind != "FALL") { // a path that reaches the end of the body continues with the post statement exactly like continue
						bad(ps, e, "nested value: %d recursive calls, %d resumptions, exit %s", nestedCalls, iadds, ex.Kind)
					}
				} else if nestedCalls != 0 || iadds != 0 {
					bad(ps, e, "recursive call outside a nested value")
				}
				// exits
				closing := strings.HasPrefix(e.kind, "CLOSE")
				switch ex.Kind {
				case "ERR", "BADRET":
					bad(ps, e, "parser rejects a valid symbol: %s %s at %s", ex.Kind, ex.Note, m.c.Pos(ex.Pos))
					continue
				case "OK":
					if !closing {
						bad(ps, e, "success return before the closing bracket at %s", m.c.Pos(ex.Pos))
						continue
					}
				default:
					if closing {
						bad(ps, e, "closing bracket does not return success")
						continue
					}
				}
				// events at delimiters
				if e.kind == "DELIM" || e.kind == "DELIM_LIT" || closing {
					want := ""
					verb := "Set"
					if isList {
						verb = "Add"
					}
					switch {
					case e.kind == "CLOSE_EMPTY":
						want = ""
					default:
						want = "ANY1"
					}
					n := strings.Count(np.Events, ";")
					if want == "" && n != 0 || want == "ANY1" && n != 1 {
						bad(ps, e, "events since last delimiter: %q (expected exactly %s)", np.Events, map[string]string{"": "none", "ANY1": "one"}[want])
					} else if n == 1 {
						kind := strings.TrimSuffix(strings.TrimPrefix(np.Events, verb+":"), ";")
						exp := ps.expectKind(e)
						if !strings.HasPrefix(np.Events, verb+":") || (exp != "" && kind != exp) {
							bad(ps, e, "event %q, expected %s:%s", np.Events, verb, exp)
						}
					}
					np.Events = ""
					np.Expect = ""
					np.First = false
				}
				if e.kind == "STREND" {
					np.First = false
				}
				if ex.Kind == "OK" {
					continue
				}
				// remember what kind of value is pending for the delimiter check
				np = np.withPending(e)
				if !seen[np] {
					seen[np] = true
					work = append(work, np)
				}
			}
		}
	}
	sort.Slice(res.Viol, func(i, j int) bool { return res.Viol[i].Key+res.Viol[i].Msg < res.Viol[j].Key+res.Viol[j].Msg })
	return res
}

func (ps PState) withPending(e specEdge) PState {
	switch e.kind {
	case "TOKSTART_STR":
		ps.Expect = "STR"
	case "TOKSTART_LIT":
		ps.Expect = "FIELD"
	case "NESTED_OBJ", "NESTED_LIST":
		ps.Expect = e.kind
	}
	return ps
}

func (ps PState) expectKind(e specEdge) string { return ps.Expect }
