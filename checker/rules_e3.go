package main

// Generic E3-based rules (PURE, OWN, DEEP, package state) and the properties built mostly on them: C09, C08.

import (
	"go/token"
	"go/types"
	"sort"
	"strings"

	"golang.org/x/tools/go/ssa"
)

// c09Derivers: the operations the statement of C09 names, as name patterns over both interfaces.
func isDeriver(name string) bool {
	switch name {
	case "Concat", "SubList", "MapAsync", "Merge", "Pluck", "Keys", "Values", "Slice", "Dict", "String", "FormatString", "Equals", "Contains", "IndexOf":
		return true
	}
	return strings.HasPrefix(name, "Filter") || (strings.HasPrefix(name, "Map") && name != "MapAsync") || strings.HasPrefix(name, "Reduce") ||
		(strings.HasSuffix(name, "Slice") && name != "Slice")
}

// mutators of the two interfaces (everything else is documented as non-mutating)
var mutatorNames = map[string]bool{"Add": true, "Insert": true, "Replace": true, "Delete": true, "Pop": true, "Clear": true, "Sort": true, "Reverse": true,
	"Set": true, "Unset": true, "SetTF": true, "UnsetTF": true, "Init": true}

// pinnedAPI: the methods of the two container interfaces the properties were written against (the exported API of the pinned tree).
// The properties name these operations (or families of them: "the typed variants the API offers", "non-mutating operations");
// a method ADDED to an interface later is outside every property — what it does to the existing ones reaches the rules through
// the effects and calls of the existing methods that use it, which stay under obligation.
var pinnedAPI = map[bool]map[string]bool{
	true: setOf("Init Ego Add Insert Replace Delete Pop Clear Get GetObject GetList GetString GetBool GetInt GetFloat TypeOf String FormatString Slice NativeSlice " +
		"ObjectSlice ListSlice StringSlice BoolSlice IntSlice FloatSlice Clone Count Empty Equals Concat SubList Contains IndexOf Sort Reverse AllObjects AllLists " +
		"AllStrings AllBools AllInts AllFloats AllNumeric ForEach ForEachValue ForEachObject ForEachList ForEachString ForEachBool ForEachInt ForEachFloat Map MapValues " +
		"MapObjects MapLists MapStrings MapBools MapInts MapFloats Reduce ReduceStrings ReduceInts ReduceFloats Filter FilterObjects FilterLists FilterStrings FilterInts " +
		"FilterFloats IntSum Sum IntProd Prod Avg IntMin Min IntMax Max ForEachAsync MapAsync GetTF SetTF UnsetTF TypeOfTF " +
		"getVal copy serialize isEqual"), // with the unexported methods of the embedded field interface
	false: setOf("Init Ego Set Unset Clear Get GetObject GetList GetString GetBool GetInt GetFloat TypeOf String FormatString Dict NativeDict Keys Values Clone Count " +
		"Empty Equals Merge Pluck Contains KeyOf KeyExists ForEach ForEachValue ForEachObject ForEachList ForEachString ForEachBool ForEachInt ForEachFloat Map MapValues " +
		"MapObjects MapLists MapStrings MapBools MapInts MapFloats ForEachAsync MapAsync GetTF SetTF UnsetTF TypeOfTF " +
		"getVal copy serialize isEqual"),
}

// pinnedFuncs: the exported package-level functions of the pinned tree (vocabulary of the rules; never inlined).
var pinnedFuncs = setOf("NewList NewListOf NewListFrom NewObject NewObjectFrom ParseList ParseObject ParseFile")

func setOf(names string) map[string]bool {
	m := map[string]bool{}
	for _, n := range strings.Fields(names) {
		m[n] = true
	}
	return m
}

// pinnedMethods: the methods of the container's interface that belong to the pinned API, sorted.
func pinnedMethods(ct *Cont) []*types.Func {
	var out []*types.Func
	for _, m := range ifaceMethods(ct.Iface) {
		if pinnedAPI[ct.IsList][m.Name()] {
			out = append(out, m)
		}
	}
	return out
}

// implsOfIface returns the sorted implementation names "(*list).X" of all pinned methods of both container interfaces satisfying pred.
func implNames(c *Ctx, pred func(name string) bool) []string {
	var out []string
	for _, ct := range c.Inv().Conts {
		if ct.Iface == nil {
			continue
		}
		for _, m := range pinnedMethods(ct) {
			if pred(m.Name()) {
				out = append(out, "(*"+ct.Named.Obj().Name()+")."+m.Name())
			}
		}
	}
	sort.Strings(out)
	return out
}

// pureRule: no write effect of f (transitively, closures included) targets memory that is not FRESH.
func pureRule(c *Ctx, rule string, names []string) int {
	a := c.E3()
	n := 0
	for _, name := range names {
		fn := a.ByName(name)
		if fn == nil {
			c.Ob(rule, name, token.NoPos).Missing("no implementation %s in the package", name)
			continue
		}
		n++
		var bad []*Effect
		for _, e := range a.eff[fn] {
			if e.Target&oROOTS&^oFRESH != 0 || e.Kind == "store-global" || e.Target&oROOTS == 0 {
				bad = append(bad, e)
			}
		}
		if len(bad) == 0 {
			c.Ob(rule, name, fn.Pos()).Ok("PURE: %d write effects, all on memory allocated inside the call (FRESH)", len(a.eff[fn]))
			continue
		}
		for _, e := range bad {
			ob := c.Ob(rule, name+"/"+e.Kind, e.Pos)
			if e.Target&oROOTS == 0 && e.Kind != "store-global" {
				ob.Undecided("write effect %s with untracked target", e.Kind)
			} else {
				ob.Fail("non-mutating operation writes pre-existing memory: %s on %s (value %s)", e.Kind, e.Target&oROOTS, e.Value)
			}
		}
	}
	return n
}

// ownRule: a spine of a pre-existing container never becomes, or shares a backing array with, the spine of another one.
func ownRule(c *Ctx, rule string) int {
	a := c.E3()
	n := 0
	for _, fn := range a.fns {
		for _, e := range a.eff[fn] {
			if e.Kind != "store.val" {
				continue
			}
			n++
			ob := c.Ob(rule, "spine-store/"+a.FuncName(fn)+"#"+itoa(ordinalOf(a.eff[fn], e)), e.Pos)
			st, msg := ownJudge(a, e.Fn, e.Value&oROOTS, e.Target&oROOTS, 0)
			switch st {
			case 0:
				ob.Ok("%s", msg)
			case 1:
				ob.Fail("%s", msg)
			default:
				ob.Undecided("%s", msg)
			}
		}
	}
	return n
}

// ownJudge decides the ownership obligation "spine of origin v becomes the storage of a container of origin t" in function fn.
// When the only offending origins are parameters of an unexported top-level function or method (a private constructor helper such as
// newListWith(spine)), the obligation is transferred to every call site of that helper (origins substituted into caller terms), to a
// depth of three; a helper whose value escapes other than by a call is not accepted.
func ownJudge(a *E3, fn *ssa.Function, v, t O, depth int) (int, string) {
	if v == 0 {
		return 2, "spine of unknown origin stored into a container"
	}
	viol := v &^ (t | oFRESH)
	if t&oFRESH != 0 && t&^oFRESH == 0 {
		viol = v &^ oFRESH
	}
	if viol == 0 {
		return 0, "OWN: spine origin " + v.String() + " into container " + t.String()
	}
	fail := "OWN: a spine with origin " + v.String() + " (may share its backing array with another container) is installed as the storage of " + t.String()
	if t&oFRESH != 0 && t&^oFRESH == 0 && v&^(t|oFRESH) == 0 {
		fail = "OWN: storage of a new container has origin " + v.String() + ", not exclusively fresh"
	}
	params := oP1 | oP2 | oP3 // never the receiver: its spine installed elsewhere is shared by construction
	if viol&^params != 0 || fn == nil || fn.Parent() != nil || fn.Object() == nil || fn.Object().Exported() || depth >= 3 {
		return 1, fail
	}
	sites := 0
	for _, caller := range a.fns {
		var all []*ssa.Function
		all = append(all, caller)
		for i := 0; i < len(all); i++ {
			all = append(all, all[i].AnonFuncs...)
		}
		for _, f := range all {
			for _, blk := range f.Blocks {
				for _, in := range blk.Instrs {
					ci, isCall := in.(ssa.CallInstruction)
					hit := false
					if isCall {
						for _, cal := range a.Callees(ci.Common()) {
							if cal == fn {
								hit = true
							}
						}
					}
					// any other use of the helper as a value lets it escape
					for _, op := range in.Operands(nil) {
						if *op == ssa.Value(fn) && !(isCall && ci.Common().Value == ssa.Value(fn)) {
							return 1, fail + " (and the helper " + fn.Name() + " is used as a value at " + a.prog.Fset.Position(in.Pos()).String() + ")"
						}
					}
					if !hit {
						continue
					}
					sites++
					args := slotArgs(fn, callArgs(ci.Common()))
					st, msg := ownJudge(a, rootOf(f), a.subst(v, args)&oROOTS, a.subst(t, args)&oROOTS, depth+1)
					if st != 0 {
						pos := a.prog.Fset.Position(in.Pos())
						return st, msg + " [via the call of " + fn.Name() + " at " + shortPos(pos.Filename) + ":" + itoa(pos.Line) + "]"
					}
				}
			}
		}
	}
	return 0, "OWN: spine origin " + v.String() + " into container " + t.String() + " in private helper " + fn.Name() + "; discharged at its " + itoa(sites) + " call site(s), where the spine is fresh or the container's own"
}

func shortPos(f string) string {
	if i := strings.LastIndex(f, "/"); i >= 0 {
		return f[i+1:]
	}
	return f
}

func ordinalOf(es []*Effect, e *Effect) int {
	k := 0
	for _, x := range es {
		if x.Kind == e.Kind {
			k++
		}
		if x == e {
			return k
		}
	}
	return 0
}

// storedValues enumerates, for function fn (closures included), every value that is stored into a container
// whose origin satisfies targetPred: direct spine stores, appends, map updates, and arguments of mutating callees.
type storedValue struct {
	Pos  token.Pos
	What string
	O    O
	V    ssa.Value
}

func storedValues(a *E3, fn *ssa.Function, targetPred func(O) bool) []storedValue {
	var out []storedValue
	var walk func(f *ssa.Function)
	walk = func(f *ssa.Function) {
		for _, b := range f.Blocks {
			for _, in := range b.Instrs {
				switch x := in.(type) {
				case *ssa.Store:
					if ia, ok := x.Addr.(*ssa.IndexAddr); ok && a.isSpine(ia.X.Type()) && targetPred(a.get(ia.X)&oROOTS) {
						out = append(out, storedValue{x.Pos(), "indexed store", a.get(x.Val), x.Val})
					}
				case *ssa.MapUpdate:
					if a.isSpine(x.Map.Type()) && targetPred(a.get(x.Map)&oROOTS) {
						out = append(out, storedValue{x.Pos(), "map assignment", a.get(x.Value), x.Value})
					}
				case ssa.CallInstruction:
					cc := x.Common()
					if bi, ok := cc.Value.(*ssa.Builtin); ok {
						if (bi.Name() == "append" || bi.Name() == "copy") && len(cc.Args) == 2 && a.isSpine(cc.Args[0].Type()) && targetPred(a.get(cc.Args[0])&oROOTS) {
							o := a.get(cc.Args[1]) | a.cell[a.cellOf(cc.Args[1])]
							if a.isSpine(cc.Args[1].Type()) {
								o = oELEM // elements of another spine
								if a.get(cc.Args[1])&oROOTS == oFRESH {
									o = oFRESH
								}
							}
							out = append(out, storedValue{x.Pos(), bi.Name(), o, cc.Args[1]})
						}
						continue
					}
					if val, isVal := in.(ssa.Value); isVal && cc.StaticCallee() != nil && a.inPkg(cc.StaticCallee()) && cc.Signature().Recv() == nil &&
						cc.Signature().Variadic() && a.isContainerish(val.Type()) && targetPred(a.get(val)&oROOTS) {
						// a constructor that fills the container it returns from its values (NewList(values...), NewObject(pairs...))
						for _, v := range cc.Args {
							o := a.get(v) | a.cell[a.cellOf(v)]
							if sl, ok := v.(*ssa.Slice); ok {
								o |= a.cell[a.cellOf(sl.X)]
							}
							out = append(out, storedValue{x.Pos(), "value given to " + cc.StaticCallee().Name(), o, v})
						}
						continue
					}
					// a private helper that fills a spine handed to it (`copyFields(dst, src)`): what it stores there, in the caller's terms
					if cal := cc.StaticCallee(); cal != nil && a.inPkg(cal) && cal.Signature.Recv() == nil {
						sargs := slotArgs(cal, callArgs(cc))
						for _, e := range a.eff[cal] {
							if e.Kind != "store-elem" && e.Kind != "store-arg-elem" && e.Kind != "map-update" && e.Kind != "append-into" {
								continue
							}
							for i, b := range []O{oP1, oP2, oP3} {
								if e.Target&b == 0 || i+1 >= len(sargs) || sargs[i+1] == nil || !a.isSpine(sargs[i+1].Type()) {
									continue
								}
								if targetPred(a.get(sargs[i+1]) & oROOTS) {
									var v ssa.Value
									switch st := e.Instr.(type) {
									case *ssa.Store:
										v = st.Val
									case *ssa.MapUpdate:
										v = st.Value
									}
									if v != nil {
										out = append(out, storedValue{x.Pos(), "store by " + cal.Name(), a.subst(e.Value, sargs), v})
									}
								}
							}
						}
					}
					for _, cal := range a.Callees(cc) {
						s := a.sum[cal]
						if s == nil || !s.MutRecv || !a.inPkg(cal) {
							continue
						}
						args := callArgs(cc)
						if len(args) == 0 || !targetPred(a.get(args[0])&oROOTS) {
							continue
						}
						if len(a.eff[cal]) == 1 && a.eff[cal][0].Kind == "store.ptr" {
							continue // Init(self)
						}
						for _, v := range args[1:] {
							o := a.get(v) | a.cell[a.cellOf(v)]
							if sl, ok := v.(*ssa.Slice); ok {
								o |= a.cell[a.cellOf(sl.X)]
							}
							out = append(out, storedValue{x.Pos(), "argument of " + cal.Name(), o, v})
						}
						break
					}
				}
			}
		}
		for _, an := range f.AnonFuncs {
			walk(an)
		}
	}
	walk(fn)
	return out
}

// globalsRule: the package keeps no mutable package-level state.
func globalsRule(c *Ctx, rule string) {
	spkg := c.SSA()
	var names []string
	for n, m := range spkg.Members {
		if _, ok := m.(*ssa.Global); ok && n != "init$guard" {
			names = append(names, n)
		}
	}
	sort.Strings(names)
	if len(names) == 0 {
		c.Ob(rule, "package-level-variables", token.NoPos).Ok("the package declares no package-level variable: no state is shared between calls or goroutines")
		return
	}
	for _, n := range names {
		g := spkg.Members[n].(*ssa.Global)
		el := g.Type().(*types.Pointer).Elem()
		ob := c.Ob(rule, "package-level-variable/"+n, g.Pos())
		immutableType := false
		switch u := el.Underlying().(type) {
		case *types.Basic:
			immutableType = true
		case *types.Interface:
			immutableType = types.Identical(el, types.Universe.Lookup("error").Type())
			_ = u
		}
		writes, escapes := 0, 0
		for _, m := range spkg.Members {
			fn, ok := m.(*ssa.Function)
			if !ok {
				continue
			}
			scanGlobalUses(fn, g, fn.Name() == "init", &writes, &escapes)
		}
		for _, fn := range c.E3().fns {
			if fn.Signature.Recv() != nil {
				scanGlobalUses(fn, g, false, &writes, &escapes)
			}
		}
		if immutableType && writes == 0 && escapes == 0 {
			ob.Ok("package-level variable of immutable type, never written after initialisation, address never taken")
		} else {
			ob.Fail("package-level variable %s (%s) is shared mutable state: %d writes outside init, %d uses of its address (method calls / escapes); calls and goroutines are no longer independent", n, shortType(el), writes, escapes)
		}
	}
}

func scanGlobalUses(fn *ssa.Function, g *ssa.Global, isInit bool, writes, escapes *int) {
	for _, b := range fn.Blocks {
		for _, in := range b.Instrs {
			for _, op := range in.Operands(nil) {
				if *op != g {
					continue
				}
				switch x := in.(type) {
				case *ssa.UnOp:
					if x.Op == token.MUL {
						continue // plain read
					}
					*escapes++
				case *ssa.Store:
					if x.Addr == g {
						if !isInit {
							*writes++
						}
					} else {
						*escapes++
					}
				default:
					*escapes++
				}
			}
		}
	}
	for _, an := range fn.AnonFuncs {
		scanGlobalUses(an, g, isInit, writes, escapes)
	}
}

// structShapeRule: list = {[]field, List}, object = {map[string]field, Object} exactly.
func structShapeRule(c *Ctx, rule string) {
	for _, ct := range c.Inv().Conts {
		st := ct.Named.Underlying().(*types.Struct)
		ob := c.Ob(rule, "struct/"+ct.Named.Obj().Name(), ct.Named.Obj().Pos())
		if st.NumFields() == 2 && ct.Ptr != nil {
			ob.Ok("fields are exactly {%s %s; %s %s}: the origin lattice models all of the container's state", ct.Spine.Name(), shortType(ct.Spine.Type()), ct.Ptr.Name(), shortType(ct.Ptr.Type()))
		} else {
			ob.Fail("container struct has %d fields (expected exactly spine + registered ego): an extra field (cache, shared buffer) is state the ownership analysis does not model — review required", st.NumFields())
		}
	}
	if len(c.Inv().Conts) != 2 {
		c.Ob(rule, "containers", token.NoPos).Missing("expected 2 container structs, found %d", len(c.Inv().Conts))
	}
}

func init() {
	register(&Property{
		ID: "C09",
		Explanation: "Purity and storage ownership of the deriving operations, decided by the E3 SSA origin/write-effect analysis (fix-point summaries over all functions and closures of the package): " +
			"PURE — no write effect of a deriving operation reaches memory that existed before the call; OWN — no spine (backing array) of a pre-existing container is installed, sliced or appended into another container's storage, " +
			"with append treated as a write into the spare capacity of its first operand; struct shape and absence of package-level state. Covers every receiver condition (spare capacity included) because the rule is path- and value-insensitive. " +
			"Does not cover mutation by user callbacks, nor sharing of nested containers (allowed by the property).",
		Rules: []Rule{
			{ID: "C09.R1", Doc: "PURE for every operation named by the property (Concat, SubList, Filter*, Map*, MapAsync, Merge, Pluck, Keys, Values, Slice, Dict, typed slices, Reduce*, String, FormatString, Equals, Contains, IndexOf)", Run: func(c *Ctx) {
				n := pureRule(c, "C09.R1", implNames(c, isDeriver))
				c.R.Floor("C09.R1", n, 49)
			}},
			{ID: "C09.R2", Doc: "OWN: every store of a spine into a container has origin within the container itself or FRESH; a new container's storage is exclusively FRESH (package-wide)", Run: func(c *Ctx) {
				n := ownRule(c, "C09.R2")
				c.R.Floor("C09.R2", n, 8)
				c09GoTyped(c)
			}},
			{ID: "C09.R3", Doc: "container structs hold exactly {spine, ego}; the package has no mutable package-level state", Run: func(c *Ctx) {
				structShapeRule(c, "C09.R3")
				globalsRule(c, "C09.R3")
			}},
			{ID: "C09.R4", Doc: "RESULT-FRESH: every deriving operation that returns a container returns one allocated inside the call on every return (never the receiver, its ego, the argument or an element)", Run: c09ResultFresh},
			{ID: "C09.R5", Doc: "IMMUTABLE: a scalar wrapper's payload is written only while the wrapper is being built (a store through the allocation made in the same function); derived containers share wrappers with their sources, so a write into an existing wrapper would show in all of them", Run: func(c *Ctx) { c09Immutable(c, "C09.R5") }},
		},
	})
	register(&Property{
		ID: "C08",
		Explanation: "Deep-copy structure of Clone decided inductively over the finite set of field implementers: scalar copies return basic values, container copies build FRESH containers whose every stored value has origin FRESH/SCALAR " +
			"(an element of the source reaches the result only as the receiver of copy), parseVal keeps a container operand as is, Clone returns exactly copy(). Together with OWN (C09.R2) no container reachable from the clone is reachable from the source. " +
			"Does not decide that the copy Equals the source (run-time equality).",
		Rules: []Rule{
			{ID: "C08.R1", Doc: "scalar copy() implementations return a value of basic type or nil", Run: c08R1},
			{ID: "C08.R2", Doc: "DEEP: container copy() returns a FRESH container; every value stored into it has origin FRESH/SCALAR; one store per element of the receiver's spine", Run: c08R2},
			{ID: "C08.R3", Doc: "parseVal returns a container operand itself and allocates for everything else", Run: c08R3},
			{ID: "C08.R4", Doc: "Clone returns exactly the result of copy() of the receiver / its ego", Run: c08R4},
			{ID: "C08.R5", Doc: "OWN (package-wide): mutators write only spines of their receiver", Run: func(c *Ctx) { c.R.Floor("C08.R5", ownRule(c, "C08.R5"), 8) }},
			{ID: "C08.R6", Doc: "scalar wrappers are immutable after construction (= C09.R5): scalar copy() may hand back a value and containers may share wrappers only because nobody writes them", Run: func(c *Ctx) { c09Immutable(c, "C08.R6") }},
			{ID: "C08.R7", Doc: "the clone Equals the original: the equality leaves the comparison ends in are exact — scalar isEqual is `own type AND payload == payload` (reflexive for every payload, infinities included), container isEqual is own type, length, complete loop (= C07.R1–R3)", Run: func(c *Ctx) {
				c.R.Floor("C08.R7", runAs(c, "C08.R7", c07Run, nil), 7)
			}},
		},
	})
}

// c09Immutable: every store into a scalar wrapper (a field of it, or the whole struct through a pointer) targets the allocation made
// in the same function — the wrapper under construction. Anything else writes a wrapper that may already be stored in containers.
func c09Immutable(c *Ctx, rule string) {
	a := c.E3()
	isWrapper := func(t types.Type) *types.Named {
		p, ok := t.(*types.Pointer)
		if !ok {
			return nil
		}
		nt, ok := p.Elem().(*types.Named)
		if !ok {
			return nil
		}
		for _, w := range c.Inv().Wrappers {
			if w.Obj() == nt.Obj() {
				return nt
			}
		}
		return nil
	}
	n := 0
	var walk func(root, f *ssa.Function)
	walk = func(root, f *ssa.Function) {
		for _, b := range f.Blocks {
			for _, in := range b.Instrs {
				st, ok := in.(*ssa.Store)
				if !ok {
					continue
				}
				var target ssa.Value
				var w *types.Named
				if fa, isFA := st.Addr.(*ssa.FieldAddr); isFA {
					if w = isWrapper(fa.X.Type()); w != nil {
						target = fa.X
					}
				} else if w = isWrapper(st.Addr.Type()); w != nil {
					target = st.Addr
				}
				if w == nil {
					continue
				}
				n++
				ob := c.Ob(rule, "wrapper-store/"+a.FuncName(root)+"#"+w.Obj().Name(), st.Pos())
				fresh := false
				switch tv := target.(type) {
				case *ssa.Alloc:
					fresh = tv.Parent() == f
				case *ssa.IndexAddr:
					// atoms carved from one block: atoms := make([]atInt, n); atoms[i].val = v
					switch base := tv.X.(type) {
					case *ssa.MakeSlice:
						fresh = base.Parent() == f
					case *ssa.Alloc:
						fresh = base.Parent() == f
					case *ssa.Slice:
						if al, ok := base.X.(*ssa.Alloc); ok {
							fresh = al.Parent() == f
						}
					}
				}
				if fresh {
					ob.Ok("stores into the %s allocated in this function (construction)", w.Obj().Name())
				} else {
					ob.Fail("a %s that already exists is written: wrappers are shared between a container and the containers derived from it (SubList, Concat, NewListOf, copies of spines), so the write shows in all of them", w.Obj().Name())
				}
			}
		}
		for _, an := range f.AnonFuncs {
			walk(root, an)
		}
	}
	for _, fn := range a.fns {
		walk(fn, fn)
	}
	c.R.Floor(rule, n, 4)
}

// c09ResultFresh: the container a deriving operation returns is FRESH on every return.
func c09ResultFresh(c *Ctx) {
	a := c.E3()
	n := 0
	for _, name := range implNames(c, isDeriver) {
		fn := a.ByName(name)
		if fn == nil {
			continue
		}
		res := fn.Signature.Results()
		if res.Len() != 1 || !a.isContainerish(res.At(0).Type()) {
			continue
		}
		n++
		s := a.sum[fn]
		ob := c.Ob("C09.R4", "container-result/"+name, fn.Pos())
		bad := -1
		for i, o := range s.RetEach {
			if o&oROOTS != oFRESH {
				bad = i
				break
			}
		}
		switch {
		case len(s.RetEach) == 0:
			ob.Undecided("no return found")
		case bad >= 0:
			pos := ""
			if bad < len(s.RetPos) {
				pp := c.Fset.Position(s.RetPos[bad])
				pos = " at " + shortPos(pp.Filename) + ":" + itoa(pp.Line)
			}
			ob.Fail("the returned container has origin %s on the return%s: the result is (or may be) the receiver, an argument or an element, so a later mutation of one shows in the other", s.RetEach[bad], pos)
		default:
			ob.Ok("the returned container has origin FRESH on each of its %d returns", len(s.RetEach))
		}
	}
	c.R.Floor("C09.R4", n, 12)
}

// c09GoTyped: Go-typed exports ([]any, map[string]any, typed slices) are built in FRESH memory.
func c09GoTyped(c *Ctx) {
	a := c.E3()
	for _, name := range implNames(c, func(n string) bool {
		return n == "Slice" || n == "Dict" || strings.HasSuffix(n, "Slice") || n == "NativeDict"
	}) {
		fn := a.ByName(name)
		if fn == nil {
			continue
		}
		s := a.sum[fn]
		ob := c.Ob("C09.R2", "go-typed-result/"+name, fn.Pos())
		ok := len(s.RetEach) > 0
		for _, o := range s.RetEach {
			if o&oROOTS != oFRESH {
				ok = false
			}
		}
		if ok {
			ob.Ok("returned Go value has origin FRESH on every return")
		} else {
			ob.Fail("returned Go slice/map has origin %s: it may share storage with the container or an argument", s.Ret)
		}
	}
}

func c08R1(c *Ctx) {
	a := c.E3()
	n := 0
	for _, w := range c.Inv().Wrappers {
		name := "(*" + w.Obj().Name() + ").copy"
		fn := a.ByName(name)
		if fn == nil {
			c.Ob("C08.R1", name, token.NoPos).Missing("scalar wrapper has no copy()")
			continue
		}
		for i, b := range fn.Blocks {
			r, ok := b.Instrs[len(b.Instrs)-1].(*ssa.Return)
			if !ok || len(r.Results) != 1 {
				continue
			}
			n++
			ob := c.Ob("C08.R1", name+"#ret"+itoa(i+1), r.Pos())
			switch v := r.Results[0].(type) {
			case *ssa.MakeInterface:
				if _, basic := v.X.Type().Underlying().(*types.Basic); basic {
					// and it is the stored payload itself, not something computed from it (Equals compares payloads: C07)
					if why := c.scalarCopyIsPayload(name); why != "" {
						ob.Fail("scalar copy does not return the stored payload unchanged: %s — the copy would differ from (not Equal) the source for some payloads", why)
					} else {
						ob.Ok("returns the stored payload, a value of basic type %s (copied by value)", shortType(v.X.Type()))
					}
				} else {
					ob.Fail("scalar copy returns a %s, not a basic value: the copy would share the wrapper with the source", shortType(v.X.Type()))
				}
			case *ssa.Const:
				ob.Check(v.IsNil(), "returns nil", "unexpected constant")
			default:
				// the payload handed back through the wrapper's own value accessor (`return ego.getVal()`): what the accessor returns is
				// the payload (C12), a value of basic type or nil
				st, _ := w.Underlying().(*types.Struct)
				basic := st != nil && st.NumFields() == 0
				if st != nil && st.NumFields() == 1 {
					_, basic = st.Field(0).Type().Underlying().(*types.Basic)
				}
				if why := c.scalarCopyIsPayload(name); why == "" && basic {
					ob.Ok("returns the stored payload through the wrapper's own value accessor (a value of basic type, copied by value)")
				} else {
					ob.Fail("scalar copy returns a non-basic value (%T) %s", v, why)
				}
			}
		}
	}
	c.R.Floor("C08.R1", n, 5)
}

func c08R2(c *Ctx) {
	a := c.E3()
	n := 0
	for _, ct := range c.Inv().Conts {
		name := "(*" + ct.Named.Obj().Name() + ").copy"
		fn := a.ByName(name)
		if fn == nil {
			c.Ob("C08.R2", name, token.NoPos).Missing("container has no copy()")
			continue
		}
		if ok, _ := delegateShape(a, ct, fn, "Clone"); ok {
			// copy() is `return ego.Clone()`: the deep copy is implemented in Clone, which is judged in copy's place
			if cl := a.ByName("(*" + ct.Named.Obj().Name() + ").Clone"); cl != nil {
				fn = cl
			}
		}
		s := a.sum[fn]
		ob := c.Ob("C08.R2", name+"/result", fn.Pos())
		fresh := len(s.RetEach) > 0
		for _, o := range s.RetEach {
			if o&oROOTS != oFRESH {
				fresh = false
			}
		}
		ob.Check(fresh, "returns a FRESH container on every path", "copy() returns origin "+s.Ret.String()+", not a fresh container")
		// no write outside FRESH
		pureRule(c, "C08.R2", []string{name})
		svs := storedValues(a, fn, func(t O) bool { return t == oFRESH })
		k := 0
		for _, sv := range svs {
			if bt, ok := sv.V.Type().Underlying().(*types.Basic); ok && bt.Info()&types.IsString != 0 {
				continue // map key
			}
			k++
			n++
			o2 := c.Ob("C08.R2", name+"/stored-value#"+itoa(k), sv.Pos)
			if sv.O&(oELEM|oRECV|oP1|oP2|oP3|oUSER) != 0 || sv.O == 0 {
				o2.Fail("DEEP: %s into the copy has origin %s — an element (or container) of the source is shared instead of copied", sv.What, sv.O)
			} else {
				o2.Ok("DEEP: %s has origin %s (result of copy()/parseVal on the element)", sv.What, sv.O)
			}
		}
		if k == 0 {
			c.Ob("C08.R2", name+"/stored-value", fn.Pos()).Fail("copy() stores nothing into its result")
		}
		// coverage: the store happens in a loop ranging over the receiver's own spine, and copy is invoked on the range element
		c08Coverage(c, ct, name)
	}
	c.R.Floor("C08.R2", n, 2)
}

// c08Coverage: in copy(), a single range loop over the receiver's spine with no early exit, whose body invokes copy on the range value
// and stores under the range key.
func c08Coverage(c *Ctx, ct *Cont, name string) {
	fd := c.Decl(name)
	if fd == nil {
		return
	}
	ob := c.Ob("C08.R2", name+"/coverage", fd.Pos())
	paths, why := c.runPaths(fd)
	if why != "" {
		ob.Undecided("body outside the path vocabulary: %s", why)
		return
	}
	v := c.view(fd)
	for _, p := range paths {
		if p.End != "return" || len(p.Vals) != 1 {
			ob.Fail("copy() has a path that does not return a container")
			return
		}
		var loop *LoopRec
		nl := 0
		for _, s := range p.Effects() {
			if s.Kind == "loop" {
				loop = s.Loop
				nl++
			}
		}
		if r := v.asRange(loop); r != nil {
			loop = r
		}
		if nl != 1 || loop.Range == nil || !v.isRecvSpine(loop.Over) {
			ob.Fail("expected exactly one range loop over the receiver's spine on every path, found %d", nl)
			return
		}
		result := p.Vals[0]
		for _, ip := range loop.Iter {
			if ip.Why != "" {
				ob.Undecided("loop body outside the path vocabulary: %s", ip.Why)
				return
			}
			if ip.End != "fall" && ip.End != "continue" {
				ob.Fail("copy loop may skip elements: an iteration ends with %s", ip.End)
				return
			}
			installed := false
			isCopyOfValue := func(t Term) bool {
				for {
					call, ok := t.(TCall)
					if !ok || call.Fun == nil {
						return false
					}
					if call.Fun.Name() == "copy" && call.Recv != nil && loop.Value != nil && isParamTerm(call.Recv, loop.Value) {
						return true
					}
					if call.Recv == nil && len(call.Args) == 1 {
						t = call.Args[0] // parseVal(copy())
						continue
					}
					return false
				}
			}
			for _, s := range ip.Effects() {
				switch s.Kind {
				case "store":
					if ix, ok := s.LHS.(TIndex); ok && loop.Key != nil && isParamTerm(ix.I, loop.Key) && isCopyOfValue(s.RHS) {
						if sel, ok := ix.X.(TSel); ok && sameContainer(sel.X, result) {
							installed = true
						}
					}
				case "call":
					if s.Call == nil || s.Call.Fun == nil || s.Call.Recv == nil || !sameContainer(s.Call.Recv, result) {
						continue
					}
					args := unpack(s.Call.Args)
					switch {
					case !ct.IsList && s.Call.Fun.Name() == "Set" && len(args) == 2 && loop.Key != nil && isParamTerm(args[0], loop.Key) && isCopyOfValue(args[1]):
						installed = true
					case ct.IsList && s.Call.Fun.Name() == "Add" && len(args) == 1 && isCopyOfValue(args[0]):
						installed = true
					}
				}
			}
			if !installed {
				// not the plain shape: decide copy() on the spine model
				folded := ""
				if len(paths) == 1 {
					bad, undec := c.foldBuild(v, paths[0], nil, nil, ct.IsList, ct.IsList, wantCopy)
					if bad == "" && undec == "" {
						ob.Ok("folded on the spine model for 0..3 elements: the returned container holds parseVal(copy()) of every element under its own key / in order")
						return
					}
					folded = "; folded on the spine model: " + bad + undec
				}
				ob.Fail("an iteration of the copy loop does not install copy() of the visited element under its own key into the result%s", folded)
				return
			}
		}
	}
	ob.Ok("every path: one range loop over the receiver's own spine, no iteration leaves it early, every iteration installs copy() of the visited element under its key into the returned container")
}

func c08R3(c *Ctx) {
	fd := c.Decl("parseVal")
	if fd == nil {
		c.Ob("C08.R3", "parseVal", token.NoPos).Missing("parseVal not found")
		return
	}
	arms, why := parseValArms(c)
	if why != "" {
		c.Ob("C08.R3", "parseVal", fd.Pos()).Undecided("%s", why)
		return
	}
	nParam, nFresh := 0, 0
	for _, arm := range arms {
		ob := c.Ob("C08.R3", "parseVal/case "+arm.Name, arm.Pos)
		switch {
		case arm.Container && arm.Operand:
			nParam++
			ob.Ok("returns its operand (a container stays that container: a fresh copy stays that copy)")
		case arm.Container:
			ob.Fail("a container operand is not handed back as it is: the copy made by copy() would be wrapped or re-built")
		case arm.Fresh:
			nFresh++
			ob.Ok("allocates a new field")
		default:
			ob.Fail("the %s arm of parseVal returns neither a fresh allocation nor (for a container) the operand itself", arm.Name)
		}
	}
	c.R.Floor("C08.R3", nParam+nFresh, 3)
	c.Ob("C08.R3", "parseVal/operand-arms", fd.Pos()).Check(nParam >= 1, itoa(nParam)+" arm(s) hand back the operand (which arms: C12.R1)", "no pass-through arm: a container operand would be wrapped or re-built")
}

func c08R4(c *Ctx) {
	a := c.E3()
	n := 0
	for _, ct := range c.Inv().Conts {
		name := "(*" + ct.Named.Obj().Name() + ").Clone"
		fn := a.ByName(name)
		if fn == nil {
			c.Ob("C08.R4", name, token.NoPos).Missing("Clone not found")
			continue
		}
		n++
		ob := c.Ob("C08.R4", name, fn.Pos())
		ok, why := cloneShape(a, ct, fn)
		if !ok {
			// the other way round: copy() hands back Clone() of the receiver — the deep copy lives in Clone (decided there by R2)
			if cp := a.ByName("(*" + ct.Named.Obj().Name() + ").copy"); cp != nil {
				if ok2, _ := delegateShape(a, ct, cp, "Clone"); ok2 {
					ok, why = true, "copy() returns Clone() of the receiver unmodified: the two are one operation, implemented in Clone"
				}
			}
		}
		if ok {
			ob.Ok("%s", why)
		} else {
			ob.Fail("%s", why)
		}
	}
	c.R.Floor("C08.R4", n, 2)
}

// cloneShape: single return whose value is TypeAssert/ChangeInterface of a call to copy() on the receiver or its ego.
func cloneShape(a *E3, ct *Cont, fn *ssa.Function) (bool, string) {
	return delegateShape(a, ct, fn, "copy")
}

// delegateShape: fn's single return value is the (asserted/converted) result of calling `callee` on the receiver or its ego, and fn
// does nothing else that mutates.
func delegateShape(a *E3, ct *Cont, fn *ssa.Function, callee string) (bool, string) {
	var ret *ssa.Return
	for _, b := range fn.Blocks {
		if r, ok := b.Instrs[len(b.Instrs)-1].(*ssa.Return); ok {
			if ret != nil && len(r.Results) == 1 && len(ret.Results) == 1 && r.Results[0] != ret.Results[0] {
				return false, "Clone has more than one distinct return value"
			}
			ret = r
		}
	}
	if ret == nil || len(ret.Results) != 1 {
		return false, "Clone has no single-value return"
	}
	v := ret.Results[0]
	var strip func(v ssa.Value, depth int) ssa.Value
	strip = func(v ssa.Value, depth int) ssa.Value {
		for depth < 8 {
			switch x := v.(type) {
			case *ssa.MakeInterface:
				v = x.X
				continue
			case *ssa.ChangeInterface:
				v = x.X
				continue
			case *ssa.TypeAssert:
				v = x.X
				continue
			case *ssa.Extract:
				// v, ok := y.(T): the asserted value
				if ta, isTA := x.Tuple.(*ssa.TypeAssert); isTA && x.Index == 0 {
					v = ta.X
					continue
				}
			case *ssa.Phi:
				// a named result assigned in the arms of a type switch on one value: every arm hands on that value
				var one ssa.Value
				for _, e := range x.Edges {
					s := strip(e, depth+1)
					if one != nil && s != one {
						return v
					}
					one = s
				}
				if one != nil {
					v = one
					continue
				}
			}
			break
		}
		return v
	}
	v = strip(v, 0)
	call, ok := v.(*ssa.Call)
	if !ok {
		return false, "Clone does not return the result of a call (origin " + a.get(ret.Results[0]).String() + ")"
	}
	cc := call.Common()
	args := callArgs(cc)
	isCopy := false
	for _, cal := range a.Callees(cc) {
		if cal.Name() == callee && a.inPkg(cal) {
			isCopy = true
		}
	}
	if !isCopy && cc.IsInvoke() && cc.Method.Name() == callee {
		isCopy = true
	}
	if !isCopy || len(args) != 1 {
		return false, "Clone returns the result of " + cc.String() + ", not of copy()"
	}
	if o := a.get(args[0]); o&oROOTS != oRECV {
		return false, "copy() is invoked on origin " + o.String() + ", not on the receiver"
	}
	for _, b := range fn.Blocks {
		for _, in := range b.Instrs {
			if c2, ok := in.(ssa.CallInstruction); ok && c2 != ssa.CallInstruction(call) {
				for _, cal := range a.Callees(c2.Common()) {
					if s := a.sum[cal]; s != nil && (s.MutRecv || s.MutParam[1]) {
						return false, "Clone performs a mutating call " + cal.Name()
					}
				}
			}
		}
	}
	return true, "returns copy() of the receiver/ego unmodified"
}

// scalarCopyIsPayload: on every path of the wrapper's copy() the returned term is the receiver's payload (field or getVal() assertion).
func (c *Ctx) scalarCopyIsPayload(name string) string {
	fd := c.Decl(name)
	if fd == nil {
		return "declaration not found"
	}
	paths, why := c.runPaths(fd)
	if why != "" {
		return "body outside the path vocabulary: " + why
	}
	v := c.view(fd)
	for _, p := range paths {
		if p.End != "return" || len(p.Vals) != 1 {
			return "a path does not return a value"
		}
		if !v.isPayloadTerm(p.Vals[0]) {
			if e, ok := v.valueOf(p.Vals[0]); !ok || !v.isRecv(e) {
				return "returns " + c.termStr(p.Vals[0])
			}
		}
	}
	return ""
}
