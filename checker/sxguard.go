package main

// Redundant defensive guards.
//
// `if len(ego.val) == 0 { return false }` in front of `_, ok := ego.val[key]; return ok`, `if value == nil { return nil }` in front of a
// type switch whose default arm returns the operand, `if ego.val == nil || …` — guards that send a call down a fast path which does
// exactly what the general code would have done for that input. Whether a guard is of that kind is *computed*: the paths that took the
// other branch are re-read under the facts the guard's condition implies (an empty or nil collection has length 0, no entry under any
// key, nothing to range over, nothing to delete; a nil interface value is of no type), decisions that became constants are applied, and
// the outcome is compared with the fast path's. Equal: the guard decides nothing and is dropped, with its fast path. Different (or not
// decidable by these facts): everything stays as written and the rules judge the function with its guard.

import (
	"fmt"
	"go/constant"
	"go/token"
	"go/types"
	"strings"
)

type guardFact struct {
	kind string // "empty" (collection M has no entries), "nilcoll" (M is nil, hence empty), "niliface" (interface value X is nil)
	x    Term
}

// factOf: what the decision (t, truth) says, when it says one of the supported things.
func (v *sxView) factOf(t Term, truth bool) *guardFact {
	c := v.c
	b, ok := simplify(t).(TBin)
	if !ok {
		return nil
	}
	coll := func(x Term) bool {
		tt := c.termType(x)
		if tt == nil {
			return false
		}
		switch tt.Underlying().(type) {
		case *types.Slice, *types.Map:
			return true
		}
		return false
	}
	iface := func(x Term) bool {
		tt := c.termType(x)
		if tt == nil {
			return false
		}
		_, isI := tt.Underlying().(*types.Interface)
		return isI
	}
	lenOf := func(x Term) Term {
		if bl, ok := x.(TBuiltin); ok && bl.Name == "len" && len(bl.Args) == 1 && coll(bl.Args[0]) {
			return bl.Args[0]
		}
		return nil
	}
	for idx, pair := range [][2]Term{{b.X, b.Y}, {b.Y, b.X}} {
		l, r := pair[0], pair[1]
		flipped := idx == 1
		if _, isNil := r.(TNil); isNil && (b.Op == token.EQL || b.Op == token.NEQ) {
			if truth == (b.Op == token.EQL) {
				switch {
				case coll(l):
					return &guardFact{"nilcoll", l}
				case iface(l):
					return &guardFact{"niliface", l}
				}
			}
			return nil
		}
		if m := lenOf(l); m != nil {
			if k, isK := constInt(r); isK {
				op := b.Op
				if flipped {
					op = map[token.Token]token.Token{token.LSS: token.GTR, token.GTR: token.LSS, token.LEQ: token.GEQ, token.GEQ: token.LEQ, token.EQL: token.EQL, token.NEQ: token.NEQ}[op]
				}
				// len(m) OP k with the given truth means len(m) == 0?
				holds0 := func(n int64) bool {
					var val bool
					switch op {
					case token.EQL:
						val = n == k
					case token.NEQ:
						val = n != k
					case token.LSS:
						val = n < k
					case token.LEQ:
						val = n <= k
					case token.GTR:
						val = n > k
					case token.GEQ:
						val = n >= k
					}
					return val == truth
				}
				if holds0(0) && !holds0(1) && !holds0(2) && !holds0(1<<20) {
					return &guardFact{"empty", m}
				}
			}
		}
	}
	return nil
}

// specialise re-reads p under the fact; nil when p is infeasible under it, ok=false when a step of p is outside what the facts decide.
func (v *sxView) underFact(p *Path, f *guardFact) (*Path, bool) {
	c := v.c
	same := func(t Term) bool { return sameTerm(eraseEpochs(t), eraseEpochs(f.x)) }
	zero := func(t types.Type) Term {
		if t == nil {
			return nil
		}
		switch u := t.Underlying().(type) {
		case *types.Interface, *types.Pointer, *types.Slice, *types.Map:
			return TNil{}
		case *types.Basic:
			switch {
			case u.Info()&types.IsBoolean != 0:
				return TConst{constant.MakeBool(false)}
			case u.Info()&types.IsString != 0:
				return TConst{constant.MakeString("")}
			case u.Info()&types.IsInteger != 0:
				return TConst{constant.MakeInt64(0)}
			}
		}
		return nil
	}
	rw := func(t Term) (Term, bool) {
		switch f.kind {
		case "empty", "nilcoll":
			switch x := t.(type) {
			case TBuiltin:
				if x.Name == "len" && len(x.Args) == 1 && same(x.Args[0]) {
					return TConst{constant.MakeInt64(0)}, true
				}
			case TProj:
				if ix, ok := x.X.(TIndex); ok && same(ix.X) {
					if _, isMap := c.termType(ix.X).Underlying().(*types.Map); isMap {
						if x.K == 1 {
							return TConst{constant.MakeBool(false)}, true
						}
						if z := zero(c.termType(ix)); z != nil {
							return z, true
						}
					}
				}
			case TIndex:
				if same(x.X) {
					if tt := c.termType(x.X); tt != nil {
						if _, isMap := tt.Underlying().(*types.Map); isMap {
							if z := zero(c.termType(x)); z != nil {
								return z, true
							}
						}
					}
				}
			case TBin:
				if f.kind == "nilcoll" && (x.Op == token.EQL || x.Op == token.NEQ) {
					for _, pair := range [][2]Term{{x.X, x.Y}, {x.Y, x.X}} {
						if _, isNil := pair[1].(TNil); isNil && same(pair[0]) {
							return TConst{constant.MakeBool(x.Op == token.EQL)}, true
						}
					}
				}
			}
		case "niliface":
			switch x := t.(type) {
			case TTypeIs:
				if same(x.X) {
					return TConst{constant.MakeBool(x.To == nil)}, true
				}
			case TProj:
				if as, ok := x.X.(TAssert); ok && same(as.X) {
					if x.K == 1 {
						return TConst{constant.MakeBool(false)}, true
					}
					if z := zero(as.To); z != nil {
						return z, true // the zero value a failed comma-ok assertion yields
					}
				}
			case TBin:
				if x.Op == token.EQL || x.Op == token.NEQ {
					for _, pair := range [][2]Term{{x.X, x.Y}, {x.Y, x.X}} {
						if _, isNil := pair[1].(TNil); isNil && same(pair[0]) {
							return TConst{constant.MakeBool(x.Op == token.EQL)}, true
						}
					}
				}
			}
			if same(t) {
				return TNil{}, true
			}
		}
		return nil, false
	}
	// a path one of whose own decisions the fact contradicts is infeasible, whatever else it does
	for _, s := range p.Steps {
		if s.Kind == "cond" {
			ct := mapBU(mapTerm(s.Cond.T, rw), simplify)
			if isConstBoolTerm(ct, !s.Cond.Truth) {
				return nil, true
			}
		}
	}
	q := *p
	q.Steps = nil
	loopInit := map[int]map[types.Object]Term{}
	for _, s := range p.Steps {
		switch s.Kind {
		case "loop":
			l := s.Loop
			if l == nil {
				return nil, false
			}
			runsZero := false
			if f.kind != "niliface" {
				if l.Range != nil && same(l.Over) {
					runsZero = true
				} else if l.CondT != nil {
					// the header with the loop's variables at their initial values
					ct := mapTerm(mapTerm(l.CondT, func(t Term) (Term, bool) {
						if lv, ok := t.(TLoop); ok && lv.ID == l.ID {
							if init, has := l.Init[lv.Obj]; has {
								return init, true
							}
						}
						return nil, false
					}), rw)
					if isConstBoolTerm(mapBU(ct, simplify), false) {
						runsZero = true
					}
				}
			}
			if !runsZero {
				// a loop whose rounds, under the fact, do and carry nothing (`for _, k := range keys { delete(m, k) }` on an empty m)
				idle := len(l.Iter) > 0
				for _, ip := range l.Iter {
					sp, ok := v.underFact(ip, f)
					if !ok {
						return nil, false
					}
					if sp == nil {
						continue
					}
					if sp.End != "fall" && sp.End != "continue" {
						idle = false
					}
					for _, st := range sp.Steps {
						if st.Kind != "cond" {
							idle = false
						}
					}
					for o, t := range ip.Env {
						if lv, same := t.(TLoop); !same || lv.Obj != o {
							if o != l.Key && o != l.Value {
								idle = false
							}
						}
					}
				}
				if !idle {
					return nil, false
				}
				continue
			}
			loopInit[l.ID] = l.Init
			continue
		case "call":
			if s.Blt != nil && s.Blt.Name == "delete" && len(s.Blt.Args) == 2 && f.kind != "niliface" && same(s.Blt.Args[0]) {
				continue // nothing to delete
			}
		}
		q.Steps = append(q.Steps, s)
	}
	sub := func(t Term) (Term, bool) {
		if lv, ok := t.(TLoop); ok {
			if init, has := loopInit[lv.ID]; has {
				if it, ok := init[lv.Obj]; ok {
					return mapTerm(it, rw), true // the loop did not run: its variables keep their initial values
				}
			}
		}
		return rw(t)
	}
	r := mapPath(&q, sub)
	r = mapPath(r, func(t Term) (Term, bool) { return mapBU(t, simplify), true })
	var steps []Step
	for _, s := range r.Steps {
		if s.Kind == "cond" {
			if isConstBoolTerm(s.Cond.T, s.Cond.Truth) {
				continue
			}
			if isConstBoolTerm(s.Cond.T, !s.Cond.Truth) {
				return nil, true
			}
		}
		steps = append(steps, s)
	}
	r.Steps = steps
	return r, true
}

func (v *sxView) guardSpecNorm(paths []*Path) []*Path {
	for round := 0; round < 48; round++ {
		changed := false
	search:
		for fi, pf := range paths {
			if pf.Why != "" || (pf.End != "return" && pf.End != "panic") {
				continue
			}
			// the fast path: decisions (and the creation of an empty result) only; its last decision is the guard
			gi := -1
			pure := true
			for k, s := range pf.Steps {
				switch {
				case s.Kind == "cond":
					gi = k
				case v.emptyCtorStep(s):
				default:
					pure = false
				}
			}
			if !pure || gi < 0 {
				continue
			}
			for k := gi + 1; k < len(pf.Steps); k++ {
				if pf.Steps[k].Kind == "cond" {
					pure = false
				}
			}
			g := pf.Steps[gi].Cond
			fact := v.factOf(g.T, g.Truth)
			if fact == nil {
				continue
			}
			// the paths that took the other branch after the same prefix
			var slow []int
			for i, p := range paths {
				if i == fi || len(p.Steps) <= gi || p.Why != "" {
					continue
				}
				same := true
				for k := 0; k < gi && same; k++ {
					a, b := p.Steps[k], pf.Steps[k]
					switch {
					case a.Kind != b.Kind:
						same = false
					case a.Kind == "cond":
						same = sameTerm(a.Cond.T, b.Cond.T) && a.Cond.Truth == b.Cond.Truth
					default:
						same = a.Node == b.Node
					}
				}
				if !same {
					continue
				}
				s := p.Steps[gi]
				if s.Kind == "cond" && sameTerm(s.Cond.T, g.T) && s.Cond.Truth != g.Truth {
					slow = append(slow, i)
				}
			}
			if len(slow) == 0 {
				continue
			}
			if pf.End == "panic" {
				continue // panic values are not compared here
			}
			// the fast path without its guard, under the guard's own fact
			fastRest := clonePath(pf)
			fastRest.Steps = append(append([]Step(nil), pf.Steps[:gi]...), pf.Steps[gi+1:]...)
			fp, okF := v.underFact(fastRest, fact)
			if !okF || fp == nil {
				continue
			}
			decisions := func(p *Path) ([]string, bool) {
				var out []string
				for _, s := range p.Steps {
					switch {
					case s.Kind == "cond":
						out = append(out, boolStr(s.Cond.Truth)+key(eraseEpochs(s.Cond.T)))
					case v.emptyCtorStep(s):
					default:
						return nil, false
					}
				}
				return out, true
			}
			fd, okD := decisions(fp)
			if !okD {
				continue
			}
			var specialised []*Path
			for _, i := range slow {
				p := paths[i]
				rest := clonePath(p)
				rest.Steps = append(append([]Step(nil), p.Steps[:gi]...), p.Steps[gi+1:]...)
				sp, ok := v.underFact(rest, fact)
				if !ok {
					continue search
				}
				if sp != nil {
					specialised = append(specialised, sp) // (nil: infeasible under the guard's condition)
				}
			}
			// what the general code does under the guard's condition, alternatives that differ in one decision only merged
			specialised = v.siblingMerge(specialised)
			if len(specialised) != 1 {
				continue
			}
			matched := 0
			{
				sp := specialised[0]
				// the same outcome as the fast path, having done and decided nothing more
				if sp.End != fp.End || len(sp.Vals) != len(fp.Vals) {
					continue search
				}
				sd, okS := decisions(sp)
				if !okS || len(sd) != len(fd) {
					continue search
				}
				for k := range sd {
					if sd[k] != fd[k] {
						continue search
					}
				}
				for k := range sp.Vals {
					a, b := sp.Vals[k], fp.Vals[k]
					if !sameTerm(eraseEpochs(a), eraseEpochs(b)) && !(freshEmptyContainer(v.c, a, true) && freshEmptyContainer(v.c, b, true)) && !(freshEmptyContainer(v.c, a, false) && freshEmptyContainer(v.c, b, false)) {
						continue search
					}
				}
				matched++
			}
			if matched == 0 {
				continue
			}
			var out []*Path
			for i, p := range paths {
				if i == fi {
					continue
				}
				isSlow := false
				for _, j := range slow {
					if j == i {
						isSlow = true
					}
				}
				if isSlow {
					q := clonePath(p)
					q.Steps = append(append([]Step(nil), p.Steps[:gi]...), p.Steps[gi+1:]...)
					out = append(out, q)
				} else {
					out = append(out, p)
				}
			}
			paths = out
			changed = true
			break
		}
		if !changed {
			break
		}
	}
	return v.presenceFacts(paths)
}

// presenceFacts: a path that found an entry in a map (`_, ok := m[k]` with ok true) cannot also find that map nil or empty: such a
// path is infeasible, and the opposite finding is no decision.
func (v *sxView) presenceFacts(paths []*Path) []*Path {
	var out []*Path
	for _, p := range paths {
		var maps []Term
		for _, cd := range p.Conds() {
			if pr, ok := cd.T.(TProj); ok && pr.K == 1 && cd.Truth {
				if ix, ok := pr.X.(TIndex); ok {
					if tt := v.c.termType(ix.X); tt != nil {
						if _, isMap := tt.Underlying().(*types.Map); isMap {
							maps = append(maps, ix.X)
						}
					}
				}
			}
		}
		if len(maps) == 0 {
			out = append(out, p)
			continue
		}
		feasible := true
		var steps []Step
		changed := false
		for _, s := range p.Steps {
			if s.Kind == "cond" {
				// does the decision say "the map is empty / nil" (or deny it)?
				drop := false
				for _, truth := range []bool{true, false} {
					if f := v.factOf(s.Cond.T, truth); f != nil && (f.kind == "empty" || f.kind == "nilcoll") {
						for _, m := range maps {
							if sameTerm(eraseEpochs(m), eraseEpochs(f.x)) {
								if s.Cond.Truth == truth {
									feasible = false
								} else {
									drop = true
								}
							}
						}
					}
				}
				if drop {
					changed = true
					continue
				}
			}
			steps = append(steps, s)
		}
		if !feasible {
			continue
		}
		if changed {
			q := clonePath(p)
			q.Steps = steps
			out = append(out, q)
		} else {
			out = append(out, p)
		}
	}
	return out
}

func min(a, b int) int {
	if a < b {
		return a
	}
	return b
}

// sortGuardNorm: `if len(xs) > 1 { sort.Ints(xs) }` — sorting a slice of at most one element changes nothing, so the two alternatives
// (guard true: sort, then the rest; guard false: the rest) are the one path that sorts unconditionally. Recognised only for a guard
// that is false exactly for the lengths 0 and 1 of the very slice the sort call is given, the call being the step right behind it.
func (v *sxView) sortGuardNorm(paths []*Path) []*Path {
	isSort := func(s Step) Term {
		if s.Kind != "call" || s.Call == nil || s.Call.Fun == nil || s.Call.Fun.Pkg() == nil || s.Call.Fun.Pkg().Path() != "sort" || len(s.Call.Args) != 1 || s.Call.Recv != nil {
			return nil
		}
		switch s.Call.Fun.Name() {
		case "Ints", "Strings", "Float64s", "Sort", "Stable":
			a := s.Call.Args[0]
			if cv, ok := a.(TConv); ok {
				a = cv.X // sort.Sort(sort.IntSlice(xs))
			}
			return a
		}
		return nil
	}
	shortOnly := func(cd Cond, xs Term) bool { // the decision is true exactly for len(xs) >= 2
		for _, n := range []int64{0, 1, 2, 3, 1 << 20} {
			e := &termEnv{hook: func(u Term) (int64, bool) {
				if bl, ok := u.(TBuiltin); ok && bl.Name == "len" && len(bl.Args) == 1 && sameTerm(eraseEpochs(bl.Args[0]), eraseEpochs(xs)) {
					return n, true
				}
				return 0, false
			}}
			val, ok := e.bool(cd.T)
			if !ok || (val == cd.Truth) != (n >= 2) {
				return false
			}
		}
		return true
	}
	for again := true; again; {
		again = false
	search:
		for i, p := range paths {
			for k := 0; k+1 < len(p.Steps); k++ {
				if p.Steps[k].Kind != "cond" {
					continue
				}
				xs := isSort(p.Steps[k+1])
				if xs == nil || !shortOnly(p.Steps[k].Cond, xs) {
					continue
				}
				// the sibling: same steps without the guard and the call, the guard decided the other way
				for j, q := range paths {
					if j == i || len(q.Steps) != len(p.Steps)-1 || q.End != p.End {
						continue
					}
					if q.Steps[k].Kind != "cond" || !sameTerm(q.Steps[k].Cond.T, p.Steps[k].Cond.T) || q.Steps[k].Cond.Truth == p.Steps[k].Cond.Truth {
						continue
					}
					same := true
					for a := 0; a < len(q.Steps) && same; a++ {
						b := a
						if a > k {
							b = a + 1
						}
						if a == k {
							continue
						}
						sa, sb := q.Steps[a], p.Steps[b]
						switch {
						case sa.Kind != sb.Kind:
							same = false
						case sa.Kind == "cond":
							same = sameTerm(eraseEpochs(sa.Cond.T), eraseEpochs(sb.Cond.T)) && sa.Cond.Truth == sb.Cond.Truth
						default:
							same = sa.Node == sb.Node
						}
					}
					if !same {
						continue
					}
					m := clonePath(p)
					m.Steps = append(append([]Step(nil), p.Steps[:k]...), p.Steps[k+1:]...)
					var out []*Path
					for x, r := range paths {
						switch x {
						case i:
							out = append(out, m)
						case j:
						default:
							out = append(out, r)
						}
					}
					paths = out
					again = true
					break search
				}
			}
		}
	}
	return paths
}

// panicTailNorm: once a path can only panic — every path that shares its decisions so far ends in a panic, and none does anything on
// the way there but decide — what it still decides is which message the panic carries (`it is a <kind>` chosen by a switch over the
// offending value). Such paths are presented as the one path that panics at that point; the message is not modelled.
func panicTailNorm(paths []*Path) []*Path {
	stepKey := func(s Step) string {
		switch s.Kind {
		case "cond":
			return "if[" + boolStr(s.Cond.Truth) + "]" + key(s.Cond.T)
		case "store":
			return "store " + key(s.LHS) + "=" + key(s.RHS)
		case "call":
			if s.Call != nil {
				return "call " + key(*s.Call)
			}
			if s.Blt != nil {
				return "call " + key(*s.Blt)
			}
		case "loop":
			if s.Loop != nil {
				return fmt.Sprintf("loop%d@%p", s.Loop.ID, s.Loop)
			}
		}
		return s.Kind + fmt.Sprintf("@%p", s.Node)
	}
	keys := make([][]string, len(paths))
	for i, p := range paths {
		if p.Why != "" {
			return paths
		}
		for _, s := range p.Steps {
			keys[i] = append(keys[i], stepKey(s))
		}
	}
	hasPrefix := func(i int, pre []string) bool {
		if len(keys[i]) < len(pre) {
			return false
		}
		for k := range pre {
			if keys[i][k] != pre[k] {
				return false
			}
		}
		return true
	}
	// cut[i]: the shortest prefix of panic path i after which everything that shares it only decides and panics
	cut := make([]int, len(paths))
	for i, p := range paths {
		cut[i] = -1
		if p.End != "panic" {
			continue
		}
		for n := 0; n < len(p.Steps); n++ {
			pre := keys[i][:n]
			good := true
			members := 0
			for j, q := range paths {
				if !hasPrefix(j, pre) {
					continue
				}
				members++
				if q.End != "panic" {
					good = false
					break
				}
				for _, s := range q.Steps[n:] {
					if s.Kind != "cond" {
						good = false
						break
					}
				}
				if !good {
					break
				}
			}
			if good && members > 1 {
				cut[i] = n
				break
			}
			if good && members == 1 {
				break // alone already: nothing to merge
			}
		}
	}
	var out []*Path
	seen := map[string]bool{}
	changed := false
	for i, p := range paths {
		if cut[i] < 0 {
			out = append(out, p)
			continue
		}
		k := strings.Join(keys[i][:cut[i]], ";")
		changed = true
		if seen[k] {
			continue
		}
		seen[k] = true
		q := clonePath(p)
		q.Steps = append([]Step(nil), p.Steps[:cut[i]]...)
		q.Vals = nil
		out = append(out, q)
	}
	if !changed {
		return paths
	}
	return out
}

// tryExitNorm: a `try…` helper with a loop that returns a failure from inside the loop, inlined into its `must` wrapper that panics on
// that failure (`if err := ego.trySet(values); err != nil { panic(err.Error()) }`): SX shows the helper's early return as an iteration
// path ending in "return", and one function-level path per such exit that repeats the exit's decisions after the loop and then panics.
// When every continuation of an exit decides nothing else, has no effect and panics, the exit IS a panic inside the loop (what the
// un-split method had), and the continuation paths are dropped. Exits whose continuation does anything else are left alone.
func tryExitNorm(paths []*Path) []*Path {
	type cont struct {
		idx int
		p   *Path
	}
	// group function-level paths by their last loop
	lastLoop := func(p *Path) (int, *LoopRec) {
		for i := len(p.Steps) - 1; i >= 0; i-- {
			if p.Steps[i].Kind == "loop" && p.Steps[i].Loop != nil {
				return i, p.Steps[i].Loop
			}
		}
		return -1, nil
	}
	byLoop := map[*LoopRec][]cont{}
	for i, p := range paths {
		if p.Why != "" {
			return paths
		}
		if _, l := lastLoop(p); l != nil {
			byLoop[l] = append(byLoop[l], cont{i, p})
		}
	}
	drop := map[int]bool{}
	repl := map[*LoopRec]*LoopRec{}
	for l, group := range byLoop {
		var exits []int
		for qi, q := range l.Iter {
			if q.End == "return" {
				exits = append(exits, qi)
			}
		}
		if len(exits) == 0 || len(group) < 2 {
			continue
		}
		newIter := append([]*Path(nil), l.Iter...)
		okAll := true
		var dropped []int
		for _, qi := range exits {
			q := l.Iter[qi]
			qc := q.Conds()
			if len(qc) == 0 {
				okAll = false
				break
			}
			matched := 0
			var val []Term
			for _, g := range group {
				k, _ := lastLoop(g.p)
				post := g.p.Steps[k+1:]
				// the continuation repeats the exit's decisions, in order, and decides nothing else; no effects
				if len(post) != len(qc) {
					continue
				}
				same := true
				for j, st := range post {
					if st.Kind != "cond" || st.Cond.Truth != qc[j].Truth || !sameTerm(eraseEpochs(st.Cond.T), eraseEpochs(qc[j].T)) {
						same = false
						break
					}
				}
				if !same {
					continue
				}
				if g.p.End != "panic" {
					okAll = false
					break
				}
				matched++
				val = g.p.Vals
				dropped = append(dropped, g.idx)
			}
			if !okAll || matched != 1 {
				okAll = false
				break
			}
			nq := *q
			nq.End = "panic"
			nq.Vals = val
			newIter[qi] = &nq
		}
		if !okAll {
			continue
		}
		nl := *l
		nl.Iter = newIter
		repl[l] = &nl
		for _, d := range dropped {
			drop[d] = true
		}
	}
	if len(repl) == 0 {
		return paths
	}
	debugf("tryExitNorm: %d paths, %d loops rewritten, %d continuation paths dropped\n", len(paths), len(repl), len(drop))
	var out []*Path
	for i, p := range paths {
		if drop[i] {
			continue
		}
		k, l := lastLoop(p)
		if nl, ok := repl[l]; ok && l != nil {
			q := *p
			q.Steps = append([]Step(nil), p.Steps...)
			q.Steps[k].Loop = nl
			out = append(out, &q)
			continue
		}
		out = append(out, p)
	}
	return out
}
