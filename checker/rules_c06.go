package main

// C06 — Object behaves as a string-keyed map with reference semantics (operand-role clauses).

import (
	"go/ast"
	"go/token"
	"go/types"
)

func init() {
	register(&Property{
		ID: "C06",
		Explanation: "Object methods are thin wrappers over Go map operations (trusted semantics); decided are the operand roles: Set's panics are guarded by exactly `odd count` and `key not a string` and its pairs are applied in ascending order by " +
			"plain map assignment of parseVal(values[i+1]) under values[i].(string) (last pair wins); Unset deletes each argument, Clear installs a fresh map, KeyExists/Get/TypeOf index the same spine, Get panics exactly on a missing key, " +
			"KeyOf panics exactly after an exhausted search; Merge clones the RECEIVER and Sets the ARGUMENT's pairs into it; Pluck Sets Get(key) unconditionally for every requested key; Keys/Values range the spine unfiltered; observers are write-free (E3). " +
			"Full map-model conformance over all histories is not decided.",
		Rules: []Rule{
			{ID: "C06.R1", Doc: "Set: odd-count panic, non-string-key panic, ascending pairs i=0,2,.., map assignment spine[values[i].(string)] = parseVal(values[i+1])", Run: c06Set},
			{ID: "C06.R2", Doc: "Unset/Clear/KeyExists/Get/KeyOf operate on the receiver's spine with the documented panic conditions", Run: c06Basics},
			{ID: "C06.R3", Doc: "Merge: result = clone of the receiver; pairs Set into it come from iterating the argument", Run: c06Merge},
			{ID: "C06.R4", Doc: "Pluck: unconditional result.Set(key, self.Get(key)) for every requested key", Run: c06Pluck},
			{ID: "C06.R5", Doc: "Keys/Values/Contains range the receiver's spine unfiltered, once per field", Run: c06Views},
			{ID: "C06.R7", Doc: "PURE: observers and deriving operations write nothing pre-existing", Run: func(c *Ctx) {
				names := []string{"Get", "GetObject", "GetList", "GetString", "GetBool", "GetInt", "GetFloat", "TypeOf", "KeyExists", "Count", "Empty", "Keys", "Values", "Dict", "Contains", "KeyOf", "Merge", "Pluck"}
				var full []string
				for _, n := range names {
					full = append(full, "(*object)."+n)
				}
				c.R.Floor("C06.R7", pureRule(c, "C06.R7", full), 18)
			}},
		},
	})
}

func soleParam(c *Ctx, fd *ast.FuncDecl) types.Object {
	if fd.Type.Params == nil || len(fd.Type.Params.List) != 1 || len(fd.Type.Params.List[0].Names) != 1 {
		return nil
	}
	return c.Info.Defs[fd.Type.Params.List[0].Names[0]]
}

func c06Set(c *Ctx) {
	fd := c.NeedDecl("C06.R1", "(*object).Set")
	if fd == nil {
		return
	}
	values := soleParam(c, fd)
	if values == nil {
		c.Ob("C06.R1", "(*object).Set", fd.Pos()).Undecided("unexpected parameter list")
		return
	}
	// local single-assignment aliases of len(values)
	lenAlias := map[types.Object]bool{}
	for _, s := range fd.Body.List {
		if as, ok := s.(*ast.AssignStmt); ok && as.Tok == token.DEFINE && len(as.Lhs) == 1 && len(as.Rhs) == 1 {
			if call, ok := unparen(as.Rhs[0]).(*ast.CallExpr); ok && c.isBuiltin(call, "len") && c.obj(call.Args[0]) == values {
				if o := c.obj(as.Lhs[0]); o != nil && !writesVarAfterDef(c, fd, o) {
					lenAlias[o] = true
				}
			}
		}
	}
	isLen := func(e ast.Expr) bool {
		e = unparen(e)
		if lenAlias[c.obj(e)] {
			return true
		}
		call, ok := e.(*ast.CallExpr)
		return ok && c.isBuiltin(call, "len") && len(call.Args) == 1 && c.obj(call.Args[0]) == values
	}
	// odd-count panic: an if statement at top level, before the loop, whose body panics
	var oddIf *ast.IfStmt
	var loop *ast.ForStmt
	for _, s := range fd.Body.List {
		switch x := s.(type) {
		case *ast.IfStmt:
			if oddIf == nil && loop == nil && blockPanicsOnly(c, x.Body.List) {
				oddIf = x
			}
		case *ast.ForStmt:
			if loop == nil {
				loop = x
			}
		}
	}
	ob := c.Ob("C06.R1", "(*object).Set/odd-count-panic", fd.Pos())
	if oddIf == nil {
		ob.Fail("no panic guard before the pair loop")
	} else {
		good := true
		why := ""
		for n := int64(0); n <= 9 && good; n++ {
			ev := &evalEnv{c: c, hook: func(e ast.Expr) (int64, bool) {
				if isLen(e) {
					return n, true
				}
				return 0, false
			}}
			v, ok := ev.bool(oddIf.Cond)
			if !ok {
				good, why = false, "guard outside the vocabulary: "+ev.fail
			} else if v != (n%2 == 1) {
				good, why = false, "guard is "+boolStr(v)+" for "+itoa(int(n))+" arguments"
			}
		}
		if good {
			ob.Ok("guard folds to `argument count is odd` for counts 0..9")
		} else {
			ob.Fail("the panic before the loop is not guarded by exactly `odd number of arguments`: %s", why)
		}
	}
	lob := c.Ob("C06.R1", "(*object).Set/pair-loop", fd.Pos())
	if loop == nil || len(allLoops(fd)) != 1 {
		lob.Fail("expected exactly one for loop over the pairs")
		return
	}
	h, ok := c.forHeader(loop)
	if !ok {
		lob.Undecided("loop header outside the vocabulary")
		return
	}
	s0, okS := c.constInt(h.Start)
	if !okS || s0 != 0 || h.Step != 2 || h.Incl || !isLen(h.Bound) {
		lob.Fail("pairs are not visited as i = 0, 2, 4, … < len(values) in ascending order (start %s, step %d): with duplicate keys the last pair must win", exprStr(h.Start), h.Step)
		return
	}
	if why := loopHasEarlyExit(loop); why != "" {
		lob.Fail("%s inside the pair loop", why)
		return
	}
	nf := c.loopNormalForm(loop.Body)
	if len(nf.Undecided) > 0 {
		lob.Undecided("pair loop body outside the vocabulary: %v", nf.Undecided)
		return
	}
	// expect: test name,ok := values[i].(string); action panic guarded by !ok; action map assignment unguarded (after the panic)
	idxIs := func(e ast.Expr, off int64) bool {
		ix, ok := unparen(e).(*ast.IndexExpr)
		if !ok || c.obj(ix.X) != values {
			return false
		}
		for _, iv := range []int64{0, 2, 6} {
			ev := &evalEnv{c: c, vars: map[types.Object]int64{h.Var: iv}}
			v, ok := ev.int(ix.Index)
			if !ok || v != iv+off {
				return false
			}
		}
		return true
	}
	var keyTest *kindTest
	for _, t := range nf.Tests {
		if b, ok := t.T.(*types.Basic); ok && b.Kind() == types.String && idxIs(t.Operand, 0) {
			keyTest = t
		}
	}
	if keyTest == nil || len(nf.Tests) != 1 || keyTest.Ok == nil || keyTest.Val == nil {
		lob.Fail("the key is not obtained by the comma-ok assertion values[i].(string)")
		return
	}
	var panics, assigns []lAction
	for _, a := range nf.Actions {
		switch a.Kind {
		case "call":
			if call, ok := a.Stmt.(*ast.ExprStmt).X.(*ast.CallExpr); ok && c.isBuiltin(call, "panic") {
				panics = append(panics, a)
				continue
			}
			assigns = append(assigns, a)
		default:
			assigns = append(assigns, a)
		}
	}
	pob := c.Ob("C06.R1", "(*object).Set/key-panic", loop.Pos())
	if len(panics) == 1 && len(panics[0].Guard) == 1 && panics[0].Guard[0].Neg && c.obj(panics[0].Guard[0].Expr) == keyTest.Ok {
		pob.Ok("panics exactly when values[i] is not a string")
	} else {
		pob.Fail("the in-loop panic is not guarded by exactly `!ok` of the key assertion")
	}
	good := false
	if len(assigns) == 1 && len(assigns[0].Guard) == 0 {
		if as, ok := assigns[0].Stmt.(*ast.AssignStmt); ok && as.Tok == token.ASSIGN && len(as.Lhs) == 1 && len(as.Rhs) == 1 {
			if ix, ok := unparen(as.Lhs[0]).(*ast.IndexExpr); ok && c.isRecvSpine(fd, ix.X) && c.obj(ix.Index) == keyTest.Val {
				if call, ok := unparen(as.Rhs[0]).(*ast.CallExpr); ok && len(call.Args) == 1 && idxIs(call.Args[0], 1) {
					if cal := c.callee(call); cal != nil && cal.Name() == "parseVal" && cal.Pkg() == c.Types {
						good = true
					}
				}
			}
		}
	}
	lob.Check(good, "for i = 0,2,…: spine[values[i].(string)] = parseVal(values[i+1]) — plain map assignment in argument order, so the last pair wins",
		"pair loop does not perform exactly one unconditional `spine[key_i] = parseVal(values[i+1])` per pair")
}

func boolStr(b bool) string {
	if b {
		return "true"
	}
	return "false"
}

func writesVarAfterDef(c *Ctx, fd *ast.FuncDecl, v types.Object) bool {
	n := 0
	ast.Inspect(fd.Body, func(m ast.Node) bool {
		switch x := m.(type) {
		case *ast.AssignStmt:
			for _, l := range x.Lhs {
				if c.obj(l) == v {
					n++
				}
			}
		case *ast.IncDecStmt:
			if c.obj(x.X) == v {
				n++
			}
		case *ast.UnaryExpr:
			if x.Op == token.AND && c.obj(x.X) == v {
				n++
			}
		}
		return true
	})
	return n > 1
}

func c06Basics(c *Ctx) {
	n := 0
	// Unset
	if fd := c.NeedDecl("C06.R2", "(*object).Unset"); fd != nil {
		n++
		ob := c.Ob("C06.R2", "(*object).Unset", fd.Pos())
		keys := soleParam(c, fd)
		good := len(fd.Body.List) == 2
		if good {
			rs, ok := fd.Body.List[0].(*ast.RangeStmt)
			good = ok && c.obj(rs.X) == keys && keys != nil && loopHasEarlyExit(rs) == "" && len(rs.Body.List) == 1
			if good {
				es, ok := rs.Body.List[0].(*ast.ExprStmt)
				good = ok
				if good {
					call, ok := es.X.(*ast.CallExpr)
					good = ok && c.isBuiltin(call, "delete") && len(call.Args) == 2 && c.isRecvSpine(fd, call.Args[0]) && rs.Value != nil && c.sameExpr(call.Args[1], rs.Value)
				}
			}
		}
		ob.Check(good, "delete(spine, key) for every argument and nothing else (a missing key is a no-op by map semantics; no argument => no change)", "Unset is not exactly one delete(spine, key) per argument")
	}
	// Clear
	if fd := c.NeedDecl("C06.R2", "(*object).Clear"); fd != nil {
		n++
		ob := c.Ob("C06.R2", "(*object).Clear", fd.Pos())
		good := len(fd.Body.List) == 2
		if good {
			as, ok := fd.Body.List[0].(*ast.AssignStmt)
			good = ok && len(as.Lhs) == 1 && c.isRecvSpine(fd, as.Lhs[0]) && len(as.Rhs) == 1 && isEmptyFresh(c, as.Rhs[0])
		}
		ob.Check(good, "installs a fresh empty map as the receiver's spine", "Clear does not install a fresh empty map")
	}
	// KeyExists
	if fd := c.NeedDecl("C06.R2", "(*object).KeyExists"); fd != nil {
		n++
		ob := c.Ob("C06.R2", "(*object).KeyExists", fd.Pos())
		key := soleParam(c, fd)
		good := len(fd.Body.List) == 2
		if good {
			as, ok := fd.Body.List[0].(*ast.AssignStmt)
			r, ok2 := fd.Body.List[1].(*ast.ReturnStmt)
			good = ok && ok2 && len(as.Lhs) == 2 && len(as.Rhs) == 1 && len(r.Results) == 1 && c.obj(r.Results[0]) == c.obj(as.Lhs[1]) && c.obj(as.Lhs[1]) != nil
			if good {
				ix, ok := unparen(as.Rhs[0]).(*ast.IndexExpr)
				good = ok && c.isRecvSpine(fd, ix.X) && c.obj(ix.Index) == key
			}
		}
		ob.Check(good, "returns the comma-ok of spine[key]", "KeyExists is not `_, ok := spine[key]; return ok`")
	}
	// Get
	if fd := c.NeedDecl("C06.R2", "(*object).Get"); fd != nil {
		n++
		ob := c.Ob("C06.R2", "(*object).Get", fd.Pos())
		key := soleParam(c, fd)
		good := len(fd.Body.List) == 3
		if good {
			as, ok := fd.Body.List[0].(*ast.AssignStmt)
			is, ok2 := fd.Body.List[1].(*ast.IfStmt)
			r, ok3 := fd.Body.List[2].(*ast.ReturnStmt)
			good = ok && ok2 && ok3 && len(as.Lhs) == 2 && len(as.Rhs) == 1 && len(r.Results) == 1
			if good {
				ix, ok := unparen(as.Rhs[0]).(*ast.IndexExpr)
				good = ok && c.isRecvSpine(fd, ix.X) && c.obj(ix.Index) == key
				at := atomOf(is.Cond, false)
				good = good && at.Neg && c.obj(at.Expr) == c.obj(as.Lhs[1]) && c.obj(as.Lhs[1]) != nil && blockPanicsOnly(c, is.Body.List) && is.Else == nil
				fv, _ := c.obj(as.Lhs[0]).(*types.Var)
				good = good && fv != nil && c.elemForm(r.Results[0], fv) == "val"
			}
		}
		ob.Check(good, "f, ok := spine[key]; panics exactly when !ok; returns f.getVal() (the identical nested container for containers)", "Get is not `f, ok := spine[key]; if !ok {panic}; return f.getVal()`")
	}
	// KeyOf
	if fd := c.NeedDecl("C06.R2", "(*object).KeyOf"); fd != nil {
		n++
		ob := c.Ob("C06.R2", "(*object).KeyOf", fd.Pos())
		val := soleParam(c, fd)
		sl := spineLoops(c, fd)
		good := len(sl) == 1 && len(fd.Body.List) == 2 && fd.Body.List[0] == ast.Stmt(sl[0].Stmt)
		if good {
			l := sl[0]
			nf := c.loopNormalForm(l.Stmt.Body)
			good = len(nf.Undecided) == 0 && len(nf.Actions) == 1 && nf.Actions[0].Kind == "return" && len(nf.Actions[0].Guard) == 1 && !nf.Actions[0].Guard[0].Neg
			if good {
				ret := nf.Actions[0].Stmt.(*ast.ReturnStmt)
				good = len(ret.Results) == 1 && l.Key != nil && c.obj(ret.Results[0]) == l.Key
				be, ok := nf.Actions[0].Guard[0].Expr.(*ast.BinaryExpr)
				good = good && ok && be.Op == token.EQL && ((c.elemForm(be.X, l.Value) == "val" && c.obj(be.Y) == val) || (c.elemForm(be.Y, l.Value) == "val" && c.obj(be.X) == val))
			}
			es, ok := fd.Body.List[1].(*ast.ExprStmt)
			good = good && ok
			if good {
				call, ok := es.X.(*ast.CallExpr)
				good = ok && c.isBuiltin(call, "panic")
			}
		}
		ob.Check(good, "returns the key of the first field whose getVal() == value; panics exactly after an exhausted search", "KeyOf is not a search loop returning the range key followed by a panic")
	}
	c.R.Floor("C06.R2", n, 5)
}

// isEmptyFresh: T{} composite literal without elements, or make(T[, n]).
func isEmptyFresh(c *Ctx, e ast.Expr) bool {
	e = unparen(e)
	switch x := e.(type) {
	case *ast.CompositeLit:
		return len(x.Elts) == 0
	case *ast.CallExpr:
		return c.isBuiltin(x, "make")
	}
	return false
}

func c06Merge(c *Ctx) {
	fd := c.NeedDecl("C06.R3", "(*object).Merge")
	if fd == nil {
		return
	}
	ob := c.Ob("C06.R3", "(*object).Merge", fd.Pos())
	another := soleParam(c, fd)
	if len(fd.Body.List) != 3 || another == nil {
		ob.Fail("Merge is not: result := clone of receiver; iterate the argument setting into result; return result")
		return
	}
	as, ok := fd.Body.List[0].(*ast.AssignStmt)
	if !ok || len(as.Lhs) != 1 || len(as.Rhs) != 1 {
		ob.Fail("first statement does not create the result")
		return
	}
	result := c.obj(as.Lhs[0])
	call, ok := unparen(as.Rhs[0]).(*ast.CallExpr)
	if !ok || len(call.Args) != 0 {
		ob.Fail("result is not a clone")
		return
	}
	sel, ok := unparen(call.Fun).(*ast.SelectorExpr)
	cal := c.callee(call)
	if !ok || cal == nil || cal.Name() != "Clone" {
		ob.Fail("result is not created by Clone")
		return
	}
	if !c.isSelf(fd, sel.X) {
		ob.Fail("the clone is taken of %s, not of the receiver: on a shared key the receiver's value would win instead of the argument's", exprStr(sel.X))
		return
	}
	es, ok := fd.Body.List[1].(*ast.ExprStmt)
	var it *ast.CallExpr
	if ok {
		it, _ = es.X.(*ast.CallExpr)
	}
	if it == nil || len(it.Args) != 1 {
		ob.Fail("second statement is not an iteration of the argument")
		return
	}
	isel, ok := unparen(it.Fun).(*ast.SelectorExpr)
	ical := c.callee(it)
	lit, isLit := unparen(it.Args[0]).(*ast.FuncLit)
	if !ok || c.obj(isel.X) != another || ical == nil || ical.Name() != "ForEach" || !isLit {
		ob.Fail("the pairs set into the result do not come from ForEach over the argument")
		return
	}
	var ps []types.Object
	for _, f := range lit.Type.Params.List {
		for _, nm := range f.Names {
			ps = append(ps, c.Info.Defs[nm])
		}
	}
	good := len(ps) == 2 && len(lit.Body.List) == 1
	if good {
		les, ok := lit.Body.List[0].(*ast.ExprStmt)
		good = ok
		if good {
			sc, ok := les.X.(*ast.CallExpr)
			good = ok && len(sc.Args) == 2 && c.obj(sc.Args[0]) == ps[0] && c.obj(sc.Args[1]) == ps[1]
			if good {
				ssel, ok := unparen(sc.Fun).(*ast.SelectorExpr)
				scal := c.callee(sc)
				good = ok && c.obj(ssel.X) == result && scal != nil && scal.Name() == "Set"
			}
		}
	}
	r, isR := fd.Body.List[2].(*ast.ReturnStmt)
	good = good && isR && len(r.Results) == 1 && c.obj(r.Results[0]) == result
	ob.Check(good, "result = clone(receiver); argument.ForEach(k, v => result.Set(k, v)); return result — the argument's value wins on a shared key", "callback does not Set exactly (key, value) of the argument into the result")
}

func c06Pluck(c *Ctx) {
	fd := c.NeedDecl("C06.R4", "(*object).Pluck")
	if fd == nil {
		return
	}
	ob := c.Ob("C06.R4", "(*object).Pluck", fd.Pos())
	keys := soleParam(c, fd)
	if len(fd.Body.List) != 3 || keys == nil {
		ob.Fail("Pluck is not: result := NewObject(); loop over the requested keys; return result")
		return
	}
	as, ok := fd.Body.List[0].(*ast.AssignStmt)
	rs, ok2 := fd.Body.List[1].(*ast.RangeStmt)
	r, ok3 := fd.Body.List[2].(*ast.ReturnStmt)
	if !ok || !ok2 || !ok3 || len(as.Lhs) != 1 || len(as.Rhs) != 1 {
		ob.Fail("unexpected statement kinds")
		return
	}
	result := c.obj(as.Lhs[0])
	nc, ok := unparen(as.Rhs[0]).(*ast.CallExpr)
	if !ok || len(nc.Args) != 0 || c.callee(nc) == nil || c.callee(nc).Name() != "NewObject" {
		ob.Fail("result does not start as an empty NewObject()")
		return
	}
	if c.obj(rs.X) != keys || rs.Value == nil {
		ob.Fail("loop does not range over the requested keys")
		return
	}
	if why := loopHasEarlyExit(rs); why != "" {
		ob.Fail("%s inside the Pluck loop: some requested key is skipped", why)
		return
	}
	nf := c.loopNormalForm(rs.Body)
	if len(nf.Undecided) > 0 || len(nf.Actions) != 1 {
		ob.Fail("loop body is not a single action")
		return
	}
	a := nf.Actions[0]
	if len(a.Guard) != 0 {
		ob.Fail("the Set is conditional (%s): an absent key is silently skipped instead of panicking", exprStr(a.Guard[0].Expr))
		return
	}
	good := false
	if es, ok := a.Stmt.(*ast.ExprStmt); ok {
		if sc, ok := es.X.(*ast.CallExpr); ok && len(sc.Args) == 2 && c.sameExpr(sc.Args[0], rs.Value) {
			if ssel, ok := unparen(sc.Fun).(*ast.SelectorExpr); ok && c.obj(ssel.X) == result && c.callee(sc) != nil && c.callee(sc).Name() == "Set" {
				if gc, ok := unparen(sc.Args[1]).(*ast.CallExpr); ok && len(gc.Args) == 1 && c.sameExpr(gc.Args[0], rs.Value) {
					if gsel, ok := unparen(gc.Fun).(*ast.SelectorExpr); ok && c.isSelf(fd, gsel.X) && c.callee(gc) != nil && c.callee(gc).Name() == "Get" {
						good = true
					}
				}
			}
		}
	}
	good = good && len(r.Results) == 1 && c.obj(r.Results[0]) == result
	ob.Check(good, "for every requested key: result.Set(key, self.Get(key)) unconditionally (absent key => Get's panic); exactly the requested keys", "loop body is not result.Set(key, self.Get(key))")
}

func c06Views(c *Ctx) {
	n := 0
	for _, spec := range []struct{ name, verb, what string }{{"Keys", "Add", "key"}, {"Values", "Add", "val"}} {
		fd := c.NeedDecl("C06.R5", "(*object)."+spec.name)
		if fd == nil {
			continue
		}
		n++
		ob := c.Ob("C06.R5", "(*object)."+spec.name, fd.Pos())
		sl := spineLoops(c, fd)
		if len(sl) != 1 || len(allLoops(fd)) != 1 {
			ob.Fail("expected one range loop over the receiver's spine")
			continue
		}
		l := sl[0]
		if why := loopHasEarlyExit(l.Stmt); why != "" {
			ob.Fail("%s inside the loop", why)
			continue
		}
		nf := c.loopNormalForm(l.Stmt.Body)
		good := len(nf.Undecided) == 0 && len(nf.Tests) == 0 && len(nf.Actions) == 1 && len(nf.Actions[0].Guard) == 0
		if good {
			es, ok := nf.Actions[0].Stmt.(*ast.ExprStmt)
			good = ok
			if good {
				call, ok := es.X.(*ast.CallExpr)
				good = ok && len(call.Args) == 1 && c.callee(call) != nil && c.callee(call).Name() == spec.verb
				if good {
					if spec.what == "key" {
						good = l.Key != nil && c.obj(call.Args[0]) == l.Key
					} else {
						good = c.elemForm(call.Args[0], l.Value) == "val"
					}
				}
			}
		}
		ob.Check(good, "one unfiltered Add per field of the "+map[string]string{"key": "range key", "val": "field's getVal()"}[spec.what], spec.name+" does not add exactly one entry per field")
	}
	// Contains on both containers: compares getVal() with ==
	for _, ct := range c.Inv().Conts {
		fd := c.Decl("(*" + ct.Named.Obj().Name() + ").Contains")
		if fd == nil {
			continue
		}
		n++
		ob := c.Ob("C06.R5", "(*"+ct.Named.Obj().Name()+").Contains", fd.Pos())
		val := soleParam(c, fd)
		sl := spineLoops(c, fd)
		good := len(sl) == 1 && len(fd.Body.List) == 2
		if good {
			l := sl[0]
			nf := c.loopNormalForm(l.Stmt.Body)
			good = len(nf.Undecided) == 0 && len(nf.Actions) == 1 && nf.Actions[0].Kind == "return" && len(nf.Actions[0].Guard) == 1 && !nf.Actions[0].Guard[0].Neg
			if good {
				be, ok := nf.Actions[0].Guard[0].Expr.(*ast.BinaryExpr)
				good = ok && be.Op == token.EQL && ((c.elemForm(be.X, l.Value) == "val" && c.obj(be.Y) == val) || (c.elemForm(be.Y, l.Value) == "val" && c.obj(be.X) == val))
				good = good && c.returnsConstBoolStmt(nf.Actions[0].Stmt, true)
			}
			r, ok := fd.Body.List[1].(*ast.ReturnStmt)
			good = good && ok && len(r.Results) == 1 && c.isConstBool(r.Results[0], false)
		}
		ob.Check(good, "true iff some element's getVal() == value (containers by identity, scalars by value)", "Contains is not the getVal()==value search")
	}
	c.R.Floor("C06.R5", n, 4)
}

func (c *Ctx) returnsConstBoolStmt(s ast.Stmt, v bool) bool {
	r, ok := s.(*ast.ReturnStmt)
	return ok && len(r.Results) == 1 && c.isConstBool(r.Results[0], v)
}
