package main

// C06 — Object behaves as a string-keyed map with reference semantics (operand-role clauses), on the SX path normal form.

import (
	"go/ast"
	"go/token"
	"go/types"
	"strings"
)

func init() {
	register(&Property{
		ID: "C06",
		Explanation: "Object methods are thin wrappers over Go map operations (trusted semantics); decided, on the symbolic path normal form (SX), are the operand roles: Set panics exactly on an odd argument count (before any write) and on a non-string key, and applies its pairs " +
			"in ascending order (header simulated for 0..8 arguments) by plain map assignment spine[values[2j].(string)] = parseVal(values[2j+1]) (last pair wins); Unset deletes each argument once, Clear installs a fresh map, KeyExists/Get index the receiver's spine, Get panics exactly on a missing key, " +
			"KeyOf panics exactly after an exhausted search; Merge clones the RECEIVER and Sets the ARGUMENT's pairs into it; Pluck Sets Get(key) unconditionally for every requested key; Keys/Values range the spine unfiltered; observers are write-free (E3). " +
			"Full map-model conformance over all histories is not decided.",
		Rules: []Rule{
			{ID: "C06.R1", Doc: "Set: odd-count panic before any write, non-string-key panic, ascending pairs, map assignment spine[values[2j].(string)] = parseVal(values[2j+1])", Run: c06Set},
			{ID: "C06.R2", Doc: "Unset/Clear/KeyExists/Get/KeyOf operate on the receiver's spine with the documented panic conditions", Run: c06Basics},
			{ID: "C06.R3", Doc: "Merge: result = clone of the receiver; pairs Set into it come from iterating the argument", Run: c06Merge},
			{ID: "C06.R4", Doc: "Pluck: unconditional result.Set(key, self.Get(key)) for every requested key", Run: c06Pluck},
			{ID: "C06.R5", Doc: "Keys/Values/Contains range the receiver's spine unfiltered, once per field", Run: c06Views},
			{ID: "C06.R12", Doc: "the typed getters of the object are Get followed by the kind test: an absent key raises Get's panic, a field of another kind the getter's own, and nothing is recovered on the way (= C12.R3 on the object's getters)", Run: func(c *Ctx) {
				c.R.Floor("C06.R12", runAs(c, "C06.R12", c12R3, func(o *Obligation) bool { return strings.Contains(o.Construct, "(*object).Get") }), 6)
			}},
			{ID: "C06.R11", Doc: "scalars are held by value: parseVal maps every Go type to the constructor of its kind through value-preserving conversions (a float stays that float) and the constructors wrap their argument unchanged (= C12.R1)", Run: func(c *Ctx) { c.R.Floor("C06.R11", runAs(c, "C06.R11", c12R1, nil), 10) }},
			{ID: "C06.R10", Doc: "Count is the number of fields (len of the receiver's spine on every path) and Empty is Count() == 0 of the same container", Run: c06Count},
			{ID: "C06.R9", Doc: "Merge and Pluck iterate with ForEach, which visits every field exactly once (= C14 on (*object).ForEach)", Run: func(c *Ctx) {
				c.R.Floor("C06.R9", runAs(c, "C06.R9", c14Run, func(o *Obligation) bool { return strings.Contains(o.Construct, "(*object).ForEach/") }), 2)
			}},
			{ID: "C06.R8", Doc: "Merge clones its receiver through copy(): the clone shares no container with the receiver (= C08.R2 DEEP and coverage)", Run: func(c *Ctx) { c.R.Floor("C06.R8", runAs(c, "C06.R8", c08R2, nil), 2) }},
			{ID: "C06.R7", Doc: "PURE: observers and deriving operations write nothing pre-existing", Run: func(c *Ctx) {
				names := []string{"Get", "GetObject", "GetList", "GetString", "GetBool", "GetInt", "GetFloat", "TypeOf", "KeyExists", "Count", "Empty", "Keys", "Values", "Dict", "Contains", "KeyOf", "Merge", "Pluck"}
				var full []string
				for _, n := range names {
					full = append(full, "(*object)."+n)
				}
				c.R.Floor("C06.R7", pureRule(c, "C06.R7", full), 18)
			}},
		},
	})
}

func soleParam(c *Ctx, fd *ast.FuncDecl) types.Object {
	if fd.Type.Params == nil || len(fd.Type.Params.List) != 1 || len(fd.Type.Params.List[0].Names) != 1 {
		return nil
	}
	return c.Info.Defs[fd.Type.Params.List[0].Names[0]]
}

func boolStr(b bool) string {
	if b {
		return "true"
	}
	return "false"
}

// lenOfParam: t is len(param).
func lenOfParam(t Term, par types.Object) bool {
	b, ok := t.(TBuiltin)
	return ok && b.Name == "len" && len(b.Args) == 1 && isParamTerm(b.Args[0], par)
}

func c06Set(c *Ctx) {
	fd := c.NeedDecl("C06.R1", "(*object).Set")
	if fd == nil {
		return
	}
	values := soleParam(c, fd)
	ob := c.Ob("C06.R1", "(*object).Set/odd-count-panic", fd.Pos())
	lob := c.Ob("C06.R1", "(*object).Set/pair-loop", fd.Pos())
	pob := c.Ob("C06.R1", "(*object).Set/key-panic", fd.Pos())
	paths, why := c.runPaths(fd)
	if why != "" || values == nil {
		ob.Undecided("body outside the path vocabulary: %s", why)
		return
	}
	v := c.view(fd)
	oddBad, loopBad, keyBad, undec := "", "", "", ""
	for L := int64(0); L <= 8 && undec == ""; L++ {
		hook := func(t Term) (int64, bool) {
			if lenOfParam(t, values) {
				return L, true
			}
			return 0, false
		}
		sel, why := pathsFor(paths, hook, func(cd Cond) bool { return !intFoldable(cd.T) })
		if why != "" {
			undec = why
			break
		}
		if len(sel) == 0 {
			undec = "no path is feasible for " + itoa(int(L)) + " arguments"
			break
		}
		for _, p := range sel {
			wrote := false
			var loop *LoopRec
			for _, s := range p.Steps {
				if v.writesPreexisting(s) {
					wrote = true
				}
				if s.Kind == "loop" {
					loop = s.Loop
				}
			}
			if L%2 == 1 {
				// an in-loop panic path also ends in panic: require the panic to come before the loop and before any write
				if p.End != "panic" || wrote || loop != nil {
					oddBad = itoa(int(L)) + " arguments: the call does not panic before any pair is applied"
				}
				continue
			}
			if p.End == "panic" && loop == nil {
				oddBad = itoa(int(L)) + " arguments (even): the call panics"
				continue
			}
			if loop == nil {
				if L > 0 {
					loopBad = "no pair loop on the path for " + itoa(int(L)) + " arguments"
				}
				continue
			}
			// simulate the header
			its, why := c.loopIterations(loop, hook, 32)
			if why != "" {
				undec = why
				break
			}
			if int64(len(its)) != L/2 {
				loopBad = itoa(int(L)) + " arguments: the loop runs " + itoa(len(its)) + " times, expected " + itoa(int(L/2))
				continue
			}
			// iteration paths: key test
			for j, st := range its {
				h := func(t Term) (int64, bool) {
					if lv, ok := t.(TLoop); ok {
						if val, ok := st[lv.Obj]; ok {
							return val, true
						}
					}
					return hook(t)
				}
				if msg := c06Iteration(c, v, loop, values, h, int64(j), &keyBad); msg != "" {
					loopBad = msg
				}
			}
		}
	}
	switch {
	case undec != "":
		ob.Undecided("%s", undec)
		return
	case oddBad != "":
		ob.Fail("the odd-count panic is not exactly `odd number of arguments, before any write`: %s", oddBad)
	default:
		ob.Ok("panics for every odd argument count 1..7 before any pair is applied; never for an even count (folded 0..8)")
	}
	if loopBad != "" {
		lob.Fail("%s", loopBad)
	} else {
		lob.Ok("pairs j = 0,1,… in ascending order: spine[values[2j].(string)] = parseVal(values[2j+1]) — plain map assignment in argument order, so the last pair wins (header simulated for 0..8 arguments)")
	}
	if keyBad != "" {
		pob.Fail("%s", keyBad)
	} else {
		pob.Ok("panics exactly when values[2j] is not a string, before that pair is written")
	}
}

// c06Iteration checks the iteration paths of Set's pair loop for iteration j.
func c06Iteration(c *Ctx, v *sxView, loop *LoopRec, values types.Object, h func(Term) (int64, bool), j int64, keyBad *string) string {
	var okPath, panicPath *Path
	for _, p := range loop.Iter {
		switch p.End {
		case "panic":
			panicPath = p
		case "fall", "continue":
			okPath = p
		default:
			return "pair loop body has an early exit (" + p.End + ")"
		}
	}
	if okPath == nil || panicPath == nil || len(loop.Iter) != 2 {
		*keyBad = "the loop body does not consist of exactly: key assertion, panic on a non-string key, one map assignment"
		return ""
	}
	// key test atom
	conds := okPath.Conds()
	if len(conds) != 1 || len(panicPath.Conds()) != 1 || !sameTerm(conds[0].T, panicPath.Conds()[0].T) || !conds[0].Truth || panicPath.Conds()[0].Truth {
		*keyBad = "the in-loop panic is not guarded by exactly the failed string assertion of the key"
		return ""
	}
	opnd, asT, ok := kindTestOf(conds[0].T)
	if !ok || asT == nil {
		*keyBad = "the key is not obtained by a comma-ok assertion or type switch"
		return ""
	}
	as := TAssert{X: opnd, To: asT}
	if b, isB := as.To.(*types.Basic); !isB || b.Kind() != types.String {
		*keyBad = "the key is asserted to " + shortType(as.To) + ", not string"
		return ""
	}
	kix, ok := as.X.(TIndex)
	if !ok || !isParamTerm(kix.X, values) {
		*keyBad = "the asserted key is not an element of the argument list"
		return ""
	}
	e := &termEnv{hook: h}
	ki, ok := e.int(kix.I)
	if !ok || ki != 2*j {
		return "iteration " + itoa(int(j)) + " takes its key from values[" + itoa(int(ki)) + "], expected values[" + itoa(int(2*j)) + "] (pairs must be applied in argument order)"
	}
	for _, s := range panicPath.Steps {
		if v.writesPreexisting(s) {
			*keyBad = "a pair is written before the key-type panic"
		}
	}
	// effects of the ok path: exactly one store spine[key] = parseVal(values[2j+1])
	effs := okPath.Effects()
	if len(effs) != 1 || effs[0].Kind != "store" {
		return "a pair is not applied by exactly one map assignment"
	}
	lhs, ok := effs[0].LHS.(TIndex)
	if !ok || !v.isRecvSpine(lhs.X) || !(sameTerm(lhs.I, TProj{as, 0}) || sameTerm(lhs.I, as)) {
		return "the assignment target is not spine[asserted key]"
	}
	pv, ok := effs[0].RHS.(TCall)
	if !ok || pv.Fun == nil || pv.Fun.Name() != "parseVal" || pv.Fun.Pkg() != c.Types || len(pv.Args) != 1 {
		return "the stored value is not parseVal(…)"
	}
	vix, ok := pv.Args[0].(TIndex)
	if !ok || !isParamTerm(vix.X, values) {
		return "the stored value is not taken from the argument list"
	}
	e2 := &termEnv{hook: h}
	vi, ok := e2.int(vix.I)
	if !ok || vi != 2*j+1 {
		return "iteration " + itoa(int(j)) + " stores values[" + itoa(int(vi)) + "], expected values[" + itoa(int(2*j+1)) + "]"
	}
	return ""
}

// visitsEachOnce: the loop visits every element of the slice parameter exactly once and elem is that element.
func (c *Ctx) visitsEachOnce(l *LoopRec, par types.Object, elem Term) string {
	if l.Range != nil {
		if !isParamTerm(l.Over, par) {
			return "the loop does not range over the argument list"
		}
		if l.Value != nil && isParamTerm(elem, l.Value) {
			return ""
		}
		if ix, ok := elem.(TIndex); ok && isParamTerm(ix.X, par) && l.Key != nil && isParamTerm(ix.I, l.Key) {
			return ""
		}
		return "the loop body does not use the current element of the argument list"
	}
	ix, ok := elem.(TIndex)
	if !ok || !isParamTerm(ix.X, par) {
		return "the loop body does not use an element of the argument list"
	}
	for L := int64(0); L <= 4; L++ {
		hook := func(t Term) (int64, bool) {
			if lenOfParam(t, par) {
				return L, true
			}
			return 0, false
		}
		its, why := c.loopIterations(l, hook, 16)
		if why != "" {
			return why
		}
		seen := map[int64]bool{}
		for _, st := range its {
			e := &termEnv{hook: func(t Term) (int64, bool) {
				if lv, ok := t.(TLoop); ok {
					if val, ok := st[lv.Obj]; ok {
						return val, true
					}
				}
				return hook(t)
			}}
			k, ok := e.int(ix.I)
			if !ok || k < 0 || k >= L || seen[k] {
				return "with " + itoa(int(L)) + " arguments the loop does not visit each of them exactly once"
			}
			seen[k] = true
		}
		if int64(len(seen)) != L {
			return "with " + itoa(int(L)) + " arguments the loop visits " + itoa(len(seen)) + " of them"
		}
	}
	return ""
}

// singleLoopPath: the function has exactly one non-panicking path, containing exactly one loop; returns them.
func singleLoopPath(paths []*Path) (*Path, *LoopRec, string) {
	var main *Path
	for _, p := range paths {
		last := Step{}
		if len(p.Steps) > 0 {
			last = p.Steps[len(p.Steps)-1]
		}
		_ = last
		// in-loop exits are surfaced as extra outer paths: the main path is the one whose loop step is followed by no iteration steps
		if main == nil {
			main = p
		}
	}
	if len(paths) != 1 {
		return nil, nil, "expected a single path (found " + itoa(len(paths)) + ")"
	}
	var loop *LoopRec
	for _, s := range main.Steps {
		if s.Kind == "loop" {
			if loop != nil {
				return nil, nil, "more than one loop"
			}
			loop = s.Loop
		}
	}
	if loop == nil {
		return nil, nil, "no loop"
	}
	return main, loop, ""
}

func c06Basics(c *Ctx) {
	n := 0
	// Unset
	if fd := c.NeedDecl("C06.R2", "(*object).Unset"); fd != nil {
		n++
		ob := c.Ob("C06.R2", "(*object).Unset", fd.Pos())
		keys := soleParam(c, fd)
		paths, why := c.runPaths(fd)
		v := c.view(fd)
		msg := why
		if msg == "" {
			p, loop, w := singleLoopPath(paths)
			msg = w
			if msg == "" {
				if len(p.Effects()) != 1 || p.End != "return" || len(p.Vals) != 1 || !v.isEgo(p.Vals[0]) {
					msg = "Unset does more than the deletion loop and the fluent return"
				} else if len(loop.Iter) != 1 || len(loop.Iter[0].Conds()) != 0 || len(loop.Iter[0].Effects()) != 1 {
					msg = "loop body is not exactly one delete"
				} else {
					s := loop.Iter[0].Effects()[0]
					if s.Blt == nil || s.Blt.Name != "delete" || len(s.Blt.Args) != 2 || !v.isRecvSpine(s.Blt.Args[0]) {
						msg = "loop body is not delete(spine, key)"
					} else {
						msg = c.visitsEachOnce(loop, keys, s.Blt.Args[1])
					}
				}
			}
		}
		if msg == "" {
			ob.Ok("delete(spine, key) once for every argument and nothing else (a missing key is a no-op by map semantics; no argument => no change)")
		} else {
			ob.Fail("Unset is not exactly one delete(spine, key) per argument: %s", msg)
		}
	}
	// Clear
	if fd := c.NeedDecl("C06.R2", "(*object).Clear"); fd != nil {
		n++
		ob := c.Ob("C06.R2", "(*object).Clear", fd.Pos())
		paths, why := c.runPaths(fd)
		v := c.view(fd)
		good := why == "" && len(paths) == 1 && len(paths[0].Effects()) == 1 && paths[0].End == "return" && len(paths[0].Vals) == 1 && v.isEgo(paths[0].Vals[0])
		if good {
			s := paths[0].Effects()[0]
			sel, ok := s.LHS.(TSel)
			good = s.Kind == "store" && ok && sel.Field == v.ct.Spine && v.isRecv(sel.X) && isEmptyFreshTerm(s.RHS)
		}
		ob.Check(good, "installs a fresh empty map as the receiver's spine", "Clear does not install a fresh empty map")
	}
	// KeyExists
	if fd := c.NeedDecl("C06.R2", "(*object).KeyExists"); fd != nil {
		n++
		ob := c.Ob("C06.R2", "(*object).KeyExists", fd.Pos())
		key := soleParam(c, fd)
		paths, why := c.runPaths(fd)
		v := c.view(fd)
		msg := why
		if msg == "" {
			classify := func(t Term) string {
				if existsAtom(v, t, key) {
					return "exists"
				}
				return ""
			}
			msg = truthTable(boolOutcomes(paths), []string{"exists"}, classify, func(a map[string]bool) (bool, bool) { return a["exists"], false })
		}
		if msg == "" {
			ob.Ok("result == comma-ok of spine[key]")
		} else {
			ob.Fail("KeyExists is not the comma-ok of spine[key]: %s", msg)
		}
	}
	// Get
	if fd := c.NeedDecl("C06.R2", "(*object).Get"); fd != nil {
		n++
		ob := c.Ob("C06.R2", "(*object).Get", fd.Pos())
		key := soleParam(c, fd)
		paths, why := c.runPaths(fd)
		v := c.view(fd)
		msg := why
		for _, p := range paths {
			if msg != "" {
				break
			}
			conds := p.Conds()
			if len(conds) != 1 || !existsAtom(v, conds[0].T, key) || len(p.Effects()) != 0 {
				msg = "the only decision must be the presence test of spine[key]"
				break
			}
			if conds[0].Truth {
				el, ok := (Term)(nil), false
				if p.End == "return" && len(p.Vals) == 1 {
					el, ok = v.valueOf(p.Vals[0])
				}
				pr, isP := el.(TProj)
				same := ok && isP && pr.K == 0 && sameTerm(pr.X, conds[0].T.(TProj).X)
				if ix, isIx := el.(TIndex); ok && isIx && !same {
					// the one-result lookup spine[key] after the presence test (KeyExists followed): the same field
					if cx, isCx := conds[0].T.(TProj).X.(TIndex); isCx && sameTerm(eraseEpochs(ix), eraseEpochs(cx)) {
						same = true
					}
				}
				if !same {
					msg = "a present key does not return spine[key].getVal()"
				}
			} else if p.End != "panic" {
				msg = "a missing key does not panic"
			}
		}
		if msg == "" && len(paths) != 2 {
			msg = "expected exactly the two outcomes present / missing"
		}
		if msg == "" {
			ob.Ok("f, ok := spine[key]; panics exactly when !ok; returns f.getVal() (the identical nested container for containers)")
		} else {
			ob.Fail("Get is not `f, ok := spine[key]; if !ok {panic}; return f.getVal()`: %s", msg)
		}
	}
	// KeyOf
	if fd := c.NeedDecl("C06.R2", "(*object).KeyOf"); fd != nil {
		n++
		ob := c.Ob("C06.R2", "(*object).KeyOf", fd.Pos())
		if why := searchShape(c, fd, "keyOrPanic"); why == "" {
			ob.Ok("returns the key of the first field whose getVal() == value; panics exactly after an exhausted search")
		} else {
			ob.Fail("KeyOf is not a search loop returning the range key followed by a panic: %s", why)
		}
	}
	c.R.Floor("C06.R2", n, 5)
}

// existsAtom: t is the comma-ok of spine[key] of the receiver.
func existsAtom(v *sxView, t Term, key types.Object) bool {
	pr, ok := t.(TProj)
	if !ok || pr.K != 1 {
		return false
	}
	ix, ok := pr.X.(TIndex)
	return ok && v.isRecvSpine(ix.X) && isParamTerm(ix.I, key)
}

func isEmptyFreshTerm(t Term) bool {
	switch x := t.(type) {
	case TLit:
		return len(x.Elts) == 0 && x.Node != nil
	case TBuiltin:
		return x.Name == "make"
	}
	return false
}

// searchShape: `for k, e := range recv.spine { if e.getVal() == param { HIT } }; MISS` on the surfaced outer paths.
// what: "key" (hit: return the range key, miss: return -1), "true" (hit: true, miss: false), "keyOrPanic" (hit: key, miss: panic).
func searchShape(c *Ctx, fd *ast.FuncDecl, what string) string {
	// a search built on a sibling search of the same receiver (Contains as IndexOf(x) >= 0, called statically) is followed into it
	paths, why := c.runPathsWith(fd, func(x *SX) { x.InlineStaticSelf = true })
	if why != "" {
		return "body outside the path vocabulary: " + why
	}
	v := c.view(fd)
	par := soleParam(c, fd)
	hits, misses := 0, 0
	for _, p := range paths {
		li := -1
		var loop *LoopRec
		for i, s := range p.Steps {
			switch s.Kind {
			case "loop":
				if loop != nil {
					return "more than one loop"
				}
				loop, li = s.Loop, i
			case "cond":
				if loop == nil {
					return "a decision precedes the search loop"
				}
			default:
				return "unexpected effect " + c.stepStr(s)
			}
		}
		if loop == nil {
			return "a path bypasses the search loop"
		}
		if r := v.asRange(loop); r != nil {
			loop = r
		}
		if loop.Range == nil || !v.isRecvSpine(loop.Over) {
			return "the loop does not range over the receiver's own spine"
		}
		after := p.Steps[li+1:]
		result := p.Vals
		if len(result) > 1 {
			result = result[:1]
		}
		if len(after) == 0 {
			// exhausted search
			misses++
			switch what {
			case "key":
				k, ok := constInt(simplifyRet(p))
				if p.End != "return" || !ok || k != -1 {
					return "an exhausted search does not return -1"
				}
			case "true":
				if p.End != "return" || len(p.Vals) != 1 || !isConstBoolTerm(simplify(p.Vals[0]), false) {
					return "an exhausted search does not return false"
				}
			case "keyOrPanic":
				if p.End != "panic" {
					return "an exhausted search does not panic"
				}
			}
			continue
		}
		// a hit: exactly the positive match test
		if len(after) != 1 || after[0].Kind != "cond" {
			return "a hit is guarded by more than the match test"
		}
		cd := after[0].Cond
		b, ok := cd.T.(TBin)
		if !ok || (b.Op != token.EQL && b.Op != token.NEQ) || cd.Truth != (b.Op == token.EQL) {
			return "the hit is not guarded by element.getVal() == argument"
		}
		elemVal := func(t Term) bool {
			e, ok := v.valueOf(t)
			if !ok {
				return false
			}
			if loop.Value != nil && isParamTerm(e, loop.Value) {
				return true
			}
			ix, ok := e.(TIndex)
			return ok && v.isRecvSpine(ix.X) && loop.Key != nil && isParamTerm(ix.I, loop.Key)
		}
		if !((elemVal(b.X) && isParamTerm(b.Y, par)) || (elemVal(b.Y) && isParamTerm(b.X, par))) {
			return "match test does not compare element.getVal() with the argument"
		}
		hits++
		switch what {
		case "key", "keyOrPanic":
			if p.End != "return" || len(result) != 1 || loop.Key == nil || !isParamTerm(result[0], loop.Key) {
				return "a match does not return the range key"
			}
		case "true":
			okTrue := p.End == "return" && len(result) == 1 && isConstBoolTerm(simplify(result[0]), true)
			if !okTrue && p.End == "return" && len(result) == 1 && loop.Key != nil {
				// a truth value computed from the position of the match (`index >= 0`): true for every position
				okTrue = true
				for k := int64(0); k <= 3 && okTrue; k++ {
					e := &termEnv{hook: func(t Term) (int64, bool) {
						if isParamTerm(t, loop.Key) {
							return k, true
						}
						return 0, false
					}}
					val, ok := e.bool(result[0])
					okTrue = ok && val
				}
			}
			if !okTrue {
				return "a match does not return true"
			}
		}
		// the non-matching iteration must simply continue
		cont := false
		for _, ip := range loop.Iter {
			if (ip.End == "fall" || ip.End == "continue") && len(ip.Effects()) == 0 && len(ip.Conds()) == 1 && sameTerm(ip.Conds()[0].T, cd.T) && ip.Conds()[0].Truth != cd.Truth {
				cont = true
			}
		}
		if !cont || len(loop.Iter) != 2 {
			return "a non-matching element does not simply continue the search"
		}
	}
	if hits != 1 || misses != 1 {
		return "expected exactly one hit path and one exhausted path (found " + itoa(hits) + "/" + itoa(misses) + ")"
	}
	return ""
}

func c06Merge(c *Ctx) {
	fd := c.NeedDecl("C06.R3", "(*object).Merge")
	if fd == nil {
		return
	}
	ob := c.Ob("C06.R3", "(*object).Merge", fd.Pos())
	another := soleParam(c, fd)
	paths, why := c.runPaths(fd)
	v := c.view(fd)
	if why != "" || len(paths) != 1 || another == nil {
		ob.Fail("Merge is not: result := clone of receiver; iterate the argument setting into result; return result (%d paths %s)", len(paths), why)
		return
	}
	p := paths[0]
	if p.End != "return" || len(p.Vals) != 1 || len(p.Conds()) != 0 {
		ob.Fail("Merge is not a straight-line derivation (a size- or content-dependent shortcut changes which side wins on a shared key)")
		return
	}
	result := p.Vals[0]
	rc, ok := result.(TCall)
	if !ok {
		// Clone's body spelled out: self.copy().(*object) (Clone ≡ copy: C08.R4)
		inner := result
		for {
			switch x := inner.(type) {
			case TConv:
				inner = x.X
				continue
			case TAssert:
				inner = x.X
				continue
			case TProj:
				inner = x.X
				continue
			}
			break
		}
		if cc, isCall := inner.(TCall); isCall && cc.Fun != nil && (cc.Fun.Name() == "copy" || cc.Fun.Name() == "Clone") && len(cc.Args) == 0 {
			rc, ok = cc, true
		}
	}
	if !ok || rc.Fun == nil || (rc.Fun.Name() != "Clone" && rc.Fun.Name() != "copy") || len(rc.Args) != 0 {
		ob.Fail("the result is not a clone")
		return
	}
	if rc.Recv == nil || !v.isSelf(rc.Recv) {
		ob.Fail("the clone is taken of %s, not of the receiver: on a shared key the receiver's value would win instead of the argument's", c.termStr(rc.Recv))
		return
	}
	// exactly one further effect: another.ForEach(func(k, v) { result.Set(k, v) })
	var it *TCall
	for _, s := range p.Effects() {
		if s.Kind == "call" && s.Call != nil && s.Call.Fun != nil {
			if s.Call.Fun.Name() == "Clone" || (s.Call.Fun.Name() == "copy" && len(s.Call.Args) == 0) {
				continue
			}
			if it != nil {
				ob.Fail("more than one effect besides the clone")
				return
			}
			it = s.Call
			continue
		}
		ob.Fail("unexpected effect %s", c.stepStr(s))
		return
	}
	if it == nil || it.Fun.Name() != "ForEach" || it.Recv == nil || !isParamTerm(it.Recv, another) || len(it.Args) != 1 {
		ob.Fail("the pairs set into the result do not come from ForEach over the argument")
		return
	}
	lit, ok := it.Args[0].(TLit)
	fl, isFl := lit.Node.(*ast.FuncLit)
	if !ok || !isFl {
		ob.Fail("ForEach is not given a function literal")
		return
	}
	var ps []types.Object
	for _, f := range fl.Type.Params.List {
		for _, nm := range f.Names {
			ps = append(ps, c.Info.Defs[nm])
		}
	}
	var capEnv map[types.Object]Term
	for _, st := range p.Effects() {
		if st.Call == it {
			capEnv = st.Env
		}
	}
	bp := v.primitiveWriteNorm(c.NewSX().RunStmts(fl.Body.List, capEnv))
	good := len(ps) == 2 && len(bp) == 1 && bp[0].Why == "" && len(bp[0].Conds()) == 0 && len(bp[0].Effects()) == 1
	if good {
		s := bp[0].Effects()[0]
		good = s.Kind == "call" && s.Call != nil && s.Call.Fun != nil && s.Call.Fun.Name() == "Set" && s.Call.Recv != nil && sameTerm(s.Call.Recv, result)
		if good {
			args := s.Call.Args
			if len(args) == 1 {
				if pack, ok := args[0].(TLit); ok {
					args = pack.Elts
				}
			}
			good = len(args) == 2 && isParamTerm(args[0], ps[0]) && isParamTerm(args[1], ps[1])
		}
	}
	ob.Check(good, "result = clone(receiver); argument.ForEach(k, v => result.Set(k, v)); return result — the argument's value wins on a shared key", "callback does not Set exactly (key, value) of the argument into the result")
}

func c06Pluck(c *Ctx) {
	fd := c.NeedDecl("C06.R4", "(*object).Pluck")
	if fd == nil {
		return
	}
	ob := c.Ob("C06.R4", "(*object).Pluck", fd.Pos())
	keys := soleParam(c, fd)
	paths, why := c.runPaths(fd)
	v := c.view(fd)
	if why != "" {
		ob.Undecided("body outside the path vocabulary: %s", why)
		return
	}
	// an absent key's panic raised inside the loop (Get's body spelled out) is judged with the loop body below
	var mainPaths []*Path
	for _, q := range paths {
		li := -1
		for k, st := range q.Steps {
			if st.Kind == "loop" && st.Loop != nil {
				li = k
			}
		}
		if li >= 0 && q.End == "panic" && inLoopExit(q, li) {
			continue
		}
		mainPaths = append(mainPaths, q)
	}
	p, loop, msg := singleLoopPath(mainPaths)
	if msg != "" {
		ob.Fail("Pluck is not: result := empty object; one loop over the requested keys; return result (%s)", msg)
		return
	}
	if p.End != "return" || len(p.Vals) != 1 || len(p.Conds()) != 0 {
		ob.Fail("Pluck is not a straight-line derivation")
		return
	}
	result := p.Vals[0]
	if !freshEmptyContainer(c, result, false) {
		// built another way (pairs collected and handed to the constructor): folded on the spine model for 0..3 requested keys
		bad, undec := c.foldBuild(v, p, nil, keys, false, false, func(k int) ([]string, map[string]string) {
			m := map[string]string{}
			for j := 0; j < k; j++ {
				m["$s["+itoa(j)+"]"] = "pv(Get($s[" + itoa(j) + "]))"
			}
			return nil, m
		})
		switch {
		case undec != "":
			ob.Fail("the result does not start as an empty object (%s); folded on the spine model: %s", c.termStr(result), undec)
		case bad != "":
			ob.Fail("Pluck does not build {key: self.Get(key)} for exactly the requested keys: %s", bad)
		default:
			ob.Ok("folded on the spine model for 0..3 requested keys: the result is a fresh object holding self.Get(key) under every requested key, unconditionally (absent key => Get's panic)")
		}
		return
	}
	for _, s := range p.Effects() {
		if s.Kind == "loop" {
			continue
		}
		if s.Kind == "call" && s.Call != nil && s.Call.Fun != nil && (s.Call.Fun.Name() == "NewObject" || s.Call.Fun.Name() == "Init") {
			continue
		}
		ob.Fail("unexpected effect outside the loop: %s", c.stepStr(s))
		return
	}
	getInlined := false
	if len(loop.Iter) == 2 {
		// Get's body spelled out: `f, ok := spine[key]; if !ok { panic }` — the absent key still panics, before anything is set
		var presence Term
		var okPath *Path
		for _, q := range loop.Iter {
			cs := q.Conds()
			if len(cs) != 1 {
				presence = nil
				break
			}
			pr, isPr := cs[0].T.(TProj)
			ix, isIx := pr.X.(TIndex)
			if !isPr || pr.K != 1 || !isIx || !v.isRecvSpine(ix.X) {
				presence = nil
				break
			}
			if presence != nil && !sameTerm(presence, cs[0].T) {
				presence = nil
				break
			}
			presence = cs[0].T
			switch {
			case !cs[0].Truth && q.End == "panic" && len(q.Effects()) == 0:
			case cs[0].Truth && (q.End == "fall" || q.End == "continue"):
				okPath = q
			default:
				presence = nil
			}
			if presence == nil {
				break
			}
		}
		if presence != nil && okPath != nil {
			q := clonePath(okPath)
			q.Steps = nil
			for _, st := range okPath.Steps {
				if st.Kind != "cond" {
					q.Steps = append(q.Steps, st)
				}
			}
			loop = &LoopRec{ID: loop.ID, Node: loop.Node, Range: loop.Range, For: loop.For, Over: loop.Over, Key: loop.Key, Value: loop.Value, Iter: []*Path{q}, CondT: loop.CondT, Init: loop.Init, Post: loop.Post, HeadEnv: loop.HeadEnv}
			getInlined = true
		}
	}
	if len(loop.Iter) != 1 {
		ob.Fail("the Set is conditional: an absent key is silently skipped (or stored as a nil field) instead of panicking")
		return
	}
	ip := loop.Iter[0]
	effs := ip.Effects()
	// Get may appear as a (pure) term only; the one effect is the Set
	var set *TCall
	for _, s := range effs {
		if s.Kind == "call" && s.Call != nil && s.Call.Fun != nil && s.Call.Fun.Name() == "Set" && set == nil {
			set = s.Call
			continue
		}
		ob.Fail("loop body is not exactly result.Set(key, self.Get(key)): %s (an absent key must raise Get's panic)", c.stepStr(s))
		return
	}
	if set == nil || len(ip.Conds()) != 0 || (ip.End != "fall" && ip.End != "continue") || set.Recv == nil || !sameTerm(set.Recv, result) {
		ob.Fail("loop body is not exactly result.Set(key, self.Get(key))")
		return
	}
	args := set.Args
	if len(args) == 1 {
		if pack, ok := args[0].(TLit); ok {
			args = pack.Elts
		}
	}
	if len(args) != 2 {
		ob.Fail("Set is not given one pair")
		return
	}
	if msg := c.visitsEachOnce(loop, keys, args[0]); msg != "" {
		ob.Fail("%s", msg)
		return
	}
	if getInlined {
		// the stored value: getVal() of the field found under the key
		e, isVal := v.valueOf(args[1])
		pr, isPr := e.(TProj)
		ix, isIx := pr.X.(TIndex)
		ob.Check(isVal && isPr && pr.K == 0 && isIx && v.isRecvSpine(ix.X) && sameTerm(ix.I, args[0]), "for every requested key: the field under the key is looked up (absent => panic before anything is set) and result.Set(key, its getVal()) — Get's body spelled out; exactly the requested keys", "the stored value is not getVal() of the field found under the key")
		return
	}
	gname, gargs, ok := v.selfCall(args[1])
	ob.Check(ok && gname == "Get" && len(gargs) == 1 && sameTerm(gargs[0], args[0]), "for every requested key: result.Set(key, self.Get(key)) unconditionally (absent key => Get's panic); exactly the requested keys", "the stored value is not self.Get(key)")
}

// freshEmptyContainer: NewObject()/NewList() without arguments, or a container literal with a fresh empty spine.
func freshEmptyContainer(c *Ctx, t Term, list bool) bool {
	// NewList().(*list): the constructor's result seen through an assertion to its concrete type
	if pr, ok := t.(TProj); ok && pr.K == 0 {
		t = pr.X
	}
	if as, ok := t.(TAssert); ok {
		if pt, isP := as.To.(*types.Pointer); isP {
			if n, isN := pt.Elem().(*types.Named); isN && c.Inv().ContOf(n) != nil {
				t = as.X
			}
		}
	}
	switch x := t.(type) {
	case TCall:
		return x.Fun != nil && x.Fun.Pkg() == c.Types && x.Fun.Name() == ctorName(list) && len(x.Args) == 0
	case TAddr:
		lit, ok := x.X.(TLit)
		if !ok {
			return false
		}
		for _, e := range lit.Elts {
			if isEmptyFreshTerm(e) {
				return true
			}
		}
	}
	return false
}

func c06Views(c *Ctx) {
	n := 0
	for _, spec := range []struct{ name, what string }{{"Keys", "key"}, {"Values", "val"}} {
		fd := c.NeedDecl("C06.R5", "(*object)."+spec.name)
		if fd == nil {
			continue
		}
		n++
		ob := c.Ob("C06.R5", "(*object)."+spec.name, fd.Pos())
		// a view filled through a sibling visitor of the same receiver, called statically, is followed into it
		paths, why := c.runPathsWith(fd, func(x *SX) { x.InlineStaticSelf = true })
		v := c.view(fd)
		msg := why
		if msg == "" {
			p, loop, w := singleLoopPath(paths)
			msg = w
			if msg == "" {
				if r := v.asRange(loop); r != nil {
					loop = r
				}
				switch {
				case p.End != "return" || len(p.Vals) != 1 || !freshEmptyContainer(c, p.Vals[0], true):
					msg = "the result is not a fresh list"
				case loop.Range == nil || !v.isRecvSpine(loop.Over):
					msg = "the loop does not range over the receiver's spine"
				case len(loop.Iter) != 1 || len(loop.Iter[0].Conds()) != 0 || len(loop.Iter[0].Effects()) != 1:
					msg = "loop body is not one unfiltered Add"
				default:
					s := loop.Iter[0].Effects()[0]
					good := s.Kind == "call" && s.Call != nil && s.Call.Fun != nil && s.Call.Fun.Name() == "Add" && s.Call.Recv != nil && sameTerm(s.Call.Recv, p.Vals[0])
					if good {
						args := s.Call.Args
						if len(args) == 1 {
							if pack, ok := args[0].(TLit); ok {
								args = pack.Elts
							}
						}
						good = len(args) == 1
						if good && spec.what == "key" {
							good = loop.Key != nil && isParamTerm(args[0], loop.Key)
						} else if good {
							e, ok := v.valueOf(args[0])
							good = ok && loop.Value != nil && isParamTerm(e, loop.Value)
						}
					}
					if !good {
						msg = "loop body does not add the " + map[string]string{"key": "range key", "val": "field's getVal()"}[spec.what]
					}
				}
			}
		}
		if msg != "" && why == "" && len(paths) == 1 {
			// not the plain loop of Add calls: decide on the spine model what the returned list holds for a receiver of 0..3 fields
			want := func(k int) ([]string, map[string]string) {
				var l []string
				for j := 0; j < k; j++ {
					if spec.what == "key" {
						l = append(l, "pv(k"+itoa(j)+")")
					} else {
						l = append(l, "pv(getVal(e"+itoa(j)+"))")
					}
				}
				return l, nil
			}
			kind := ""
			if spec.what == "key" {
				kind = "string"
			}
			if bad, undec := c.foldBuildInto(v, paths[0], nil, nil, false, true, false, kind, want); bad == "" && undec == "" {
				msg = ""
			} else {
				msg += "; folded on the spine model: " + bad + undec
			}
		}
		if msg == "" {
			ob.Ok("one unfiltered entry per field: the %s", map[string]string{"key": "range key", "val": "field's getVal()"}[spec.what])
		} else {
			ob.Fail("%s does not add exactly one entry per field: %s", spec.name, msg)
		}
	}
	for _, ct := range c.Inv().Conts {
		fd := c.Decl("(*" + ct.Named.Obj().Name() + ").Contains")
		if fd == nil {
			continue
		}
		n++
		ob := c.Ob("C06.R5", "(*"+ct.Named.Obj().Name()+").Contains", fd.Pos())
		why := searchShape(c, fd, "true")
		if why != "" && ct.IsList {
			// equivalent form: self.IndexOf(value) >= 0 (IndexOf decided by C05.R6)
			paths, w2 := c.runPaths(fd)
			v := c.view(fd)
			par := soleParam(c, fd)
			if w2 == "" && len(paths) == 1 && paths[0].End == "return" && len(paths[0].Vals) == 1 && len(paths[0].Effects()) == 0 {
				if b, ok := simplify(paths[0].Vals[0]).(TBin); ok {
					isIdx := func(t Term) bool {
						nm, args, ok := v.selfCall(t)
						return ok && nm == "IndexOf" && len(args) == 1 && isParamTerm(args[0], par)
					}
					k0, okk := constInt(b.X)
					if b.Op == token.LEQ && okk && k0 == 0 && isIdx(b.Y) { // 0 <= IndexOf(v)
						why = ""
					}
					km, okm := constInt(b.Y)
					if b.Op == token.NEQ && okm && km == -1 && isIdx(b.X) {
						why = ""
					}
					if b.Op == token.NEQ && okk && k0 == -1 && isIdx(b.Y) {
						why = ""
					}
					if b.Op == token.LSS && okk && k0 == -1 && isIdx(b.Y) { // -1 < IndexOf(v)
						why = ""
					}
				}
			}
		}
		if why == "" {
			ob.Ok("true iff some element's getVal() == value (containers by identity, scalars by value)")
		} else {
			ob.Fail("Contains is not the getVal()==value search: %s", why)
		}
	}
	c.R.Floor("C06.R5", n, 4)
}

// c06Count: the size observers of both containers. Count returns len(recv.spine) — read off its SX paths, a defensive guard that
// returns 0 for the nil or empty spine included; Empty returns `self.Count() == 0` (or the same on the spine's length).
func c06Count(c *Ctx) {
	n := 0
	for _, ct := range c.Inv().Conts {
		name := "(*" + ct.Named.Obj().Name() + ")"
		if fd := c.NeedDecl("C06.R10", name+".Count"); fd != nil {
			n++
			good := false
			if t, ok := c.accessorTerm(fd).(TBuiltin); ok && t.Name == "len" && len(t.Args) == 1 {
				if sp, ok := t.Args[0].(TSel); ok && sp.Field == ct.Spine {
					if tv, ok := sp.X.(TVar); ok && tv.Obj == c.recvObj(fd) {
						good = true
					}
				}
			}
			c.Ob("C06.R10", name+".Count", fd.Pos()).Check(good, "returns len(receiver's spine) on every path", "Count does not return the length of the receiver's spine on every path")
		}
		if fd := c.NeedDecl("C06.R10", name+".Empty"); fd != nil {
			n++
			v := c.view(fd)
			paths, why := c.runPaths(fd)
			paths = mergeBoolReturn(paths)
			good := why == "" && len(paths) == 1 && paths[0].End == "return" && len(paths[0].Vals) == 1 && len(paths[0].Effects()) == 0 && len(paths[0].Conds()) == 0
			if good {
				good = false
				if b, ok := simplify(paths[0].Vals[0]).(TBin); ok && b.Op == token.EQL {
					for _, pair := range [][2]Term{{b.X, b.Y}, {b.Y, b.X}} {
						k, isK := constInt(pair[1])
						if !isK || k != 0 {
							continue
						}
						if v.isCountOfRecv(pair[0]) {
							good = true
						}
						if bl, ok := pair[0].(TBuiltin); ok && bl.Name == "len" && len(bl.Args) == 1 && v.isRecvSpine(bl.Args[0]) {
							good = true
						}
					}
				}
			}
			c.Ob("C06.R10", name+".Empty", fd.Pos()).Check(good, "returns Count() == 0 of the same container", "Empty is not `Count() == 0` of the receiver")
		}
	}
	c.R.Floor("C06.R10", n, 4)
}
