package main

// E0 — loading /repo's current working tree (type-checked AST, go/ssa on demand).

import (
	"fmt"
	"go/ast"
	"go/token"
	"go/types"
	"os"
	"sort"
	"strings"

	"golang.org/x/tools/go/packages"
	"golang.org/x/tools/go/ssa"
	"golang.org/x/tools/go/ssa/ssautil"
)

type BuildCfg struct {
	GOARCH string
	Tags   string
}

func (b BuildCfg) String() string {
	s := "linux/" + b.GOARCH
	if b.Tags != "" {
		s += "+" + b.Tags
	}
	return s
}

// Ctx is one loaded configuration of the repository plus the shared report.
type Ctx struct {
	R     *Report
	Cfg   string
	Repo  string
	Pkg   *packages.Package
	Fset  *token.FileSet
	Info  *types.Info
	Types *types.Package

	prog *ssa.Program
	spkg *ssa.Package

	Deep      bool                     // thorough tier: larger folding domains
	AltInline bool                     // second presentation: exported methods called statically on the bare receiver are followed by every rule
	ctorMemo  map[*types.Func]int      // wrapperCtor: 0 in progress, 1 yes, 2 no
	decls     map[string]*ast.FuncDecl // "(*list).Insert", "parseVal"
	e3        *E3
	goVers    string
}

// depth picks the folding bound for the tier.
func (c *Ctx) depth(quick, thorough int) int {
	if c.Deep {
		return thorough
	}
	return quick
}

func loadCtx(repo string, cfg BuildCfg, r *Report) (*Ctx, error) {
	env := append(os.Environ(), "GOWORK=off", "GOFLAGS=-mod=mod", "GOPROXY=off", "GOSUMDB=off", "GOTOOLCHAIN=local", "GOOS=linux", "GOARCH="+cfg.GOARCH, "CGO_ENABLED=0")
	pc := &packages.Config{Mode: packages.LoadSyntax | packages.NeedModule, Dir: repo, Env: env}
	if cfg.Tags != "" {
		pc.BuildFlags = []string{"-tags=" + cfg.Tags}
	}
	pkgs, err := packages.Load(pc, "./...")
	if err != nil {
		return nil, fmt.Errorf("load %s: %v", cfg, err)
	}
	if len(pkgs) != 1 {
		var names []string
		for _, p := range pkgs {
			names = append(names, p.PkgPath)
		}
		return nil, fmt.Errorf("load %s: expected exactly 1 non-test package under %s, got %d %v", cfg, repo, len(pkgs), names)
	}
	p := pkgs[0]
	if len(p.Errors) > 0 || p.IllTyped {
		var es []string
		for _, e := range p.Errors {
			es = append(es, e.Error())
		}
		return nil, fmt.Errorf("load %s: package does not type-check: %s", cfg, strings.Join(es, "; "))
	}
	if len(p.Syntax) == 0 {
		return nil, fmt.Errorf("load %s: no source files", cfg)
	}
	c := &Ctx{R: r, Cfg: cfg.String(), Repo: repo, Pkg: p, Fset: p.Fset, Info: p.TypesInfo, Types: p.Types, decls: map[string]*ast.FuncDecl{}}
	if p.Module != nil {
		c.goVers = p.Module.GoVersion
	}
	for _, f := range p.Syntax {
		for _, d := range f.Decls {
			if fd, ok := d.(*ast.FuncDecl); ok && fd.Body != nil {
				c.decls[declName(fd)] = fd
			}
		}
	}
	return c, nil
}

func declName(fd *ast.FuncDecl) string {
	if fd.Recv == nil || len(fd.Recv.List) == 0 {
		return fd.Name.Name
	}
	t := fd.Recv.List[0].Type
	star := ""
	if s, ok := t.(*ast.StarExpr); ok {
		star = "*"
		t = s.X
	}
	switch g := t.(type) { // a generic receiver `(b *base[T])`
	case *ast.IndexExpr:
		t = g.X
	case *ast.IndexListExpr:
		t = g.X
	}
	if id, ok := t.(*ast.Ident); ok {
		return "(" + star + id.Name + ")." + fd.Name.Name
	}
	return fd.Name.Name
}

// Decl returns the declaration with the given qualified name or nil.
func (c *Ctx) Decl(name string) *ast.FuncDecl {
	if fd := c.decls[name]; fd != nil || !strings.HasPrefix(name, "(*") {
		return fd
	}
	// "(*list).String" promoted from the base struct embedded in the container (with the ego field): the base's declaration
	if iv, ok := invCache[c]; ok {
		for _, ct := range iv.Conts {
			prefix := "(*" + ct.Named.Obj().Name() + ")."
			if ct.Base == nil || !strings.HasPrefix(name, prefix) {
				continue
			}
			if obj, _, _ := types.LookupFieldOrMethod(types.NewPointer(ct.Named), true, c.Types, strings.TrimPrefix(name, prefix)); obj != nil {
				if f, ok := obj.(*types.Func); ok {
					return c.DeclOf(f.Origin())
				}
			}
		}
	}
	return nil
}

// DeclNames returns all declared function names, sorted.
func (c *Ctx) DeclNames() []string {
	var s []string
	for n := range c.decls {
		s = append(s, n)
	}
	sort.Strings(s)
	return s
}

// DeclOf returns the declaration of a function object of this package.
func (c *Ctx) DeclOf(fn *types.Func) *ast.FuncDecl {
	if fn == nil || fn.Pkg() != c.Types {
		return nil
	}
	if o := fn.Origin(); o != nil {
		fn = o // a method of an instantiated generic type is declared once, on the generic type
	}
	for _, fd := range c.decls {
		if c.Info.Defs[fd.Name] == fn {
			return fd
		}
	}
	return nil
}

func (c *Ctx) FuncObj(fd *ast.FuncDecl) *types.Func {
	f, _ := c.Info.Defs[fd.Name].(*types.Func)
	return f
}

// SSA builds (once) the SSA form of the package.
func (c *Ctx) SSA() *ssa.Package {
	if c.spkg != nil {
		return c.spkg
	}
	prog, spkgs := ssautil.Packages([]*packages.Package{c.Pkg}, ssa.InstantiateGenerics)
	if len(spkgs) != 1 || spkgs[0] == nil {
		panic("ssa: package not built")
	}
	spkgs[0].Build()
	c.prog, c.spkg = prog, spkgs[0]
	return c.spkg
}

// SSAFunc returns the SSA function for a declaration.
func (c *Ctx) SSAFunc(fd *ast.FuncDecl) *ssa.Function {
	c.SSA()
	fn := c.FuncObj(fd)
	if fn == nil {
		return nil
	}
	return c.prog.FuncValue(fn)
}

func (c *Ctx) Pos(p token.Pos) string {
	s := posStr(c.Fset, p)
	return strings.TrimPrefix(s, c.Repo+"/")
}

// ---- obligation helpers

type Ob struct {
	c *Ctx
	o *Obligation
}

func (c *Ctx) Ob(rule, construct string, pos token.Pos) *Ob {
	return &Ob{c, &Obligation{Rule: rule, Construct: construct, Pos: c.Pos(pos), Config: c.Cfg}}
}

func (b *Ob) Ok(f string, a ...any) {
	b.o.Status, b.o.Why = Discharged, fmt.Sprintf(f, a...)
	b.c.R.add(b.o)
}
func (b *Ob) OkTrivial(f string, a ...any) {
	b.o.Status, b.o.Why, b.o.Trivial = Discharged, fmt.Sprintf(f, a...), true
	b.c.R.add(b.o)
}
func (b *Ob) Fail(f string, a ...any) {
	b.o.Status, b.o.Why = Violated, fmt.Sprintf(f, a...)
	b.c.R.add(b.o)
}
func (b *Ob) Undecided(f string, a ...any) {
	b.o.Status, b.o.Why = Undecided, fmt.Sprintf(f, a...)
	b.c.R.add(b.o)
}
func (b *Ob) Missing(f string, a ...any) {
	b.o.Status, b.o.Why = AnchorMissing, fmt.Sprintf(f, a...)
	b.c.R.add(b.o)
}

// Check discharges when cond holds, otherwise records a violation.
func (b *Ob) Check(cond bool, okFact, failWhy string) {
	if cond {
		b.Ok("%s", okFact)
	} else {
		b.Fail("%s", failWhy)
	}
}

// NeedDecl returns the declaration or records ANCHOR-MISSING for the rule.
func (c *Ctx) NeedDecl(rule, name string) *ast.FuncDecl {
	fd := c.Decl(name)
	if fd == nil {
		c.Ob(rule, name, token.NoPos).Missing("function %s not found in the package", name)
	}
	return fd
}

// runAs runs a rule that is registered under another property and files its obligations under `rule` of the current one: the clause is a
// necessary condition of both properties (the dependency is named in the rule's documentation). keep selects the constructs that matter here.
func runAs(c *Ctx, rule string, f func(*Ctx), keep func(*Obligation) bool) int {
	r := newReport("tmp")
	c2 := *c
	c2.R = r
	f(&c2)
	if c.e3 == nil {
		c.e3 = c2.e3
	}
	n := 0
	for _, o := range r.obls {
		if keep != nil && !keep(o) {
			continue
		}
		o.Construct = o.Rule + ":" + o.Construct
		o.Rule = rule
		c.R.add(o)
		n++
	}
	return n
}
