package main

// C05.R5 — the sequence model of the list mutators, decided by folding the spine.
//
// The symbolic paths of Add, Insert, Replace, Delete, Pop, Clear, SubList and Concat are executed on a concrete little heap: the receiver's
// spine is an array of symbolic cells e0..e(n-1) (n = 0..3) followed by two stale cells (spare capacity), slices are (array, offset, len, cap)
// headers with Go's semantics for slicing, append (in place while capacity allows, overlapping operands like memmove) and copy, and every
// load reads the heap state of its epoch. After the path the visible content of the receiver (and of the result, for the deriving
// operations) must be what the sequence model predicts, cell by cell. Nothing of the library is run: the interpreter belongs to the checker
// and interprets only slice expressions, integer expressions and stores.

import (
	"go/ast"
	"go/types"
	"sort"
	"strings"
)

type seqSlice struct {
	id            int // array identity (0 = nil slice)
	off, len, cap int
}

type seqState struct {
	spine map[string]seqSlice // container key -> spine header
	arrs  map[int][]string    // array identity -> cells
}

func (s *seqState) clone() *seqState {
	n := &seqState{spine: map[string]seqSlice{}, arrs: map[int][]string{}}
	for k, v := range s.spine {
		n.spine[k] = v
	}
	for k, v := range s.arrs {
		n.arrs[k] = append([]string(nil), v...)
	}
	return n
}

type seqSnap struct {
	epoch int
	st    *seqState
}

type seqRun struct {
	c       *Ctx
	v       *sxView
	cur     *seqState
	snaps   []seqSnap
	ints    map[types.Object]int64   // integer parameters
	intArgs map[types.Object][]int64 // integer slice parameters (Delete's indexes)
	nVals   map[types.Object]int     // variadic value parameters: number of arguments
	bind    map[types.Object]string  // symbolic elements bound to variables (range value)
	loopInt map[int]map[types.Object]int64
	nextArr int
	convs   int          // conversions performed by per-step Add calls (each yields its own element)
	other   types.Object // the other list (Concat)
	why     string
	panic   string
}

func (r *seqRun) fail(f string) {
	if r.why == "" {
		r.why = f
	}
}

// newArr creates an array; it is known (with its initial content) to every snapshot, so that headers formed later can be read anywhere.
func (r *seqRun) newArr(cells []string) int {
	r.nextArr++
	id := r.nextArr
	r.cur.arrs[id] = cells
	for i := range r.snaps {
		r.snaps[i].st.arrs[id] = append([]string(nil), cells...)
	}
	return id
}

// cells: the visible cells of a slice header in the given heap state.
func (r *seqRun) cells(st *seqState, s seqSlice) []string {
	if s.id == 0 {
		return nil
	}
	a, ok := st.arrs[s.id]
	if !ok {
		a = r.cur.arrs[s.id]
	}
	return append([]string(nil), a[s.off:s.off+s.len]...)
}

func (r *seqRun) snapshot(epoch int) {
	r.snaps = append(r.snaps, seqSnap{epoch, r.cur.clone()})
}

// at: the heap state a load stamped with epoch sees (the most recent snapshot whose epoch does not exceed it).
func (r *seqRun) at(epoch int) *seqState {
	for i := len(r.snaps) - 1; i >= 0; i-- {
		if r.snaps[i].epoch <= epoch {
			return r.snaps[i].st
		}
	}
	return r.snaps[0].st
}

// containerKey: which container a term denotes.
func (r *seqRun) containerKey(t Term) string {
	for {
		switch x := t.(type) {
		case TAssert:
			t = x.X
			continue
		case TProj:
			t = x.X
			continue
		case TDeref:
			t = x.X
			continue
		}
		break
	}
	if r.v.isSelf(t) {
		return "recv"
	}
	if e, ok := r.v.valueOf(t); ok { // another.getVal()
		t = e
	}
	if tv, ok := t.(TVar); ok && r.other != nil && tv.Obj == r.other {
		return "other"
	}
	if a, ok := t.(TAddr); ok {
		if _, isLit := a.X.(TLit); isLit {
			return "new:" + key(a.X)
		}
	}
	if _, isLit := t.(TLit); isLit {
		return "new:" + key(t)
	}
	return ""
}

// freshLit: the literal behind a "new:" container term, to initialise its spine lazily.
func freshLit(t Term) (TLit, bool) {
	for {
		switch x := t.(type) {
		case TAddr:
			t = x.X
			continue
		case TDeref:
			t = x.X
			continue
		case TLit:
			return x, true
		}
		return TLit{}, false
	}
}

func (r *seqRun) spineOfContainer(x Term, epoch int) (seqSlice, bool) {
	k := r.containerKey(x)
	if k == "" {
		r.fail("spine of a container the model does not know: " + r.c.termStr(x))
		return seqSlice{}, false
	}
	st := r.cur
	if epoch >= 0 {
		st = r.at(epoch)
	}
	if s, ok := st.spine[k]; ok {
		return s, true
	}
	if s, ok := r.cur.spine[k]; ok && strings.HasPrefix(k, "new:") {
		return s, true
	}
	if strings.HasPrefix(k, "new:") {
		// first touch of a container allocated on this path: its spine is what the literal says
		lit, ok := freshLit(x)
		cl, isCl := lit.Node.(*ast.CompositeLit)
		if !ok || !isCl {
			r.fail("fresh container without a literal")
			return seqSlice{}, false
		}
		var init seqSlice
		for i, el := range cl.Elts {
			kv, isKV := el.(*ast.KeyValueExpr)
			if !isKV || i >= len(lit.Elts) {
				continue
			}
			if id, ok := kv.Key.(*ast.Ident); ok && r.v.ct != nil && id.Name == r.v.ct.Spine.Name() {
				s, ok := r.slice(lit.Elts[i])
				if !ok {
					return seqSlice{}, false
				}
				init = s
			}
		}
		r.cur.spine[k] = init
		for i := range r.snaps {
			if _, has := r.snaps[i].st.spine[k]; !has {
				r.snaps[i].st.spine[k] = init
			}
		}
		return init, true
	}
	r.fail("no spine recorded for " + k)
	return seqSlice{}, false
}

func (r *seqRun) intHook() func(Term) (int64, bool) {
	return func(t Term) (int64, bool) {
		switch x := t.(type) {
		case TVar:
			if n, ok := r.ints[x.Obj]; ok {
				return n, true
			}
		case TLoop:
			if m, ok := r.loopInt[x.ID]; ok {
				if n, ok := m[x.Obj]; ok {
					return n, true
				}
			}
		case TBuiltin:
			if (x.Name == "len" || x.Name == "cap") && len(x.Args) == 1 {
				if tv, ok := x.Args[0].(TVar); ok {
					if a, ok := r.intArgs[tv.Obj]; ok {
						return int64(len(a)), true
					}
					if n, ok := r.nVals[tv.Obj]; ok {
						return int64(n), true
					}
				}
				if s, ok := r.slice(x.Args[0]); ok {
					if x.Name == "len" {
						return int64(s.len), true
					}
					return int64(s.cap), true
				}
			}
		case TIndex:
			if tv, ok := x.X.(TVar); ok {
				if a, ok := r.intArgs[tv.Obj]; ok {
					e := &termEnv{hook: r.intHook()}
					i, ok := e.int(x.I)
					if ok && i >= 0 && int(i) < len(a) {
						return a[i], true
					}
					if ok {
						r.panic = "index out of range on an integer argument list"
					}
				}
			}
		case TCall:
			if b, ok := r.v.countOf(t); ok {
				if s, ok := r.spineOfContainer(b, x.Epoch); ok {
					return int64(s.len), true
				}
			}
		}
		return 0, false
	}
}

func (r *seqRun) int(t Term) (int64, bool) {
	e := &termEnv{hook: r.intHook()}
	n, ok := e.int(t)
	if !ok {
		r.fail("integer term outside the vocabulary: " + r.c.termStr(t) + " (" + e.fail + ")")
	}
	return n, ok
}

// cell: the symbolic element a term denotes.
func (r *seqRun) cell(t Term) (string, bool) {
	switch x := t.(type) {
	case TNil:
		return "nil", true
	case TVar:
		if s, ok := r.bind[x.Obj]; ok {
			return s, true
		}
		return "$" + x.Obj.Name(), true
	case TCall:
		if x.Fun != nil && x.Fun.Name() == "parseVal" && x.Fun.Pkg() == r.c.Types && len(x.Args) == 1 {
			a, ok := r.cell(x.Args[0])
			return "pv(" + a + ")", ok
		}
	case TIndex:
		if tv, ok := x.X.(TVar); ok {
			if _, isVals := r.nVals[tv.Obj]; isVals {
				i, ok := r.int(x.I)
				return "$" + tv.Obj.Name() + "[" + itoa(int(i)) + "]", ok
			}
		}
		s, ok := r.slice(x.X)
		if !ok {
			return "", false
		}
		i, ok := r.int(x.I)
		if !ok {
			return "", false
		}
		if i < 0 || int(i) >= s.len {
			r.panic = "index out of range"
			return "", false
		}
		// the array content as of the load's epoch
		return r.cells(r.at(x.Epoch), s)[i], true
	}
	return "?" + r.c.termStr(t), true
}

func (r *seqRun) slice(t Term) (seqSlice, bool) { return r.sliceAt(t, -1) }

func (r *seqRun) sliceAt(t Term, epoch int) (seqSlice, bool) {
	switch x := t.(type) {
	case TNil:
		return seqSlice{}, true
	case TConv:
		return r.sliceAt(x.X, epoch)
	case TSel:
		if b, ct := r.v.spineOf(x); ct != nil && ct.IsList {
			return r.spineOfContainer(b, x.Epoch) // the field as it was when it was loaded
		}
	case TLit:
		if _, isSl := x.Type.Underlying().(*types.Slice); isSl {
			var cs []string
			for _, e := range x.Elts {
				c, ok := r.cell(e)
				if !ok {
					return seqSlice{}, false
				}
				cs = append(cs, c)
			}
			return seqSlice{id: r.newArr(cs), len: len(cs), cap: len(cs)}, true
		}
	case TBuiltin:
		switch x.Name {
		case "make":
			if len(x.Args) == 0 {
				break
			}
			n, ok := r.int(x.Args[0])
			if !ok {
				return seqSlice{}, false
			}
			cp := n
			if len(x.Args) > 1 {
				if cp, ok = r.int(x.Args[1]); !ok {
					return seqSlice{}, false
				}
			}
			if n < 0 || cp < n {
				r.panic = "make: len out of range"
				return seqSlice{}, false
			}
			var cs []string
			for i := int64(0); i < cp; i++ {
				cs = append(cs, "nil")
			}
			return seqSlice{id: r.newArr(cs), len: int(n), cap: int(cp)}, true
		case "append":
			if len(x.Args) < 1 {
				break
			}
			dst, ok := r.sliceAt(x.Args[0], epoch)
			if !ok {
				return seqSlice{}, false
			}
			var add []string
			spread := false
			if ce, ok := x.Site.(*ast.CallExpr); ok && ce.Ellipsis.IsValid() {
				spread = true
			}
			if spread && len(x.Args) == 2 {
				src, ok := r.sliceAt(x.Args[1], epoch)
				if !ok {
					return seqSlice{}, false
				}
				add = r.cells(r.at(x.Epoch), src) // read before anything is written (memmove semantics for overlapping operands)
			} else {
				for _, e := range x.Args[1:] {
					c, ok := r.cell(e)
					if !ok {
						return seqSlice{}, false
					}
					add = append(add, c)
				}
			}
			if dst.len+len(add) <= dst.cap && dst.id != 0 {
				for i, c := range add {
					r.cur.arrs[dst.id][dst.off+dst.len+i] = c // in place: visible through every alias of the array
				}
				dst.len += len(add)
				return dst, true
			}
			cs := append(r.cells(r.at(x.Epoch), dst), add...)
			n := len(cs)
			cs = append(cs, "stale", "stale")
			return seqSlice{id: r.newArr(cs), len: n, cap: n + 2}, true
		}
	case TSlice:
		s, ok := r.sliceAt(x.X, epoch)
		if !ok {
			return seqSlice{}, false
		}
		lo, hi, mx := int64(0), int64(s.len), int64(s.cap)
		if x.Lo != nil {
			if lo, ok = r.int(x.Lo); !ok {
				return seqSlice{}, false
			}
		}
		if x.Hi != nil {
			if hi, ok = r.int(x.Hi); !ok {
				return seqSlice{}, false
			}
		}
		if x.Max != nil {
			if mx, ok = r.int(x.Max); !ok {
				return seqSlice{}, false
			}
		}
		if lo < 0 || lo > hi || hi > mx || mx > int64(s.cap) {
			r.panic = "slice bounds out of range"
			return seqSlice{}, false
		}
		return seqSlice{id: s.id, off: s.off + int(lo), len: int(hi - lo), cap: int(mx - lo)}, true
	}
	r.fail("slice term outside the vocabulary: " + r.c.termStr(t))
	return seqSlice{}, false
}

// exec runs the steps of a path on the heap.
func (r *seqRun) exec(steps []Step) bool {
	for _, st := range steps {
		if r.why != "" || r.panic != "" {
			return false
		}
		switch st.Kind {
		case "cond":
			// folded by the caller when the path was selected
		case "store":
			switch l := st.LHS.(type) {
			case TSel:
				b, ct := r.v.spineOf(l)
				if ct == nil || !ct.IsList {
					continue // ptr registration and the like
				}
				k := r.containerKey(b)
				s, ok := r.slice(st.RHS)
				if !ok || k == "" {
					r.fail("spine store the model cannot follow: " + r.c.stepStr(st))
					return false
				}
				if strings.HasPrefix(k, "new:") {
					r.spineOfContainer(b, -1) // make sure the container exists
				}
				r.cur.spine[k] = s
			case TIndex:
				s, ok := r.slice(l.X)
				if !ok {
					return false
				}
				i, ok := r.int(l.I)
				if !ok {
					return false
				}
				if i < 0 || int(i) >= s.len {
					r.panic = "index out of range"
					return false
				}
				c, ok := r.cell(st.RHS)
				if !ok {
					return false
				}
				r.cur.arrs[s.id][s.off+int(i)] = c
			case TVar:
				// an addressed local: not part of the spine model
			default:
				r.fail("store the model cannot follow: " + r.c.stepStr(st))
				return false
			}
			r.snapshot(st.Heap)
		case "call":
			if st.Blt != nil {
				switch st.Blt.Name {
				case "copy":
					dst, ok1 := r.slice(st.Blt.Args[0])
					src, ok2 := r.slice(st.Blt.Args[1])
					if !ok1 || !ok2 {
						return false
					}
					vals := r.cells(r.cur, src)
					n := len(vals)
					if dst.len < n {
						n = dst.len
					}
					for i := 0; i < n; i++ {
						r.cur.arrs[dst.id][dst.off+i] = vals[i]
					}
				default:
					r.fail("builtin " + st.Blt.Name + " outside the model")
					return false
				}
				r.snapshot(st.Heap)
				continue
			}
			call := st.Call
			if call == nil || call.Fun == nil {
				r.fail("call the model cannot follow")
				return false
			}
			switch {
			case call.Fun.FullName() == "sort.Ints" && len(call.Args) == 1:
				if tv, ok := call.Args[0].(TVar); ok {
					if a, ok := r.intArgs[tv.Obj]; ok {
						sort.Slice(a, func(i, j int) bool { return a[i] < a[j] })
						continue
					}
				}
				r.fail("sort.Ints on something that is not the index argument list")
				return false
			case call.Fun.Name() == "Init":
				// registration of the ego: no effect on spines
			case call.Recv != nil && strings.HasPrefix(r.containerKey(call.Recv), "new:") && call.Fun.Name() == "Add":
				// Add on the container being built: the model's append of a conversion made at this very step
				k := r.containerKey(call.Recv)
				sp, ok := r.spineOfContainer(call.Recv, -1)
				if !ok {
					return false
				}
				vals := r.cells(r.cur, sp)
				for _, a := range unpack(call.Args) {
					c, ok := r.cell(a)
					if !ok {
						return false
					}
					r.convs++
					vals = append(vals, "pv("+c+")#"+itoa(r.convs))
				}
				n := len(vals)
				r.cur.spine[k] = seqSlice{id: r.newArr(append(vals, "stale", "stale")), len: n, cap: n + 2}
				r.snapshot(st.Heap)
			case call.Recv != nil && r.v.isSelf(call.Recv) && call.Fun.Name() == "Add":
				// delegation to the public Add of the same list: the model's append (Add itself is decided by this rule)
				vals := r.cells(r.cur, r.cur.spine["recv"])
				for _, a := range unpack(call.Args) {
					c, ok := r.cell(a)
					if !ok {
						return false
					}
					vals = append(vals, "pv("+c+")")
				}
				n := len(vals)
				r.cur.spine["recv"] = seqSlice{id: r.newArr(append(vals, "stale", "stale")), len: n, cap: n + 2}
				r.snapshot(st.Heap)
			case call.Recv != nil && r.v.isSelf(call.Recv) && call.Fun.Name() == "Delete":
				vals := r.cells(r.cur, r.cur.spine["recv"])
				var idx []int
				for _, a := range unpack(call.Args) {
					i, ok := r.int(a)
					if !ok {
						return false
					}
					if i < 0 || int(i) >= len(vals) {
						r.panic = "Delete out of its domain"
						return false
					}
					idx = append(idx, int(i))
				}
				sort.Sort(sort.Reverse(sort.IntSlice(idx)))
				for _, i := range idx {
					vals = append(vals[:i], vals[i+1:]...)
				}
				n := len(vals)
				r.cur.spine["recv"] = seqSlice{id: r.newArr(append(append([]string(nil), vals...), "stale", "stale")), len: n, cap: n + 2}
				r.snapshot(st.Heap)
			default:
				r.fail("call outside the model: " + r.c.termStr(*call))
				return false
			}
		case "loop":
			if !r.loop(st.Loop) {
				return false
			}
		default:
			r.fail("step outside the model: " + st.Kind)
			return false
		}
	}
	return r.why == "" && r.panic == ""
}

func (r *seqRun) feasible(p *Path, upTo int) (bool, bool) {
	for i, st := range p.Steps {
		if upTo >= 0 && i >= upTo {
			break
		}
		if st.Kind != "cond" {
			continue
		}
		e := &termEnv{hook: r.intHook()}
		v, ok := e.bool(st.Cond.T)
		if !ok {
			r.fail("condition outside the vocabulary: " + r.c.termStr(st.Cond.T) + " (" + e.fail + ")")
			return false, false
		}
		if v != st.Cond.Truth {
			return false, true
		}
	}
	return true, true
}

func (r *seqRun) loop(l *LoopRec) bool {
	iterate := func() bool {
		// one iteration: the feasible iteration path in the current state
		r.snapshot(l.HeadEpoch)
		var sel *Path
		for _, ip := range l.Iter {
			if ip.Why != "" {
				r.fail(ip.Why)
				return false
			}
			ok, decided := r.feasible(ip, -1)
			if !decided {
				return false
			}
			if ok {
				if sel != nil {
					r.fail("two feasible iteration paths")
					return false
				}
				sel = ip
			}
		}
		if sel == nil {
			r.fail("no feasible iteration path")
			return false
		}
		if sel.End == "panic" {
			r.panic = "panic inside the loop"
			return false
		}
		if sel.End != "fall" && sel.End != "continue" {
			r.fail("loop left by " + sel.End)
			return false
		}
		return r.exec(sel.Steps)
	}
	if l.Range != nil {
		tv, ok := l.Over.(TVar)
		n, isVals := 0, false
		if ok {
			n, isVals = r.nVals[tv.Obj]
		}
		if !isVals {
			r.fail("range over something that is not the argument list: " + r.c.termStr(l.Over))
			return false
		}
		for j := 0; j < n; j++ {
			if l.Value != nil {
				r.bind[l.Value] = "$" + tv.Obj.Name() + "[" + itoa(j) + "]"
			}
			if l.Key != nil {
				r.ints[l.Key] = int64(j)
			}
			if !iterate() {
				return false
			}
		}
		return true
	}
	sim := r.c.newLoopSim(l, r.intHook())
	if sim.why != "" && l.For != nil && l.CondT != nil && l.Post == nil {
		// a loop governed by the heap alone (`for len(spine) < n { … }`): the condition is re-read in the state every iteration leaves
		for it := 0; it < 16; it++ {
			r.snapshot(l.HeadEpoch)
			e := &termEnv{hook: r.intHook()}
			cond, ok := e.bool(l.CondT)
			if !ok {
				r.fail("loop condition outside the vocabulary: " + e.fail)
				return false
			}
			if !cond {
				return true
			}
			if !iterate() {
				return false
			}
		}
		r.fail("loop does not terminate within 16 iterations")
		return false
	}
	if sim.why != "" {
		r.fail(sim.why)
		return false
	}
	for it := 0; it < 16; it++ {
		r.loopInt[l.ID] = sim.state
		cond, ok := sim.cond(r.intHook())
		if !ok {
			r.fail(sim.why)
			return false
		}
		if !cond {
			return true
		}
		if !iterate() {
			return false
		}
		if !sim.post() {
			r.fail(sim.why)
			return false
		}
	}
	r.fail("loop does not terminate within 16 iterations")
	return false
}

// seqCase: one concrete call of a list method.
type seqCase struct {
	n       int     // receiver length
	ints    []int64 // integer parameters, in order
	indexes []int64 // Delete
	nVals   int     // Add
	m       int     // Concat: length of the other list
	want    []string
	wantRes []string // deriving operations: content of the result; receiver must stay as it was
}

func elems(prefix string, n int) []string {
	var out []string
	for i := 0; i < n; i++ {
		out = append(out, prefix+itoa(i))
	}
	return out
}

func c05Sequence(c *Ctx) {
	total := 0
	for _, m := range []string{"Add", "Insert", "Replace", "Delete", "Pop", "Clear", "SubList", "Concat"} {
		name := "(*list)." + m
		fd := c.NeedDecl("C05.R5", name)
		if fd == nil {
			continue
		}
		ob := c.Ob("C05.R5", name+"/sequence-model", fd.Pos())
		paths, why := c.runPaths(fd)
		if why != "" {
			ob.Undecided("body outside the path vocabulary: %s", why)
			continue
		}
		v := c.view(fd)
		var intPs []types.Object
		var idxP, valsP, otherP, valueP types.Object
		for _, f := range fd.Type.Params.List {
			_, variadic := f.Type.(*ast.Ellipsis)
			for _, nm := range f.Names {
				o := c.Info.Defs[nm]
				switch {
				case variadic && isIntType(o.Type().(*types.Slice).Elem()):
					idxP = o
				case variadic:
					valsP = o
				case isIntType(o.Type()):
					intPs = append(intPs, o)
				case c.Inv().ContByIface(o.Type()) != nil:
					otherP = o
				default:
					valueP = o
				}
			}
		}
		vname := "value"
		if valueP != nil {
			vname = valueP.Name()
		}
		var cases []seqCase
		for n := 0; n <= c.depth(3, 5); n++ {
			e := elems("e", n)
			switch m {
			case "Add":
				for k := 0; k <= 3; k++ {
					w := append([]string(nil), e...)
					for j := 0; j < k; j++ {
						w = append(w, "pv($"+valsP.Name()+"["+itoa(j)+"])")
					}
					cases = append(cases, seqCase{n: n, nVals: k, want: w})
				}
			case "Insert":
				for i := 0; i <= n; i++ {
					w := append(append(append([]string(nil), e[:i]...), "pv($"+vname+")"), e[i:]...)
					cases = append(cases, seqCase{n: n, ints: []int64{int64(i)}, want: w})
				}
			case "Replace":
				for i := 0; i < n; i++ {
					w := append([]string(nil), e...)
					w[i] = "pv($" + vname + ")"
					cases = append(cases, seqCase{n: n, ints: []int64{int64(i)}, want: w})
				}
			case "Delete":
				var sets [][]int64
				sets = append(sets, nil)
				for i := 0; i < n; i++ {
					sets = append(sets, []int64{int64(i)})
					for j := 0; j < n; j++ {
						if i != j {
							sets = append(sets, []int64{int64(i), int64(j)})
						}
					}
				}
				for _, s := range sets {
					del := map[int]bool{}
					for _, i := range s {
						del[int(i)] = true
					}
					var w []string
					for i, x := range e {
						if !del[i] {
							w = append(w, x)
						}
					}
					cases = append(cases, seqCase{n: n, indexes: append([]int64(nil), s...), want: w})
				}
			case "Pop":
				if n > 0 {
					cases = append(cases, seqCase{n: n, want: append([]string(nil), e[:n-1]...)})
				}
			case "Clear":
				cases = append(cases, seqCase{n: n, want: nil})
			case "SubList":
				for end := -n; end <= n; end++ {
					eff := int(subListEff(int64(n), int64(end)))
					for start := 0; start <= eff; start++ {
						cases = append(cases, seqCase{n: n, ints: []int64{int64(start), int64(end)}, want: e, wantRes: append([]string{}, e[start:eff]...)})
					}
				}
			case "Concat":
				for mm := 0; mm <= 2; mm++ {
					cases = append(cases, seqCase{n: n, m: mm, want: e, wantRes: append(append([]string{}, e...), elems("f", mm)...)})
				}
			}
		}
		bad, undec := "", ""
		for _, cs := range cases {
			if bad != "" || undec != "" {
				break
			}
			label := "n=" + itoa(cs.n)
			r := &seqRun{c: c, v: v, ints: map[types.Object]int64{}, intArgs: map[types.Object][]int64{}, nVals: map[types.Object]int{}, bind: map[types.Object]string{}, loopInt: map[int]map[types.Object]int64{}, other: otherP}
			for i, o := range intPs {
				if i < len(cs.ints) {
					r.ints[o] = cs.ints[i]
					label += " " + o.Name() + "=" + itoa(int(cs.ints[i]))
				}
			}
			if idxP != nil {
				r.intArgs[idxP] = append([]int64(nil), cs.indexes...)
				label += " " + idxP.Name() + "=" + fmtInts(cs.indexes)
			}
			if valsP != nil {
				r.nVals[valsP] = cs.nVals
				label += " " + itoa(cs.nVals) + " value(s)"
			}
			r.cur = &seqState{spine: map[string]seqSlice{}, arrs: map[int][]string{}}
			r.cur.spine["recv"] = seqSlice{id: r.newArr(append(elems("e", cs.n), "stale", "stale")), len: cs.n, cap: cs.n + 2}
			if otherP != nil {
				r.cur.spine["other"] = seqSlice{id: r.newArr(append(elems("f", cs.m), "stale")), len: cs.m, cap: cs.m + 1}
				label += " other=" + itoa(cs.m)
			}
			r.snapshot(-1 << 30)
			// the path taken: the returning path whose decisions all fold to their recorded truth (decisions after a loop step belong to
			// exits from inside the loop and are decided during the simulation)
			var sel *Path
			for _, p := range paths {
				firstLoop := -1
				for i, st := range p.Steps {
					if st.Kind == "loop" {
						firstLoop = i
						break
					}
				}
				exit := false
				if firstLoop >= 0 {
					for _, st := range p.Steps[firstLoop+1:] {
						if st.Kind == "cond" {
							exit = true
						}
					}
				}
				if exit {
					continue
				}
				ok, decided := r.feasible(p, firstLoop)
				if !decided {
					break
				}
				if ok && (firstLoop >= 0 || p.End == "return" || p.End == "panic") {
					if firstLoop < 0 {
						if ok2, _ := r.feasible(p, -1); !ok2 {
							continue
						}
					}
					if sel != nil && sel != p {
						r.fail("two feasible paths")
					}
					sel = p
				}
			}
			if r.why != "" {
				undec = label + ": " + r.why
				break
			}
			if sel == nil {
				undec = label + ": no feasible path"
				break
			}
			if sel.End != "return" {
				bad = label + ": the call panics although its arguments lie inside the documented domain"
				break
			}
			r.exec(sel.Steps)
			if r.panic != "" {
				bad = label + ": " + r.panic
				break
			}
			if r.why != "" {
				undec = label + ": " + r.why
				break
			}
			got := r.cells(r.cur, r.cur.spine["recv"])
			if strings.Join(got, ",") != strings.Join(cs.want, ",") {
				bad = label + ": the receiver shows [" + strings.Join(got, ",") + "], the sequence model predicts [" + strings.Join(cs.want, ",") + "]"
				break
			}
			if otherP != nil {
				if og := r.cells(r.cur, r.cur.spine["other"]); strings.Join(og, ",") != strings.Join(elems("f", cs.m), ",") {
					bad = label + ": the argument list is changed to [" + strings.Join(og, ",") + "]"
					break
				}
			}
			if cs.wantRes != nil {
				if len(sel.Vals) != 1 {
					undec = label + ": no single result"
					break
				}
				k := r.containerKey(sel.Vals[0])
				if !strings.HasPrefix(k, "new:") {
					bad = label + ": the result is not a list created by this call"
					break
				}
				rs, ok := r.spineOfContainer(sel.Vals[0], -1)
				if !ok {
					undec = label + ": " + r.why
					break
				}
				if rg := r.cells(r.cur, rs); strings.Join(rg, ",") != strings.Join(cs.wantRes, ",") {
					bad = label + ": the result shows [" + strings.Join(rg, ",") + "], the sequence model predicts [" + strings.Join(cs.wantRes, ",") + "]"
					break
				}
			} else if len(sel.Vals) == 1 && !v.isSelf(sel.Vals[0]) {
				if _, _, ok := v.selfCall(sel.Vals[0]); !ok {
					bad = label + ": the mutator does not return the list itself"
					break
				}
			}
		}
		total += len(cases)
		switch {
		case undec != "":
			ob.Undecided("the spine model cannot follow the method: %s", undec)
		case bad != "":
			ob.Fail("%s", bad)
		default:
			ob.Ok("on all %d calls with receiver lengths 0.."+itoa(c.depth(3, 5))+" (two stale cells of spare capacity behind the visible ones) the visible content afterwards is exactly what the sequence model predicts", len(cases))
		}
	}
	c.R.Floor("C05.R5", total, 60)
}
