package main

// C05.R5 — the sequence model of the list mutators, decided by folding the spine.
//
// The symbolic paths of Add, Insert, Replace, Delete, Pop, Clear, SubList and Concat are executed on a concrete little heap: the receiver's
// spine is an array of symbolic cells e0..e(n-1) (n = 0..3) followed by two stale cells (spare capacity), slices are (array, offset, len, cap)
// headers with Go's semantics for slicing, append (in place while capacity allows, overlapping operands like memmove) and copy, and every
// load reads the heap state of its epoch. After the path the visible content of the receiver (and of the result, for the deriving
// operations) must be what the sequence model predicts, cell by cell. Nothing of the library is run: the interpreter belongs to the checker
// and interprets only slice expressions, integer expressions and stores.

import (
	"go/ast"
	"go/token"
	"go/types"
	"sort"
	"strings"
)

type seqSlice struct {
	id            int // array identity (0 = nil slice)
	off, len, cap int
}

type seqMap struct {
	keys []string
	vals map[string]string
}

type seqState struct {
	spine  map[string]seqSlice // container key -> spine header (lists)
	arrs   map[int][]string    // array identity -> cells
	mspine map[string]int      // container key -> map identity (objects)
	maps   map[int]*seqMap
}

func newSeqState() *seqState {
	return &seqState{spine: map[string]seqSlice{}, arrs: map[int][]string{}, mspine: map[string]int{}, maps: map[int]*seqMap{}}
}

func (s *seqState) clone() *seqState {
	n := newSeqState()
	for k, v := range s.spine {
		n.spine[k] = v
	}
	for k, v := range s.arrs {
		n.arrs[k] = append([]string(nil), v...)
	}
	for k, v := range s.mspine {
		n.mspine[k] = v
	}
	for k, v := range s.maps {
		m := &seqMap{keys: append([]string(nil), v.keys...), vals: map[string]string{}}
		for a, b := range v.vals {
			m.vals[a] = b
		}
		n.maps[k] = m
	}
	return n
}

func (m *seqMap) set(k, v string) {
	if _, ok := m.vals[k]; !ok {
		m.keys = append(m.keys, k)
	}
	m.vals[k] = v
}

func (m *seqMap) String() string {
	ks := append([]string(nil), m.keys...)
	sort.Strings(ks)
	var parts []string
	for _, k := range ks {
		parts = append(parts, k+":"+m.vals[k])
	}
	return "{" + strings.Join(parts, ",") + "}"
}

type seqSnap struct {
	epoch int
	st    *seqState
}

type seqRun struct {
	c         *Ctx
	v         *sxView
	cur       *seqState
	snaps     []seqSnap
	ints      map[types.Object]int64   // integer parameters
	intArgs   map[types.Object][]int64 // integer slice parameters (Delete's indexes)
	nVals     map[types.Object]int     // variadic value parameters: number of arguments
	bind      map[types.Object]string  // symbolic elements bound to variables (range value)
	loopInt   map[int]map[types.Object]int64
	nextArr   int
	convs     int                 // conversions performed by per-step Add calls (each yields its own element)
	other     types.Object        // the other list (Concat)
	made      map[string]seqSlice // make([]field…) terms already allocated (a term denotes one allocation)
	madeMap   map[string]int
	opnd      func(Term) bool // the native operand of a From-constructor (a slice or map of opndLen symbolic entries)
	opndLen   int
	opndArr   int                       // the operand's own array, once it has been read as a slice
	sliceVars map[types.Object]seqSlice // loop-carried slice locals (accumulate-then-assign)
	why       string
	panic     string
}

func (r *seqRun) fail(f string) {
	if r.why == "" {
		r.why = f
	}
}

// newArr creates an array; it is known (with its initial content) to every snapshot, so that headers formed later can be read anywhere.
func (r *seqRun) newArr(cells []string) int {
	r.nextArr++
	id := r.nextArr
	r.cur.arrs[id] = cells
	for i := range r.snaps {
		r.snaps[i].st.arrs[id] = append([]string(nil), cells...)
	}
	return id
}

// cells: the visible cells of a slice header in the given heap state.
func (r *seqRun) cells(st *seqState, s seqSlice) []string {
	if s.id == 0 {
		return nil
	}
	a, ok := st.arrs[s.id]
	if !ok {
		a = r.cur.arrs[s.id]
	}
	return append([]string(nil), a[s.off:s.off+s.len]...)
}

func (r *seqRun) snapshot(epoch int) {
	r.snaps = append(r.snaps, seqSnap{epoch, r.cur.clone()})
}

// at: the heap state a load stamped with epoch sees (the most recent snapshot whose epoch does not exceed it).
func (r *seqRun) at(epoch int) *seqState {
	for i := len(r.snaps) - 1; i >= 0; i-- {
		if r.snaps[i].epoch <= epoch {
			return r.snaps[i].st
		}
	}
	return r.snaps[0].st
}

// containerKey: which container a term denotes.
func (r *seqRun) containerKey(t Term) string {
	for {
		switch x := t.(type) {
		case TAssert:
			t = x.X
			continue
		case TProj:
			t = x.X
			continue
		case TDeref:
			t = x.X
			continue
		}
		break
	}
	// R.Add(…) / R.Set(…) as a value: a fluent method hands back the registered ego of R (every return of the method has origin
	// receiver-via-ego, E3 as in C19.R1) — for a container made and registered in this call, that container
	if call, ok := t.(TCall); ok && call.Recv != nil && r.c.isFluentMethod(call.Fun) {
		if k := r.containerKey(call.Recv); k != "" {
			return k
		}
	}
	if r.v.isSelf(t) {
		return "recv"
	}
	if e, ok := r.v.valueOf(t); ok { // another.getVal()
		t = e
	}
	if tv, ok := t.(TVar); ok && r.other != nil && tv.Obj == r.other {
		return "other"
	}
	if a, ok := t.(TAddr); ok {
		if _, isLit := a.X.(TLit); isLit {
			return "new:" + key(a.X)
		}
	}
	if _, isLit := t.(TLit); isLit {
		return "new:" + key(t)
	}
	if call, ok := t.(TCall); ok && call.Fun != nil && call.Fun.Pkg() == r.c.Types && call.Recv == nil && (call.Fun.Name() == "NewObject" || call.Fun.Name() == "NewList") {
		return "new:" + key(t) // a container made by the public constructor (with arguments: filled by the call step, see exec)
	}
	return ""
}

// freshLit: the literal behind a "new:" container term, to initialise its spine lazily.
func freshLit(t Term) (TLit, bool) {
	for {
		switch x := t.(type) {
		case TAddr:
			t = x.X
			continue
		case TDeref:
			t = x.X
			continue
		case TLit:
			return x, true
		}
		return TLit{}, false
	}
}

func (r *seqRun) spineOfContainer(x Term, epoch int) (seqSlice, bool) {
	k := r.containerKey(x)
	if k == "" {
		r.fail("spine of a container the model does not know: " + r.c.termStr(x))
		return seqSlice{}, false
	}
	st := r.cur
	if epoch >= 0 {
		st = r.at(epoch)
	}
	if s, ok := st.spine[k]; ok {
		return s, true
	}
	if s, ok := r.cur.spine[k]; ok && strings.HasPrefix(k, "new:") {
		return s, true
	}
	if strings.HasPrefix(k, "new:") {
		if _, isCall := x.(TCall); isCall {
			init := seqSlice{id: r.newArr([]string{"stale", "stale"}), len: 0, cap: 2}
			r.cur.spine[k] = init
			for i := range r.snaps {
				if _, has := r.snaps[i].st.spine[k]; !has {
					r.snaps[i].st.spine[k] = init
				}
			}
			return init, true
		}
		// first touch of a container allocated on this path: its spine is what the literal says
		lit, ok := freshLit(x)
		cl, isCl := lit.Node.(*ast.CompositeLit)
		if !ok || !isCl {
			r.fail("fresh container without a literal")
			return seqSlice{}, false
		}
		var init seqSlice
		for i, el := range cl.Elts {
			kv, isKV := el.(*ast.KeyValueExpr)
			if !isKV || i >= len(lit.Elts) {
				continue
			}
			if id, ok := kv.Key.(*ast.Ident); ok && r.v.ct != nil && id.Name == r.v.ct.Spine.Name() {
				s, ok := r.slice(lit.Elts[i])
				if !ok {
					return seqSlice{}, false
				}
				init = s
			}
		}
		r.cur.spine[k] = init
		for i := range r.snaps {
			if _, has := r.snaps[i].st.spine[k]; !has {
				r.snaps[i].st.spine[k] = init
			}
		}
		return init, true
	}
	r.fail("no spine recorded for " + k)
	return seqSlice{}, false
}

func (r *seqRun) intHook() func(Term) (int64, bool) {
	return func(t Term) (int64, bool) {
		switch x := t.(type) {
		case TVar:
			if n, ok := r.ints[x.Obj]; ok {
				return n, true
			}
		case TLoop:
			if m, ok := r.loopInt[x.ID]; ok {
				if n, ok := m[x.Obj]; ok {
					return n, true
				}
			}
		case TBuiltin:
			if (x.Name == "len" || x.Name == "cap") && len(x.Args) == 1 {
				if tv, ok := x.Args[0].(TVar); ok {
					if a, ok := r.intArgs[tv.Obj]; ok {
						return int64(len(a)), true
					}
					if n, ok := r.nVals[tv.Obj]; ok {
						return int64(n), true
					}
				}
				if r.opnd != nil && r.opnd(x.Args[0]) {
					return int64(r.opndLen), true
				}
				if id, ok := r.mapOf(x.Args[0]); ok && x.Name == "len" {
					return int64(len(r.cur.maps[id].keys)), true
				}
				if s, ok := r.slice(x.Args[0]); ok {
					if x.Name == "len" {
						return int64(s.len), true
					}
					return int64(s.cap), true
				}
			}
		case TIndex:
			if tv, ok := x.X.(TVar); ok {
				if a, ok := r.intArgs[tv.Obj]; ok {
					e := &termEnv{hook: r.intHook()}
					i, ok := e.int(x.I)
					if ok && i >= 0 && int(i) < len(a) {
						return a[i], true
					}
					if ok {
						r.panic = "index out of range on an integer argument list"
					}
				}
			}
		case TCall:
			if b, ok := r.v.countOf(t); ok {
				if s, ok := r.spineOfContainer(b, x.Epoch); ok {
					return int64(s.len), true
				}
			}
		}
		return 0, false
	}
}

func (r *seqRun) int(t Term) (int64, bool) {
	e := &termEnv{hook: r.intHook()}
	n, ok := e.int(t)
	if !ok {
		r.fail("integer term outside the vocabulary: " + r.c.termStr(t) + " (" + e.fail + ")")
	}
	return n, ok
}

// cell: the symbolic element a term denotes.
func (r *seqRun) cell(t Term) (string, bool) {
	switch x := t.(type) {
	case TNil:
		return "nil", true
	case TVar:
		if s, ok := r.bind[x.Obj]; ok {
			return s, true
		}
		return "$" + x.Obj.Name(), true
	case TCall:
		if x.Fun != nil && x.Fun.Name() == "parseVal" && x.Fun.Pkg() == r.c.Types && len(x.Args) == 1 {
			a, ok := r.cell(x.Args[0])
			return "pv(" + a + ")", ok
		}
		if x.Fun != nil && x.Recv != nil && len(x.Args) == 0 && (x.Fun.Name() == "copy" || r.c.isValueAccessor(x.Fun)) {
			a, ok := r.cell(x.Recv)
			return x.Fun.Name() + "(" + a + ")", ok
		}
		if x.Fun != nil && x.Recv != nil && len(x.Args) == 1 && x.Fun.Name() == "Get" && r.v.isSelf(x.Recv) {
			a, ok := r.cell(x.Args[0])
			return "Get(" + a + ")", ok // what the receiver's own getter hands back under that key / at that index (it panics when there is none)
		}
		if x.Fun != nil && x.Recv == nil && len(x.Args) == 1 {
			if kind, isCtor := r.c.wrapperCtor(x.Fun); isCtor {
				if _, isConv := x.Args[0].(TConv); !isConv {
					a, ok := r.cell(x.Args[0])
					return "W<" + kind + ">(" + a + ")", ok // the wrapper of that kind around the value, unconverted
				}
			}
		}
	case TConv:
		return r.cell(x.X)
	case TIndex:
		if r.opnd != nil && r.opnd(x.X) {
			if ks := r.keySym(x.I); strings.HasPrefix(ks, "$k[") {
				return "$s[" + ks[3:], true // the operand map looked up under one of its own keys
			}
			i, ok := r.int(x.I)
			if ok && (i < 0 || int(i) >= r.opndLen) {
				r.panic = "index out of range on the operand"
				return "", false
			}
			return "$s[" + itoa(int(i)) + "]", ok
		}
		if id, isMap := r.mapOf(x.X); isMap {
			st := r.at(x.Epoch)
			m, ok := st.maps[id]
			if !ok {
				m = r.cur.maps[id]
			}
			if c, ok := m.vals[r.keySym(x.I)]; ok {
				return c, true
			}
			return "nil", true // absent key: the zero field
		}
		if tv, ok := x.X.(TVar); ok {
			if _, isVals := r.nVals[tv.Obj]; isVals {
				i, ok := r.int(x.I)
				return "$" + tv.Obj.Name() + "[" + itoa(int(i)) + "]", ok
			}
		}
		s, ok := r.slice(x.X)
		if !ok {
			return "", false
		}
		i, ok := r.int(x.I)
		if !ok {
			return "", false
		}
		if i < 0 || int(i) >= s.len {
			r.panic = "index out of range"
			return "", false
		}
		// the array content as of the load's epoch
		return r.cells(r.at(x.Epoch), s)[i], true
	}
	return "?" + r.c.termStr(t), true
}

// mapOf: the map a term denotes (an object's spine, a map made on this path); silent when the term is no map.
func (r *seqRun) mapOf(t Term) (int, bool) {
	newMap := func() int {
		r.nextArr++
		id := r.nextArr
		r.cur.maps[id] = &seqMap{vals: map[string]string{}}
		for i := range r.snaps {
			r.snaps[i].st.maps[id] = &seqMap{vals: map[string]string{}}
		}
		return id
	}
	switch x := t.(type) {
	case TSel:
		b, ct := r.v.spineOf(x)
		if ct == nil || ct.IsList {
			return 0, false
		}
		k := r.containerKey(b)
		if k == "" {
			return 0, false
		}
		if id, ok := r.cur.mspine[k]; ok {
			return id, true
		}
		if !strings.HasPrefix(k, "new:") {
			return 0, false
		}
		id := 0
		if lit, ok := freshLit(b); ok {
			if cl, isCl := lit.Node.(*ast.CompositeLit); isCl {
				for i, el := range cl.Elts {
					kv, isKV := el.(*ast.KeyValueExpr)
					if !isKV || i >= len(lit.Elts) {
						continue
					}
					if kid, ok := kv.Key.(*ast.Ident); ok && kid.Name == ct.Spine.Name() {
						if mid, ok := r.mapOf(lit.Elts[i]); ok {
							id = mid
						}
					}
				}
			}
		}
		if id == 0 {
			id = newMap()
		}
		r.cur.mspine[k] = id
		for i := range r.snaps {
			if _, has := r.snaps[i].st.mspine[k]; !has {
				r.snaps[i].st.mspine[k] = id
			}
		}
		return id, true
	case TBuiltin:
		if x.Name == "make" && x.Type != nil {
			if _, isMap := x.Type.Underlying().(*types.Map); isMap {
				if r.madeMap == nil {
					r.madeMap = map[string]int{}
				}
				if id, ok := r.madeMap[key(x)]; ok {
					return id, true
				}
				id := newMap()
				r.madeMap[key(x)] = id
				return id, true
			}
		}
	case TLit:
		if x.Type != nil {
			if _, isMap := x.Type.Underlying().(*types.Map); isMap && len(x.Elts) == 0 {
				if r.madeMap == nil {
					r.madeMap = map[string]int{}
				}
				if id, ok := r.madeMap[key(x)]; ok {
					return id, true
				}
				id := newMap()
				r.madeMap[key(x)] = id
				return id, true
			}
		}
	}
	return 0, false
}

// objectMap: the spine of an object container term (a container made by NewObject() starts empty).
func (r *seqRun) objectMap(x Term) (int, bool) {
	k := r.containerKey(x)
	if k == "" {
		return 0, false
	}
	if id, ok := r.cur.mspine[k]; ok {
		return id, true
	}
	if _, isCall := x.(TCall); isCall && strings.HasPrefix(k, "new:") {
		r.nextArr++
		id := r.nextArr
		r.cur.maps[id] = &seqMap{vals: map[string]string{}}
		r.cur.mspine[k] = id
		for i := range r.snaps {
			r.snaps[i].st.maps[id] = &seqMap{vals: map[string]string{}}
			r.snaps[i].st.mspine[k] = id
		}
		return id, true
	}
	for _, ct := range r.c.Inv().Conts {
		if !ct.IsList {
			return r.mapOf(TSel{X: x, Field: ct.Spine})
		}
	}
	return 0, false
}

// keySym: the symbolic map key a term denotes.
func (r *seqRun) keySym(t Term) string {
	switch x := t.(type) {
	case TVar:
		if s, ok := r.bind[x.Obj]; ok {
			return s
		}
		return "$" + x.Obj.Name()
	case TConst:
		return x.Val.ExactString()
	}
	return "?" + r.c.termStr(t)
}

func (r *seqRun) slice(t Term) (seqSlice, bool) { return r.sliceAt(t, -1) }

func (r *seqRun) sliceAt(t Term, epoch int) (seqSlice, bool) {
	// the native operand itself, when it is a slice: its symbolic entries, in order (NewListFrom([]any) handing it on: Add(s...))
	if r.opnd != nil && r.opnd(t) {
		if tt := r.c.termType(t); tt != nil {
			if _, isSl := tt.Underlying().(*types.Slice); isSl {
				if r.opndArr == 0 {
					var cs []string
					for i := 0; i < r.opndLen; i++ {
						cs = append(cs, "$s["+itoa(i)+"]")
					}
					r.opndArr = r.newArr(cs)
				}
				return seqSlice{id: r.opndArr, len: r.opndLen, cap: r.opndLen}, true
			}
		}
	}
	switch x := t.(type) {
	case TNil:
		return seqSlice{}, true
	case TLoop:
		if s, ok := r.sliceVars[x.Obj]; ok {
			return s, true
		}
	case TConv:
		return r.sliceAt(x.X, epoch)
	case TSel:
		if b, ct := r.v.spineOf(x); ct != nil && ct.IsList {
			return r.spineOfContainer(b, x.Epoch) // the field as it was when it was loaded
		}
	case TLit:
		if _, isSl := x.Type.Underlying().(*types.Slice); isSl {
			var cs []string
			for _, e := range x.Elts {
				c, ok := r.cell(e)
				if !ok {
					return seqSlice{}, false
				}
				cs = append(cs, c)
			}
			return seqSlice{id: r.newArr(cs), len: len(cs), cap: len(cs)}, true
		}
	case TBuiltin:
		switch x.Name {
		case "make":
			if len(x.Args) == 0 {
				break
			}
			n, ok := r.int(x.Args[0])
			if !ok {
				return seqSlice{}, false
			}
			cp := n
			if len(x.Args) > 1 {
				if cp, ok = r.int(x.Args[1]); !ok {
					return seqSlice{}, false
				}
			}
			if n < 0 || cp < n {
				r.panic = "make: len out of range"
				return seqSlice{}, false
			}
			if r.made == nil {
				r.made = map[string]seqSlice{}
			}
			if s, ok := r.made[key(x)]; ok {
				return s, true // the same allocation, met again (headers derived from it carry their own length)
			}
			var cs []string
			for i := int64(0); i < cp; i++ {
				cs = append(cs, "nil")
			}
			sl := seqSlice{id: r.newArr(cs), len: int(n), cap: int(cp)}
			r.made[key(x)] = sl
			return sl, true
		case "append":
			if len(x.Args) < 1 {
				break
			}
			dst, ok := r.sliceAt(x.Args[0], epoch)
			if !ok {
				return seqSlice{}, false
			}
			var add []string
			spread := false
			if ce, ok := x.Site.(*ast.CallExpr); ok && ce.Ellipsis.IsValid() {
				spread = true
			}
			if spread && len(x.Args) == 2 {
				src, ok := r.sliceAt(x.Args[1], epoch)
				if !ok {
					return seqSlice{}, false
				}
				add = r.cells(r.at(x.Epoch), src) // read before anything is written (memmove semantics for overlapping operands)
			} else {
				for _, e := range x.Args[1:] {
					c, ok := r.cell(e)
					if !ok {
						return seqSlice{}, false
					}
					add = append(add, c)
				}
			}
			if dst.len+len(add) <= dst.cap && dst.id != 0 {
				for i, c := range add {
					r.cur.arrs[dst.id][dst.off+dst.len+i] = c // in place: visible through every alias of the array
				}
				dst.len += len(add)
				return dst, true
			}
			cs := append(r.cells(r.at(x.Epoch), dst), add...)
			n := len(cs)
			cs = append(cs, "stale", "stale")
			return seqSlice{id: r.newArr(cs), len: n, cap: n + 2}, true
		}
	case TSlice:
		s, ok := r.sliceAt(x.X, epoch)
		if !ok {
			return seqSlice{}, false
		}
		lo, hi, mx := int64(0), int64(s.len), int64(s.cap)
		if x.Lo != nil {
			if lo, ok = r.int(x.Lo); !ok {
				return seqSlice{}, false
			}
		}
		if x.Hi != nil {
			if hi, ok = r.int(x.Hi); !ok {
				return seqSlice{}, false
			}
		}
		if x.Max != nil {
			if mx, ok = r.int(x.Max); !ok {
				return seqSlice{}, false
			}
		}
		if lo < 0 || lo > hi || hi > mx || mx > int64(s.cap) {
			r.panic = "slice bounds out of range"
			return seqSlice{}, false
		}
		return seqSlice{id: s.id, off: s.off + int(lo), len: int(hi - lo), cap: int(mx - lo)}, true
	}
	r.fail("slice term outside the vocabulary: " + r.c.termStr(t))
	return seqSlice{}, false
}

// exec runs the steps of a path on the heap.
func (r *seqRun) exec(steps []Step) bool {
	for _, st := range steps {
		if r.why != "" || r.panic != "" {
			return false
		}
		switch st.Kind {
		case "cond":
			// folded by the caller when the path was selected
		case "store":
			switch l := st.LHS.(type) {
			case TSel:
				b, ct := r.v.spineOf(l)
				if ct != nil && !ct.IsList {
					if id, ok := r.mapOf(st.RHS); ok {
						if k := r.containerKey(b); k != "" {
							r.cur.mspine[k] = id
							r.snapshot(st.Heap)
							continue
						}
					}
					r.fail("map spine store the model cannot follow: " + r.c.stepStr(st))
					return false
				}
				if ct == nil {
					continue // ptr registration and the like
				}
				k := r.containerKey(b)
				s, ok := r.slice(st.RHS)
				if !ok || k == "" {
					r.fail("spine store the model cannot follow: " + r.c.stepStr(st))
					return false
				}
				if strings.HasPrefix(k, "new:") {
					r.spineOfContainer(b, -1) // make sure the container exists
				}
				r.cur.spine[k] = s
			case TIndex:
				if id, isMap := r.mapOf(l.X); isMap {
					c, ok := r.cell(st.RHS)
					if !ok {
						return false
					}
					r.cur.maps[id].set(r.keySym(l.I), c)
					r.snapshot(st.Heap)
					continue
				}
				s, ok := r.slice(l.X)
				if !ok {
					return false
				}
				i, ok := r.int(l.I)
				if !ok {
					return false
				}
				if i < 0 || int(i) >= s.len {
					r.panic = "index out of range"
					return false
				}
				c, ok := r.cell(st.RHS)
				if !ok {
					return false
				}
				r.cur.arrs[s.id][s.off+int(i)] = c
			case TVar:
				// an addressed local: not part of the spine model
			default:
				r.fail("store the model cannot follow: " + r.c.stepStr(st))
				return false
			}
			r.snapshot(st.Heap)
		case "call":
			if st.Blt != nil {
				switch st.Blt.Name {
				case "copy":
					dst, ok1 := r.slice(st.Blt.Args[0])
					src, ok2 := r.slice(st.Blt.Args[1])
					if !ok1 || !ok2 {
						return false
					}
					vals := r.cells(r.cur, src)
					n := len(vals)
					if dst.len < n {
						n = dst.len
					}
					for i := 0; i < n; i++ {
						r.cur.arrs[dst.id][dst.off+i] = vals[i]
					}
				default:
					r.fail("builtin " + st.Blt.Name + " outside the model")
					return false
				}
				r.snapshot(st.Heap)
				continue
			}
			call := st.Call
			if call == nil || call.Fun == nil {
				r.fail("call the model cannot follow")
				return false
			}
			switch {
			case r.opnd != nil && len(call.Args) == 1 && r.opnd(call.Args[0]) && trustedSorts[call.Fun.FullName()] != "":
				// the trusted sort permutes the operand in place: its entries are symbolic, $s[j] now names the j-th in sorted order
			case call.Fun.FullName() == "sort.IntsAreSorted" && len(call.Args) == 1:
				// a pure question (its answer is a condition of the path)
			case call.Fun.FullName() == "sort.Ints" && len(call.Args) == 1:
				if tv, ok := call.Args[0].(TVar); ok {
					if a, ok := r.intArgs[tv.Obj]; ok {
						sort.Slice(a, func(i, j int) bool { return a[i] < a[j] })
						continue
					}
				}
				r.fail("sort.Ints on something that is not the index argument list")
				return false
			case call.Recv == nil && call.Fun.Pkg() == r.c.Types && len(call.Args) == 0 && (call.Fun.Name() == "NewList" || call.Fun.Name() == "NewObject"):
				// an empty container: its spine is created when it is first touched
			case call.Recv == nil && call.Fun.Pkg() == r.c.Types && len(call.Args) > 0 && (call.Fun.Name() == "NewList" || call.Fun.Name() == "NewObject"):
				// the public constructor with values: the conversion of each, in order (NewList: C05.R9's constructor; NewObject: Set of the pairs, C06.R1)
				var cs []string
				if call.Site != nil && call.Site.Ellipsis.IsValid() && len(call.Args) == 1 {
					src, ok := r.slice(call.Args[0])
					if !ok {
						return false
					}
					cs = r.cells(r.cur, src)
				} else {
					for _, a := range unpack(call.Args) {
						c, ok := r.cell(a)
						if !ok {
							return false
						}
						cs = append(cs, c)
					}
				}
				k := r.containerKey(*call)
				if call.Fun.Name() == "NewList" {
					vals := make([]string, 0, len(cs)+2)
					for _, c := range cs {
						vals = append(vals, "pv("+c+")")
					}
					n := len(vals)
					r.cur.spine[k] = seqSlice{id: r.newArr(append(vals, "stale", "stale")), len: n, cap: n + 2}
				} else {
					if len(cs)%2 != 0 {
						r.panic = "NewObject with an odd number of values"
						return false
					}
					id, ok := r.objectMap(*call)
					if !ok {
						r.fail("constructor call the model cannot follow: " + r.c.termStr(*call))
						return false
					}
					for i := 0; i+1 < len(cs); i += 2 {
						r.cur.maps[id].set(cs[i], "pv("+cs[i+1]+")")
					}
				}
				r.snapshot(st.Heap)
			case call.Fun.Name() == "Init":
				// registration of the ego: no effect on spines
			case call.Recv != nil && strings.HasPrefix(r.containerKey(call.Recv), "new:") && call.Fun.Name() == "Set":
				// Set on the object being built: plain map assignment of the conversion of each value (C06.R1)
				id, ok := r.objectMap(call.Recv)
				if ok && call.Site != nil && call.Site.Ellipsis.IsValid() && len(call.Args) == 1 {
					// Set(pairs...): the collected pairs, in order
					src, okS := r.slice(call.Args[0])
					if !okS {
						return false
					}
					cs := r.cells(r.cur, src)
					if len(cs)%2 != 0 {
						r.panic = "Set with an odd number of values"
						return false
					}
					for i := 0; i+1 < len(cs); i += 2 {
						r.cur.maps[id].set(cs[i], "pv("+cs[i+1]+")")
					}
					r.snapshot(st.Heap)
					continue
				}
				args := unpack(call.Args)
				if !ok || len(args)%2 != 0 {
					r.fail("Set the model cannot follow: " + r.c.termStr(*call))
					return false
				}
				for i := 0; i+1 < len(args); i += 2 {
					c, ok := r.cell(args[i+1])
					if !ok {
						return false
					}
					r.cur.maps[id].set(r.keySym(args[i]), "pv("+c+")")
				}
				r.snapshot(st.Heap)
			case call.Fun.Name() == "copy" && call.Recv != nil && len(call.Args) == 0:
				// element.copy(): its value is the term; no effect on the containers modelled here
			case call.Recv != nil && strings.HasPrefix(r.containerKey(call.Recv), "new:") && call.Fun.Name() == "Add":
				// Add on the container being built: the model's append of a conversion made at this very step
				k := r.containerKey(call.Recv)
				sp, ok := r.spineOfContainer(call.Recv, -1)
				if !ok {
					return false
				}
				vals := r.cells(r.cur, sp)
				if call.Site != nil && call.Site.Ellipsis.IsValid() && len(call.Args) == 1 {
					// Add(values...): the collected values, in order, converted by this one call
					src, okS := r.slice(call.Args[0])
					if !okS {
						return false
					}
					for _, c := range r.cells(r.cur, src) {
						vals = append(vals, "pv("+c+")")
					}
				} else {
					for _, a := range unpack(call.Args) {
						c, ok := r.cell(a)
						if !ok {
							return false
						}
						r.convs++
						vals = append(vals, "pv("+c+")#"+itoa(r.convs))
					}
				}
				n := len(vals)
				r.cur.spine[k] = seqSlice{id: r.newArr(append(vals, "stale", "stale")), len: n, cap: n + 2}
				r.snapshot(st.Heap)
			case call.Recv != nil && r.v.isSelf(call.Recv) && call.Fun.Name() == "Add":
				// delegation to the public Add of the same list: the model's append (Add itself is decided by this rule)
				vals := r.cells(r.cur, r.cur.spine["recv"])
				for _, a := range unpack(call.Args) {
					c, ok := r.cell(a)
					if !ok {
						return false
					}
					vals = append(vals, "pv("+c+")")
				}
				n := len(vals)
				r.cur.spine["recv"] = seqSlice{id: r.newArr(append(vals, "stale", "stale")), len: n, cap: n + 2}
				r.snapshot(st.Heap)
			case call.Recv != nil && r.v.isSelf(call.Recv) && call.Fun.Name() == "Delete":
				vals := r.cells(r.cur, r.cur.spine["recv"])
				var idx []int
				for _, a := range unpack(call.Args) {
					i, ok := r.int(a)
					if !ok {
						return false
					}
					if i < 0 || int(i) >= len(vals) {
						r.panic = "Delete out of its domain"
						return false
					}
					idx = append(idx, int(i))
				}
				sort.Sort(sort.Reverse(sort.IntSlice(idx)))
				for _, i := range idx {
					vals = append(vals[:i], vals[i+1:]...)
				}
				n := len(vals)
				r.cur.spine["recv"] = seqSlice{id: r.newArr(append(append([]string(nil), vals...), "stale", "stale")), len: n, cap: n + 2}
				r.snapshot(st.Heap)
			default:
				r.fail("call outside the model: " + r.c.termStr(*call))
				return false
			}
		case "loop":
			if !r.loop(st.Loop) {
				return false
			}
		default:
			r.fail("step outside the model: " + st.Kind)
			return false
		}
	}
	return r.why == "" && r.panic == ""
}

func (r *seqRun) feasible(p *Path, upTo int) (bool, bool) {
	for i, st := range p.Steps {
		if upTo >= 0 && i >= upTo {
			break
		}
		if st.Kind != "cond" {
			continue
		}
		// `values == nil` for the pack of a variadic parameter: with arguments it is not nil; with none it may be either (f() hands
		// nil, f(empty...) an empty slice) — both ways are followed
		if b, ok := st.Cond.T.(TBin); ok && (b.Op == token.EQL || b.Op == token.NEQ) {
			x := b.X
			if _, isN := b.Y.(TNil); !isN {
				x = nil
				if _, isN := b.X.(TNil); isN {
					x = b.Y
				}
			}
			if tv, ok := x.(TVar); ok {
				cnt, known := -1, false
				if k, has := r.nVals[tv.Obj]; has {
					cnt, known = k, true
				} else if a, has := r.intArgs[tv.Obj]; has {
					cnt, known = len(a), true
				}
				if known {
					if cnt == 0 {
						continue
					}
					isNil := false
					if (b.Op == token.EQL) == isNil != st.Cond.Truth {
						return false, true
					}
					continue
				}
			}
		}
		e := &termEnv{hook: r.intHook(), bhook: func(t Term) (bool, bool) {
			// sort.IntsAreSorted(indexes): decided on the index list as it is now
			if call, ok := t.(TCall); ok && call.Fun != nil && call.Fun.FullName() == "sort.IntsAreSorted" && len(call.Args) == 1 {
				if tv, ok := call.Args[0].(TVar); ok {
					if a, ok := r.intArgs[tv.Obj]; ok {
						return sort.SliceIsSorted(a, func(i, j int) bool { return a[i] < a[j] }), true
					}
				}
			}
			return false, false
		}}
		v, ok := e.bool(st.Cond.T)
		if !ok {
			r.fail("condition outside the vocabulary: " + r.c.termStr(st.Cond.T) + " (" + e.fail + ")")
			return false, false
		}
		if v != st.Cond.Truth {
			return false, true
		}
	}
	return true, true
}

func (r *seqRun) loop(l *LoopRec) bool {
	// loop-carried slice locals start from their value before the loop
	isFieldSlice := func(o types.Object) bool {
		sl, ok := o.Type().Underlying().(*types.Slice)
		if !ok {
			return false
		}
		if it, isIface := sl.Elem().Underlying().(*types.Interface); isIface && it.Empty() {
			return true // []any: values collected for a constructor
		}
		return types.Identical(sl.Elem(), r.c.Inv().Field)
	}
	carriedInts := map[types.Object]bool{}
	if l.Range != nil {
		// integers a range loop carries along (a position counter kept by hand)
		for o, t := range l.Init {
			if !isIntType(o.Type()) {
				continue
			}
			e := &termEnv{hook: r.intHook()}
			n, ok := e.int(t)
			if !ok {
				continue // not foldable: a use fails where it occurs
			}
			if r.loopInt[l.ID] == nil {
				r.loopInt[l.ID] = map[types.Object]int64{}
			}
			r.loopInt[l.ID][o] = n
			carriedInts[o] = true
		}
	}
	for o, t := range l.Init {
		if isFieldSlice(o) {
			if r.sliceVars == nil {
				r.sliceVars = map[types.Object]seqSlice{}
			}
			s, ok := r.slice(t)
			if !ok {
				return false
			}
			r.sliceVars[o] = s
		}
	}
	carry := func(sel *Path) bool {
		for o := range r.sliceVars {
			nt, ok := sel.Env[o]
			if !ok {
				continue
			}
			if lv, same := nt.(TLoop); same && lv.Obj == o && lv.ID == l.ID {
				continue
			}
			s, ok := r.slice(nt)
			if !ok {
				return false
			}
			r.sliceVars[o] = s
		}
		next := map[types.Object]int64{}
		for o := range carriedInts {
			nt, ok := sel.Env[o]
			if !ok {
				continue
			}
			e := &termEnv{hook: r.intHook()}
			n, ok := e.int(nt)
			if !ok {
				delete(r.loopInt[l.ID], o)
				delete(carriedInts, o)
				continue
			}
			next[o] = n
		}
		for o, n := range next {
			r.loopInt[l.ID][o] = n
		}
		return true
	}
	iterate := func() bool {
		// one iteration: the feasible iteration path in the current state
		r.snapshot(l.HeadEpoch)
		var sel *Path
		for _, ip := range l.Iter {
			if ip.Why != "" {
				r.fail(ip.Why)
				return false
			}
			ok, decided := r.feasible(ip, -1)
			if !decided {
				return false
			}
			if ok {
				if sel != nil {
					r.fail("two feasible iteration paths")
					return false
				}
				sel = ip
			}
		}
		if sel == nil {
			r.fail("no feasible iteration path")
			return false
		}
		if sel.End == "panic" {
			r.panic = "panic inside the loop"
			return false
		}
		if sel.End != "fall" && sel.End != "continue" {
			r.fail("loop left by " + sel.End)
			return false
		}
		return r.exec(sel.Steps) && carry(sel)
	}
	if l.Range != nil {
		// the native operand of a From-constructor, or the receiver's own spine
		entries := -1
		keyPfx, valPfx := "", ""
		if r.opnd != nil && r.opnd(l.Over) {
			entries, keyPfx, valPfx = r.opndLen, "$k", "$s"
		} else if b, ct := r.v.spineOf(l.Over); ct != nil && r.containerKey(b) == "recv" {
			if ct.IsList {
				entries, valPfx = r.cur.spine["recv"].len, "e"
			} else if id, ok := r.cur.mspine["recv"]; ok {
				entries, keyPfx, valPfx = len(r.cur.maps[id].keys), "k", "e"
			}
		}
		if entries < 0 {
			// any other list known to the model (the one being built): its elements as they are when the loop starts
			if b, ct := r.v.spineOf(l.Over); ct != nil && ct.IsList && r.containerKey(b) != "" {
				if hdr, ok := r.spineOfContainer(b, -1); ok {
					cells := r.cells(r.cur, hdr)
					for j := range cells {
						if l.Key != nil {
							r.ints[l.Key] = int64(j)
						}
						if l.Value != nil {
							r.bind[l.Value] = cells[j]
						}
						if !iterate() {
							return false
						}
					}
					return true
				}
			}
		}
		if entries >= 0 {
			isMapRange := false
			if t := r.c.termType(l.Over); t != nil {
				_, isMapRange = t.Underlying().(*types.Map)
			}
			if b, ct := r.v.spineOf(l.Over); ct != nil && b != nil && !ct.IsList {
				isMapRange = true
			}
			for j := 0; j < entries; j++ {
				if l.Key != nil {
					if isMapRange {
						r.bind[l.Key] = keyPfx + itoa(j)
						if keyPfx == "$k" {
							r.bind[l.Key] = "$k[" + itoa(j) + "]"
						}
					} else {
						r.ints[l.Key] = int64(j)
					}
				}
				if l.Value != nil {
					if valPfx == "$s" {
						r.bind[l.Value] = "$s[" + itoa(j) + "]"
					} else {
						r.bind[l.Value] = valPfx + itoa(j)
					}
				}
				if !iterate() {
					return false
				}
			}
			return true
		}
		tv, ok := l.Over.(TVar)
		n, isVals := 0, false
		if ok {
			n, isVals = r.nVals[tv.Obj]
		}
		if !isVals {
			// a window of a spine or a local slice: its cells as they are when the loop starts (range evaluates its operand once)
			if _, isSl := l.Over.(TSlice); isSl {
				if hdr, ok := r.slice(l.Over); ok {
					cells := r.cells(r.cur, hdr)
					for j := range cells {
						if l.Key != nil {
							r.ints[l.Key] = int64(j)
						}
						if l.Value != nil {
							r.bind[l.Value] = cells[j]
						}
						if !iterate() {
							return false
						}
					}
					return true
				}
				return false
			}
		}
		if !isVals && ok {
			// the integer argument list (Delete's indexes): positions and values as they are now (after a sort, the sorted ones)
			if a, isInts := r.intArgs[tv.Obj]; isInts {
				vals := append([]int64(nil), a...)
				for j := range vals {
					if l.Key != nil {
						r.ints[l.Key] = int64(j)
					}
					if l.Value != nil {
						r.ints[l.Value] = vals[j]
					}
					if !iterate() {
						return false
					}
				}
				return true
			}
		}
		if !isVals {
			r.fail("range over something that is not the argument list: " + r.c.termStr(l.Over))
			return false
		}
		for j := 0; j < n; j++ {
			if l.Value != nil {
				r.bind[l.Value] = "$" + tv.Obj.Name() + "[" + itoa(j) + "]"
			}
			if l.Key != nil {
				r.ints[l.Key] = int64(j)
			}
			if !iterate() {
				return false
			}
		}
		return true
	}
	sim := r.c.newLoopSim(l, r.intHook())
	if sim.why != "" && l.For != nil && l.CondT != nil && l.Post == nil {
		// a loop governed by the heap alone (`for len(spine) < n { … }`): the condition is re-read in the state every iteration leaves
		for it := 0; it < 16; it++ {
			r.snapshot(l.HeadEpoch)
			e := &termEnv{hook: r.intHook()}
			cond, ok := e.bool(l.CondT)
			if !ok {
				r.fail("loop condition outside the vocabulary: " + e.fail)
				return false
			}
			if !cond {
				return true
			}
			if !iterate() {
				return false
			}
		}
		r.fail("loop does not terminate within 16 iterations")
		return false
	}
	if sim.why != "" {
		r.fail(sim.why)
		return false
	}
	for it := 0; it < 16; it++ {
		r.loopInt[l.ID] = sim.state
		cond, ok := sim.cond(r.intHook())
		if !ok {
			r.fail(sim.why)
			return false
		}
		if !cond {
			return true
		}
		if !iterate() {
			return false
		}
		if !sim.post() {
			r.fail(sim.why)
			return false
		}
	}
	r.fail("loop does not terminate within 16 iterations")
	return false
}

// seqCase: one concrete call of a list method.
type seqCase struct {
	n       int     // receiver length
	ints    []int64 // integer parameters, in order
	indexes []int64 // Delete
	nVals   int     // Add
	m       int     // Concat: length of the other list
	want    []string
	wantRes []string // deriving operations: content of the result; receiver must stay as it was
}

func elems(prefix string, n int) []string {
	var out []string
	for i := 0; i < n; i++ {
		out = append(out, prefix+itoa(i))
	}
	return out
}

func c05Sequence(c *Ctx) {
	total := 0
	for _, m := range []string{"Add", "Insert", "Replace", "Delete", "Pop", "Clear", "SubList", "Concat"} {
		name := "(*list)." + m
		fd := c.NeedDecl("C05.R5", name)
		if fd == nil {
			continue
		}
		ob := c.Ob("C05.R5", name+"/sequence-model", fd.Pos())
		paths, why := c.runPaths(fd)
		if why != "" {
			ob.Undecided("body outside the path vocabulary: %s", why)
			continue
		}
		v := c.view(fd)
		var intPs []types.Object
		var idxP, valsP, otherP, valueP types.Object
		for _, f := range fd.Type.Params.List {
			_, variadic := f.Type.(*ast.Ellipsis)
			for _, nm := range f.Names {
				o := c.Info.Defs[nm]
				switch {
				case variadic && isIntType(o.Type().(*types.Slice).Elem()):
					idxP = o
				case variadic:
					valsP = o
				case isIntType(o.Type()):
					intPs = append(intPs, o)
				case c.Inv().ContByIface(o.Type()) != nil:
					otherP = o
				default:
					valueP = o
				}
			}
		}
		vname := "value"
		if valueP != nil {
			vname = valueP.Name()
		}
		var cases []seqCase
		for n := 0; n <= c.depth(3, 5); n++ {
			e := elems("e", n)
			switch m {
			case "Add":
				for k := 0; k <= 3; k++ {
					w := append([]string(nil), e...)
					for j := 0; j < k; j++ {
						w = append(w, "pv($"+valsP.Name()+"["+itoa(j)+"])")
					}
					cases = append(cases, seqCase{n: n, nVals: k, want: w})
				}
			case "Insert":
				for i := 0; i <= n; i++ {
					w := append(append(append([]string(nil), e[:i]...), "pv($"+vname+")"), e[i:]...)
					cases = append(cases, seqCase{n: n, ints: []int64{int64(i)}, want: w})
				}
			case "Replace":
				for i := 0; i < n; i++ {
					w := append([]string(nil), e...)
					w[i] = "pv($" + vname + ")"
					cases = append(cases, seqCase{n: n, ints: []int64{int64(i)}, want: w})
				}
			case "Delete":
				var sets [][]int64
				sets = append(sets, nil)
				for i := 0; i < n; i++ {
					sets = append(sets, []int64{int64(i)})
					for j := 0; j < n; j++ {
						if i != j {
							sets = append(sets, []int64{int64(i), int64(j)})
						}
					}
				}
				for _, s := range sets {
					del := map[int]bool{}
					for _, i := range s {
						del[int(i)] = true
					}
					var w []string
					for i, x := range e {
						if !del[i] {
							w = append(w, x)
						}
					}
					cases = append(cases, seqCase{n: n, indexes: append([]int64(nil), s...), want: w})
				}
			case "Pop":
				if n > 0 {
					cases = append(cases, seqCase{n: n, want: append([]string(nil), e[:n-1]...)})
				}
			case "Clear":
				cases = append(cases, seqCase{n: n, want: nil})
			case "SubList":
				for end := -n; end <= n; end++ {
					eff := int(subListEff(int64(n), int64(end)))
					for start := 0; start <= eff; start++ {
						cases = append(cases, seqCase{n: n, ints: []int64{int64(start), int64(end)}, want: e, wantRes: append([]string{}, e[start:eff]...)})
					}
				}
			case "Concat":
				for mm := 0; mm <= 2; mm++ {
					cases = append(cases, seqCase{n: n, m: mm, want: e, wantRes: append(append([]string{}, e...), elems("f", mm)...)})
				}
			}
		}
		bad, undec := "", ""
		for _, cs := range cases {
			if bad != "" || undec != "" {
				break
			}
			label := "n=" + itoa(cs.n)
			r := &seqRun{c: c, v: v, ints: map[types.Object]int64{}, intArgs: map[types.Object][]int64{}, nVals: map[types.Object]int{}, bind: map[types.Object]string{}, loopInt: map[int]map[types.Object]int64{}, other: otherP}
			for i, o := range intPs {
				if i < len(cs.ints) {
					r.ints[o] = cs.ints[i]
					label += " " + o.Name() + "=" + itoa(int(cs.ints[i]))
				}
			}
			if idxP != nil {
				r.intArgs[idxP] = append([]int64(nil), cs.indexes...)
				label += " " + idxP.Name() + "=" + fmtInts(cs.indexes)
			}
			if valsP != nil {
				r.nVals[valsP] = cs.nVals
				label += " " + itoa(cs.nVals) + " value(s)"
			}
			r.cur = newSeqState()
			r.cur.spine["recv"] = seqSlice{id: r.newArr(append(elems("e", cs.n), "stale", "stale")), len: cs.n, cap: cs.n + 2}
			if otherP != nil {
				r.cur.spine["other"] = seqSlice{id: r.newArr(append(elems("f", cs.m), "stale")), len: cs.m, cap: cs.m + 1}
				label += " other=" + itoa(cs.m)
			}
			r.snapshot(-1 << 30)
			// the path taken: the returning path whose decisions all fold to their recorded truth (decisions after a loop step belong to
			// exits from inside the loop and are decided during the simulation)
			var sel *Path
			for _, p := range paths {
				firstLoop := -1
				for i, st := range p.Steps {
					if st.Kind == "loop" {
						firstLoop = i
						break
					}
				}
				exit := false
				if firstLoop >= 0 {
					for _, st := range p.Steps[firstLoop+1:] {
						if st.Kind == "cond" {
							exit = true
						}
					}
				}
				if exit {
					continue
				}
				ok, decided := r.feasible(p, firstLoop)
				if !decided {
					break
				}
				if ok && (firstLoop >= 0 || p.End == "return" || p.End == "panic") {
					if firstLoop < 0 {
						if ok2, _ := r.feasible(p, -1); !ok2 {
							continue
						}
					}
					if sel != nil && sel != p {
						r.fail("two feasible paths")
					}
					sel = p
				}
			}
			if r.why != "" {
				undec = label + ": " + r.why
				break
			}
			if sel == nil {
				undec = label + ": no feasible path"
				break
			}
			if sel.End != "return" {
				bad = label + ": the call panics although its arguments lie inside the documented domain"
				break
			}
			r.exec(sel.Steps)
			if r.panic != "" {
				bad = label + ": " + r.panic
				break
			}
			if r.why != "" {
				undec = label + ": " + r.why
				break
			}
			got := r.cells(r.cur, r.cur.spine["recv"])
			if strings.Join(got, ",") != strings.Join(cs.want, ",") {
				bad = label + ": the receiver shows [" + strings.Join(got, ",") + "], the sequence model predicts [" + strings.Join(cs.want, ",") + "]"
				break
			}
			if otherP != nil {
				if og := r.cells(r.cur, r.cur.spine["other"]); strings.Join(og, ",") != strings.Join(elems("f", cs.m), ",") {
					bad = label + ": the argument list is changed to [" + strings.Join(og, ",") + "]"
					break
				}
			}
			if cs.wantRes != nil {
				if len(sel.Vals) != 1 {
					undec = label + ": no single result"
					break
				}
				k := r.containerKey(sel.Vals[0])
				if !strings.HasPrefix(k, "new:") {
					bad = label + ": the result is not a list created by this call"
					break
				}
				rs, ok := r.spineOfContainer(sel.Vals[0], -1)
				if !ok {
					undec = label + ": " + r.why
					break
				}
				if rg := r.cells(r.cur, rs); strings.Join(rg, ",") != strings.Join(cs.wantRes, ",") {
					bad = label + ": the result shows [" + strings.Join(rg, ",") + "], the sequence model predicts [" + strings.Join(cs.wantRes, ",") + "]"
					break
				}
			} else if len(sel.Vals) == 1 && !v.isSelf(sel.Vals[0]) {
				if _, _, ok := v.selfCall(sel.Vals[0]); !ok {
					bad = label + ": the mutator does not return the list itself"
					break
				}
			}
		}
		total += len(cases)
		switch {
		case undec != "":
			ob.Undecided("the spine model cannot follow the method: %s", undec)
		case bad != "":
			ob.Fail("%s", bad)
		default:
			ob.Ok("on all %d calls with receiver lengths 0.."+itoa(c.depth(3, 5))+" (two stale cells of spare capacity behind the visible ones) the visible content afterwards is exactly what the sequence model predicts", len(cases))
		}
	}
	c.R.Floor("C05.R5", total, 60)
}

// foldBuild executes one path of a function that BUILDS a container — a From-constructor arm (operand: a native slice or map of k symbolic
// entries) or copy() (receiver: a container of k symbolic elements) — on the spine model and compares the content of the returned
// container with want(k). Returns "" when the construction is element-wise for k = 0..3, otherwise what differs (undec: outside the model).
func (c *Ctx) foldBuild(v *sxView, p *Path, operand Term, par types.Object, recvIsList, resultIsList bool, want func(k int) ([]string, map[string]string)) (bad, undec string) {
	return c.foldBuildInto(v, p, operand, par, recvIsList, resultIsList, false, "", want)
}

// elemKindOf: the kind of the elements of a native slice/map type when they are of a basic Go type ("" otherwise).
func (c *Ctx) elemKindOf(t types.Type) string {
	if t == nil {
		return ""
	}
	var e types.Type
	switch u := t.Underlying().(type) {
	case *types.Slice:
		e = u.Elem()
	case *types.Map:
		e = u.Elem()
	}
	if e == nil {
		return ""
	}
	if _, isBasic := e.Underlying().(*types.Basic); !isBasic {
		return ""
	}
	return c.kindOfType(e)
}

// foldBuildInto: as foldBuild; intoRecv: the built content must be the RECEIVER's spine afterwards (Sort's rebuild). elemKind: wrappers of
// that kind constructed directly around an entry count as parseVal of it (parseVal's table maps that Go type to that constructor: C12.R1).
func (c *Ctx) foldBuildInto(v *sxView, p *Path, operand Term, par types.Object, recvIsList, resultIsList, intoRecv bool, elemKind string, want func(k int) ([]string, map[string]string)) (bad, undec string) {
	norm := func(cell string) string {
		if i := strings.LastIndex(cell, ")#"); i >= 0 && !strings.Contains(cell[i+2:], ")") {
			cell = cell[:i+1] // a conversion made by a per-entry Add: one per entry is what a constructor does
		}
		pre := "W<" + elemKind + ">("
		if elemKind != "" && strings.HasPrefix(cell, pre) {
			return "pv(" + strings.TrimPrefix(cell, pre)
		}
		return cell
	}
	if p.End != "return" || len(p.Vals) != 1 {
		return "the path does not return the container it builds", ""
	}
	kMin := 0
	if intoRecv {
		kMin = 1 // Sort examines element 0: the list is non-empty
	}
	for k := kMin; k <= 3; k++ {
		r := &seqRun{c: c, v: v, ints: map[types.Object]int64{}, intArgs: map[types.Object][]int64{}, nVals: map[types.Object]int{}, bind: map[types.Object]string{}, loopInt: map[int]map[types.Object]int64{}}
		if r.v.ct == nil {
			cp := *v
			for _, ct := range c.Inv().Conts {
				if ct.IsList == resultIsList {
					cp.ct = ct
				}
			}
			r.v = &cp
		}
		r.cur = newSeqState()
		if operand != nil || par != nil {
			r.opndLen = k
			r.opnd = func(t Term) bool {
				return (operand != nil && (sameTerm(t, operand) || sameTerm(t, TProj{operand, 0}))) || (par != nil && isParamTerm(t, par))
			}
		}
		if operand != nil {
			if intoRecv {
				r.cur.spine["recv"] = seqSlice{id: r.newArr(append(elems("e", k), "stale", "stale")), len: k, cap: k + 2}
			}
		} else if recvIsList {
			r.cur.spine["recv"] = seqSlice{id: r.newArr(append(elems("e", k), "stale", "stale")), len: k, cap: k + 2}
		} else {
			r.nextArr++
			m := &seqMap{vals: map[string]string{}}
			for j := 0; j < k; j++ {
				m.set("k"+itoa(j), "e"+itoa(j))
			}
			r.cur.maps[r.nextArr] = m
			r.cur.mspine["recv"] = r.nextArr
		}
		r.snapshot(-1 << 30)
		r.exec(p.Steps)
		label := itoa(k) + " entr" + map[bool]string{true: "y", false: "ies"}[k == 1]
		if r.panic != "" {
			return label + ": " + r.panic, ""
		}
		if r.why != "" {
			return "", label + ": " + r.why
		}
		wl, wm := want(k)
		if intoRecv {
			got := r.cells(r.cur, r.cur.spine["recv"])
			for i := range got {
				got[i] = norm(got[i])
			}
			if strings.Join(got, ",") != strings.Join(wl, ",") {
				return label + ": the receiver shows [" + strings.Join(got, ",") + "], expected [" + strings.Join(wl, ",") + "]", ""
			}
		} else if resultIsList {
			if !strings.HasPrefix(r.containerKey(p.Vals[0]), "new:") {
				return "the result is not a container created by this call", ""
			}
			rs, ok := r.spineOfContainer(p.Vals[0], -1)
			if !ok {
				return "", label + ": " + r.why
			}
			got := r.cells(r.cur, rs)
			for i := range got {
				got[i] = norm(got[i])
			}
			if strings.Join(got, ",") != strings.Join(wl, ",") {
				return label + ": the result shows [" + strings.Join(got, ",") + "], expected [" + strings.Join(wl, ",") + "]", ""
			}
		} else {
			if !strings.HasPrefix(r.containerKey(p.Vals[0]), "new:") {
				return "the result is not a container created by this call", ""
			}
			id, ok := r.objectMap(p.Vals[0])
			if !ok {
				return "", label + ": the result's map is not known to the model"
			}
			wantM := &seqMap{vals: map[string]string{}}
			var ks []string
			for a := range wm {
				ks = append(ks, a)
			}
			sort.Strings(ks)
			for _, a := range ks {
				wantM.set(a, wm[a])
			}
			gm := r.cur.maps[id]
			for a, b := range gm.vals {
				gm.vals[a] = norm(b)
			}
			if got := gm.String(); got != wantM.String() {
				return label + ": the result shows " + got + ", expected " + wantM.String(), ""
			}
		}
	}
	return "", ""
}

// wantFrom: what a From-constructor must build from k native entries.
func wantFrom(k int) ([]string, map[string]string) {
	var l []string
	m := map[string]string{}
	for j := 0; j < k; j++ {
		l = append(l, "pv($s["+itoa(j)+"])")
		m["$k["+itoa(j)+"]"] = "pv($s[" + itoa(j) + "])"
	}
	return l, m
}

// wantCopy: what copy() must build from a container of k elements.
func wantCopy(k int) ([]string, map[string]string) {
	var l []string
	m := map[string]string{}
	for j := 0; j < k; j++ {
		l = append(l, "pv(copy(e"+itoa(j)+"))")
		m["k"+itoa(j)] = "pv(copy(e" + itoa(j) + "))"
	}
	return l, m
}

// isFluentMethod: f is (the interface method or the implementation of) a container method all of whose returns are the registered
// ego of its receiver.
func (c *Ctx) isFluentMethod(f *types.Func) bool {
	if f == nil {
		return false
	}
	a := c.E3()
	found := false
	for _, ct := range c.Inv().Conts {
		if ct.Iface == nil {
			continue
		}
		sig, ok := f.Type().(*types.Signature)
		if !ok || sig.Results().Len() != 1 || !types.Identical(sig.Results().At(0).Type(), ct.Iface) {
			continue
		}
		fn := a.ByName("(*" + ct.Named.Obj().Name() + ")." + f.Name())
		if fn == nil {
			continue
		}
		s := a.sum[fn]
		if len(s.RetEach) == 0 {
			return false
		}
		for _, o := range s.RetEach {
			if o&oBARE != 0 || o&oROOTS != oRECV || o&oVIAEGO == 0 {
				return false
			}
		}
		found = true
	}
	return found
}
