package main

// Normal forms over SX paths: term rewriting and the "in-order visit" view of loops.
//
// Rules that speak about "the loop over the receiver's elements" are phrased on the range form (Over, Key, Value).
// asRange presents a three-clause counting loop in the same form when — and only when — its header is the exact
// ascending visit `for i := 0; i < len(X); i++` (or `… < Count-of-receiver`), the body never assigns the counter and the
// bound is the length of the very collection term the body indexes (same memory epoch: the collection was not written
// between the evaluation of the bound and the access). Anything else is left as it is, and the rules answer as before.

import (
	"fmt"
	"go/ast"
	"go/constant"
	"go/token"
	"go/types"
	"os"
	"sort"
	"strings"

	"golang.org/x/tools/go/ssa"
)

// mapKids rewrites the immediate sub-terms of t with m.
func mapKids(t Term, m func(Term) Term) Term {
	if t == nil {
		return nil
	}
	ms := func(xs []Term) []Term {
		if xs == nil {
			return nil
		}
		out := make([]Term, len(xs))
		for i, x := range xs {
			out[i] = m(x)
		}
		return out
	}
	switch x := t.(type) {
	case TSel:
		x.X = m(x.X)
		return x
	case TCall:
		if x.Recv != nil {
			x.Recv = m(x.Recv)
		}
		if x.Dyn != nil {
			x.Dyn = m(x.Dyn)
		}
		x.Args = ms(x.Args)
		return x
	case TBuiltin:
		x.Args = ms(x.Args)
		return x
	case TConv:
		x.X = m(x.X)
		return x
	case TBin:
		x.X, x.Y = m(x.X), m(x.Y)
		return x
	case TUn:
		x.X = m(x.X)
		return x
	case TIndex:
		x.X, x.I = m(x.X), m(x.I)
		return x
	case TSlice:
		x.X = m(x.X)
		if x.Lo != nil {
			x.Lo = m(x.Lo)
		}
		if x.Hi != nil {
			x.Hi = m(x.Hi)
		}
		if x.Max != nil {
			x.Max = m(x.Max)
		}
		return x
	case TAssert:
		x.X = m(x.X)
		return x
	case TProj:
		x.X = m(x.X)
		return x
	case TLit:
		x.Elts = ms(x.Elts)
		return x
	case TAddr:
		x.X = m(x.X)
		return x
	case TDeref:
		x.X = m(x.X)
		return x
	case TTypeIs:
		x.X = m(x.X)
		return x
	case tTuple:
		x.Elts = ms(x.Elts)
		return x
	}
	return t
}

// mapTerm rewrites t top-down: where f replaces a term the replacement is taken as is, otherwise the children are rewritten.
func mapTerm(t Term, f func(Term) (Term, bool)) Term {
	if t == nil {
		return nil
	}
	if r, ok := f(t); ok {
		return r
	}
	return mapKids(t, func(x Term) Term { return mapTerm(x, f) })
}

// mapBU rewrites t bottom-up: children first, then f on the rebuilt term.
func mapBU(t Term, f func(Term) Term) Term {
	if t == nil {
		return nil
	}
	return f(mapKids(t, func(x Term) Term { return mapBU(x, f) }))
}

// normByteStrings rewrites the []byte spellings of string operations into their string forms, so that rules phrased on strings see
// one vocabulary: strconv.AppendX(fresh empty []byte, args…) = []byte(strconv.FormatX(args…)); bytes.IndexByte/IndexRune/Index/Contains…
// on []byte(s) = the strings function on s; append([]byte(s), "lit"...) = []byte(s + "lit"); string([]byte(s)) = s.
func (c *Ctx) normByteStrings(t Term) Term {
	asBytes := func(t Term) (Term, bool) {
		if cv, ok := t.(TConv); ok {
			if sl, ok := cv.To.Underlying().(*types.Slice); ok {
				if b, ok := sl.Elem().Underlying().(*types.Basic); ok && b.Kind() == types.Uint8 {
					return cv.X, true
				}
			}
		}
		return nil, false
	}
	emptyBytes := func(t Term) bool {
		switch x := t.(type) {
		case TNil:
			return true
		case TBuiltin:
			if x.Name == "make" && len(x.Args) >= 1 {
				k, ok := constInt(x.Args[0])
				return ok && k == 0
			}
		case TLit:
			return len(x.Elts) == 0
		case TSlice:
			if x.Hi != nil {
				k, ok := constInt(x.Hi)
				return ok && k == 0 // scratch[:0]
			}
		}
		return false
	}
	lookup := func(pkg, name string) *types.Func {
		for _, imp := range c.Types.Imports() {
			if imp.Path() == pkg {
				if f, ok := imp.Scope().Lookup(name).(*types.Func); ok {
					return f
				}
			}
		}
		return nil
	}
	var bytesType types.Type = types.NewSlice(types.Typ[types.Uint8])
	return mapBU(t, func(t Term) Term {
		switch x := t.(type) {
		case TLit:
			// []byte{'\n'}: a byte-slice literal of constants is the bytes of that string
			if sl, ok := x.Type.Underlying().(*types.Slice); ok && len(x.Elts) > 0 {
				if b, ok := sl.Elem().Underlying().(*types.Basic); ok && b.Kind() == types.Uint8 {
					str := ""
					for _, e := range x.Elts {
						k, isK := constInt(e)
						if !isK || k < 0 || k > 127 {
							return t
						}
						str += string(rune(k))
					}
					return TConv{To: bytesType, X: TConst{constant.MakeString(str)}}
				}
			}
			return t
		case TCall:
			if x.Fun != nil && x.Recv != nil && x.Fun.FullName() == "(*bytes.Buffer).Bytes" && len(x.Args) == 0 {
				// buffer.Bytes() = []byte(buffer.String())
				if obj, _, _ := types.LookupFieldOrMethod(x.Fun.Type().(*types.Signature).Recv().Type(), true, x.Fun.Pkg(), "String"); obj != nil {
					if sf, ok := obj.(*types.Func); ok {
						y := x
						y.Fun, y.Name = sf, "String"
						return TConv{To: bytesType, X: y}
					}
				}
				return t
			}
			if x.Fun == nil || x.Fun.Pkg() == nil || x.Recv != nil {
				return t
			}
			switch x.Fun.Pkg().Path() {
			case "strconv":
				if strings.HasPrefix(x.Fun.Name(), "Append") && len(x.Args) >= 2 && emptyBytes(x.Args[0]) {
					if f := lookup("strconv", "Format"+strings.TrimPrefix(x.Fun.Name(), "Append")); f != nil {
						y := x
						y.Fun, y.Name, y.Args = f, f.Name(), x.Args[1:]
						return TConv{To: bytesType, X: y}
					}
				}
			case "bytes":
				if len(x.Args) >= 1 {
					if s0, ok := asBytes(x.Args[0]); ok {
						if f := lookup("strings", x.Fun.Name()); f != nil {
							y := x
							y.Fun, y.Name = f, f.Name()
							y.Args = append([]Term{s0}, x.Args[1:]...)
							for i := 1; i < len(y.Args); i++ {
								if si, ok := asBytes(y.Args[i]); ok {
									y.Args[i] = si
								}
							}
							if rs := x.Fun.Type().(*types.Signature).Results(); rs.Len() == 1 {
								if _, isSl := rs.At(0).Type().Underlying().(*types.Slice); isSl {
									return TConv{To: bytesType, X: y} // a bytes function that returns bytes
								}
							}
							return y
						}
					}
				}
			}
		case TSlice:
			// bytes[0:] (the part appended after an empty start) is the bytes
			if _, ok := asBytes(x.X); ok && x.Hi == nil && x.Max == nil {
				if k, isK := constInt(x.Lo); x.Lo == nil || (isK && k == 0) {
					return x.X
				}
			}
		case TBuiltin:
			if x.Name == "len" && len(x.Args) == 1 && emptyBytes(x.Args[0]) {
				return TConst{constant.MakeInt64(0)}
			}
			if x.Name == "append" && len(x.Args) == 2 {
				if s0, ok := asBytes(x.Args[0]); ok {
					if _, isStr := isConstStringTerm(x.Args[1]); isStr {
						return TConv{To: bytesType, X: TBin{Op: token.ADD, X: s0, Y: x.Args[1]}}
					}
				}
			}
			if x.Name == "append" && len(x.Args) >= 2 {
				// append(bytes, '.', '0'): constant bytes one by one
				if s0, ok := asBytes(x.Args[0]); ok {
					str, all := "", true
					for _, e := range x.Args[1:] {
						k, isK := constInt(e)
						if !isK || k < 0 || k > 127 {
							all = false
							break
						}
						str += string(rune(k))
					}
					if ce, isCall := x.Site.(*ast.CallExpr); all && isCall && !ce.Ellipsis.IsValid() {
						return TConv{To: bytesType, X: TBin{Op: token.ADD, X: s0, Y: TConst{constant.MakeString(str)}}}
					}
				}
			}
		case TConv:
			if b, ok := x.To.Underlying().(*types.Basic); ok && b.Info()&types.IsString != 0 {
				if s0, ok := asBytes(x.X); ok {
					return s0
				}
			}
		}
		return t
	})
}

func mapEnv(e map[types.Object]Term, f func(Term) (Term, bool)) map[types.Object]Term {
	if e == nil {
		return nil
	}
	out := make(map[types.Object]Term, len(e))
	for k, t := range e {
		out[k] = mapTerm(t, f)
	}
	return out
}

func mapPath(p *Path, f func(Term) (Term, bool)) *Path {
	q := *p
	q.Steps = make([]Step, len(p.Steps))
	for i, s := range p.Steps {
		s.Cond.T = mapTerm(s.Cond.T, f)
		s.LHS = mapTerm(s.LHS, f)
		s.RHS = mapTerm(s.RHS, f)
		if s.Call != nil {
			c := mapTerm(*s.Call, f).(TCall)
			s.Call = &c
		}
		if s.Blt != nil {
			if b, ok := mapTerm(*s.Blt, f).(TBuiltin); ok {
				s.Blt = &b
			}
		}
		if s.Loop != nil {
			s.Loop = mapLoop(s.Loop, f)
		}
		s.Env = mapEnv(s.Env, f)
		q.Steps[i] = s
	}
	q.Vals = make([]Term, len(p.Vals))
	for i, t := range p.Vals {
		q.Vals[i] = mapTerm(t, f)
	}
	q.Env = mapEnv(p.Env, f)
	return &q
}

func mapLoop(l *LoopRec, f func(Term) (Term, bool)) *LoopRec {
	r := *l
	r.Over = mapTerm(l.Over, f)
	r.CondT = mapTerm(l.CondT, f)
	r.Init = mapEnv(l.Init, f)
	r.HeadEnv = mapEnv(l.HeadEnv, f)
	r.Iter = make([]*Path, len(l.Iter))
	for i, p := range l.Iter {
		r.Iter[i] = mapPath(p, f)
	}
	return &r
}

// counterStep: the post statement advances exactly the variable o by +1 (or -1): i++, i += 1, i = i + 1.
func (c *Ctx) counterStep(post ast.Stmt, o types.Object) int {
	switch s := post.(type) {
	case *ast.IncDecStmt:
		if c.obj(s.X) == o {
			if s.Tok == token.INC {
				return 1
			}
			return -1
		}
	case *ast.AssignStmt:
		if len(s.Lhs) > 1 && len(s.Lhs) == len(s.Rhs) && s.Tok == token.ASSIGN {
			// i, left = i+1, left-1: every right-hand side mentions only its own variable
			for k, lh := range s.Lhs {
				if c.obj(lh) != o {
					continue
				}
				b, ok := ast.Unparen(s.Rhs[k]).(*ast.BinaryExpr)
				if !ok || c.obj(b.X) != o {
					return 0
				}
				tv, ok := c.Info.Types[b.Y]
				if !ok || tv.Value == nil || tv.Value.ExactString() != "1" {
					return 0
				}
				if b.Op == token.ADD {
					return 1
				}
				if b.Op == token.SUB {
					return -1
				}
			}
			return 0
		}
		if len(s.Lhs) != 1 || len(s.Rhs) != 1 || c.obj(s.Lhs[0]) != o {
			return 0
		}
		one := func(e ast.Expr) bool {
			tv, ok := c.Info.Types[e]
			if !ok || tv.Value == nil {
				return false
			}
			return tv.Value.ExactString() == "1"
		}
		switch s.Tok {
		case token.ADD_ASSIGN:
			if one(s.Rhs[0]) {
				return 1
			}
		case token.SUB_ASSIGN:
			if one(s.Rhs[0]) {
				return -1
			}
		case token.ASSIGN:
			if b, ok := ast.Unparen(s.Rhs[0]).(*ast.BinaryExpr); ok {
				if b.Op == token.ADD && (c.obj(b.X) == o && one(b.Y) || c.obj(b.Y) == o && one(b.X)) {
					return 1
				}
				if b.Op == token.SUB && c.obj(b.X) == o && one(b.Y) {
					return -1
				}
			}
		}
	}
	return 0
}

// asRange returns the loop seen as an in-order visit of a collection (Over, Key, Value set, Range non-nil), or nil.
// The synthetic Value object stands for Over[Key] inside the iteration paths.
func (v *sxView) asRange(l *LoopRec) *LoopRec {
	if l == nil {
		return nil
	}
	if l.Range != nil {
		return l
	}
	rw := v.rangeRewrite(l, nil)
	if rw == nil {
		return nil
	}
	return rw.apply(mapLoop(l, rw.f))
}

type rangeRw struct {
	over Term
	i    types.Object
	val  *types.Var
	f    func(Term) (Term, bool)
	pos  token.Pos
	// other counters of a synthesised post statement: handed back to the iterations (the range form has no post statement)
	restore map[types.Object]int64
}

func (rw *rangeRw) apply(r *LoopRec) *LoopRec {
	for o, d := range rw.restore {
		for _, p := range r.Iter {
			if p.End != "fall" && p.End != "continue" {
				continue
			}
			if lv, ok := p.Env[o].(TLoop); ok && lv.Obj == o && lv.ID == r.ID {
				p.Env = copyEnv(p.Env)
				p.Env[o] = TBin{Op: token.ADD, X: lv, Y: TConst{constant.MakeInt64(d)}}
			}
		}
	}
	r.Post, r.PostStep = nil, nil
	r.Range = &ast.RangeStmt{For: rw.pos}
	r.Over = rw.over
	r.Key = rw.i
	r.Value = rw.val
	r.CondT = nil
	return r
}

// normalizePaths rewrites every top-level counting loop of the paths that is an in-order visit into the range form, consistently
// across the paths (steps after the loop that mention the visited element are rewritten with it).
func (v *sxView) normalizePaths(paths []*Path) []*Path {
	vals := map[int]*types.Var{}
	out := make([]*Path, len(paths))
	for pi, p := range paths {
		q := p
		for k := 0; k < len(q.Steps); k++ {
			s := q.Steps[k]
			if s.Kind != "loop" || s.Loop == nil || s.Loop.Range != nil {
				continue
			}
			rw := v.rangeRewrite(s.Loop, vals[s.Loop.ID])
			if rw == nil {
				continue
			}
			vals[s.Loop.ID] = rw.val
			q = mapPath(q, rw.f)
			rw.apply(q.Steps[k].Loop)
		}
		out[pi] = q
	}
	return out
}

func (v *sxView) rangeRewrite(l *LoopRec, val *types.Var) *rangeRw {
	if l.For == nil || l.CondT == nil || (l.Post == nil && l.PostStep == nil) {
		return nil
	}
	// how the post statement (written or synthesised) advances o: +1, -1, 0 = otherwise
	stepOf := func(o types.Object) int {
		if l.Post != nil {
			return v.c.counterStep(l.Post, o)
		}
		if d := l.PostStep[o]; d == 1 || d == -1 {
			return int(d)
		}
		return 0
	}
	postAssigned := func() []types.Object {
		if l.Post != nil {
			return v.c.assignedInStmt(l.Post)
		}
		var out []types.Object
		for o := range l.PostStep {
			out = append(out, o)
		}
		return out
	}
	cond, ok := l.CondT.(TBin)
	if !ok {
		return nil
	}
	var ctr, bound Term
	desc := false
	// a countdown of the remaining elements next to the ascending position: `for i, left := 0, N; left > 0; i, left = i+1, left-1`
	// is `for i := 0; i < N; i++` when `left` is used for nothing else
	var co types.Object
	{
		var left Term
		zero := func(t Term) bool { k, ok := constInt(t); return ok && k == 0 }
		switch {
		case (cond.Op == token.GTR || cond.Op == token.NEQ) && zero(cond.Y):
			left = cond.X
		case (cond.Op == token.LSS || cond.Op == token.NEQ) && zero(cond.X):
			left = cond.Y
		}
		if ll, ok := left.(TLoop); ok && ll.ID == l.ID && stepOf(ll.Obj) == -1 && l.Init[ll.Obj] != nil {
			var up types.Object
			for _, a := range postAssigned() {
				if a != ll.Obj && stepOf(a) == 1 {
					if k, ok := constInt(l.Init[a]); ok && k == 0 && up == nil {
						up = a
					}
				}
			}
			used := false
			for _, p := range l.Iter {
				q := *p
				q.Env = nil
				for o, t := range p.Env {
					if o == ll.Obj {
						if !sameTerm(t, ll) {
							used = true
						}
						continue
					}
					collectSubterms(t, func(u Term) {
						if x, ok := u.(TLoop); ok && x.ID == l.ID && x.Obj == ll.Obj {
							used = true
						}
					})
				}
				mapPath(&q, func(u Term) (Term, bool) {
					if x, ok := u.(TLoop); ok && x.ID == l.ID && x.Obj == ll.Obj {
						used = true
					}
					return nil, false
				})
			}
			if up != nil && !used {
				co = ll.Obj
				cond = TBin{Op: token.LSS, X: TLoop{up, l.ID}, Y: l.Init[ll.Obj]}
			}
		}
	}
	if cond.Op == token.NEQ {
		// `i != len(X)` with i counting up from 0 by one: i never passes a bound that is a length, so this is `i < len(X)`
		for _, pair := range [][2]Term{{cond.X, cond.Y}, {cond.Y, cond.X}} {
			lv, isL := pair[0].(TLoop)
			if !isL || lv.ID != l.ID || stepOf(lv.Obj) != 1 {
				continue
			}
			if k, ok := constInt(l.Init[lv.Obj]); !ok || k != 0 {
				continue
			}
			if b, isLen := pair[1].(TBuiltin); (isLen && b.Name == "len" && len(b.Args) == 1) || v.isCountOfRecv(pair[1]) {
				cond = TBin{Op: token.LSS, X: pair[0], Y: pair[1]}
				break
			}
		}
	}
	switch cond.Op {
	case token.LSS:
		ctr, bound = cond.X, cond.Y
	case token.GTR:
		ctr, bound = cond.Y, cond.X
	case token.GEQ, token.LEQ:
		// the descending visit `for i := len(X)-1; i >= 0; i--`: only for rules that do not care about the order (v.anyOrder)
		ctr, bound = cond.X, cond.Y
		if cond.Op == token.LEQ {
			ctr, bound = cond.Y, cond.X
		}
		if k, ok := constInt(bound); !ok || k != 0 || !v.anyOrder {
			return nil
		}
		desc = true
	default:
		return nil
	}
	cl, ok := ctr.(TLoop)
	if !ok || cl.ID != l.ID {
		return nil
	}
	i := cl.Obj
	if desc {
		// i starts at len(X)-1 (or count-1) and steps down by one
		ini, ok := l.Init[i].(TBin)
		if !ok || ini.Op != token.SUB {
			return nil
		}
		if k, ok := constInt(ini.Y); !ok || k != 1 {
			return nil
		}
		bound = ini.X
		if stepOf(i) != -1 {
			return nil
		}
	} else {
		if k, ok := constInt(l.Init[i]); !ok || k != 0 {
			return nil
		}
		if stepOf(i) != 1 {
			return nil
		}
	}
	// the post statement assigns nothing but the counter (further counters of a synthesised one go back to the iterations), the body
	// does not assign the counter
	var restore map[types.Object]int64
	for _, a := range postAssigned() {
		if a != i && a != co {
			if l.Post != nil {
				return nil
			}
			if restore == nil {
				restore = map[types.Object]int64{}
			}
			restore[a] = l.PostStep[a]
		}
	}
	for _, p := range l.Iter {
		if p.End == "fall" || p.End == "continue" {
			if !sameTerm(p.Env[i], cl) {
				return nil
			}
		}
	}
	// the bound: len(X), or the element count of the receiver (then X is the receiver's spine as the body reads it)
	var over Term
	if b, ok := bound.(TBuiltin); ok && b.Name == "len" && len(b.Args) == 1 {
		over = b.Args[0]
	} else if v.isCountOfRecv(bound) {
		for _, p := range l.Iter {
			for _, s := range p.Steps {
				for _, t := range []Term{s.Cond.T, s.LHS, s.RHS} {
					collectSubterms(t, func(u Term) {
						if ix, ok := u.(TIndex); ok && over == nil && sameTerm(ix.I, cl) && v.isRecvSpine(ix.X) {
							over = ix.X
						}
					})
				}
				if s.Call != nil {
					collectSubterms(*s.Call, func(u Term) {
						if ix, ok := u.(TIndex); ok && over == nil && sameTerm(ix.I, cl) && v.isRecvSpine(ix.X) {
							over = ix.X
						}
					})
				}
			}
			for _, t := range p.Vals {
				collectSubterms(t, func(u Term) {
					if ix, ok := u.(TIndex); ok && over == nil && sameTerm(ix.I, cl) && v.isRecvSpine(ix.X) {
						over = ix.X
					}
				})
			}
		}
	}
	if over == nil {
		return nil
	}
	var elemT types.Type
	switch u := v.c.termType(over).(type) {
	case nil:
	default:
		if sl, ok := u.Underlying().(*types.Slice); ok {
			elemT = sl.Elem()
		}
	}
	if elemT == nil {
		if _, ct := v.spineOf(over); ct != nil && ct.IsList {
			elemT = v.c.Inv().Field
		}
	}
	if elemT == nil {
		return nil
	}
	if val == nil {
		val = types.NewVar(l.For.Pos(), v.c.Types, "elem·"+i.Name(), elemT)
	}
	okey := key(over)
	f := func(t Term) (Term, bool) {
		switch x := t.(type) {
		case TIndex:
			if sameTerm(x.I, cl) && key(x.X) == okey {
				return TVar{val}, true
			}
		case TLoop:
			if x.ID == l.ID && x.Obj == i {
				return TVar{i}, true
			}
		}
		return nil, false
	}
	return &rangeRw{over: over, i: i, val: val, f: f, pos: l.For.Pos(), restore: restore}
}

func (c *Ctx) assignedInStmt(s ast.Stmt) []types.Object {
	var out []types.Object
	ast.Inspect(s, func(n ast.Node) bool {
		switch v := n.(type) {
		case *ast.AssignStmt:
			for _, l := range v.Lhs {
				if o := c.obj(l); o != nil {
					out = append(out, o)
				}
			}
		case *ast.IncDecStmt:
			if o := c.obj(v.X); o != nil {
				out = append(out, o)
			}
		}
		return true
	})
	return out
}

// termType: static type of a term where it is evident (selectors, variables, slices of those).
func (c *Ctx) termType(t Term) types.Type {
	switch x := t.(type) {
	case TSel:
		return x.Field.Type()
	case TVar:
		return x.Obj.Type()
	case TLoop:
		return x.Obj.Type()
	case TSlice:
		return c.termType(x.X)
	case TAssert:
		return x.To
	case TProj:
		if a, ok := x.X.(TAssert); ok && x.K == 0 {
			return a.To
		}
		if ix, ok := x.X.(TIndex); ok {
			if x.K == 0 {
				return c.termType(ix) // v, ok := m[k]
			}
			return types.Typ[types.Bool]
		}
		if call, ok := x.X.(TCall); ok && call.Fun != nil {
			if sig, ok := call.Fun.Type().(*types.Signature); ok && x.K < sig.Results().Len() && sig.TypeParams() == nil {
				return sig.Results().At(x.K).Type()
			}
		}
	case TCall:
		if x.Fun != nil {
			if sig, ok := x.Fun.Type().(*types.Signature); ok && sig.Results().Len() == 1 && sig.TypeParams() == nil {
				return sig.Results().At(0).Type()
			}
		}
	case TConv:
		return x.To
	case TConst:
		switch x.Val.Kind() {
		case constant.Bool:
			return types.Typ[types.Bool]
		case constant.String:
			return types.Typ[types.String]
		}
	case TBin:
		switch x.Op {
		case token.EQL, token.NEQ, token.LSS, token.LEQ, token.GTR, token.GEQ, token.LAND, token.LOR:
			return types.Typ[types.Bool]
		}
		if t := c.termType(x.X); t != nil {
			return t
		}
		return c.termType(x.Y)
	case TUn:
		if x.Op == token.NOT {
			return types.Typ[types.Bool]
		}
		return c.termType(x.X)
	case TBuiltin:
		if x.Name == "make" {
			return x.Type
		}
		if x.Name == "len" || x.Name == "cap" {
			return types.Typ[types.Int]
		}
	case TIndex:
		if bt := c.termType(x.X); bt != nil {
			switch u := bt.Underlying().(type) {
			case *types.Basic:
				if u.Info()&types.IsString != 0 {
					return types.Typ[types.Uint8]
				}
			case *types.Slice:
				return u.Elem()
			case *types.Array:
				return u.Elem()
			case *types.Map:
				return u.Elem()
			}
		}
	}
	return nil
}

// quietHeap: the function writes nothing that existed before the call (E3: every write effect targets memory allocated inside the call)
// and neither receives nor calls a function value — so no user code runs during the call. Everything the call can read of its receiver
// and arguments is then the same at every moment of the call, whatever epoch a load was stamped with.
func (c *Ctx) quietHeap(fd *ast.FuncDecl, paths []*Path) bool {
	f := c.FuncObj(fd)
	if f == nil {
		return false
	}
	sig := f.Type().(*types.Signature)
	for i := 0; i < sig.Params().Len(); i++ {
		if _, isFn := sig.Params().At(i).Type().Underlying().(*types.Signature); isFn {
			return false
		}
	}
	a := c.E3()
	var fn *ssa.Function
	for _, g := range a.fns {
		if g.Object() == f {
			fn = g
		}
	}
	if fn == nil {
		return false
	}
	for _, e := range a.eff[fn] {
		if e.Target&oROOTS&^oFRESH != 0 || e.Kind == "store-global" || e.Target&oROOTS == 0 {
			return false
		}
	}
	dyn := false
	var scan func(ps []*Path)
	scan = func(ps []*Path) {
		for _, p := range ps {
			for _, st := range p.Steps {
				if st.Kind == "go" || st.Kind == "defer" {
					dyn = true
				}
				if st.Call != nil && st.Call.Fun == nil {
					dyn = true
				}
				if st.Loop != nil {
					scan(st.Loop.Iter)
				}
			}
		}
	}
	scan(paths)
	return !dyn
}

// collapseEpochs stamps every load that is rooted in the receiver or a parameter (not in something made on the path) with epoch 0.
func (v *sxView) collapseEpochs(paths []*Path) []*Path {
	params := map[types.Object]bool{}
	if v.recv != nil {
		params[v.recv] = true
	}
	if v.fd.Type.Params != nil {
		for _, f := range v.fd.Type.Params.List {
			for _, nm := range f.Names {
				if o := v.c.Info.Defs[nm]; o != nil {
					params[o] = true
				}
			}
		}
	}
	var outer func(t Term) bool
	outer = func(t Term) bool {
		switch x := t.(type) {
		case TVar:
			return params[x.Obj]
		case TSel:
			return outer(x.X)
		case TIndex:
			return outer(x.X)
		case TSlice:
			return outer(x.X)
		case TDeref:
			return outer(x.X)
		case TAssert:
			return outer(x.X)
		case TProj:
			return outer(x.X)
		case TCall:
			if x.Fun != nil && x.Recv != nil && x.Fun.Pkg() == v.c.Types {
				return outer(x.Recv) // ego.Ego(), x.getVal(): an in-package accessor of something outer
			}
		}
		return false
	}
	f := func(t Term) Term {
		switch x := t.(type) {
		case TSel:
			if outer(x.X) {
				x.Epoch = 0
				return x
			}
		case TIndex:
			if outer(x.X) {
				x.Epoch = 0
				return x
			}
		case TSlice:
			if outer(x.X) {
				x.Epoch = 0
				return x
			}
		case TDeref:
			if outer(x.X) {
				x.Epoch = 0
				return x
			}
		case TCall:
			if x.Fun != nil && x.Recv != nil && x.Fun.Pkg() == v.c.Types && outer(x.Recv) {
				x.Epoch = 0
				return x
			}
		case TBuiltin:
			if (x.Name == "len" || x.Name == "cap") && len(x.Args) == 1 && outer(x.Args[0]) {
				x.Epoch = 0
				return x
			}
		}
		return t
	}
	out := make([]*Path, len(paths))
	for i, p := range paths {
		out[i] = mapPath(p, func(t Term) (Term, bool) { return mapBU(t, f), true })
	}
	return out
}

// normalizeMapKeyLoads: inside `for key := range M` (or `for key, value := range M`) a load M[key] of the very map being ranged (same term)
// is the entry's value; it is rewritten to the range value (introduced when the loop has none).
func (v *sxView) normalizeMapKeyLoads(paths []*Path) []*Path {
	vals := map[int]*types.Var{}
	out := make([]*Path, len(paths))
	for pi, p := range paths {
		q := p
		for k := 0; k < len(q.Steps); k++ {
			l := q.Steps[k].Loop
			if q.Steps[k].Kind != "loop" || l == nil || l.Range == nil || l.Key == nil || l.Over == nil {
				continue
			}
			isMap := false
			if _, ct := v.spineOf(l.Over); ct != nil && !ct.IsList {
				isMap = true
			} else if t := v.c.termType(l.Over); t != nil {
				_, isMap = t.Underlying().(*types.Map)
			}
			if !isMap {
				continue
			}
			val := l.Value
			if val == nil {
				if vals[l.ID] == nil {
					var et types.Type = types.Typ[types.Invalid]
					if _, ct := v.spineOf(l.Over); ct != nil {
						et = v.c.Inv().Field
					} else if m, ok := v.c.termType(l.Over).Underlying().(*types.Map); ok {
						et = m.Elem()
					}
					vals[l.ID] = types.NewVar(l.Node.Pos(), v.c.Types, "value·"+l.Key.Name(), et)
				}
				val = vals[l.ID]
			}
			okey, kobj := key(l.Over), l.Key
			used := false
			valVar, _ := val.(*types.Var)
			f := func(t Term) (Term, bool) {
				if ix, ok := t.(TIndex); ok && isParamTerm(ix.I, kobj) && key(ix.X) == okey {
					used = true
					return TVar{valVar}, true
				}
				return nil, false
			}
			nq := mapPath(q, f)
			if used {
				q = nq
				if q.Steps[k].Loop.Value == nil {
					q.Steps[k].Loop.Value = valVar
				}
			}
		}
		out[pi] = q
	}
	return out
}

// ---------------------------------------------------------------- flags and breaks
//
// A search or comparison loop can report its outcome through a local variable instead of returning from inside the loop:
//
//	found := false; for … { if hit { found = true; break } }; return found
//	equal := true;  for i := 0; equal && i < n; i++ { equal = test(i) };  return equal
//
// flagNorm rewrites the paths of such a function into the early-return form the rules read (the in-loop exit carries the function's
// result), when — and only when — the code after the loop does nothing but decide on those variables:
//
//	N1  a conjunct of the loop condition that is a loop-carried boolean, true at entry, becomes a break at the end of the
//	    iterations that falsify it;
//	N2  a variable that every continuing iteration leaves at its initial value has that value when the loop is exhausted, and the
//	    value the breaking iteration gave it when the loop is left by break; the code after the loop is folded with it.

// condValue: what the conditions of p say about the boolean term t.
func condValue(p *Path, t Term) (val, known bool) {
	// polarity normal form: leading negations stripped, a != b read as !(a == b)
	norm := func(t Term, pol bool) (Term, bool) {
		for {
			if u, ok := t.(TUn); ok && u.Op == token.NOT {
				t, pol = u.X, !pol
				continue
			}
			if b, ok := t.(TBin); ok && b.Op == token.NEQ {
				t, pol = TBin{Op: token.EQL, X: b.X, Y: b.Y}, !pol
				continue
			}
			return t, pol
		}
	}
	same := func(a, b Term) bool {
		if sameTerm(a, b) {
			return true
		}
		x, ok1 := a.(TBin)
		y, ok2 := b.(TBin)
		return ok1 && ok2 && x.Op == token.EQL && y.Op == token.EQL && sameTerm(x.X, y.Y) && sameTerm(x.Y, y.X)
	}
	t, want := norm(t, true)
	for _, cd := range p.Conds() {
		x, truth := norm(cd.T, cd.Truth)
		if same(x, t) {
			return truth == want, true
		}
	}
	return false, false
}

// boolUnder evaluates a boolean term under the conditions of path p: constants, !, &&, || (short-circuit: an operand that is
// not reached need not be decided), otherwise what the path's conditions say about the term.
func boolUnder(p *Path, t Term) (val, known bool) {
	if b, ok := constBoolOf(t); ok {
		return b, true
	}
	switch x := t.(type) {
	case TUn:
		if x.Op == token.NOT {
			v, ok := boolUnder(p, x.X)
			return !v, ok
		}
	case TBin:
		switch x.Op {
		case token.LAND:
			a, oka := boolUnder(p, x.X)
			if oka && !a {
				return false, true
			}
			b, okb := boolUnder(p, x.Y)
			if okb && !b {
				return false, true
			}
			return true, oka && okb
		case token.LOR:
			a, oka := boolUnder(p, x.X)
			if oka && a {
				return true, true
			}
			b, okb := boolUnder(p, x.Y)
			if okb && b {
				return true, true
			}
			return false, oka && okb
		}
	}
	return condValue(p, t)
}

// boundTruth: the loop is the quiet count `for i < B` from 0 by one, B a length; after it, a comparison of i with B is decided by the
// way the loop was left: exhausted, i == B; left by break from a round that did not move i, i < B (the round had begun).
func (v *sxView) boundTruth(l *LoopRec, ex *Path, t Term) (val, known bool) {
	cmp, ok := t.(TBin)
	if !ok {
		return false, false
	}
	hd, ok := simplify(l.CondT).(TBin)
	if !ok || l.CondT == nil {
		return false, false
	}
	var ctr TLoop
	var bound Term
	switch {
	case hd.Op == token.LSS:
		c0, isL := hd.X.(TLoop)
		ctr, bound, ok = c0, hd.Y, isL
	case hd.Op == token.GTR:
		c0, isL := hd.Y.(TLoop)
		ctr, bound, ok = c0, hd.X, isL
	default:
		ok = false
	}
	if !ok || ctr.ID != l.ID || !isIntType(ctr.Obj.Type()) {
		return false, false
	}
	if k, isK := constInt(l.Init[ctr.Obj]); !isK || k != 0 {
		return false, false
	}
	step := 0
	if l.Post != nil {
		step = v.c.counterStep(l.Post, ctr.Obj)
	} else if d, has := l.PostStep[ctr.Obj]; has {
		step = int(d)
	}
	if step != 1 {
		return false, false
	}
	if bl, isLen := bound.(TBuiltin); !(isLen && bl.Name == "len" && len(bl.Args) == 1) && !v.isCountOfRecv(bound) {
		return false, false
	}
	if !loopQuiet(l) {
		return false, false
	}
	for _, ip := range l.Iter {
		if ip.End == "fall" || ip.End == "continue" {
			if tv, has := ip.Env[ctr.Obj]; has && !sameTerm(tv, ctr) {
				return false, false // the body moves the counter as well
			}
		}
	}
	if ex != nil && !sameTerm(exitVal(l, ex, ctr.Obj), ctr) {
		return false, false
	}
	bk := key(eraseEpochs(bound))
	op := cmp.Op
	switch {
	case sameTerm(cmp.X, ctr) && key(eraseEpochs(cmp.Y)) == bk:
	case sameTerm(cmp.Y, ctr) && key(eraseEpochs(cmp.X)) == bk:
		switch op { // B OP i is i OP' B
		case token.LSS:
			op = token.GTR
		case token.LEQ:
			op = token.GEQ
		case token.GTR:
			op = token.LSS
		case token.GEQ:
			op = token.LEQ
		}
	default:
		return false, false
	}
	less := ex != nil // i < B; otherwise i == B
	switch op {
	case token.EQL:
		return !less, true
	case token.NEQ:
		return less, true
	case token.LSS:
		return less, true
	case token.LEQ:
		return true, true
	case token.GTR:
		return false, true
	case token.GEQ:
		return !less, true
	}
	return false, false
}

// positionTruth: the boolean term t mentions, besides constants, only the position variable of one top-level in-order visit of the
// path (a range key / a counter starting at 0 and stepping by one); it has the same truth for every non-negative position —
// decided at the break-points of its comparisons.
func (v *sxView) positionTruth(p *Path, t Term) (val, known bool) {
	var keyObj types.Object
	for _, s := range p.Steps {
		if s.Kind != "loop" || s.Loop == nil {
			continue
		}
		l := s.Loop
		if l.Range == nil {
			continue
		}
		if l.Key != nil && isIntType(l.Key.Type()) {
			mentioned := false
			collectSubterms(t, func(u Term) {
				if isParamTerm(u, l.Key) {
					mentioned = true
				}
			})
			if mentioned {
				keyObj = l.Key
			}
		}
	}
	if keyObj == nil {
		return false, false
	}
	points := map[int64]bool{0: true, 1: true, 2: true, 3: true, 1 << 40: true}
	collectSubterms(t, func(u Term) {
		if k, ok := constInt(u); ok {
			for _, d := range []int64{-1, 0, 1} {
				if k+d >= 0 {
					points[k+d] = true
				}
			}
		}
	})
	first := true
	for k := range points {
		e := &termEnv{hook: func(u Term) (int64, bool) {
			if isParamTerm(u, keyObj) {
				return k, true
			}
			return 0, false
		}}
		b, ok := e.bool(t)
		if !ok {
			return false, false
		}
		if first {
			val, first = b, false
		} else if b != val {
			return false, false
		}
	}
	return val, !first
}

func boolTerm(b bool) Term { return TConst{constant.MakeBool(b)} }

func constBoolOf(t Term) (bool, bool) {
	k, ok := t.(TConst)
	if !ok || k.Val.Kind() != constant.Bool {
		return false, false
	}
	return constant.BoolVal(k.Val), true
}

// exitVal: the value of the loop-carried variable o at the end of iteration path ip (a boolean the path's conditions decide is
// that constant).
func exitVal(l *LoopRec, ip *Path, o types.Object) Term {
	t, ok := ip.Env[o]
	if !ok {
		return TLoop{o, l.ID}
	}
	if _, isC := constBoolOf(t); !isC && types.Identical(o.Type().Underlying(), types.Typ[types.Bool]) {
		if b, known := condValue(ip, t); known {
			return boolTerm(b)
		}
	}
	return t
}

func conjuncts(t Term) []Term {
	if b, ok := t.(TBin); ok && b.Op == token.LAND {
		return append(conjuncts(b.X), conjuncts(b.Y)...)
	}
	return []Term{t}
}

func clonePath(p *Path) *Path {
	q := *p
	q.Steps = append([]Step(nil), p.Steps...)
	q.Vals = append([]Term(nil), p.Vals...)
	q.Env = copyEnv(p.Env)
	return &q
}

// flagCond is N1; nil when the loop has no such conjunct. The returned substitution replaces the flag at the head of an
// iteration by the value the dropped conjunct guarantees.
func (c *Ctx) flagCond(l *LoopRec) (*LoopRec, func(Term) (Term, bool)) {
	if l.For == nil || l.CondT == nil {
		return nil, nil
	}
	cs := conjuncts(l.CondT)
	if len(cs) < 2 {
		return nil, nil
	}
	for ci, cj := range cs {
		want := true
		t := cj
		for {
			u, ok := t.(TUn)
			if !ok || u.Op != token.NOT {
				break
			}
			t, want = u.X, !want
		}
		lv, ok := t.(TLoop)
		if !ok || lv.ID != l.ID || !types.Identical(lv.Obj.Type().Underlying(), types.Typ[types.Bool]) {
			continue
		}
		o := lv.Obj
		b0, ok := constBoolOf(simplify(l.Init[o]))
		if l.Init[o] == nil || !ok || b0 != want {
			continue
		}
		assignedByPost := false
		if l.Post != nil {
			for _, po := range c.assignedInStmt(l.Post) {
				if po == o {
					assignedByPost = true
				}
			}
		}
		if assignedByPost {
			continue
		}
		sub := func(t Term) (Term, bool) {
			if x, ok := t.(TLoop); ok && x.ID == l.ID && x.Obj == o {
				return boolTerm(want), true
			}
			return nil, false
		}
		r := *l
		var rest Term
		for k, other := range cs {
			if k == ci {
				continue
			}
			if rest == nil {
				rest = other
			} else {
				rest = TBin{Op: token.LAND, X: rest, Y: other}
			}
		}
		r.CondT = mapTerm(rest, sub)
		r.Iter = nil
		for _, ip0 := range l.Iter {
			ip := mapPath(ip0, sub)
			if ip.End != "fall" && ip.End != "continue" {
				r.Iter = append(r.Iter, ip)
				continue
			}
			t, has := ip.Env[o]
			if !has {
				r.Iter = append(r.Iter, ip)
				continue
			}
			if b, isC := constBoolOf(exitVal(l, ip, o)); isC {
				ip.Env[o] = boolTerm(b)
				if b != want {
					ip.End = "break"
				}
				r.Iter = append(r.Iter, ip)
				continue
			}
			stay, leave := clonePath(ip), clonePath(ip)
			stay.Steps = append(stay.Steps, Step{Kind: "cond", Cond: Cond{T: t, Truth: want, Node: l.For.Cond}, Node: l.For.Cond})
			stay.Env[o] = boolTerm(want)
			leave.Steps = append(leave.Steps, Step{Kind: "cond", Cond: Cond{T: t, Truth: !want, Node: l.For.Cond}, Node: l.For.Cond})
			leave.Env[o] = boolTerm(!want)
			leave.End = "break"
			r.Iter = append(r.Iter, stay, leave)
		}
		return &r, sub
	}
	return nil, nil
}

// splitCond (N1b): `for i < n && P(i) { body }` is `for i < n { if !P(i) { break }; body }` — && evaluates P only when the bound
// holds, at the head of every round, which is where the test is put. Applied when the first conjunct compares an integer variable
// of the loop; the tests moved (as the steps a continuing round begins with) are returned for the paths that leave from inside.
func (c *Ctx) splitCond(l *LoopRec) (*LoopRec, []Step) {
	if l.For == nil || l.CondT == nil {
		return nil, nil
	}
	cs := conjuncts(l.CondT)
	if len(cs) < 2 {
		return nil, nil
	}
	b, ok := cs[0].(TBin)
	if !ok {
		return nil, nil
	}
	switch b.Op {
	case token.LSS, token.LEQ, token.GTR, token.GEQ, token.NEQ:
	default:
		return nil, nil
	}
	ctr := false
	for _, side := range []Term{b.X, b.Y} {
		if lv, ok := side.(TLoop); ok && lv.ID == l.ID && isIntType(lv.Obj.Type()) {
			ctr = true
		}
	}
	if !ctr {
		return nil, nil
	}
	var node ast.Node = l.For
	if l.For.Cond != nil {
		node = l.For.Cond
	}
	r := *l
	r.CondT = cs[0]
	r.Iter = nil
	var lead []Step
	for k, t := range cs[1:] {
		// leaving on the k-th moved test: the earlier ones held
		leave := &Path{End: "break", Node: node, Env: copyEnv(l.HeadEnv)}
		leave.Steps = append(leave.Steps, lead...)
		leave.Steps = append(leave.Steps, Step{Kind: "cond", Cond: Cond{T: t, Truth: false, Node: node}, Node: node})
		r.Iter = append(r.Iter, leave)
		lead = append(lead, Step{Kind: "cond", Cond: Cond{T: t, Truth: true, Node: node}, Node: node})
		_ = k
	}
	for _, ip := range l.Iter {
		q := clonePath(ip)
		q.Steps = append(append([]Step(nil), lead...), ip.Steps...)
		r.Iter = append(r.Iter, q)
	}
	r.Quiet = l.Quiet
	return &r, lead
}

func insideNode(n ast.Node, outer ast.Node) bool {
	return n != nil && outer != nil && n.Pos() >= outer.Pos() && n.Pos() < outer.End()
}

// inLoopExit: the function-level path p, whose last top-level loop step is at index li, left that loop from inside an iteration
// (SX appends the steps of the leaving iteration after the loop step).
func inLoopExit(p *Path, li int) bool {
	if inLoopExitIndex(p, li) >= 0 {
		return true
	}
	return (p.End == "return" || p.End == "panic") && len(p.Steps[li+1:]) > 0 && insideNode(p.Node, p.Steps[li].Loop.Node)
}

// inLoopExitIndex: the index of the iteration path of the loop at step li whose steps the function-level path p continues with, or -1.
func inLoopExitIndex(p *Path, li int) int {
	if p.End != "return" && p.End != "panic" {
		return -1
	}
	l := p.Steps[li].Loop
	after := p.Steps[li+1:]
	if len(after) == 0 {
		return -1
	}
	for idx, ip := range l.Iter {
		if (ip.End != "return" && ip.End != "panic") || len(ip.Steps) != len(after) {
			continue
		}
		same := true
		for k := range after {
			if after[k].Kind != ip.Steps[k].Kind || after[k].Node != ip.Steps[k].Node {
				same = false
				break
			}
		}
		if same {
			return idx
		}
	}
	return -1
}

// inLoopExitPrefix: as inLoopExitIndex, for a loop that sits in an inlined helper: the helper's return from inside the loop is
// followed by the caller's own steps, so the leaving round's steps are only the beginning of what follows the loop step.
func inLoopExitPrefix(p *Path, li int) int {
	if idx := inLoopExitIndex(p, li); idx >= 0 {
		return idx
	}
	l := p.Steps[li].Loop
	after := p.Steps[li+1:]
	best, bestLen, ties := -1, -1, 0
	for idx, ip := range l.Iter {
		if (ip.End != "return" && ip.End != "panic") || len(ip.Steps) > len(after) || len(ip.Steps) == 0 {
			continue
		}
		same := true
		for k := range ip.Steps {
			if after[k].Kind != ip.Steps[k].Kind || after[k].Node != ip.Steps[k].Node || (after[k].Kind == "cond" && after[k].Cond.Truth != ip.Steps[k].Cond.Truth) {
				same = false
				break
			}
		}
		if !same {
			continue
		}
		switch {
		case len(ip.Steps) > bestLen:
			best, bestLen, ties = idx, len(ip.Steps), 1
		case len(ip.Steps) == bestLen:
			ties++
		}
	}
	if ties != 1 {
		return -1
	}
	return best
}

// flagNorm applies N1 and N2 to the top-level loops of the paths of one function.
func (v *sxView) flagNorm(paths []*Path) []*Path {
	c := v.c
	// N1
	type n1res struct {
		l    *LoopRec
		sub  func(Term) (Term, bool)
		lead []Step
	}
	n1 := map[*LoopRec]n1res{}
	cur := make([]*Path, len(paths))
	for i, p := range paths {
		q := p
		for k := 0; k < len(q.Steps); k++ {
			s := q.Steps[k]
			if s.Kind != "loop" || s.Loop == nil {
				continue
			}
			r, done := n1[s.Loop]
			if !done {
				r.l, r.sub = c.flagCond(s.Loop)
				if r.l == nil {
					r.l, r.lead = c.splitCond(s.Loop)
				}
				n1[s.Loop] = r
			}
			if r.l == nil {
				continue
			}
			if q == p {
				q = clonePath(p)
			}
			wasExit := inLoopExit(q, k)
			q.Steps[k].Loop = r.l
			if wasExit && r.sub != nil {
				// an exit from inside this loop: its remaining steps are those of the iteration
				tail := mapPath(&Path{Steps: q.Steps[k+1:], Vals: q.Vals}, r.sub)
				q.Steps = append(q.Steps[:k+1:k+1], tail.Steps...)
				q.Vals = tail.Vals
			}
			if wasExit && len(r.lead) > 0 {
				// the leaving iteration passed the tests moved from the loop condition into the body
				rest := append([]Step(nil), q.Steps[k+1:]...)
				q.Steps = append(append(q.Steps[:k+1:k+1], r.lead...), rest...)
			}
		}
		cur[i] = q
	}
	// N2
	type group struct {
		loop   *LoopRec
		after  []int // paths that leave the loop by exhaustion or break and run the code after it
		inloop []int
		li     map[int]int
		bad    bool
	}
	var order []*LoopRec
	groups := map[*LoopRec]*group{}
	for i, p := range cur {
		li := -1
		for k, s := range p.Steps {
			if s.Kind == "loop" && s.Loop != nil {
				li = k
			}
		}
		if li < 0 {
			continue
		}
		l := p.Steps[li].Loop
		g := groups[l]
		if g == nil {
			g = &group{loop: l, li: map[int]int{}}
			groups[l] = g
			order = append(order, l)
		}
		g.li[i] = li
		if inLoopExit(p, li) {
			g.inloop = append(g.inloop, i)
			continue
		}
		g.after = append(g.after, i)
		if p.End != "return" && p.End != "panic" {
			g.bad = true
		}
		for _, s := range p.Steps[li+1:] {
			if s.Kind != "cond" {
				g.bad = true
			}
		}
	}
	drop := map[int]bool{}
	repl := map[int]*Path{}
	var added, last []*Path
	for _, l := range order {
		g := groups[l]
		if g.bad || len(g.after) == 0 {
			continue
		}
		// the loop-carried variables the code after the loop reads
		mentioned := map[types.Object]bool{}
		note := func(t Term) {
			collectSubterms(t, func(s Term) {
				if lv, ok := s.(TLoop); ok && lv.ID == l.ID {
					mentioned[lv.Obj] = true
				}
			})
		}
		for _, i := range g.after {
			p := cur[i]
			for _, s := range p.Steps[g.li[i]+1:] {
				note(s.Cond.T)
			}
			for _, t := range p.Vals {
				note(t)
			}
		}
		if len(mentioned) == 0 {
			continue
		}
		ok := true
		// stable: every continuing iteration leaves the variable at its initial value, so that is its value when the loop is exhausted
		stable := map[types.Object]bool{}
		for o := range mentioned {
			init, has := l.Init[o]
			if !has {
				continue
			}
			st := true
			// what the post statement (written or synthesised) advances is not where it started
			if _, moved := l.PostStep[o]; moved {
				st = false
			}
			if l.Post != nil {
				for _, a := range c.assignedInStmt(l.Post) {
					if a == o {
						st = false
					}
				}
			}
			for _, ip := range l.Iter {
				if ip.End != "fall" && ip.End != "continue" {
					continue
				}
				ev := exitVal(l, ip, o)
				if lv, same := ev.(TLoop); same && lv.ID == l.ID && lv.Obj == o {
					continue
				}
				if !sameTerm(simplify(ev), simplify(init)) {
					st = false
				}
			}
			stable[o] = st
		}
		// the exits: exhaustion (nil) and every breaking iteration
		exits := []*Path{nil}
		for _, ip := range l.Iter {
			if ip.End == "break" {
				exits = append(exits, ip)
			}
		}
		type pick struct {
			a    int
			vals []Term
		}
		picks := make([]pick, len(exits))
		for ei, ex := range exits {
			sub := func(t Term) (Term, bool) {
				if b, known := v.boundTruth(l, ex, t); known {
					return boolTerm(b), true
				}
				lv, isL := t.(TLoop)
				if !isL || lv.ID != l.ID || !mentioned[lv.Obj] {
					return nil, false
				}
				if ex != nil {
					// left by break: what the breaking iteration made of it (unchanged: its value when that iteration began, the
					// convention in-loop returns use)
					return exitVal(l, ex, lv.Obj), true
				}
				if stable[lv.Obj] {
					return l.Init[lv.Obj], true
				}
				return nil, false // exhausted, and the loop moves it: its final value stays symbolic
			}
			chosen := -1
			for _, i := range g.after {
				p := cur[i]
				feasible := true
				for _, s := range p.Steps[g.li[i]+1:] {
					te := &termEnv{}
					b, isB := te.bool(simplify(mapTerm(s.Cond.T, sub)))
					if !isB {
						ok = false
						break
					}
					if b != s.Cond.Truth {
						feasible = false
						break
					}
				}
				if !ok {
					break
				}
				if feasible {
					if chosen >= 0 {
						ok = false
						break
					}
					chosen = i
				}
			}
			if !ok || chosen < 0 {
				ok = false
				break
			}
			pk := pick{a: chosen}
			for _, t := range cur[chosen].Vals {
				pk.vals = append(pk.vals, simplify(mapTerm(t, sub)))
			}
			picks[ei] = pk
		}
		if !ok {
			continue
		}
		l2 := *l
		l2.Iter = nil
		conv := map[*Path]*Path{}
		for _, ip := range l.Iter {
			if ip.End != "break" {
				l2.Iter = append(l2.Iter, ip)
				continue
			}
			for ei, ex := range exits {
				if ex == ip {
					a := cur[picks[ei].a]
					q := clonePath(ip)
					q.End, q.Vals, q.Node = a.End, picks[ei].vals, a.Node
					conv[ip] = q
					l2.Iter = append(l2.Iter, q)
				}
			}
		}
		for ei, ex := range exits {
			a := cur[picks[ei].a]
			li := g.li[picks[ei].a]
			q := clonePath(a)
			q.Steps = append([]Step(nil), a.Steps[:li+1]...)
			q.Steps[li].Loop = &l2
			q.Vals = picks[ei].vals
			if ex != nil {
				q.Steps = append(q.Steps, conv[ex].Steps...)
			}
			if ex == nil {
				last = append(last, q) // the exhausted loop last, as SX orders outcomes
			} else {
				added = append(added, q)
			}
		}
		for _, i := range g.after {
			drop[i] = true
		}
		for _, i := range g.inloop {
			q := clonePath(cur[i])
			q.Steps[g.li[i]].Loop = &l2
			repl[i] = q
		}
	}
	// N5: a hand-written "does the text contain this ASCII character" scan —
	//   flag := false; for _, ch := range text { if ch == K { flag = true } }
	// — leaves strings.ContainsRune(text, K) in the flag; steps and results after the loop are rewritten with it
	for i, p := range cur {
		if drop[i] {
			continue
		}
		for k, s := range p.Steps {
			if s.Kind != "loop" || s.Loop == nil {
				continue
			}
			flag, repl := v.existenceScan(s.Loop)
			if flag == nil {
				continue
			}
			id := s.Loop.ID
			sub := func(t Term) (Term, bool) {
				if lv, ok := t.(TLoop); ok && lv.ID == id && lv.Obj == flag {
					return repl, true
				}
				return nil, false
			}
			q := clonePath(p)
			tail := mapPath(&Path{Steps: q.Steps[k+1:], Vals: q.Vals}, sub)
			q.Steps = append(q.Steps[:k:k], tail.Steps...) // the scan itself has no effect: dropped
			q.Vals = tail.Vals
			cur[i] = q
			break
		}
	}
	// N3: a boolean result that the conditions of its own path decide is that constant
	fold := func(ps []*Path) []*Path {
		for i, p := range ps {
			if p.End != "return" {
				continue
			}
			for k, t := range p.Vals {
				if _, isC := constBoolOf(t); isC {
					continue
				}
				if tt := c.termType(t); tt == nil || !types.Identical(tt.Underlying(), types.Typ[types.Bool]) {
					continue
				}
				if b, known := boolUnder(p, t); known {
					if ps[i] == p {
						ps[i] = clonePath(p)
					}
					ps[i].Vals[k] = boolTerm(b)
					continue
				}
				// a truth value computed from the position of a visit (`index >= 0`, `i < 0`): positions are non-negative
				if b, known := v.positionTruth(p, t); known {
					if ps[i] == p {
						ps[i] = clonePath(p)
					}
					ps[i].Vals[k] = boolTerm(b)
				}
			}
		}
		// N4: when a loop sits in an inlined helper, the value its leaving iteration returns is the helper's; the function's own
		// result for that exit is the one of the function-level path — put it on the iteration path too, where rules read it
		type upd struct {
			idx  int
			vals []Term
		}
		byLoop := map[*LoopRec][]upd{}
		for _, p := range ps {
			li := -1
			for k, s := range p.Steps {
				if s.Kind == "loop" && s.Loop != nil {
					li = k
				}
			}
			if li < 0 {
				continue
			}
			if idx := inLoopExitIndex(p, li); idx >= 0 {
				l := p.Steps[li].Loop
				ip := l.Iter[idx]
				differs := len(ip.Vals) != len(p.Vals)
				for k := range p.Vals {
					if !differs && !sameTerm(ip.Vals[k], p.Vals[k]) {
						differs = true
					}
				}
				if differs {
					byLoop[l] = append(byLoop[l], upd{idx, p.Vals})
				}
			}
		}
		if len(byLoop) > 0 {
			repl := map[*LoopRec]*LoopRec{}
			for l, us := range byLoop {
				l2 := *l
				l2.Iter = append([]*Path(nil), l.Iter...)
				for _, u := range us {
					q := clonePath(l2.Iter[u.idx])
					q.Vals = u.vals
					l2.Iter[u.idx] = q
				}
				repl[l] = &l2
			}
			for i, p := range ps {
				var q *Path
				for k, s := range p.Steps {
					if s.Kind == "loop" && s.Loop != nil {
						if l2, ok := repl[s.Loop]; ok {
							if q == nil {
								q = clonePath(p)
							}
							q.Steps[k].Loop = l2
						}
					}
				}
				if q != nil {
					ps[i] = q
				}
			}
		}
		return ps
	}
	if len(drop) == 0 {
		return v.unrolledGuardNorm(v.guardSpecNorm(v.emptyGuardNorm(fold(cur))))
	}
	var out []*Path
	for i, p := range cur {
		if drop[i] {
			continue
		}
		if q, ok := repl[i]; ok {
			p = q
		}
		out = append(out, p)
	}
	return v.unrolledGuardNorm(v.guardSpecNorm(v.emptyGuardNorm(fold(append(append(out, added...), last...)))))
}

// emptinessOf: t is an emptiness test of some collection X (len(X) == 0, 0 == len(X), len(X) < 1, len(X) <= 0 and their negations
// len(X) != 0, len(X) > 0, len(X) >= 1); returns X and whether the term is TRUE for an empty X.
func emptinessOf(t Term) (Term, bool, bool) {
	pol := true
	for {
		u, ok := t.(TUn)
		if !ok || u.Op != token.NOT {
			break
		}
		t, pol = u.X, !pol
	}
	b, ok := t.(TBin)
	if !ok {
		return nil, false, false
	}
	lenOf := func(x Term) (Term, bool) {
		bl, ok := x.(TBuiltin)
		if ok && bl.Name == "len" && len(bl.Args) == 1 {
			return bl.Args[0], true
		}
		return nil, false
	}
	x, y, op := b.X, b.Y, b.Op
	if _, isLen := lenOf(y); isLen {
		x, y = y, x
		switch op {
		case token.LSS:
			op = token.GTR
		case token.LEQ:
			op = token.GEQ
		case token.GTR:
			op = token.LSS
		case token.GEQ:
			op = token.LEQ
		}
	}
	X, isLen := lenOf(x)
	k, isK := constInt(y)
	if !isLen || !isK {
		return nil, false, false
	}
	var whenEmpty bool
	switch {
	case op == token.EQL && k == 0, op == token.LSS && k == 1, op == token.LEQ && k == 0:
		whenEmpty = true
	case op == token.NEQ && k == 0, op == token.GTR && k == 0, op == token.GEQ && k == 1:
		whenEmpty = false
	default:
		return nil, false, false
	}
	return X, whenEmpty == pol, true
}

// emptyCtorStep: the step creates an empty container (NewList(), NewObject(), the registration Init of a literal).
func (v *sxView) emptyCtorStep(s Step) bool {
	if s.Kind != "call" || s.Call == nil || s.Call.Fun == nil || s.Call.Fun.Pkg() != v.c.Types {
		return false
	}
	switch s.Call.Fun.Name() {
	case "NewList", "NewObject":
		return len(s.Call.Args) == 0
	case "Init":
		return true
	}
	return false
}

// eraseEpochs: the term with its memory stamps removed (for comparing what two paths denote when nothing was written in between).
func eraseEpochs(t Term) Term {
	return mapBU(t, func(u Term) Term {
		switch x := u.(type) {
		case TSel:
			x.Epoch = 0
			return x
		case TIndex:
			x.Epoch = 0
			return x
		case TSlice:
			x.Epoch = 0
			return x
		case TCall:
			x.Epoch = 0
			return x
		case TBuiltin:
			if x.Epoch > 0 {
				x.Epoch = 0
			}
			return x
		case TDeref:
			x.Epoch = 0
			return x
		}
		return u
	})
}

// emptyGuardNorm (N6) removes a redundant fast path in front of a loop: `if len(xs) == 0 { return V }` (or `if count < 2 { return V }`
// before a loop of count/2 rounds) when the general path, with the loop running zero times, returns the same V having done nothing.
// Whenever the guard sends a call down the fast path the loop would not have run (folded for sizes 0..9 and a large one), so the
// guard decides nothing; it is dropped from the paths and the fast path with it.
func (v *sxView) emptyGuardNorm(paths []*Path) []*Path {
	for round := 0; round < 48; round++ { // one guard per round (seven flavour arms with two guards each in a From-constructor)
		changed := false
		for fi, pf := range paths {
			// a candidate fast path: conditions only
			if pf.End != "return" && pf.End != "panic" {
				continue
			}
			gi := -1
			onlyConds := true
			for k, s := range pf.Steps {
				if s.Kind != "cond" {
					if v.emptyCtorStep(s) {
						continue // creating the (empty) result is what the general path does first, too
					}
					onlyConds = false
					break
				}
				gi = k
			}
			if !onlyConds || gi < 0 {
				continue
			}
			G := pf.Steps[gi].Cond
			// `xs == nil` implies `len(xs) == 0`: a nil guard is read as the (weaker) emptiness guard — if the general path does for
			// every empty xs what the fast path does, it does so for the nil one
			Gorig := G.T
			G.T = mapBU(G.T, func(u Term) Term {
				b, ok := u.(TBin)
				if !ok || (b.Op != token.EQL && b.Op != token.NEQ) {
					return u
				}
				x := b.X
				if _, isN := b.Y.(TNil); !isN {
					if _, isN := b.X.(TNil); !isN {
						return u
					}
					x = b.Y
				}
				if t := v.c.termType(x); t != nil {
					switch t.Underlying().(type) {
					case *types.Slice, *types.Map:
						return TBin{b.Op, TBuiltin{Name: "len", Args: []Term{x}}, TConst{constant.MakeInt64(0)}}
					}
				}
				return u
			})
			// the size the guard talks about: the receiver's count, or len(X) of one collection X
			var X Term
			recvCount, sizeOK := false, true
			collectSubterms(G.T, func(u Term) {
				switch {
				case v.isCountOfRecv(u):
					recvCount = true
				default:
					if bl, ok := u.(TBuiltin); ok && bl.Name == "len" && len(bl.Args) == 1 {
						if v.isRecvSpine(bl.Args[0]) {
							recvCount = true
						} else if X == nil {
							X = bl.Args[0]
						} else if !sameTerm(eraseEpochs(X), eraseEpochs(bl.Args[0])) {
							sizeOK = false
						}
					}
				}
			})
			if !sizeOK || (recvCount == (X != nil)) {
				continue
			}
			isSize := func(u Term) bool {
				if recvCount {
					if v.isCountOfRecv(u) {
						return true
					}
					bl, ok := u.(TBuiltin)
					return ok && bl.Name == "len" && len(bl.Args) == 1 && v.isRecvSpine(bl.Args[0])
				}
				bl, ok := u.(TBuiltin)
				return ok && bl.Name == "len" && len(bl.Args) == 1 && sameTerm(eraseEpochs(bl.Args[0]), eraseEpochs(X))
			}
			// the slow paths: same prefix, the guard decided the other way
			var slow []int
			good := true
			for i, p := range paths {
				if i == fi || len(p.Steps) <= gi {
					continue
				}
				same := true
				for k := 0; k < gi; k++ {
					a, b := p.Steps[k], pf.Steps[k]
					switch {
					case a.Kind != b.Kind:
						same = false
					case a.Kind == "cond":
						same = sameTerm(a.Cond.T, b.Cond.T) && a.Cond.Truth == b.Cond.Truth
					default:
						same = a.Node == b.Node
					}
					if !same {
						break
					}
				}
				if !same {
					continue
				}
				s := p.Steps[gi]
				if s.Kind != "cond" || !sameTerm(s.Cond.T, Gorig) || s.Cond.Truth == G.Truth {
					good = false
					break
				}
				slow = append(slow, i)
			}
			if !good || len(slow) == 0 {
				continue
			}
			// the exhausted exit among them: guard, one loop, nothing else — and the same result
			exhausted := -1
			for _, i := range slow {
				p := paths[i]
				var rest []Step
				for _, st := range p.Steps[gi+1:] {
					if !v.emptyCtorStep(st) {
						rest = append(rest, st)
					}
				}
				if len(rest) != 1 || rest[0].Kind != "loop" || rest[0].Loop == nil {
					continue
				}
				l := rest[0].Loop
				if p.End != pf.End || len(p.Vals) != len(pf.Vals) {
					continue
				}
				// whenever the guard holds the loop does not run
				implied, taken := true, 0
				for _, n := range []int64{0, 1, 2, 3, 4, 5, 6, 7, 8, 9, 1 << 20} {
					hook := func(u Term) (int64, bool) {
						if isSize(u) {
							return n, true
						}
						if lv, ok := u.(TLoop); ok && lv.ID == l.ID {
							if init, has := l.Init[lv.Obj]; has {
								e := &termEnv{hook: func(w Term) (int64, bool) {
									if isSize(w) {
										return n, true
									}
									return 0, false
								}}
								return e.int(init)
							}
						}
						return 0, false
					}
					e := &termEnv{hook: hook}
					g, ok := e.bool(G.T)
					if !ok {
						implied = false
						break
					}
					if g != G.Truth {
						continue
					}
					taken++
					runs := true
					switch {
					case l.Range != nil:
						over := (recvCount && v.isRecvSpine(l.Over)) || (!recvCount && sameTerm(eraseEpochs(l.Over), eraseEpochs(X)))
						if !over {
							implied = false
						}
						runs = n > 0
					case l.For != nil && l.CondT != nil:
						e2 := &termEnv{hook: hook}
						c0, ok := e2.bool(l.CondT)
						if !ok {
							implied = false
						}
						runs = c0
					default:
						implied = false
					}
					if !implied || runs {
						implied = false
						break
					}
				}
				if !implied || taken == 0 {
					continue
				}
				eq := true
				for k := range p.Vals {
					a := simplify(mapTerm(p.Vals[k], func(t Term) (Term, bool) {
						if lv, ok := t.(TLoop); ok && lv.ID == l.ID {
							if init, has := l.Init[lv.Obj]; has {
								return init, true // nothing was visited: the loop's variables keep their initial values
							}
						}
						return nil, false
					}))
					b := simplify(pf.Vals[k])
					if !sameTerm(eraseEpochs(a), eraseEpochs(b)) && !(freshEmptyContainer(v.c, a, true) && freshEmptyContainer(v.c, b, true)) && !(freshEmptyContainer(v.c, a, false) && freshEmptyContainer(v.c, b, false)) {
						eq = false
					}
				}
				if eq {
					exhausted = i
				}
			}
			if exhausted < 0 {
				continue
			}
			var out []*Path
			for i, p := range paths {
				if i == fi {
					continue
				}
				isSlow := false
				for _, j := range slow {
					if j == i {
						isSlow = true
					}
				}
				if isSlow {
					q := clonePath(p)
					q.Steps = append(q.Steps[:gi:gi], p.Steps[gi+1:]...)
					out = append(out, q)
				} else {
					out = append(out, p)
				}
			}
			paths = out
			changed = true
			break
		}
		if !changed {
			break
		}
	}
	return paths
}

// ---------------------------------------------------------------- shrinking windows
//
// `for rest := xs; len(rest) > 0; rest = rest[2:] { … rest[0] … rest[1] … }` walks xs with a window that loses its first c elements
// per round. windowNorm presents it as the index loop it stands for — rest = xs[off:], off = 0, c, 2c, … — so that rules folding
// argument positions (`values[2j]`, `values[2j+1]`) read one form.

type winRw struct {
	o    types.Object
	off  *types.Var
	id   int
	step int64
	f    func(Term) (Term, bool)
}

func addTerms(a, b Term) Term {
	if a == nil {
		return b
	}
	if b == nil {
		return a
	}
	if k, ok := constInt(a); ok && k == 0 {
		return b
	}
	if k, ok := constInt(b); ok && k == 0 {
		return a
	}
	if x, ok := constInt(a); ok {
		if y, ok := constInt(b); ok {
			return TConst{constant.MakeInt64(x + y)}
		}
	}
	return TBin{Op: token.ADD, X: a, Y: b}
}

// simplifyWindows: S[lo:][k] = S[lo+k]; len(S[lo:]) = len(S)-lo; S[lo:][a:b] = S[lo+a:lo+b].
func simplifyWindows(t Term) Term {
	return mapBU(t, func(u Term) Term {
		open := func(x Term) (TSlice, bool) {
			sl, ok := x.(TSlice)
			return sl, ok && sl.Hi == nil && sl.Max == nil && sl.Lo != nil
		}
		switch x := u.(type) {
		case TIndex:
			if sl, ok := open(x.X); ok {
				return TIndex{X: sl.X, I: addTerms(sl.Lo, x.I), Epoch: x.Epoch}
			}
		case TBuiltin:
			if x.Name == "len" && len(x.Args) == 1 {
				if sl, ok := open(x.Args[0]); ok {
					return TBin{Op: token.SUB, X: TBuiltin{Name: "len", Args: []Term{sl.X}, Site: x.Site, Epoch: x.Epoch}, Y: sl.Lo}
				}
			}
		case TSlice:
			if sl, ok := open(x.X); ok && x.Max == nil {
				r := TSlice{X: sl.X, Lo: addTerms(sl.Lo, x.Lo)}
				if x.Lo == nil {
					r.Lo = sl.Lo
				}
				if x.Hi != nil {
					r.Hi = addTerms(sl.Lo, x.Hi)
				}
				return r
			}
		}
		return u
	})
}

func (v *sxView) windowRewrite(l *LoopRec) *winRw {
	if l.For == nil || l.CondT == nil {
		return nil
	}
	var o types.Object
	var step int64
	if l.Post != nil {
		as, ok := l.Post.(*ast.AssignStmt)
		if !ok || len(as.Lhs) != 1 || len(as.Rhs) != 1 || as.Tok != token.ASSIGN {
			return nil
		}
		o = v.c.obj(as.Lhs[0])
		if o == nil {
			return nil
		}
		if _, isSl := o.Type().Underlying().(*types.Slice); !isSl {
			return nil
		}
		se, ok := ast.Unparen(as.Rhs[0]).(*ast.SliceExpr)
		if !ok || v.c.obj(se.X) != o || se.High != nil || se.Max != nil || se.Low == nil {
			return nil
		}
		tv, ok := v.c.Info.Types[se.Low]
		if !ok || tv.Value == nil {
			return nil
		}
		var exact bool
		step, exact = constant.Int64Val(constant.ToInt(tv.Value))
		if !exact || step <= 0 {
			return nil
		}
		for _, p := range l.Iter {
			if p.End != "fall" && p.End != "continue" {
				continue
			}
			if t, ok := p.Env[o]; ok {
				if lv, same := t.(TLoop); !same || lv.Obj != o || lv.ID != l.ID {
					return nil // the body moves the window itself
				}
			}
		}
	} else {
		// no post statement: every continuing iteration ends with the window shortened by the same constant (`keys = keys[1:]` as the
		// body's last word on keys)
		if len(l.PostStep) != 0 {
			return nil
		}
		cands := map[types.Object]bool{}
		for _, p := range l.Iter {
			for cand := range p.Env {
				cands[cand] = true
			}
		}
		for cand := range cands {
			if _, isSl := cand.Type().Underlying().(*types.Slice); !isSl {
				continue
			}
			var st int64
			ok, n := true, 0
			for _, p := range l.Iter {
				if p.End != "fall" && p.End != "continue" {
					continue
				}
				n++
				sl, isS := p.Env[cand].(TSlice)
				if !isS || sl.Hi != nil || sl.Max != nil || sl.Lo == nil {
					ok = false
					break
				}
				lv, isL := sl.X.(TLoop)
				k, isK := constInt(sl.Lo)
				if !isL || lv.Obj != cand || lv.ID != l.ID || !isK || k <= 0 || (st != 0 && st != k) {
					ok = false
					break
				}
				st = k
			}
			if ok && n > 0 && st > 0 {
				if o != nil {
					return nil
				}
				o, step = cand, st
			}
		}
		if o == nil {
			return nil
		}
	}
	init, has := l.Init[o]
	if !has {
		// a parameter the function has not assigned before the loop is itself
		if pv, isVar := o.(*types.Var); isVar && l.Post == nil && v.c.isParamOf(v.fd, pv) {
			init = TVar{o}
		} else {
			return nil
		}
	}
	off := types.NewVar(l.For.Pos(), v.c.Types, "off·"+o.Name(), types.Typ[types.Int])
	id := l.ID
	f := func(t Term) (Term, bool) {
		if lv, ok := t.(TLoop); ok && lv.ID == id && lv.Obj == o {
			return TSlice{X: init, Lo: TLoop{off, id}}, true
		}
		return nil, false
	}
	return &winRw{o: o, off: off, id: id, step: step, f: f}
}

// offsetCond: "something is left of the window" — len(S)-off > 0, 0 < len(S)-off, len(S)-off != 0, len(S)-off >= 1 — is off < len(S).
func offsetCond(t Term, off types.Object, id int) Term {
	b, ok := t.(TBin)
	if !ok {
		return t
	}
	l, r, op := b.X, b.Y, b.Op
	if _, lc := constInt(l); lc {
		// constant on the left: k OP x is x OP' k
		l, r = r, l
		switch op {
		case token.LSS:
			op = token.GTR
		case token.LEQ:
			op = token.GEQ
		case token.GTR:
			op = token.LSS
		case token.GEQ:
			op = token.LEQ
		}
	}
	k, isK := constInt(r)
	d, isD := l.(TBin)
	if !isK || !isD || d.Op != token.SUB {
		return t
	}
	lv, isL := d.Y.(TLoop)
	if !isL || lv.Obj != off || lv.ID != id {
		return t
	}
	if (op == token.GTR && k == 0) || (op == token.NEQ && k == 0) || (op == token.GEQ && k == 1) {
		return TBin{Op: token.LSS, X: lv, Y: d.X}
	}
	return t
}

func (rw *winRw) apply(r *LoopRec) {
	delete(r.Init, rw.o)
	r.Init[rw.off] = TConst{constant.MakeInt64(0)}
	if r.HeadEnv != nil {
		r.HeadEnv[rw.off] = TLoop{rw.off, rw.id}
	}
	r.Post = nil
	r.PostStep = map[types.Object]int64{rw.off: rw.step}
	r.CondT = offsetCond(simplifyWindows(r.CondT), rw.off, rw.id)
	for i, p := range r.Iter {
		q := mapPath(p, func(t Term) (Term, bool) { return simplifyWindows(t), true })
		if q.Env != nil {
			delete(q.Env, rw.o)
			q.Env[rw.off] = TLoop{rw.off, rw.id}
		}
		r.Iter[i] = q
	}
}

// windowNorm rewrites the shrinking-window loops at the top level of the paths of one function.
func (v *sxView) windowNorm(paths []*Path) []*Path {
	cache := map[int]*winRw{}
	tried := map[int]bool{}
	out := make([]*Path, len(paths))
	for pi, p := range paths {
		q := p
		for k := 0; k < len(q.Steps); k++ {
			s := q.Steps[k]
			if s.Kind != "loop" || s.Loop == nil {
				continue
			}
			id := s.Loop.ID
			if !tried[id] {
				tried[id] = true
				cache[id] = v.windowRewrite(s.Loop)
			}
			rw := cache[id]
			if rw == nil {
				continue
			}
			q = mapPath(q, rw.f)
			rw.apply(q.Steps[k].Loop)
			// what follows the loop sees the window the loop left
			tail := mapPath(&Path{Steps: q.Steps[k+1:], Vals: q.Vals}, func(t Term) (Term, bool) { return simplifyWindows(t), true })
			q.Steps = append(q.Steps[:k+1:k+1], tail.Steps...)
			q.Vals = tail.Vals
		}
		out[pi] = q
	}
	return out
}

// ---------------------------------------------------------------- hand-kept positions and collected values
//
// shadowKey: inside `for _, x := range xs { … pos … ; pos++ }` a local that starts at 0 and is advanced by exactly one on every
// continuing iteration IS the range key. Its mentions inside the loop are rewritten to the key (a key variable is made up when
// the loop has none), so rules read "the callback gets the index". Only when the variable is not read after the loop.
func (v *sxView) shadowKeyNorm(paths []*Path) []*Path {
	type rw struct {
		o   types.Object
		key types.Object
	}
	cache := map[int]*rw{}
	tried := map[int]bool{}
	find := func(l *LoopRec) *rw {
		if l.Range == nil {
			return nil
		}
		if t := v.c.termType(l.Over); t != nil {
			if _, isMap := t.Underlying().(*types.Map); isMap {
				return nil
			}
		}
		if _, ct := v.spineOf(l.Over); ct != nil && !ct.IsList {
			return nil
		}
		if l.Key != nil && !isIntType(l.Key.Type()) {
			return nil
		}
		for o, init := range l.Init {
			if !isIntType(o.Type()) {
				continue
			}
			if k, ok := constInt(init); !ok || k != 0 {
				continue
			}
			good, n := true, 0
			for _, ip := range l.Iter {
				if ip.End != "fall" && ip.End != "continue" {
					continue
				}
				n++
				b, ok := ip.Env[o].(TBin)
				if !ok || b.Op != token.ADD {
					good = false
					break
				}
				lv, isL := b.X.(TLoop)
				one, isC := constInt(b.Y)
				if !isL || lv.Obj != o || lv.ID != l.ID || !isC || one != 1 {
					good = false
					break
				}
			}
			if !good || n == 0 {
				continue
			}
			key := l.Key
			if key == nil {
				key = types.NewVar(l.Node.Pos(), v.c.Types, "key·"+o.Name(), types.Typ[types.Int])
			}
			return &rw{o: o, key: key}
		}
		return nil
	}
	out := make([]*Path, len(paths))
	for pi, p := range paths {
		q := p
		for k := 0; k < len(q.Steps); k++ {
			s := q.Steps[k]
			if s.Kind != "loop" || s.Loop == nil {
				continue
			}
			id := s.Loop.ID
			if !tried[id] {
				tried[id] = true
				cache[id] = find(s.Loop)
				if r := cache[id]; r != nil {
					// read after the loop (in any path)? then leave it alone
					for _, pp := range paths {
						seenLoop := false
						for _, st := range pp.Steps {
							if st.Kind == "loop" && st.Loop != nil && st.Loop.ID == id {
								seenLoop = true
								continue
							}
							if !seenLoop {
								continue
							}
							tail := &Path{Steps: []Step{st}}
							mapPath(tail, func(t Term) (Term, bool) {
								if lv, ok := t.(TLoop); ok && lv.ID == id && lv.Obj == r.o {
									cache[id] = nil
								}
								return nil, false
							})
						}
						for _, t := range pp.Vals {
							collectSubterms(t, func(u Term) {
								if lv, ok := u.(TLoop); ok && lv.ID == id && lv.Obj == r.o {
									cache[id] = nil
								}
							})
						}
					}
				}
			}
			r := cache[id]
			if r == nil {
				continue
			}
			f := func(t Term) (Term, bool) {
				if lv, ok := t.(TLoop); ok && lv.ID == id && lv.Obj == r.o {
					return TVar{r.key}, true
				}
				return nil, false
			}
			if q == p {
				q = clonePath(p)
			}
			nl := mapLoop(s.Loop, f)
			nl.Key = r.key
			delete(nl.Init, r.o)
			for _, ip := range nl.Iter {
				delete(ip.Env, r.o)
			}
			q.Steps[k].Loop = nl
		}
		out[pi] = q
	}
	return out
}

// collectNorm: values gathered in a local []any during the visit and handed to the public constructor afterwards —
//
//	var kept []any; for … { kept = append(kept, x) }; return NewList(kept...)
//
// — are presented as the construct-then-add form the rules read: R := NewList(); for … { R.Add(x) }; return R. The constructor
// converts its values exactly as Add/Set do (C05.R9 / C06.R1), and values are immutable or references, so the moment of the
// conversion does not matter. Only when the slice is used for nothing else.
func (v *sxView) collectNorm(paths []*Path) []*Path {
	c := v.c
	method := func(list bool, name string) *types.Func {
		for _, ct := range c.Inv().Conts {
			if ct.IsList == list && ct.Iface != nil {
				for _, m := range ifaceMethods(ct.Iface) {
					if m.Name() == name {
						return m
					}
				}
			}
		}
		return nil
	}
	out := make([]*Path, len(paths))
	for pi, p := range paths {
		out[pi] = p
		li := -1
		for k, s := range p.Steps {
			if s.Kind == "loop" && s.Loop != nil {
				li = k
			}
		}
		if li < 0 {
			continue
		}
		l := p.Steps[li].Loop
		// the constructor step after the loop
		ci := -1
		for k := li + 1; k < len(p.Steps); k++ {
			s := p.Steps[k]
			if s.Kind == "call" && s.Call != nil && s.Call.Fun != nil && s.Call.Fun.Pkg() == c.Types && s.Call.Recv == nil &&
				(s.Call.Fun.Name() == "NewList" || s.Call.Fun.Name() == "NewObject") && len(s.Call.Args) == 1 && s.Call.Site != nil && s.Call.Site.Ellipsis.IsValid() {
				ci = k
				break
			}
		}
		if ci < 0 {
			continue
		}
		ctor := p.Steps[ci].Call
		lv, ok := ctor.Args[0].(TLoop)
		if !ok || lv.ID != l.ID {
			continue
		}
		acc := lv.Obj
		sl, isSl := acc.Type().Underlying().(*types.Slice)
		if !isSl || !isEmptyIface(sl.Elem()) {
			continue
		}
		// starts empty
		init, has := l.Init[acc]
		empty := false
		switch x := init.(type) {
		case TNil:
			empty = true
		case TBuiltin:
			if x.Name == "make" && len(x.Args) >= 1 {
				if k, ok := constInt(x.Args[0]); ok && k == 0 {
					empty = true
				}
			}
		case TLit:
			empty = len(x.Elts) == 0
		}
		if !has || !empty {
			continue
		}
		isList := ctor.Fun.Name() == "NewList"
		add := method(isList, map[bool]string{true: "Add", false: "Set"}[isList])
		if add == nil {
			continue
		}
		R := TCall{Fun: ctor.Fun, Name: ctor.Name, Site: ctor.Site, Epoch: ctor.Epoch}
		good := true
		nl := *l
		nl.Iter = nil
		for _, ip := range l.Iter {
			t, changed := ip.Env[acc]
			if x, same := t.(TLoop); !changed || (same && x.Obj == acc && x.ID == l.ID) {
				nl.Iter = append(nl.Iter, ip)
				continue
			}
			ap, isAp := t.(TBuiltin)
			if !isAp || ap.Name != "append" || len(ap.Args) < 2 || !sameTerm(ap.Args[0], lv) {
				good = false
				break
			}
			if ce, ok := ap.Site.(*ast.CallExpr); ok && ce.Ellipsis.IsValid() {
				good = false
				break
			}
			if !isList && len(ap.Args[1:])%2 != 0 {
				good = false
				break
			}
			q := clonePath(ip)
			call := TCall{Fun: add, Name: add.Name(), Recv: R, Args: append([]Term(nil), ap.Args[1:]...), Site: ctor.Site}
			q.Steps = append(q.Steps, Step{Kind: "call", Call: &call, Node: ap.Site})
			delete(q.Env, acc)
			nl.Iter = append(nl.Iter, q)
		}
		if !good {
			continue
		}
		// the slice is used for nothing but the constructor call
		used := false
		check := func(t Term) {
			collectSubterms(t, func(u Term) {
				if x, ok := u.(TLoop); ok && x.ID == l.ID && x.Obj == acc {
					used = true
				}
			})
		}
		for k, s := range p.Steps {
			if k == li || k == ci {
				continue
			}
			check(s.Cond.T)
			check(s.LHS)
			check(s.RHS)
			if s.Call != nil {
				check(*s.Call)
			}
		}
		for _, ip := range nl.Iter {
			for _, s := range ip.Steps {
				check(s.Cond.T)
				check(s.LHS)
				check(s.RHS)
				if s.Call != nil && !(s.Call.Fun == add && sameTerm(s.Call.Recv, R)) {
					check(*s.Call)
				}
			}
		}
		if used {
			continue
		}
		q := clonePath(p)
		var steps []Step
		rcall := R
		steps = append(steps, q.Steps[:li]...)
		steps = append(steps, Step{Kind: "call", Call: &rcall, Node: p.Steps[ci].Node})
		steps = append(steps, Step{Kind: "loop", Loop: &nl, Node: p.Steps[li].Node})
		steps = append(steps, q.Steps[li+1:ci]...)
		steps = append(steps, q.Steps[ci+1:]...)
		q.Steps = steps
		old := *ctor
		sub := func(t Term) (Term, bool) {
			if sameTerm(t, old) {
				return R, true
			}
			return nil, false
		}
		for k, t := range q.Vals {
			q.Vals[k] = mapTerm(t, sub)
		}
		out[pi] = q
	}
	return out
}

var fakeStrings = types.NewPackage("strings", "strings")
var fakeContainsRune = types.NewFunc(token.NoPos, fakeStrings, "ContainsRune", types.NewSignatureType(nil, nil, nil,
	types.NewTuple(types.NewVar(token.NoPos, fakeStrings, "s", types.Typ[types.String]), types.NewVar(token.NoPos, fakeStrings, "r", types.Typ[types.Rune])),
	types.NewTuple(types.NewVar(token.NoPos, fakeStrings, "", types.Typ[types.Bool])), false))

// existenceScan recognises the quiet loop `for _, ch := range text { if ch == K { flag = true } }` (flag false before, K an ASCII
// constant, nothing else in the body; leaving by break after the hit is fine) and returns the flag with the term it holds afterwards.
func (v *sxView) existenceScan(l *LoopRec) (types.Object, Term) {
	if l.Range == nil || l.Value == nil || !loopQuiet(l) {
		return nil, nil
	}
	tt := v.c.termType(l.Over)
	if tt == nil || !(isStringType(tt) || isByteSlice(tt)) {
		return nil, nil
	}
	var flag types.Object
	for o, init := range l.Init {
		if b, ok := constBoolOf(simplify(init)); ok && !b && types.Identical(o.Type().Underlying(), types.Typ[types.Bool]) {
			if flag != nil {
				return nil, nil
			}
			flag = o
		} else {
			return nil, nil // another loop-carried variable: not a pure scan
		}
	}
	if flag == nil || len(l.Iter) != 2 {
		return nil, nil
	}
	var K Term
	hit, miss := false, false
	for _, ip := range l.Iter {
		cs := ip.Conds()
		if len(cs) != 1 || len(ip.Steps) != 1 {
			return nil, nil
		}
		b, ok := cs[0].T.(TBin)
		if !ok || (b.Op != token.EQL && b.Op != token.NEQ) {
			return nil, nil
		}
		x, y := b.X, b.Y
		if _, isC := x.(TConst); isC {
			x, y = y, x
		}
		if cv, ok := x.(TConv); ok {
			x = cv.X
		}
		k, isK := constInt(y)
		if !isParamTerm(x, l.Value) || !isK || k < 0 || k >= 0x80 {
			return nil, nil
		}
		if K != nil && !sameTerm(K, y) {
			return nil, nil
		}
		K = y
		matched := cs[0].Truth == (b.Op == token.EQL)
		t, changed := ip.Env[flag]
		if lv, same := t.(TLoop); same && lv.Obj == flag && lv.ID == l.ID {
			changed = false
		}
		switch {
		case matched:
			if b, ok := constBoolOf(t); !changed || !ok || !b || (ip.End != "fall" && ip.End != "continue" && ip.End != "break") {
				return nil, nil
			}
			hit = true
		default:
			if changed || (ip.End != "fall" && ip.End != "continue") {
				return nil, nil
			}
			miss = true
		}
	}
	if !hit || !miss {
		return nil, nil
	}
	text := l.Over
	if isByteSlice(tt) {
		text = TConv{To: types.Typ[types.String], X: text}
	}
	return flag, TCall{Fun: fakeContainsRune, Name: "ContainsRune", Args: []Term{text, K}}
}

// ---------------------------------------------------------------- snapshots

// emptySliceInit: the term a local slice starts with denotes an empty slice (nil, make(T, 0[, cap]), T{}).
func emptySliceInit(init Term) bool {
	switch x := init.(type) {
	case TNil:
		return true
	case TBuiltin:
		if x.Name == "make" && len(x.Args) >= 1 {
			if k, ok := constInt(x.Args[0]); ok && k == 0 {
				return true
			}
		}
	case TLit:
		return len(x.Elts) == 0
	}
	return false
}

// snapshotNorm: values gathered from a collection into a local slice by one quiet loop — all keys, all elements, or what a filter
// lets through and a conversion makes of it — and that slice visited by a following quiet loop —
//
//	keys := make([]string, 0, len(m)); for k := range m { keys = append(keys, k) }; for _, k := range keys { … }
//	var terms []int; for _, it := range xs { if v, ok := it.getVal().(int); ok { terms = append(terms, v) } }; for _, t := range terms { sum += t }
//
// — is one visit of the collection: a round of the first loop that gathers E is followed at once by the round the second loop would
// run for E, a round that gathers nothing is followed by nothing. Neither loop writes memory, so what either reads is the same
// throughout, and the second loop sees the gathered values in the order they were gathered. Only when the slice is used for nothing
// else and the second loop does not look at positions (or every round gathers, from a slice: then positions agree).
func (v *sxView) snapshotNorm(paths []*Path) []*Path {
	out := make([]*Path, len(paths))
	for pi, p := range paths {
		out[pi] = p
		for a := 0; a < len(out[pi].Steps); a++ {
			if q := v.snapshotAt(out[pi], a); q != nil {
				out[pi] = q
				a--
			}
		}
	}
	return out
}

func (v *sxView) snapshotAt(p *Path, a int) *Path {
	s1 := p.Steps[a]
	if s1.Kind != "loop" || s1.Loop == nil || s1.Loop.Range == nil {
		return nil
	}
	l1 := s1.Loop
	if !loopQuiet(l1) || len(l1.Iter) == 0 {
		return nil
	}
	// the one carried variable: acc, appended to (one element) or left alone by every round
	var acc types.Object
	elems := make([]Term, len(l1.Iter))
	for pi, ip := range l1.Iter {
		if ip.End != "fall" && ip.End != "continue" {
			return nil
		}
		for o, t := range ip.Env {
			if x, same := t.(TLoop); same && x.Obj == o && x.ID == l1.ID {
				continue
			}
			if h, had := l1.HeadEnv[o]; had && sameTerm(h, t) {
				continue
			}
			if o == l1.Key || o == l1.Value {
				continue
			}
			if _, carried := l1.Init[o]; !carried {
				if h, isL := l1.HeadEnv[o].(TLoop); !isL || h.Obj != o || h.ID != l1.ID {
					continue // not carried from round to round: a local of the body or of a helper inlined there
				}
			}
			ap, isAp := t.(TBuiltin)
			if !isAp || ap.Name != "append" || len(ap.Args) != 2 || (acc != nil && acc != o) {
				return nil
			}
			if x, ok := ap.Args[0].(TLoop); !ok || x.Obj != o || x.ID != l1.ID {
				return nil
			}
			if ce, ok := ap.Site.(*ast.CallExpr); ok && ce.Ellipsis.IsValid() {
				return nil
			}
			acc, elems[pi] = o, ap.Args[1]
		}
	}
	if acc == nil || !emptySliceInit(l1.Init[acc]) {
		return nil
	}
	every := true
	for _, e := range elems {
		if e == nil {
			every = false
		}
	}
	// the next loop ranges over what was gathered
	b := -1
	for k := a + 1; k < len(p.Steps); k++ {
		if p.Steps[k].Kind == "loop" {
			b = k
			break
		}
		if p.Steps[k].Kind != "cond" {
			return nil
		}
	}
	if b < 0 {
		return nil
	}
	l2 := p.Steps[b].Loop
	// the second loop writes no memory — or the whole function writes nothing that existed before the call and runs no user code
	// (v.heapQuiet: E3), so what the first loop read, and what the gathered values are computed from, is out of its reach
	if l2 == nil || l2.Range == nil || (!loopQuiet(l2) && !v.heapQuiet) {
		return nil
	}
	if ov, ok := l2.Over.(TLoop); !ok || ov.Obj != acc || ov.ID != l1.ID {
		return nil
	}
	mentions := func(t Term, o types.Object) bool {
		hit := false
		if t == nil || o == nil {
			return false
		}
		collectSubterms(t, func(u Term) {
			switch x := u.(type) {
			case TVar:
				hit = hit || x.Obj == o
			case TLoop:
				hit = hit || x.Obj == o
			}
		})
		return hit
	}
	var pathMentions func(q *Path, o types.Object, skip map[int]bool) bool
	pathMentions = func(q *Path, o types.Object, skip map[int]bool) bool {
		for k, s := range q.Steps {
			if skip[k] {
				continue
			}
			if mentions(s.Cond.T, o) || mentions(s.LHS, o) || mentions(s.RHS, o) || (s.Call != nil && mentions(*s.Call, o)) || (s.Blt != nil && mentions(*s.Blt, o)) {
				return true
			}
			if s.Loop != nil {
				if mentions(s.Loop.Over, o) || mentions(s.Loop.CondT, o) {
					return true
				}
				for _, ip := range s.Loop.Iter {
					if pathMentions(ip, o, nil) {
						return true
					}
					for eo, et := range ip.Env {
						if _, carried := s.Loop.Init[eo]; carried && eo != o && mentions(et, o) {
							return true
						}
					}
				}
			}
		}
		for _, t := range q.Vals {
			if mentions(t, o) {
				return true
			}
		}
		return false
	}
	// the slice is used for nothing else
	if pathMentions(p, acc, map[int]bool{a: true, b: true}) {
		return nil
	}
	for _, ip := range l2.Iter {
		if pathMentions(ip, acc, nil) {
			return nil
		}
		for eo, et := range ip.Env {
			if _, carried := l2.Init[eo]; carried && eo != acc && mentions(et, acc) {
				return nil
			}
		}
	}
	tt := v.c.termType(l1.Over)
	if tt == nil {
		return nil
	}
	_, overMap := tt.Underlying().(*types.Map)
	keyUsed := false
	if l2.Key != nil {
		for _, ip := range l2.Iter {
			keyUsed = keyUsed || pathMentions(ip, l2.Key, nil)
			for eo, et := range ip.Env {
				if _, carried := l2.Init[eo]; carried && eo != l2.Key {
					keyUsed = keyUsed || mentions(et, l2.Key)
				}
			}
		}
		keyUsed = keyUsed || pathMentions(p, l2.Key, map[int]bool{a: true})
	}
	if keyUsed && (!every || overMap || l1.Key == nil) {
		return nil // positions in the gathered slice mean nothing for the collection
	}
	// rounds of the fused loop
	nl := *l2
	nl.Over, nl.Key, nl.Value, nl.Range = l1.Over, l1.Key, l1.Value, l1.Range
	nl.Iter = nil
	appending := -1
	nApp := 0
	for pi, p1 := range l1.Iter {
		if elems[pi] == nil {
			// nothing gathered: the second loop has no round for it, its variables stay as they are
			q := clonePath(p1)
			q.Env = copyEnv(l2.HeadEnv)
			delete(q.Env, acc)
			nl.Iter = append(nl.Iter, q)
			continue
		}
		appending = pi
		nApp++
		e := elems[pi]
		sub := func(t Term) (Term, bool) {
			switch x := t.(type) {
			case TVar:
				if l2.Value != nil && x.Obj == l2.Value {
					return e, true
				}
				if l2.Key != nil && x.Obj == l2.Key && l1.Key != nil {
					return TVar{l1.Key}, true
				}
			}
			return nil, false
		}
		for _, p2 := range l2.Iter {
			q := mapPath(p2, sub)
			q.Steps = append(append([]Step(nil), p1.Steps...), q.Steps...)
			if q.Env != nil {
				delete(q.Env, l2.Value)
				delete(q.Env, l2.Key)
			}
			nl.Iter = append(nl.Iter, q)
		}
	}
	// a function-level path that leaves the second loop from inside continues with that round's steps: they get the gathering round's
	// steps in front — possible only when one round gathers
	exit := inLoopExitIndex(p, b) >= 0 || inLoopExit(p, b)
	if exit && nApp != 1 {
		return nil
	}
	q := clonePath(p)
	var steps []Step
	steps = append(steps, p.Steps[:a]...)
	steps = append(steps, p.Steps[a+1:b]...)
	ns := p.Steps[b]
	ns.Loop = &nl
	steps = append(steps, ns)
	tail := p.Steps[b+1:]
	vals := p.Vals
	if exit {
		e := elems[appending]
		sub := func(t Term) (Term, bool) {
			switch x := t.(type) {
			case TVar:
				if l2.Value != nil && x.Obj == l2.Value {
					return e, true
				}
				if l2.Key != nil && x.Obj == l2.Key && l1.Key != nil {
					return TVar{l1.Key}, true
				}
			}
			return nil, false
		}
		mt := mapPath(&Path{Steps: tail, Vals: vals}, sub)
		steps = append(steps, l1.Iter[appending].Steps...)
		tail, vals = mt.Steps, mt.Vals
	}
	steps = append(steps, tail...)
	q.Steps = steps
	q.Vals = vals
	return q
}

// ---------------------------------------------------------------- primitive writes into a container made here

// ifaceMethod: the method of the list (object) interface with the given name.
func (v *sxView) ifaceMethod(list bool, name string) *types.Func {
	for _, ct := range v.c.Inv().Conts {
		if ct.IsList == list && ct.Iface != nil {
			for _, m := range ifaceMethods(ct.Iface) {
				if m.Name() == name {
					return m
				}
			}
		}
	}
	return nil
}

// freshContainer: t denotes a container allocated in this call (the literal itself or its address); returns its description.
func (v *sxView) freshContainer(t Term) *Cont {
	if a, ok := t.(TAddr); ok {
		t = a.X
	}
	// the receiver's clone, asserted to the base type: self.Clone().(*object) — a new container of the base type (C09)
	if pr, ok := t.(TProj); ok && pr.K == 0 {
		t = pr.X
	}
	if as, ok := t.(TAssert); ok {
		if cc, isCall := as.X.(TCall); isCall && cc.Fun != nil && len(cc.Args) == 0 && cc.Recv != nil && (cc.Fun.Name() == "Clone" || cc.Fun.Name() == "copy") && cc.Fun.Pkg() == v.c.Types {
			if p, ok := as.To.(*types.Pointer); ok {
				if nt, ok := p.Elem().(*types.Named); ok {
					return v.c.Inv().ContOf(nt)
				}
			}
		}
		return nil
	}
	l, ok := t.(TLit)
	if !ok || l.Type == nil {
		return nil
	}
	tt := l.Type
	if p, ok := tt.(*types.Pointer); ok {
		tt = p.Elem()
	}
	nt, ok := tt.(*types.Named)
	if !ok {
		return nil
	}
	return v.c.Inv().ContOf(nt)
}

// primitiveWriteNorm: a container allocated in this call and filled through its spine directly —
//
//	R.val = append(R.val, parseVal(x))        R.val[k] = parseVal(x)
//
// — is presented as the mutator calls the rules read, R.Add(x) and R.Set(k, x): on a container of the base type made here these
// do exactly that (C05.R9 / C06.R1: one conversion per value, appended / stored under the key), and no derived type can be involved.
func (v *sxView) primitiveWriteNorm(paths []*Path) []*Path {
	// the conversion must be part of the write itself (one conversion per write, as in Add/Set): a value converted once and
	// written several times is one shared element, which no sequence of Add calls produces
	var loops []*LoopRec
	var pathConds []Cond // the decisions of the path (and the enclosing paths) up to the step being looked at
	ctors, ident := v.c.parseValTable()
	var nilCtor *types.Func
	for _, ct := range ctors {
		if ct.typ == nil {
			nilCtor = ct.fn
		}
	}
	// nilTest: cd decides `e == nil`; returns e and whether the path found it nil
	nilTest := func(cd Cond) (Term, bool) {
		b, ok := cd.T.(TBin)
		if !ok || (b.Op != token.EQL && b.Op != token.NEQ) {
			return nil, false
		}
		e := b.X
		if _, isN := b.Y.(TNil); !isN {
			if _, isN := b.X.(TNil); !isN {
				return nil, false
			}
			e = b.Y
		}
		return e, cd.Truth == (b.Op == token.EQL)
	}
	isPV := func(t Term, at ast.Node) (Term, bool) {
		// a value of a static type that parseVal passes through unchanged (a container interface) is its own conversion
		nonNil := false // the value of a successful assertion to an interface type is not nil (a nil Object would be converted to the nil wrapper)
		switch u := t.(type) {
		case TAssert:
			nonNil = true
		case TProj:
			_, nonNil = u.X.(TAssert)
		}
		// … so is a value the path compared with nil and found different
		for _, cd := range pathConds {
			if e, isNil := nilTest(cd); e != nil && !isNil && sameTerm(eraseEpochs(e), eraseEpochs(t)) {
				nonNil = true
			}
		}
		// newNil() on a path that found a value of such a type to be nil: the conversion of that (nil) value
		if call, isCall := t.(TCall); isCall && call.Fun != nil && call.Fun == nilCtor && len(call.Args) == 0 {
			var which Term
			n := 0
			for _, cd := range pathConds {
				if e, isNil := nilTest(cd); e != nil && isNil {
					if tt := v.c.termType(e); tt != nil {
						for _, it := range ident {
							if types.Identical(tt, it) {
								which = e
								n++
							}
						}
					}
				}
			}
			if n == 1 {
				return which, true
			}
		}
		if tt := v.c.termType(t); tt != nil && nonNil {
			for _, it := range ident {
				if types.Identical(tt, it) {
					return t, true
				}
			}
		}
		pv, ok := t.(TCall)
		if ok && pv.Fun != nil && pv.Recv == nil && len(pv.Args) == 1 && pv.Fun.Pkg() == v.c.Types && pv.Fun.Name() != "parseVal" {
			// newK(e) with e of static type K is what parseVal's arm for K does with e
			if at := v.c.termType(pv.Args[0]); at != nil {
				for _, ct := range ctors {
					if ct.fn == pv.Fun && ct.typ != nil && types.Identical(ct.typ, at) {
						goto conv
					}
				}
			}
			return nil, false
		}
		if !ok || pv.Fun == nil || pv.Fun.Name() != "parseVal" || pv.Fun.Pkg() != v.c.Types || pv.Recv != nil || len(pv.Args) != 1 {
			return nil, false
		}
	conv:
		if pv.Site == nil || at == nil {
			return nil, false
		}
		if insideNode(pv.Site, at) {
			return pv.Args[0], true
		}
		// the write sits in a helper called from a loop body that also holds the conversion (`result.push(parseVal(f(i)))`), or the
		// converted value is computed from this round's variables: one conversion per round all the same
		if n := len(loops); n > 0 {
			l := loops[n-1]
			if l.Node != nil && insideNode(pv.Site, l.Node) && !insideNode(at, pv.Site) {
				return pv.Args[0], true
			}
			if mentionsLoopVar(pv.Args[0], l.ID) {
				return pv.Args[0], true
			}
		}
		return nil, false
	}
	var rewrite func(p *Path) *Path
	rewrite = func(p *Path) *Path {
		var q *Path
		mark := len(pathConds)
		defer func() { pathConds = pathConds[:mark] }()
		for k, s := range p.Steps {
			ns := s
			changed := false
			if s.Kind == "cond" {
				pathConds = append(pathConds, s.Cond)
			}
			switch {
			case s.Kind == "loop" && s.Loop != nil:
				var iters []*Path
				any := false
				loops = append(loops, s.Loop)
				for _, ip := range s.Loop.Iter {
					nip := rewrite(ip)
					any = any || nip != ip
					iters = append(iters, nip)
				}
				loops = loops[:len(loops)-1]
				if any {
					nl := *s.Loop
					nl.Iter = iters
					nl.Quiet = false
					ns.Loop = &nl
					changed = true
				}
			case s.Kind == "store":
				if sel, ok := s.LHS.(TSel); ok {
					ct := v.freshContainer(sel.X)
					ap, isAp := s.RHS.(TBuiltin)
					if ct == nil || !ct.IsList || sel.Field != ct.Spine || !isAp || ap.Name != "append" || len(ap.Args) < 2 {
						break
					}
					if ce, isCall := ap.Site.(*ast.CallExpr); isCall && ce.Ellipsis.IsValid() {
						break
					}
					old, ok := ap.Args[0].(TSel)
					if !ok || old.Field != ct.Spine || !sameTerm(eraseEpochs(old.X), eraseEpochs(sel.X)) {
						break
					}
					var args []Term
					good := true
					for _, a := range ap.Args[1:] {
						x, ok := isPV(a, s.Node)
						if !ok {
							good = false
							break
						}
						args = append(args, x)
					}
					add := v.ifaceMethod(true, "Add")
					if !good || add == nil {
						break
					}
					call := TCall{Fun: add, Name: add.Name(), Recv: sel.X, Args: args}
					if ce, isCall := ap.Site.(*ast.CallExpr); isCall {
						call.Site = ce
					}
					ns = Step{Kind: "call", Call: &call, Node: s.Node, Env: s.Env, Heap: s.Heap}
					changed = true
				} else if ix, ok := s.LHS.(TIndex); ok {
					sp, isSel := ix.X.(TSel)
					if !isSel {
						break
					}
					ct := v.freshContainer(sp.X)
					x, isConv := isPV(s.RHS, s.Node)
					set := v.ifaceMethod(false, "Set")
					if ct == nil || ct.IsList || sp.Field != ct.Spine || !isConv || set == nil {
						break
					}
					call := TCall{Fun: set, Name: set.Name(), Recv: sp.X, Args: []Term{ix.I, x}}
					if pv, ok := s.RHS.(TCall); ok {
						call.Site = pv.Site
					}
					ns = Step{Kind: "call", Call: &call, Node: s.Node, Env: s.Env, Heap: s.Heap}
					changed = true
				}
			}
			if changed {
				if q == nil {
					q = clonePath(p)
					q.Steps = append([]Step(nil), p.Steps...)
				}
				q.Steps[k] = ns
			}
		}
		if q == nil {
			return p
		}
		return q
	}
	out := make([]*Path, len(paths))
	for i, p := range paths {
		out[i] = rewrite(p)
	}
	return out
}

// sortNorm: sort.Sort(sort.IntSlice(s)) and sort.Stable(…) — also StringSlice, Float64Slice, and the method forms sort.IntSlice(s).Sort() —
// are what the package documents sort.Ints(s) / sort.Strings(s) / sort.Float64s(s) to be; the call steps are presented in that form.
func (v *sxView) sortNorm(paths []*Path) []*Path {
	var sortPkg *types.Package
	for _, imp := range v.c.Types.Imports() {
		if imp.Path() == "sort" {
			sortPkg = imp
		}
	}
	if sortPkg == nil {
		return paths
	}
	short := map[string]string{"IntSlice": "Ints", "StringSlice": "Strings", "Float64Slice": "Float64s"}
	plain := func(t Term) (*types.Func, Term) {
		cv, ok := t.(TConv)
		if !ok {
			return nil, nil
		}
		nt, ok := cv.To.(*types.Named)
		if !ok || nt.Obj().Pkg() != sortPkg {
			return nil, nil
		}
		f, _ := sortPkg.Scope().Lookup(short[nt.Obj().Name()]).(*types.Func)
		if f == nil {
			return nil, nil
		}
		return f, cv.X
	}
	var rewrite func(p *Path) *Path
	rewrite = func(p *Path) *Path {
		var q *Path
		for k, s := range p.Steps {
			ns := s
			changed := false
			switch {
			case s.Kind == "loop" && s.Loop != nil:
				var iters []*Path
				any := false
				for _, ip := range s.Loop.Iter {
					nip := rewrite(ip)
					any = any || nip != ip
					iters = append(iters, nip)
				}
				if any {
					nl := *s.Loop
					nl.Iter = iters
					ns.Loop = &nl
					changed = true
				}
			case s.Kind == "call" && s.Call != nil && s.Call.Fun != nil && s.Call.Fun.Pkg() == sortPkg:
				var f *types.Func
				var arg Term
				switch {
				case s.Call.Recv == nil && len(s.Call.Args) == 1 && (s.Call.Fun.Name() == "Sort" || s.Call.Fun.Name() == "Stable"):
					f, arg = plain(s.Call.Args[0])
				case s.Call.Recv != nil && len(s.Call.Args) == 0 && s.Call.Fun.Name() == "Sort":
					f, arg = plain(s.Call.Recv)
				}
				if f != nil {
					call := *s.Call
					call.Fun, call.Name, call.Recv, call.Args = f, f.Name(), nil, []Term{arg}
					ns.Call = &call
					changed = true
				}
			}
			if changed {
				if q == nil {
					q = clonePath(p)
					q.Steps = append([]Step(nil), p.Steps...)
				}
				q.Steps[k] = ns
			}
		}
		if q == nil {
			return p
		}
		return q
	}
	out := make([]*Path, len(paths))
	for i, p := range paths {
		out[i] = rewrite(p)
	}
	return out
}

// ---------------------------------------------------------------- countdowns

// countdownNorm: `for left := len(xs); left > 0; left-- { … xs[len(xs)-left] … }` counts the elements still to come and reaches each
// through its distance from the end. When the countdown is mentioned nowhere but in `N - left` (N what it started from), that
// difference is an ascending position: the loop is presented as `for pos := 0; pos < N; pos++ { … xs[pos] … }`.
func (v *sxView) countdownNorm(paths []*Path) []*Path {
	type cdRw struct {
		o, pos types.Object
		n      Term
		id     int
		f      func(Term) (Term, bool)
	}
	mentions := func(p *Path, o types.Object, id int) bool {
		hit := false
		mapPath(p, func(t Term) (Term, bool) {
			if lv, ok := t.(TLoop); ok && lv.Obj == o && lv.ID == id {
				hit = true
			}
			return nil, false
		})
		return hit
	}
	find := func(l *LoopRec) *cdRw {
		if l.For == nil || l.CondT == nil {
			return nil
		}
		b, ok := simplify(l.CondT).(TBin)
		if !ok {
			return nil
		}
		var left Term
		kx, xc := constInt(b.X)
		ky, yc := constInt(b.Y)
		switch {
		case yc && ((b.Op == token.GTR && ky == 0) || (b.Op == token.NEQ && ky == 0) || (b.Op == token.GEQ && ky == 1)):
			left = b.X
		case xc && ((b.Op == token.LSS && kx == 0) || (b.Op == token.NEQ && kx == 0) || (b.Op == token.LEQ && kx == 1)):
			left = b.Y
		}
		lv, ok := left.(TLoop)
		if !ok || lv.ID != l.ID || !isIntType(lv.Obj.Type()) {
			return nil
		}
		o := lv.Obj
		step := 0
		if l.Post != nil {
			step = v.c.counterStep(l.Post, o)
			for _, a := range v.c.assignedInStmt(l.Post) {
				if a != o {
					return nil
				}
			}
		} else if d, ok := l.PostStep[o]; ok && len(l.PostStep) == 1 {
			step = int(d)
		}
		n, has := l.Init[o]
		if step != -1 || !has {
			return nil
		}
		for _, p := range l.Iter {
			if p.End == "fall" || p.End == "continue" {
				if t, ok := p.Env[o]; ok && !sameTerm(t, lv) {
					return nil // the body moves the countdown itself
				}
			}
		}
		pos := types.NewVar(l.For.Pos(), v.c.Types, "pos·"+o.Name(), types.Typ[types.Int])
		id := l.ID
		nk := key(eraseEpochs(n))
		f := func(t Term) (Term, bool) {
			if d, ok := t.(TBin); ok && d.Op == token.SUB {
				if y, ok := d.Y.(TLoop); ok && y.Obj == o && y.ID == id && key(eraseEpochs(d.X)) == nk {
					return TLoop{pos, id}, true
				}
			}
			return nil, false
		}
		return &cdRw{o: o, pos: pos, n: n, id: id, f: f}
	}
	cache := map[int]*cdRw{}
	tried := map[int]bool{}
	out := make([]*Path, len(paths))
	for pi, p := range paths {
		out[pi] = p
		q := p
		for k := 0; k < len(q.Steps); k++ {
			s := q.Steps[k]
			if s.Kind != "loop" || s.Loop == nil {
				continue
			}
			id := s.Loop.ID
			if !tried[id] {
				tried[id] = true
				cache[id] = find(s.Loop)
			}
			rw := cache[id]
			if rw == nil {
				continue
			}
			cand := mapPath(q, rw.f)
			r := cand.Steps[k].Loop
			saved, savedHead := r.CondT, r.HeadEnv
			r.CondT, r.HeadEnv = nil, nil
			// the countdown's own binding (unchanged by the body) goes with it, also in the environments captured at call steps
			var scrub func(p *Path)
			scrub = func(p *Path) {
				if t, ok := p.Env[rw.o]; ok && sameTerm(t, TLoop{rw.o, id}) {
					delete(p.Env, rw.o)
				}
				for _, st := range p.Steps {
					if t, ok := st.Env[rw.o]; ok && sameTerm(t, TLoop{rw.o, id}) {
						delete(st.Env, rw.o)
					}
					if st.Loop != nil {
						for _, ip := range st.Loop.Iter {
							scrub(ip)
						}
					}
				}
			}
			scrub(cand)
			still := mentions(cand, rw.o, id)
			r.CondT, r.HeadEnv = saved, savedHead
			if still {
				cache[id] = nil // also used for something else: on every path the loop stays as written
				for pj := 0; pj < pi; pj++ {
					out[pj] = paths[pj]
				}
				q = p
				break
			}
			delete(r.Init, rw.o)
			r.Init[rw.pos] = TConst{constant.MakeInt64(0)}
			if r.HeadEnv != nil {
				r.HeadEnv[rw.pos] = TLoop{rw.pos, id}
			}
			r.Post = nil
			r.PostStep = map[types.Object]int64{rw.pos: 1}
			r.CondT = TBin{Op: token.LSS, X: TLoop{rw.pos, id}, Y: rw.n}
			for _, ip := range r.Iter {
				if ip.Env != nil {
					delete(ip.Env, rw.o)
					ip.Env[rw.pos] = TLoop{rw.pos, id}
				}
			}
			q = cand
		}
		out[pi] = q
	}
	return out
}

// nilByConds: a path that decided `T == nil` returns nil wherever it returns T (`if v, err = f(); err == nil { return v, err }`).
func nilByConds(paths []*Path) []*Path {
	out := make([]*Path, len(paths))
	for i, p := range paths {
		out[i] = p
		if len(p.Vals) == 0 {
			continue
		}
		var nils []Term
		for _, cd := range p.Conds() {
			b, ok := cd.T.(TBin)
			if !ok || (b.Op != token.EQL && b.Op != token.NEQ) || cd.Truth != (b.Op == token.EQL) {
				continue
			}
			if _, isNil := b.Y.(TNil); isNil {
				nils = append(nils, b.X)
			} else if _, isNil := b.X.(TNil); isNil {
				nils = append(nils, b.Y)
			}
		}
		if len(nils) == 0 {
			continue
		}
		q := clonePath(p)
		q.Vals = append([]Term(nil), p.Vals...)
		changed := false
		for k, t := range q.Vals {
			q.Vals[k] = mapTerm(t, func(u Term) (Term, bool) {
				for _, n := range nils {
					if sameTerm(u, n) {
						changed = true
						return TNil{}, true
					}
				}
				return nil, false
			})
		}
		if changed {
			out[i] = q
		}
	}
	return out
}

// mergeBoolReturn: `if T { return true }; return false` is `return T`: two paths that agree on everything but the truth of their last
// decision, do nothing after it and return the two boolean constants, are one path returning the decision term (or its negation).
func mergeBoolReturn(paths []*Path) []*Path {
	for {
		merged := false
		for i := 0; i < len(paths) && !merged; i++ {
			for j := i + 1; j < len(paths) && !merged; j++ {
				p, q := paths[i], paths[j]
				if p.End != "return" || q.End != "return" || len(p.Vals) != 1 || len(q.Vals) != 1 || len(p.Steps) == 0 || len(p.Steps) != len(q.Steps) {
					continue
				}
				bp, okp := constBoolOf(p.Vals[0])
				bq, okq := constBoolOf(q.Vals[0])
				if !okp || !okq || bp == bq {
					continue
				}
				k := len(p.Steps) - 1
				lp, lq := p.Steps[k], q.Steps[k]
				if lp.Kind != "cond" || lq.Kind != "cond" || !sameTerm(lp.Cond.T, lq.Cond.T) || lp.Cond.Truth == lq.Cond.Truth {
					continue
				}
				same := true
				for m := 0; m < k; m++ {
					a, b := p.Steps[m], q.Steps[m]
					if a.Kind != b.Kind || a.Node != b.Node || (a.Kind == "cond" && (a.Cond.Truth != b.Cond.Truth || !sameTerm(a.Cond.T, b.Cond.T))) {
						same = false
						break
					}
				}
				if !same {
					continue
				}
				r := clonePath(p)
				r.Steps = append([]Step(nil), p.Steps[:k]...)
				val := lp.Cond.T
				if lp.Cond.Truth != bp {
					val = simplify(TUn{token.NOT, val})
				}
				r.Vals = []Term{val}
				var out []*Path
				for m, x := range paths {
					switch m {
					case i:
						out = append(out, r)
					case j:
					default:
						out = append(out, x)
					}
				}
				paths, merged = out, true
			}
		}
		if !merged {
			return paths
		}
	}
}

// asCounted: a range over a slice seen as the counting loop it is — `for k := 0; k < len(X); k++` with the element read as X[k] —
// for rules that simulate loop headers. The length is that of the operand when the loop starts (range evaluates it once); the view
// is only offered for operands the loop does not write (a parameter, a local). nil when the loop is not such a range.
func (v *sxView) asCounted(l *LoopRec) *LoopRec {
	if l == nil || l.Range == nil || l.For != nil {
		return nil
	}
	tt := v.c.termType(l.Over)
	if tt == nil {
		return nil
	}
	if _, isSlice := tt.Underlying().(*types.Slice); !isSlice {
		return nil
	}
	if _, isVar := l.Over.(TVar); !isVar {
		return nil
	}
	key := l.Key
	if key == nil {
		key = types.NewVar(l.Range.Pos(), v.c.Types, "pos·range", types.Typ[types.Int])
	}
	ctr := TLoop{key, l.ID}
	f := func(t Term) (Term, bool) {
		if tv, ok := t.(TVar); ok {
			if tv.Obj == key {
				return ctr, true
			}
			if l.Value != nil && tv.Obj == l.Value {
				return TIndex{X: l.Over, I: ctr, Epoch: l.HeadEpoch}, true
			}
		}
		return nil, false
	}
	r := mapLoop(l, f)
	r.Range, r.Key, r.Value = nil, nil, nil
	r.For = &ast.ForStmt{For: l.Range.Pos()}
	r.CondT = TBin{Op: token.LSS, X: ctr, Y: TBuiltin{Name: "len", Args: []Term{l.Over}, Epoch: l.HeadEpoch}}
	r.Init = copyEnv(r.Init)
	if r.Init == nil {
		r.Init = map[types.Object]Term{}
	}
	r.Init[key] = TConst{constant.MakeInt64(0)}
	r.Post, r.PostStep = nil, map[types.Object]int64{key: 1}
	for _, ip := range r.Iter {
		if ip.Env != nil {
			ip.Env[key] = ctr
			if l.Value != nil {
				delete(ip.Env, l.Value)
			}
		}
	}
	return r
}

// assertByConds: a path that decided `x.(type) == T` (a type-switch case, a successful comma-ok assertion) asserts nothing new with a
// later `x.(I)` when every value of type T is an I (`case Object, List: return v.(field)`): the assertion cannot fail and hands on x.
func assertByConds(paths []*Path) []*Path {
	out := make([]*Path, len(paths))
	for i, p := range paths {
		out[i] = p
		type fact struct {
			x Term
			t types.Type
		}
		var facts []fact
		for _, cd := range p.Conds() {
			if !cd.Truth {
				continue
			}
			if op, T, ok := kindTestOf(cd.T); ok && T != nil {
				facts = append(facts, fact{op, T})
			}
		}
		if len(facts) == 0 {
			continue
		}
		changed := false
		f := func(u Term) (Term, bool) {
			as, ok := u.(TAssert)
			if !ok || as.To == nil {
				return nil, false
			}
			iface, isI := as.To.Underlying().(*types.Interface)
			if !isI {
				return nil, false
			}
			for _, fc := range facts {
				if sameTerm(fc.x, as.X) && types.Implements(fc.t, iface) {
					changed = true
					return as.X, true
				}
			}
			return nil, false
		}
		q := mapPath(p, f)
		if changed {
			out[i] = q
		}
	}
	return out
}

// ---------------------------------------------------------------- fast paths that spell the loop out

// unrolledGuardNorm (N7): `if len(values) == 2 { …the one pair… ; return }` in front of the loop over all pairs — a fast path for a
// fixed small size that does by hand what the loop would do. For every size at which the guard sends a call down the fast path (folded
// 0..9 and a large one; at most 4, none of them large), the general path's loop header is simulated for that size and its rounds are laid
// out one after the other with the counter's values put in; when the straight-line paths so obtained are, step for step and result for
// result, the fast paths (locals canonically named, memory stamps erased), the guard decides nothing: the fast paths and the decision are
// dropped. Anything that does not match leaves the paths as they are.
func (v *sxView) unrolledGuardNorm(paths []*Path) []*Path {
	c := v.c
	for round := 0; round < 3; round++ {
		changed := false
	candidates:
		for fi, pf := range paths {
			for gi, gs := range pf.Steps {
				if gs.Kind != "cond" || !intFoldable(gs.Cond.T) {
					continue
				}
				G := gs.Cond
				// the size the guard talks about
				var X Term
				recvCount, sizeOK := false, true
				collectSubterms(G.T, func(u Term) {
					switch {
					case v.isCountOfRecv(u):
						recvCount = true
					default:
						if bl, ok := u.(TBuiltin); ok && bl.Name == "len" && len(bl.Args) == 1 {
							if v.isRecvSpine(bl.Args[0]) {
								recvCount = true
							} else if X == nil {
								X = bl.Args[0]
							} else if !sameTerm(eraseEpochs(X), eraseEpochs(bl.Args[0])) {
								sizeOK = false
							}
						}
					}
				})
				if !sizeOK || recvCount == (X != nil) {
					continue
				}
				isSize := func(u Term) bool {
					if recvCount {
						if v.isCountOfRecv(u) {
							return true
						}
						bl, ok := u.(TBuiltin)
						return ok && bl.Name == "len" && len(bl.Args) == 1 && v.isRecvSpine(bl.Args[0])
					}
					bl, ok := u.(TBuiltin)
					return ok && bl.Name == "len" && len(bl.Args) == 1 && sameTerm(eraseEpochs(bl.Args[0]), eraseEpochs(X))
				}
				samePrefix := func(p *Path) bool {
					if len(p.Steps) <= gi {
						return false
					}
					for k := 0; k < gi; k++ {
						a, b := p.Steps[k], pf.Steps[k]
						switch {
						case a.Kind != b.Kind:
							return false
						case a.Kind == "cond":
							if !sameTerm(a.Cond.T, b.Cond.T) || a.Cond.Truth != b.Cond.Truth {
								return false
							}
						default:
							if a.Node != b.Node {
								return false
							}
						}
					}
					s := p.Steps[gi]
					return s.Kind == "cond" && sameTerm(s.Cond.T, G.T)
				}
				var fast, slow []int
				for i, p := range paths {
					if !samePrefix(p) {
						continue
					}
					if p.Steps[gi].Cond.Truth == G.Truth {
						fast = append(fast, i)
					} else {
						slow = append(slow, i)
					}
				}
				if len(fast) == 0 || len(slow) == 0 {
					continue
				}
				hasLoop := func(p *Path) int {
					n, at := 0, -1
					for k := gi + 1; k < len(p.Steps); k++ {
						if p.Steps[k].Kind == "loop" {
							n++
							at = k
						}
					}
					if n != 1 {
						return -n - 1
					}
					return at
				}
				okShape := true
				for _, i := range fast {
					if hasLoop(paths[i]) != -1 {
						okShape = false
					}
				}
				var loop *LoopRec
				for _, i := range slow {
					li := hasLoop(paths[i])
					if li < 0 {
						okShape = false
						break
					}
					if loop != nil && paths[i].Steps[li].Loop != loop {
						okShape = false
					}
					loop = paths[i].Steps[li].Loop
				}
				if !okShape || loop == nil {
					continue
				}
				orig := loop
				loop = loopForSim(v, loop) // a range over a slice parameter: laid out as the counting loop it is
				_ = orig
				// sizes taken by the fast side
				var sizes []int64
				for _, n := range []int64{0, 1, 2, 3, 4, 5, 6, 7, 8, 9, 1 << 20} {
					e := &termEnv{hook: func(u Term) (int64, bool) {
						if isSize(u) {
							return n, true
						}
						return 0, false
					}}
					g, ok := e.bool(G.T)
					if !ok {
						continue candidates
					}
					if g == G.Truth {
						sizes = append(sizes, n)
					}
				}
				if len(sizes) == 0 || len(sizes) > 3 || sizes[len(sizes)-1] > 4 {
					continue
				}
				var pins []types.Object
				if v.recv != nil {
					pins = append(pins, v.recv)
				}
				if v.fd != nil && v.fd.Type.Params != nil {
					for _, f := range v.fd.Type.Params.List {
						for _, nm := range f.Names {
							if o := c.Info.Defs[nm]; o != nil {
								pins = append(pins, o)
							}
						}
					}
				}
				sig := func(p *Path) string {
					return c.pathSignature(p, func(t Term) (Term, bool) { return nil, false }, nil, pins...)
				}
				match := true
				for _, n := range sizes {
					hook := func(u Term) (int64, bool) {
						if isSize(u) {
							return n, true
						}
						return 0, false
					}
					holds := func(p *Path, from, to int) (bool, bool) { // the int-foldable decisions of p.Steps[from:to] hold for n
						for k := from; k < to; k++ {
							s := p.Steps[k]
							if s.Kind != "cond" || !intFoldable(s.Cond.T) {
								continue
							}
							e := &termEnv{hook: hook}
							b, ok := e.bool(s.Cond.T)
							if !ok {
								return false, false
							}
							if b != s.Cond.Truth {
								return false, true
							}
						}
						return true, true
					}
					strip := func(steps []Step) []Step { // the decisions on the size are not part of what is compared
						var out []Step
						for _, s := range steps {
							if s.Kind == "cond" && intFoldable(s.Cond.T) {
								e := &termEnv{hook: hook}
								if _, ok := e.bool(s.Cond.T); ok {
									continue
								}
							}
							out = append(out, s)
						}
						return out
					}
					want := map[string]int{}
					for _, i := range fast {
						p := paths[i]
						h, ok := holds(p, gi+1, len(p.Steps))
						if !ok {
							continue candidates
						}
						if !h {
							continue
						}
						q := &Path{Steps: strip(p.Steps[gi+1:]), End: p.End, Vals: p.Vals}
						want[sig(q)]++
					}
					// the general side, laid out for this size
					its, why := c.loopIterations(loop, hook, 8)
					if why != "" || len(its) > 4 {
						continue candidates
					}
					got := map[string]int{}
					for _, i := range slow {
						p := paths[i]
						li := hasLoop(p)
						if inLoopExit(p, li) {
							continue // the same round is found among the loop's own
						}
						h, ok := holds(p, gi+1, len(p.Steps))
						if !ok {
							continue candidates
						}
						if !h {
							continue
						}
						pre := strip(p.Steps[gi+1 : li])
						post := strip(p.Steps[li+1:])
						var lay func(j int, acc []Step) bool
						lay = func(j int, acc []Step) bool {
							sub := func(state map[types.Object]int64) func(Term) (Term, bool) {
								return func(t Term) (Term, bool) {
									switch x := t.(type) {
									case TLoop:
										if x.ID == loop.ID {
											if val, ok := state[x.Obj]; ok {
												return TConst{constant.MakeInt64(val)}, true
											}
										}
									}
									return nil, false
								}
							}
							if j == len(its) {
								final := map[types.Object]int64{}
								if len(its) > 0 {
									for o, val := range its[len(its)-1] {
										final[o] = val
									}
								}
								tail := mapPath(&Path{Steps: post, Vals: p.Vals}, sub(final))
								q := &Path{Steps: append(append([]Step(nil), acc...), tail.Steps...), End: p.End, Vals: tail.Vals}
								q = simplifyPath(q)
								if mentionsLoop(q, loop.ID) {
									return false
								}
								got[sig(q)]++
								return true
							}
							for _, ip := range loop.Iter {
								m := mapPath(ip, sub(its[j]))
								steps := append(append([]Step(nil), acc...), strip(m.Steps)...)
								switch ip.End {
								case "fall", "continue":
									// only counters may be carried
									for o, t := range ip.Env {
										if lv, same := t.(TLoop); same && lv.Obj == o {
											continue
										}
										if _, isCtr := its[j][o]; isCtr {
											continue
										}
										if _, carried := loop.Init[o]; carried {
											return false
										}
									}
									if !lay(j+1, steps) {
										return false
									}
								case "return", "panic":
									q := simplifyPath(&Path{Steps: steps, End: ip.End, Vals: m.Vals})
									if mentionsLoop(q, loop.ID) {
										return false
									}
									got[sig(q)]++
								default:
									return false
								}
							}
							return true
						}
						if !lay(0, pre) {
							continue candidates
						}
					}
					if len(want) == 0 || len(want) != len(got) {
						match = false
					}
					for k, cnt := range want {
						if got[k] != cnt {
							match = false
						}
					}
					if !match {
						if os.Getenv("ANYCHECK_DEBUG") != "" {
							for k := range want {
								fmt.Fprintln(os.Stderr, "N7 want:", k)
							}
							for k := range got {
								fmt.Fprintln(os.Stderr, "N7 got: ", k)
							}
						}
						break
					}
				}
				if !match {
					continue
				}
				var out []*Path
				isFast := map[int]bool{}
				isSlow := map[int]bool{}
				for _, i := range fast {
					isFast[i] = true
				}
				for _, i := range slow {
					isSlow[i] = true
				}
				for i, p := range paths {
					switch {
					case isFast[i]:
					case isSlow[i]:
						q := clonePath(p)
						q.Steps = append(q.Steps[:gi:gi], p.Steps[gi+1:]...)
						out = append(out, q)
					default:
						out = append(out, p)
					}
				}
				paths = out
				changed = true
				_ = fi
				break candidates
			}
		}
		if !changed {
			break
		}
	}
	return paths
}

// loopForSim: the loop as the header simulation wants it (a range over a slice parameter as the counting loop it is).
func loopForSim(v *sxView, l *LoopRec) *LoopRec {
	if cl := v.asCounted(l); cl != nil {
		return cl
	}
	return l
}

func simplifyPath(p *Path) *Path {
	return mapPath(p, func(t Term) (Term, bool) { return mapBU(t, simplify), true })
}

func mentionsLoop(p *Path, id int) bool {
	hit := false
	mapPath(p, func(t Term) (Term, bool) {
		if lv, ok := t.(TLoop); ok && lv.ID == id {
			hit = true
		}
		return nil, false
	})
	return hit
}

// mentionsLoopVar: t reads a variable of the loop with that identity.
func mentionsLoopVar(t Term, id int) bool {
	found := false
	collectSubterms(t, func(u Term) {
		if lv, ok := u.(TLoop); ok && lv.ID == id {
			found = true
		}
	})
	return found
}

type pvCtor struct {
	typ types.Type
	fn  *types.Func
}

var pvTableCache = map[*Ctx]*struct {
	ctors []pvCtor
	ident []types.Type
}{}

// parseValTable reads parseVal's own paths: the arms `case K: return newK(v)` (a constructor applied to the asserted argument, no
// conversion in between) and the arms that hand the argument on as it is (`case List: return v`).
func (c *Ctx) parseValTable() ([]pvCtor, []types.Type) {
	if t, ok := pvTableCache[c]; ok {
		return t.ctors, t.ident
	}
	t := &struct {
		ctors []pvCtor
		ident []types.Type
	}{}
	pvTableCache[c] = t
	fd := c.Decl("parseVal")
	if fd == nil {
		return nil, nil
	}
	par := soleParam(c, fd)
	for _, p := range c.NewSX().Run(fd) {
		if p.Why != "" {
			t.ctors, t.ident = nil, nil
			return nil, nil
		}
		if p.End != "return" || len(p.Vals) != 1 || len(p.Effects()) != 0 {
			continue
		}
		conds := p.Conds()
		if len(conds) == 0 {
			continue
		}
		last := conds[len(conds)-1]
		ti, ok := last.T.(TTypeIs)
		if ok && last.Truth && ti.To == nil && isParamTerm(ti.X, par) {
			// case nil: return newNil()
			if call, isCall := p.Vals[0].(TCall); isCall && call.Fun != nil && call.Recv == nil && len(call.Args) == 0 {
				t.ctors = append(t.ctors, pvCtor{nil, call.Fun})
			}
			continue
		}
		if !ok || !last.Truth || ti.To == nil || !isParamTerm(ti.X, par) {
			continue
		}
		// only arms of a switch with one type per case bind the asserted value
		asserted := func(u Term) bool {
			if pr, ok := u.(TProj); ok && pr.K == 0 {
				u = pr.X
			}
			as, ok := u.(TAssert)
			return ok && isParamTerm(as.X, par) && types.Identical(as.To, ti.To)
		}
		r := p.Vals[0]
		for {
			cv, ok := r.(TConv)
			if !ok {
				break
			}
			if _, isI := cv.To.Underlying().(*types.Interface); !isI {
				break
			}
			r = cv.X
		}
		switch {
		case asserted(r):
			t.ident = append(t.ident, ti.To)
		default:
			if call, ok := r.(TCall); ok && call.Fun != nil && call.Recv == nil && len(call.Args) == 1 && asserted(call.Args[0]) {
				t.ctors = append(t.ctors, pvCtor{ti.To, call.Fun})
			}
		}
	}
	return t.ctors, t.ident
}

// siblingMerge: two alternatives (paths of a function, or of one loop round) that differ in nothing but the outcome of one decision —
// same steps before and after it, same effects, same end, same values left in the variables — are one alternative that does not make
// the decision. (`if v == nil { out.Add(v) } else { out.Add(v) }` once the two conversions have been read as the same Add.)
func (v *sxView) siblingMerge(paths []*Path) []*Path {
	return v.siblingMergeMemo(paths, map[*LoopRec]*LoopRec{})
}

func (v *sxView) siblingMergeMemo(paths []*Path, memo map[*LoopRec]*LoopRec) []*Path {
	var stepKey func(s Step) string
	var pathKey func(p *Path, skip int) string
	stepKey = func(s Step) string {
		switch s.Kind {
		case "cond":
			return "if[" + boolStr(s.Cond.Truth) + "]" + key(s.Cond.T)
		case "store":
			return "store " + key(s.LHS) + "=" + key(s.RHS)
		case "call":
			if s.Call != nil {
				return "call " + key(*s.Call)
			}
			if s.Blt != nil {
				return "call " + key(*s.Blt)
			}
		case "loop":
			if s.Loop != nil {
				var ks []string
				for _, ip := range s.Loop.Iter {
					ks = append(ks, pathKey(ip, -1))
				}
				sort.Strings(ks)
				return "loop" + itoa(s.Loop.ID) + "{" + strings.Join(ks, " | ") + "}"
			}
		}
		return s.Kind + fmt.Sprintf("@%p", s.Node)
	}
	pathKey = func(p *Path, skip int) string {
		var sb strings.Builder
		for i, s := range p.Steps {
			if i == skip {
				continue
			}
			sb.WriteString(stepKey(s) + "; ")
		}
		sb.WriteString("=> " + p.End)
		for _, t := range p.Vals {
			sb.WriteString(" " + key(t))
		}
		var es []string
		for o, t := range p.Env {
			if lv, same := t.(TLoop); same && lv.Obj == o {
				continue
			}
			es = append(es, fmt.Sprintf("%s@%d=%s", o.Name(), o.Pos(), key(t)))
		}
		sort.Strings(es)
		sb.WriteString(" env{" + strings.Join(es, ",") + "}")
		return sb.String()
	}
	// loops first
	out := make([]*Path, len(paths))
	for i, p := range paths {
		q := p
		for k, s := range p.Steps {
			if s.Kind != "loop" || s.Loop == nil {
				continue
			}
			nl, seen := memo[s.Loop]
			if !seen {
				nl = s.Loop
				if it := v.siblingMergeMemo(s.Loop.Iter, memo); len(it) != len(s.Loop.Iter) {
					l := *s.Loop
					l.Iter = it
					nl = &l
				}
				memo[s.Loop] = nl
			}
			if nl == s.Loop {
				continue
			}
			if q == p {
				q = clonePath(p)
				q.Steps = append([]Step(nil), p.Steps...)
			}
			ns := s
			ns.Loop = nl
			q.Steps[k] = ns
		}
		out[i] = q
	}
	for again := true; again; {
		again = false
	search:
		for i := 0; i < len(out); i++ {
			for j := i + 1; j < len(out); j++ {
				a, b := out[i], out[j]
				if len(a.Steps) != len(b.Steps) || a.Why != "" || b.Why != "" {
					continue
				}
				for k := range a.Steps {
					sa, sb := a.Steps[k], b.Steps[k]
					if sa.Kind != "cond" || sb.Kind != "cond" || sa.Cond.Truth == sb.Cond.Truth || !sameTerm(sa.Cond.T, sb.Cond.T) {
						continue
					}
					if pathKey(a, k) != pathKey(b, k) {
						continue
					}
					m := clonePath(a)
					m.Steps = append(append([]Step(nil), a.Steps[:k]...), a.Steps[k+1:]...)
					out[i] = m
					out = append(out[:j], out[j+1:]...)
					again = true
					break search
				}
			}
		}
	}
	return out
}
