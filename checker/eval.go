package main

// E4 (part 1) — finite evaluation of pure integer/boolean expressions.
// Guards in this code base are boolean combinations of comparisons between linear terms with unit
// coefficients over a few integer quantities (a parameter, the current length, constants). Such a predicate
// changes its truth value only at break-points derived from the constants it mentions, so deciding
// "guard == documented domain" by folding the expression over a finite break-point set is complete for
// that vocabulary. Anything outside the vocabulary makes the evaluation fail => UNDECIDED.

import (
	"go/ast"
	"go/constant"
	"go/token"
	"go/types"
)

type evalEnv struct {
	c     *Ctx
	vars  map[types.Object]int64
	hook  func(e ast.Expr) (int64, bool) // resolves calls / selectors such as len(x.val), x.Count()
	fail  string
	bools map[types.Object]bool
}

func (ev *evalEnv) int(e ast.Expr) (int64, bool) {
	e = unparen(e)
	if ev.hook != nil {
		if v, ok := ev.hook(e); ok {
			return v, true
		}
	}
	if tv, ok := ev.c.Info.Types[e]; ok && tv.Value != nil && tv.Value.Kind() == constant.Int {
		if v, exact := constant.Int64Val(tv.Value); exact {
			return v, true
		}
	}
	switch x := e.(type) {
	case *ast.Ident:
		if v, ok := ev.vars[ev.c.obj(x)]; ok {
			return v, true
		}
	case *ast.UnaryExpr:
		if v, ok := ev.int(x.X); ok {
			switch x.Op {
			case token.SUB:
				return -v, true
			case token.ADD:
				return v, true
			case token.XOR:
				return ^v, true
			}
		}
	case *ast.BinaryExpr:
		a, ok1 := ev.int(x.X)
		b, ok2 := ev.int(x.Y)
		if ok1 && ok2 {
			switch x.Op {
			case token.ADD:
				return a + b, true
			case token.SUB:
				return a - b, true
			case token.MUL:
				return a * b, true
			case token.QUO:
				if b != 0 {
					return a / b, true
				}
			case token.REM:
				if b != 0 {
					return a % b, true
				}
			case token.AND:
				return a & b, true
			case token.OR:
				return a | b, true
			case token.XOR:
				return a ^ b, true
			case token.SHL:
				if b >= 0 && b < 63 {
					return a << uint(b), true
				}
			case token.SHR:
				if b >= 0 && b < 63 {
					return a >> uint(b), true
				}
			}
		}
	case *ast.CallExpr:
		// integer conversion int(x)
		if tv, ok := ev.c.Info.Types[x.Fun]; ok && tv.IsType() && len(x.Args) == 1 {
			if b, ok := tv.Type.Underlying().(*types.Basic); ok && b.Info()&types.IsInteger != 0 {
				if at := ev.c.typeOf(x.Args[0]); at != nil {
					if ab, ok := at.Underlying().(*types.Basic); ok && ab.Info()&types.IsInteger != 0 {
						return ev.int(x.Args[0])
					}
				}
			}
		}
	}
	if ev.fail == "" {
		ev.fail = "integer expression outside the vocabulary: " + exprStr(e)
	}
	return 0, false
}

// intConstantsIn collects the integer constants mentioned in an expression (for break-point sets).
func (c *Ctx) intConstantsIn(e ast.Expr) []int64 {
	var out []int64
	ast.Inspect(e, func(n ast.Node) bool {
		if x, ok := n.(ast.Expr); ok {
			if tv, ok := c.Info.Types[x]; ok && tv.Value != nil && tv.Value.Kind() == constant.Int {
				if v, exact := constant.Int64Val(tv.Value); exact {
					out = append(out, v)
				}
				return false
			}
		}
		return true
	})
	return out
}

func sortInt64(a []int64) {
	for i := 1; i < len(a); i++ {
		for j := i; j > 0 && a[j] < a[j-1]; j-- {
			a[j], a[j-1] = a[j-1], a[j]
		}
	}
}

// ---- loop header normal form

type loopHeader struct {
	Var   types.Object
	Start ast.Expr
	Step  int64    // +k ascending, -k descending
	Bound ast.Expr // ascending: i < Bound (exclusive); descending: i >= Bound (inclusive)
	Incl  bool     // ascending with <=, descending with >
}

// forHeader extracts `for i := S; i < B; i += k` / `i++` / descending variants. ok=false if outside the vocabulary.
func (c *Ctx) forHeader(fs *ast.ForStmt) (loopHeader, bool) {
	var h loopHeader
	init, ok := fs.Init.(*ast.AssignStmt)
	if !ok || len(init.Lhs) != 1 || len(init.Rhs) != 1 || init.Tok != token.DEFINE {
		return h, false
	}
	h.Var = c.obj(init.Lhs[0])
	h.Start = init.Rhs[0]
	if h.Var == nil {
		return h, false
	}
	switch p := fs.Post.(type) {
	case *ast.IncDecStmt:
		if c.obj(p.X) != h.Var {
			return h, false
		}
		h.Step = 1
		if p.Tok == token.DEC {
			h.Step = -1
		}
	case *ast.AssignStmt:
		if len(p.Lhs) != 1 || len(p.Rhs) != 1 || c.obj(p.Lhs[0]) != h.Var {
			return h, false
		}
		switch p.Tok {
		case token.ADD_ASSIGN, token.SUB_ASSIGN:
			k, ok := c.constInt(p.Rhs[0])
			if !ok || k <= 0 {
				return h, false
			}
			h.Step = k
			if p.Tok == token.SUB_ASSIGN {
				h.Step = -k
			}
		case token.ASSIGN:
			be, ok := unparen(p.Rhs[0]).(*ast.BinaryExpr)
			if !ok || c.obj(be.X) != h.Var {
				return h, false
			}
			k, okk := c.constInt(be.Y)
			if !okk || k <= 0 {
				return h, false
			}
			switch be.Op {
			case token.ADD:
				h.Step = k
			case token.SUB:
				h.Step = -k
			default:
				return h, false
			}
		default:
			return h, false
		}
	default:
		return h, false
	}
	be, ok := unparen(fs.Cond).(*ast.BinaryExpr)
	if !ok {
		return h, false
	}
	op, x, y := be.Op, be.X, be.Y
	if c.obj(y) == h.Var && c.obj(x) != h.Var { // B > i  ==> i < B
		x, y = y, x
		op = map[token.Token]token.Token{token.LSS: token.GTR, token.GTR: token.LSS, token.LEQ: token.GEQ, token.GEQ: token.LEQ}[op]
	}
	if c.obj(x) != h.Var {
		return h, false
	}
	h.Bound = y
	switch {
	case h.Step > 0 && op == token.LSS:
	case h.Step > 0 && op == token.LEQ:
		h.Incl = true
	case h.Step < 0 && op == token.GEQ:
	case h.Step < 0 && op == token.GTR:
		h.Incl = true
	default:
		return h, false
	}
	// the loop variable must not be written in the body
	if writesVar(c, fs.Body, h.Var) {
		return h, false
	}
	return h, true
}
