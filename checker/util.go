package main

// E1/E2 — resolved structural helpers and the inventory of the package
// (containers, spines, field interface, wrappers), re-derived on every run.

import (
	"go/ast"
	"go/constant"
	"go/token"
	"go/types"
	"sort"
	"strings"

	"golang.org/x/tools/go/types/typeutil"
)

type Cont struct {
	Named  *types.Named // list / object
	Spine  *types.Var   // val
	Ptr    *types.Var   // ptr (registered ego)
	Iface  *types.Named // List / Object
	IsList bool
	// Base: the ego field lives in an embedded base struct (`self[List]{ptr List}` embedded in list): the embedded field;
	// Ptr is then the field of the (instantiated) base struct. nil when the ego field is a direct field.
	Base *types.Var
}

// sameField: two field variables denote the same declared field (a field of a generic struct and of its instances are the same).
func sameField(a, b *types.Var) bool {
	if a == nil || b == nil {
		return a == b
	}
	return a == b || a.Origin() == b.Origin()
}

type Inv struct {
	Field    *types.Named   // the unexported field interface
	Conts    []*Cont        // containers (sorted by name)
	Wrappers []*types.Named // scalar wrapper structs implementing field
	Impls    []*types.Named // all named types whose pointer implements field
}

func (iv *Inv) ContOf(n *types.Named) *Cont {
	for _, c := range iv.Conts {
		if c.Named == n || c.Named.Obj() == n.Obj() {
			return c
		}
	}
	return nil
}

func (iv *Inv) ContByIface(t types.Type) *Cont {
	for _, c := range iv.Conts {
		if types.Identical(c.Iface, t) {
			return c
		}
	}
	return nil
}

func (iv *Inv) List() *Cont {
	for _, c := range iv.Conts {
		if c.IsList {
			return c
		}
	}
	return nil
}

func (iv *Inv) Object() *Cont {
	for _, c := range iv.Conts {
		if !c.IsList {
			return c
		}
	}
	return nil
}

var invCache = map[*Ctx]*Inv{}

func (c *Ctx) Inv() *Inv {
	if iv, ok := invCache[c]; ok {
		return iv
	}
	iv := &Inv{}
	invCache[c] = iv
	sc := c.Types.Scope()
	names := sc.Names()
	sort.Strings(names)
	for _, n := range names {
		tn, ok := sc.Lookup(n).(*types.TypeName)
		if !ok {
			continue
		}
		named, ok := tn.Type().(*types.Named)
		if !ok {
			continue
		}
		st, ok := named.Underlying().(*types.Struct)
		if !ok {
			continue
		}
		var ct *Cont
		for i := 0; i < st.NumFields(); i++ {
			f := st.Field(i)
			var elem types.Type
			isList := false
			switch u := f.Type().Underlying().(type) {
			case *types.Slice:
				elem, isList = u.Elem(), true
			case *types.Map:
				elem = u.Elem()
			}
			if en, ok := elem.(*types.Named); ok && en.Obj().Pkg() == c.Types {
				if _, isI := en.Underlying().(*types.Interface); isI {
					ct = &Cont{Named: named, Spine: f, IsList: isList}
					iv.Field = en
				}
			}
		}
		if ct == nil {
			continue
		}
		for i := 0; i < st.NumFields(); i++ {
			f := st.Field(i)
			if fn, ok := f.Type().(*types.Named); ok && fn.Obj().Pkg() == c.Types {
				if _, isI := fn.Underlying().(*types.Interface); isI {
					ct.Ptr, ct.Iface = f, fn
				}
			}
		}
		if ct.Iface == nil {
			// the ego field one struct deeper: a base struct (possibly an instance of a generic one) embedded in the container,
			// holding the registered outer value under the container's exported interface
			for i := 0; i < st.NumFields() && ct.Iface == nil; i++ {
				f := st.Field(i)
				if !f.Embedded() {
					continue
				}
				bst, ok := f.Type().Underlying().(*types.Struct)
				if !ok {
					continue
				}
				for j := 0; j < bst.NumFields(); j++ {
					g := bst.Field(j)
					if fn, ok := g.Type().(*types.Named); ok && fn.Obj().Pkg() == c.Types {
						it, isI := fn.Underlying().(*types.Interface)
						if !isI || !types.Implements(types.NewPointer(named), it) {
							continue
						}
						if fn.Obj().Exported() {
							ct.Ptr, ct.Iface, ct.Base = g, fn, f
						} else if ego, _, _ := types.LookupFieldOrMethod(types.NewPointer(named), true, c.Types, "Ego"); ego != nil {
							// the ego kept under an unexported interface common to the containers (`self container`): the container's
							// interface is what its Ego() hands back
							if m, ok := ego.(*types.Func); ok {
								if sig := m.Type().(*types.Signature); sig.Params().Len() == 0 && sig.Results().Len() == 1 {
									if rn, ok := sig.Results().At(0).Type().(*types.Named); ok && rn.Obj().Pkg() == c.Types && rn.Obj().Exported() {
										if rit, isI := rn.Underlying().(*types.Interface); isI && types.Implements(types.NewPointer(named), rit) {
											ct.Ptr, ct.Iface, ct.Base = g, rn, f
										}
									}
								}
							}
						}
					}
				}
			}
		}
		if ct.Iface == nil {
			continue // a helper struct that merely holds fields (a sort adapter, a builder): no registered outer value, not a container
		}
		iv.Conts = append(iv.Conts, ct)
	}
	if iv.Field != nil {
		fi := iv.Field.Underlying().(*types.Interface)
		for _, n := range names {
			tn, ok := sc.Lookup(n).(*types.TypeName)
			if !ok {
				continue
			}
			named, ok := tn.Type().(*types.Named)
			if !ok {
				continue
			}
			if _, isI := named.Underlying().(*types.Interface); isI {
				continue
			}
			if types.Implements(types.NewPointer(named), fi) {
				iv.Impls = append(iv.Impls, named)
				if iv.ContOf(named) == nil {
					iv.Wrappers = append(iv.Wrappers, named)
				}
			}
		}
	}
	return iv
}

// ---- AST helpers

func unparen(e ast.Expr) ast.Expr {
	for {
		p, ok := e.(*ast.ParenExpr)
		if !ok {
			return e
		}
		e = p.X
	}
}

func (c *Ctx) obj(e ast.Expr) types.Object {
	if e == nil {
		return nil
	}
	if id, ok := unparen(e).(*ast.Ident); ok {
		if o := c.Info.Uses[id]; o != nil {
			return o
		}
		return c.Info.Defs[id]
	}
	return nil
}

// callee resolves the called function or method object (never by name alone).
func (c *Ctx) callee(call *ast.CallExpr) *types.Func {
	f, _ := typeutil.Callee(c.Info, call).(*types.Func)
	return f
}

func (c *Ctx) calleeFull(call *ast.CallExpr) string {
	if f := c.callee(call); f != nil {
		return f.FullName()
	}
	return ""
}

// isBuiltin reports whether call is a call of the named builtin.
func (c *Ctx) isBuiltin(call *ast.CallExpr, name string) bool {
	id, ok := unparen(call.Fun).(*ast.Ident)
	if !ok {
		return false
	}
	b, ok := c.Info.Uses[id].(*types.Builtin)
	return ok && b.Name() == name
}

func (c *Ctx) constInt(e ast.Expr) (int64, bool) {
	tv, ok := c.Info.Types[e]
	if !ok || tv.Value == nil {
		return 0, false
	}
	if tv.Value.Kind() != constant.Int {
		return 0, false
	}
	return constant.Int64Val(tv.Value)
}

func (c *Ctx) constString(e ast.Expr) (string, bool) {
	tv, ok := c.Info.Types[e]
	if !ok || tv.Value == nil || tv.Value.Kind() != constant.String {
		return "", false
	}
	return constant.StringVal(tv.Value), true
}

func (c *Ctx) isNil(e ast.Expr) bool {
	tv, ok := c.Info.Types[e]
	return ok && tv.IsNil()
}

func (c *Ctx) typeOf(e ast.Expr) types.Type {
	if tv, ok := c.Info.Types[e]; ok {
		return tv.Type
	}
	if id, ok := e.(*ast.Ident); ok {
		if o := c.obj(id); o != nil {
			return o.Type()
		}
	}
	return nil
}

// recvObj returns the receiver variable of a method declaration.
func (c *Ctx) recvObj(fd *ast.FuncDecl) types.Object {
	if fd.Recv == nil || len(fd.Recv.List) == 0 || len(fd.Recv.List[0].Names) == 0 {
		return nil
	}
	return c.Info.Defs[fd.Recv.List[0].Names[0]]
}

// recvCont returns the container description of a method's receiver type.
func (c *Ctx) recvCont(fd *ast.FuncDecl) *Cont {
	r := c.recvObj(fd)
	if r == nil {
		return nil
	}
	if p, ok := r.Type().(*types.Pointer); ok {
		if n, ok := p.Elem().(*types.Named); ok {
			if ct := c.Inv().ContOf(n); ct != nil {
				return ct
			}
			// a method of the base struct the containers embed (it holds their ego field): read as a method of a container
			for _, ct := range c.Inv().Conts {
				if ct.Base != nil {
					if bn, ok := ct.Base.Type().(*types.Named); ok && bn.Origin().Obj() == n.Origin().Obj() {
						return ct
					}
				}
			}
		}
	}
	return nil
}

// egoFieldOf: the accessor term denotes the ego field of the receiver: recv.ptr, or — the ego kept under an interface common to the
// containers — recv.self.(List) in its comma-ok form (a value that is no List comes back as the nil List a nil ptr is).
func egoFieldOf(t Term, ct *Cont) (TSel, bool) {
	if pr, ok := t.(TProj); ok && pr.K == 0 && ct.Base != nil {
		if as, ok := pr.X.(TAssert); ok && as.To != nil && types.Identical(as.To, ct.Iface) {
			t = as.X
		}
	}
	sel, ok := t.(TSel)
	return sel, ok && sameField(sel.Field, ct.Ptr)
}

// isEgoAccessor: method f (interface or concrete) returns the ptr field of its receiver.
func (c *Ctx) isEgoAccessor(f *types.Func) bool {
	if f == nil {
		return false
	}
	for _, ct := range c.Inv().Conts {
		fd := c.methodDecl(ct, f.Name())
		debugf("isEgoAccessor %s ct=%s base=%v fd=%v\n", f.FullName(), ct.Named.Obj().Name(), ct.Base != nil, fd != nil)
		if fd == nil {
			continue
		}
		sig := f.Type().(*types.Signature)
		if sig.Params().Len() != 0 || sig.Results().Len() != 1 {
			continue
		}
		if ct.Base != nil && c.decls["(*"+ct.Named.Obj().Name()+")."+f.Name()] == nil {
			// promoted from the embedded base: f is that method (or an instance of it), or the interface method it implements
			_, viaIface := sig.Recv().Type().Underlying().(*types.Interface)
			if f.Origin() != c.FuncObj(fd) && !viaIface {
				continue
			}
			if t, ok := c.accessorTerm(fd).(TSel); ok && sameField(t.Field, ct.Ptr) {
				if tv, ok := t.X.(TVar); ok && tv.Obj == c.recvObj(fd) {
					return true
				}
			}
			continue
		}
		// receiver of f must be this container or its interface
		rt := sig.Recv().Type()
		if !types.Identical(rt, ct.Iface) && !types.Identical(rt, types.NewPointer(ct.Named)) {
			if _, isI := rt.Underlying().(*types.Interface); !isI {
				continue
			}
		}
		if t, ok := egoFieldOf(c.accessorTerm(fd), ct); ok {
			if tv, ok := t.X.(TVar); ok && tv.Obj == c.recvObj(fd) {
				return true
			}
		}
	}
	return false
}

// isSpineOf: expression is <x>.val for the spine field of a container; returns x.
func (c *Ctx) spineBase(e ast.Expr) (ast.Expr, *Cont) {
	sel, ok := unparen(e).(*ast.SelectorExpr)
	if !ok {
		return nil, nil
	}
	s := c.Info.Selections[sel]
	if s == nil {
		return nil, nil
	}
	for _, ct := range c.Inv().Conts {
		if s.Obj() == ct.Spine {
			return sel.X, ct
		}
	}
	return nil, nil
}

// isRecvSpine: expression is ego.val of the method's receiver.
func (c *Ctx) isRecvSpine(fd *ast.FuncDecl, e ast.Expr) bool {
	x, ct := c.spineBase(e)
	return ct != nil && c.obj(x) == c.recvObj(fd) && c.recvObj(fd) != nil
}

// accessorTerm: the one term a method without parameters returns on every path, when it has no effects and no decisions
// (`return recv.ptr`, `n := len(recv.val); return n`, a named result assigned and returned bare); nil otherwise.
var accessorTerms = map[*ast.FuncDecl]Term{}

func (c *Ctx) accessorTerm(fd *ast.FuncDecl) Term {
	if t, ok := accessorTerms[fd]; ok {
		return t
	}
	accessorTerms[fd] = nil
	if fd.Body == nil || fd.Type.Params.NumFields() != 0 {
		return nil
	}
	var out Term
	paths := c.NewSX().Run(fd)
	var guarded []*Path
	for _, p := range paths {
		if p.Why != "" || p.End != "return" || len(p.Vals) != 1 {
			return nil
		}
		if len(p.Steps) != 0 {
			// decisions only: a defensive guard in front of the one expression (`if ego.val == nil { return 0 }; return len(ego.val)`)
			if len(p.Effects()) != 0 {
				return nil
			}
			guarded = append(guarded, p)
			if _, isK := p.Vals[0].(TConst); isK {
				continue
			}
		}
		if out != nil && !sameTerm(eraseEpochs(out), eraseEpochs(p.Vals[0])) {
			return nil
		}
		out = p.Vals[0]
	}
	if out == nil {
		return nil
	}
	for _, p := range guarded {
		if sameTerm(eraseEpochs(out), eraseEpochs(p.Vals[0])) {
			continue // the decisions of this path do not change what is returned
		}
		// a constant in place of the expression: only 0 for len(X) on a path whose true decisions say X is empty (nil or length 0)
		ln, isLen := out.(TBuiltin)
		k, isK := constInt(p.Vals[0])
		if !isLen || ln.Name != "len" || len(ln.Args) != 1 || !isK || k != 0 {
			return nil
		}
		empty := false
		for _, cd := range p.Conds() {
			b, ok := cd.T.(TBin)
			if !ok || b.Op != token.EQL || !cd.Truth {
				continue
			}
			for _, pair := range [][2]Term{{b.X, b.Y}, {b.Y, b.X}} {
				if _, isNil := pair[1].(TNil); isNil && sameTerm(eraseEpochs(pair[0]), eraseEpochs(ln.Args[0])) {
					empty = true
				}
				if z, isZ := constInt(pair[1]); isZ && z == 0 {
					if l2, ok := pair[0].(TBuiltin); ok && l2.Name == "len" && len(l2.Args) == 1 && sameTerm(eraseEpochs(l2.Args[0]), eraseEpochs(ln.Args[0])) {
						empty = true
					}
				}
			}
		}
		if !empty {
			return nil
		}
	}
	accessorTerms[fd] = out
	guardedAccessor[fd] = len(guarded) > 0
	return out
}

var guardedAccessor = map[*ast.FuncDecl]bool{}

// isLenAccessor: method f's implementation returns len(recv.val).
func (c *Ctx) isLenAccessor(f *types.Func) bool {
	if f == nil {
		return false
	}
	found := false
	for _, ct := range c.Inv().Conts {
		fd := c.Decl("(*" + ct.Named.Obj().Name() + ")." + f.Name())
		if fd == nil {
			continue
		}
		if t, ok := c.accessorTerm(fd).(TBuiltin); ok && t.Name == "len" && len(t.Args) == 1 {
			if sp, ok := t.Args[0].(TSel); ok && sp.Field == ct.Spine {
				if tv, ok := sp.X.(TVar); ok && tv.Obj == c.recvObj(fd) {
					found = true
					continue
				}
			}
		}
		return false
	}
	return found
}

// returnsOf lists the return statements of a function body, not descending into function literals.
func returnsOf(body *ast.BlockStmt) []*ast.ReturnStmt {
	var out []*ast.ReturnStmt
	ast.Inspect(body, func(n ast.Node) bool {
		switch x := n.(type) {
		case *ast.FuncLit:
			return false
		case *ast.ReturnStmt:
			out = append(out, x)
		}
		return true
	})
	return out
}

// inspectNoLit walks n without descending into function literals.
func inspectNoLit(n ast.Node, f func(ast.Node) bool) {
	ast.Inspect(n, func(m ast.Node) bool {
		if _, ok := m.(*ast.FuncLit); ok && m != n {
			return false
		}
		return f(m)
	})
}

func exprStr(e ast.Expr) string { return types.ExprString(e) }

func shortType(t types.Type) string {
	s := types.TypeString(t, func(p *types.Package) string { return "" })
	return strings.TrimPrefix(s, ".")
}

// methodDecl returns the concrete implementation (*cont).name.
func (c *Ctx) methodDecl(ct *Cont, name string) *ast.FuncDecl {
	if fd := c.decls["(*"+ct.Named.Obj().Name()+")."+name]; fd != nil {
		return fd
	}
	// a method promoted from the embedded base struct (Init / Ego of `self[T]`): its declaration, on the generic origin
	if ct.Base != nil {
		if obj, _, _ := types.LookupFieldOrMethod(types.NewPointer(ct.Named), true, c.Types, name); obj != nil {
			if f, ok := obj.(*types.Func); ok {
				return c.DeclOf(f.Origin())
			}
		}
	}
	return nil
}

// ifaceMethods lists the explicit and embedded methods of a container interface, sorted.
func ifaceMethods(n *types.Named) []*types.Func {
	it := n.Underlying().(*types.Interface)
	var out []*types.Func
	for i := 0; i < it.NumMethods(); i++ {
		out = append(out, it.Method(i))
	}
	sort.Slice(out, func(i, j int) bool { return out[i].Name() < out[j].Name() })
	return out
}

func sortStrings(s []string) { sort.Strings(s) }

// isParamOf: v is a parameter (not the receiver, not a result) of fd.
func (c *Ctx) isParamOf(fd *ast.FuncDecl, v *types.Var) bool {
	if fd == nil || fd.Type.Params == nil {
		return false
	}
	for _, f := range fd.Type.Params.List {
		for _, nm := range f.Names {
			if c.Info.Defs[nm] == types.Object(v) {
				return true
			}
		}
	}
	return false
}

// closureOf: the function a callback argument denotes, with the environment its body runs in — a function literal (env as captured),
// or a pointer-receiver method of this package bound to a struct made on the path (`collector.push`): the method's declaration read as
// a literal, the receiver bound to that struct (whose fields are the pseudo-locals the caller reads afterwards). The third result is
// the bound receiver (nil for a literal).
func (c *Ctx) closureOf(t Term, env map[types.Object]Term) (*ast.FuncLit, map[types.Object]Term, Term) {
	if lit, ok := t.(TLit); ok {
		if fl, isFl := lit.Node.(*ast.FuncLit); isFl {
			return fl, env, nil
		}
		return nil, nil, nil
	}
	mv, ok := t.(TCall)
	if !ok || mv.Name != "methodvalue" || mv.Epoch != -1 || mv.Fun == nil || mv.Recv == nil {
		return nil, nil, nil
	}
	md := c.DeclOf(mv.Fun)
	if md == nil || md.Body == nil || md.Recv == nil || len(md.Recv.List) != 1 || len(md.Recv.List[0].Names) != 1 {
		return nil, nil, nil
	}
	if rt := c.typeOf(md.Recv.List[0].Type); rt != nil {
		_, isPtr := rt.(*types.Pointer)
		_, isMap := rt.Underlying().(*types.Map)
		if !isPtr && !isMap {
			return nil, nil, nil // a value receiver works on a copy: nothing it assigns reaches the caller (a map is a reference: its entries do)
		}
	}
	ne := copyEnv(env)
	if ne == nil {
		ne = map[types.Object]Term{}
	}
	ne[c.Info.Defs[md.Recv.List[0].Names[0]]] = mv.Recv
	return &ast.FuncLit{Type: md.Type, Body: md.Body}, ne, mv.Recv
}
