package main

// E5 — parser transition-table extraction: abstract interpretation of one iteration of the
// parser loop over a finite character-class alphabet. The model is re-extracted from the
// source on every run; it is never written by hand.

import (
	"fmt"
	"go/ast"
	"go/constant"
	"go/token"
	"go/types"

	"golang.org/x/tools/go/types/typeutil"
)

type Tri int

const (
	F Tri = iota
	T
	U
)

func (t Tri) String() string { return [...]string{"F", "T", "U"}[t] }
func triNot(a Tri) Tri {
	switch a {
	case T:
		return F
	case F:
		return T
	}
	return U
}
func triAnd(a, b Tri) Tri {
	if a == F || b == F {
		return F
	}
	if a == T && b == T {
		return T
	}
	return U
}
func triOr(a, b Tri) Tri { return triNot(triAnd(triNot(a), triNot(b))) }

// character classes
type Class struct {
	Name  string
	Runes []rune // exact members if small; nil = open class
	Space Tri
	Size  []int // possible encoded sizes
}

var classes = []Class{
	{"NL", []rune{'\n'}, T, []int{1}},
	{"WS", []rune{' ', '\t', '\r'}, T, []int{1}},
	{"QUOTE", []rune{'"'}, F, []int{1}},
	{"BSL", []rune{'\\'}, F, []int{1}},
	{"LBRACE", []rune{'{'}, F, []int{1}},
	{"RBRACE", []rune{'}'}, F, []int{1}},
	{"LBRACK", []rune{'['}, F, []int{1}},
	{"RBRACK", []rune{']'}, F, []int{1}},
	{"COMMA", []rune{','}, F, []int{1}},
	{"COLON", []rune{':'}, F, []int{1}},
	{"LIT", nil, F, []int{1}},             // digits letters + - . (open set, none of the specials)
	{"FFFD", []rune{0xFFFD}, F, []int{3}}, // a correctly encoded U+FFFD
	{"OTHER", nil, U, []int{1, 2, 3, 4}},
	// pseudo-classes: what DecodeRuneInString returns on ill-formed / empty input
	{"BADUTF8", []rune{0xFFFD}, F, []int{1}},
	{"EMPTY", []rune{0xFFFD}, F, []int{0}},
}

const nRealClasses = 13

func classByName(n string) *Class {
	for i := range classes {
		if classes[i].Name == n {
			return &classes[i]
		}
	}
	panic(n)
}

// abstract values bound to locals
type AVal struct {
	Kind string // NESTED_OBJ NESTED_LIST FIELD STR KEYSTR POS ERR NILERR
	Buf  string // which builder fed it
	Dec  string // decoder / parser callee
	Site token.Pos
}

type Action struct {
	Op   string // W RESET EVENT STATE INVAL NESTED IADD LINE CREATE
	Buf  string
	What string
	Val  *AVal
	Key  *AVal
	Pos  token.Pos
}

func (a Action) String() string {
	s := a.Op
	if a.Buf != "" {
		s += "(" + a.Buf + ")"
	}
	if a.What != "" {
		s += ":" + a.What
	}
	if a.Val != nil {
		s += fmt.Sprintf("[%s<-%s]", a.Val.Kind, a.Val.Buf)
	}
	return s
}

type Env struct {
	State   string
	InVal   Tri
	BufLen  map[string]Tri // builder name -> nonempty? (T = len>0, F = empty, U)
	Class   *Class
	Binds   map[types.Object]*AVal
	Acts    []Action
	ErrNil  map[types.Object]Tri // knowledge about err vars
	Created bool
}

func (e *Env) clone() *Env {
	n := *e
	n.BufLen = map[string]Tri{}
	for k, v := range e.BufLen {
		n.BufLen[k] = v
	}
	n.Binds = map[types.Object]*AVal{}
	for k, v := range e.Binds {
		n.Binds[k] = v
	}
	n.ErrNil = map[types.Object]Tri{}
	for k, v := range e.ErrNil {
		n.ErrNil[k] = v
	}
	n.Acts = append([]Action(nil), e.Acts...)
	return &n
}

type Exit struct {
	Kind string // CONTINUE FALL OK ERR BADRET
	Env  *Env
	Pos  token.Pos
	Note string
}

type Machine struct {
	c         *Ctx
	fn        *ast.FuncDecl
	name      string
	loop      *ast.ForStmt
	jsonV     types.Object
	lineV     types.Object
	charV     types.Object
	sizeV     types.Object
	idxV      types.Object
	stateV    types.Object
	inValV    types.Object
	contV     types.Object
	builders  map[types.Object]string // -> "val" / "key" by declared name
	states    []string
	undecided []string
	undecPos  token.Pos
	why       string
	lineArgOK map[token.Pos]bool // call sites of literal/string consumers that pass *line
}

func (m *Machine) undec(pos token.Pos, f string, a ...any) {
	m.undecided = append(m.undecided, fmt.Sprintf("%s: %s", m.c.Pos(pos), fmt.Sprintf(f, a...)))
	if !m.undecPos.IsValid() {
		m.undecPos = pos
	}
}

func (m *Machine) obj(e ast.Expr) types.Object {
	if id, ok := ast.Unparen(e).(*ast.Ident); ok {
		if o := m.c.Info.Uses[id]; o != nil {
			return o
		}
		return m.c.Info.Defs[id]
	}
	return nil
}

func newMachine(c *Ctx, name string) *Machine {
	m := &Machine{c: c, name: name, builders: map[types.Object]string{}, lineArgOK: map[token.Pos]bool{}}
	m.fn = c.Decl(name)
	if m.fn == nil {
		m.why = "function " + name + " not found"
		return m
	}
	info := c.Info
	if m.fn.Type.Params == nil || len(m.fn.Type.Params.List) != 2 || len(m.fn.Type.Params.List[0].Names) != 1 || len(m.fn.Type.Params.List[1].Names) != 1 {
		m.why = "unexpected parameter list"
		return m
	}
	m.jsonV = info.Defs[m.fn.Type.Params.List[0].Names[0]]
	m.lineV = info.Defs[m.fn.Type.Params.List[1].Names[0]]
	nLoops := 0
	for _, s := range m.fn.Body.List {
		if fs, ok := s.(*ast.ForStmt); ok {
			m.loop = fs
			nLoops++
		}
	}
	if m.loop == nil || nLoops != 1 {
		m.why = "expected exactly one top-level for loop"
		return m
	}
	if as, ok := m.loop.Init.(*ast.AssignStmt); ok && len(as.Lhs) == 1 {
		if id, ok := as.Lhs[0].(*ast.Ident); ok {
			m.idxV = info.Defs[id]
		}
	}
	if as, ok := m.loop.Post.(*ast.AssignStmt); ok && as.Tok == token.ADD_ASSIGN && len(as.Lhs) == 1 && m.obj(as.Lhs[0]) == m.idxV {
		m.sizeV = m.obj(as.Rhs[0])
	}
	ast.Inspect(m.fn.Body, func(n ast.Node) bool {
		id, ok := n.(*ast.Ident)
		if !ok {
			return true
		}
		o := info.Defs[id]
		v, ok := o.(*types.Var)
		if !ok {
			return true
		}
		ts := v.Type().String()
		switch {
		case isStateType(c, v.Type()):
			m.stateV = v
		case ts == "strings.Builder":
			m.builders[v] = v.Name()
		case ts == "bool" && m.inValV == nil && v.Pos() < m.loop.Pos():
			m.inValV = v
		case ts == "rune" || ts == "int32":
			if v.Pos() < m.loop.Pos() || m.charV == nil {
				m.charV = v
			}
		case c.Inv().ContByIface(v.Type()) != nil:
			if m.contV == nil && v.Pos() < m.loop.Pos() {
				m.contV = v
			}
		}
		return true
	})
	// builder roles: the builder whose String() is passed as the first argument of Set is the key buffer, the other the value buffer
	if len(m.builders) == 2 {
		var keyB types.Object
		ast.Inspect(m.fn.Body, func(n ast.Node) bool {
			call, ok := n.(*ast.CallExpr)
			if !ok || len(call.Args) != 2 {
				return true
			}
			if sel, ok := call.Fun.(*ast.SelectorExpr); ok && m.obj(sel.X) == m.contV && m.contV != nil {
				if bc, ok := ast.Unparen(call.Args[0]).(*ast.CallExpr); ok {
					if bs, ok := bc.Fun.(*ast.SelectorExpr); ok && bs.Sel.Name == "String" {
						if _, isB := m.builders[m.obj(bs.X)]; isB {
							keyB = m.obj(bs.X)
						}
					}
				}
			}
			return true
		})
		for b := range m.builders {
			if b == keyB {
				m.builders[b] = "key"
			} else {
				m.builders[b] = "val"
			}
		}
	} else if len(m.builders) == 1 {
		for b := range m.builders {
			m.builders[b] = "val"
		}
	}
	sc := c.Types.Scope()
	for _, n := range sc.Names() {
		if k, ok := sc.Lookup(n).(*types.Const); ok && isStateType(c, k.Type()) {
			m.states = append(m.states, n)
		}
	}
	switch {
	case m.idxV == nil || m.sizeV == nil:
		m.why = "loop is not `for i := …; …; i += size`"
	case m.stateV == nil || len(m.states) == 0:
		m.why = "no state variable of an enumerated state type"
	case m.charV == nil || m.contV == nil || m.inValV == nil:
		m.why = "rune / container / in-value variables not found"
	case len(m.builders) == 0:
		m.why = "no strings.Builder buffers"
	}
	// initial state: the constant the state variable is initialised with
	return m
}

// isStateType: a named unsigned-integer type of this package that has constants and is the tag type of a switch in the machines.
func isStateType(c *Ctx, t types.Type) bool {
	n, ok := t.(*types.Named)
	if !ok || n.Obj().Pkg() != c.Types || n.Obj().Exported() {
		return false
	}
	b, ok := n.Underlying().(*types.Basic)
	return ok && b.Info()&types.IsInteger != 0
}

// initialState returns the name of the constant the state variable is initialised with.
func (m *Machine) initialState() string {
	name := ""
	ast.Inspect(m.fn.Body, func(n ast.Node) bool {
		as, ok := n.(*ast.AssignStmt)
		if ok && as.Tok == token.DEFINE && len(as.Lhs) == 1 && len(as.Rhs) == 1 && m.obj(as.Lhs[0]) == m.stateV && name == "" {
			if o := m.obj(as.Rhs[0]); o != nil {
				name = o.Name()
			}
		}
		return true
	})
	return name
}

// ---- condition evaluation

func (m *Machine) runeConst(e ast.Expr) (rune, bool) {
	tv, ok := m.c.Info.Types[e]
	if !ok || tv.Value == nil || tv.Value.Kind() != constant.Int {
		return 0, false
	}
	v, _ := constant.Int64Val(tv.Value)
	return rune(v), true
}

func (m *Machine) eval(e ast.Expr, env *Env) Tri {
	e = ast.Unparen(e)
	switch x := e.(type) {
	case *ast.UnaryExpr:
		if x.Op == token.NOT {
			return triNot(m.eval(x.X, env))
		}
	case *ast.Ident:
		if o := m.obj(x); o == m.inValV {
			return env.InVal
		}
	case *ast.BinaryExpr:
		switch x.Op {
		case token.LAND:
			return triAnd(m.eval(x.X, env), m.eval(x.Y, env))
		case token.LOR:
			return triOr(m.eval(x.X, env), m.eval(x.Y, env))
		case token.EQL, token.NEQ:
			r := m.evalEq(x.X, x.Y, env)
			if x.Op == token.NEQ {
				return triNot(r)
			}
			return r
		case token.GTR:
			// builder.Len() > 0
			if c, ok := ast.Unparen(x.X).(*ast.CallExpr); ok {
				if sel, ok := c.Fun.(*ast.SelectorExpr); ok && sel.Sel.Name == "Len" {
					if b, ok := m.builders[m.obj(sel.X)]; ok {
						if v, ok := m.runeConst(x.Y); ok && v == 0 {
							return env.BufLen[b]
						}
					}
				}
			}
		}
	case *ast.CallExpr:
		if fn := typeutil.StaticCallee(m.c.Info, x); fn != nil && fn.FullName() == "unicode.IsSpace" && m.obj(x.Args[0]) == m.charV {
			return env.Class.Space
		}
	}
	m.undec(e.Pos(), "condition not understood: %s", types.ExprString(e))
	return U
}

func (m *Machine) evalEq(a, b ast.Expr, env *Env) Tri {
	oa := m.obj(a)
	if oa == m.charV {
		if r, ok := m.runeConst(b); ok {
			c := env.Class
			if c.Runes != nil {
				in := false
				for _, x := range c.Runes {
					if x == r {
						in = true
					}
				}
				if !in {
					return F
				}
				if len(c.Runes) == 1 {
					return T
				}
				return U
			}
			// open class: contains none of the special singletons
			for _, k := range classes {
				for _, x := range k.Runes {
					if x == r {
						return F
					}
				}
			}
			return U
		}
	}
	if oa == m.sizeV {
		if r, ok := m.runeConst(b); ok {
			in := false
			for _, s := range env.Class.Size {
				if s == int(r) {
					in = true
				}
			}
			if !in {
				return F
			}
			if len(env.Class.Size) == 1 {
				return T
			}
			return U
		}
	}
	// state == <state constant>
	if oa == m.stateV && oa != nil {
		if k, ok := m.obj(b).(*types.Const); ok && isStateType(m.c, k.Type()) {
			if k.Name() == env.State {
				return T
			}
			return F
		}
	}
	// err != nil
	if id, ok := ast.Unparen(b).(*ast.Ident); ok && id.Name == "nil" {
		if oa != nil {
			if t, ok := env.ErrNil[oa]; ok {
				return t // T means err == nil
			}
		}
	}
	m.undec(a.Pos(), "equality not understood: %s == %s", types.ExprString(a), types.ExprString(b))
	return U
}

// ---- statement execution (CPS over forks)

type cont func(env *Env) []Exit

func (m *Machine) execList(stmts []ast.Stmt, env *Env, k cont) []Exit {
	if len(stmts) == 0 {
		return k(env)
	}
	return m.exec(stmts[0], env, func(e *Env) []Exit { return m.execList(stmts[1:], e, k) })
}

func (m *Machine) exec(s ast.Stmt, env *Env, k cont) []Exit {
	info := m.c.Info
	switch x := s.(type) {
	case *ast.BlockStmt:
		return m.execList(x.List, env, k)
	case *ast.IfStmt:
		if x.Init != nil {
			return m.exec(x.Init, env, func(e *Env) []Exit {
				y := *x
				y.Init = nil
				return m.exec(&y, e, k)
			})
		}
		c := m.eval(x.Cond, env)
		var out []Exit
		if c != F {
			e := env
			if c == U {
				e = env.clone()
				m.refine(x.Cond, e, true)
			}
			out = append(out, m.exec(x.Body, e, k)...)
		}
		if c != T {
			e := env
			if c == U {
				e = env.clone()
				m.refine(x.Cond, e, false)
			}
			if x.Else != nil {
				out = append(out, m.exec(x.Else, e, k)...)
			} else {
				out = append(out, k(e)...)
			}
		}
		return out
	case *ast.SwitchStmt:
		if m.obj(x.Tag) == m.stateV {
			for _, cc := range x.Body.List {
				cl := cc.(*ast.CaseClause)
				for _, ce := range cl.List {
					if o := m.obj(ce); o != nil && o.Name() == env.State {
						return m.execList(cl.Body, env, k)
					}
				}
			}
			// no case: falls out of the switch
			return k(env)
		}
	case *ast.BranchStmt:
		if x.Tok == token.CONTINUE && x.Label == nil {
			return []Exit{{Kind: "CONTINUE", Env: env, Pos: x.Pos()}}
		}
	case *ast.ReturnStmt:
		return []Exit{m.classifyReturn(x, env)}
	case *ast.IncDecStmt:
		if st, ok := ast.Unparen(x.X).(*ast.StarExpr); ok && m.obj(st.X) == m.lineV && x.Tok == token.INC {
			env.Acts = append(env.Acts, Action{Op: "LINE", Pos: x.Pos()})
			return k(env)
		}
	case *ast.ExprStmt:
		if c, ok := x.X.(*ast.CallExpr); ok {
			if m.execCall(c, env) {
				return k(env)
			}
		}
	case *ast.AssignStmt:
		if m.execAssign(x, env) {
			return k(env)
		}
	}
	m.undec(s.Pos(), "statement not understood: %T", s)
	_ = info
	return k(env)
}

func (m *Machine) refine(cond ast.Expr, env *Env, truth bool) {
	// only err != nil / err == nil refinements matter
	if b, ok := ast.Unparen(cond).(*ast.BinaryExpr); ok && (b.Op == token.NEQ || b.Op == token.EQL) {
		if id, ok := ast.Unparen(b.Y).(*ast.Ident); ok && id.Name == "nil" {
			if o := m.obj(b.X); o != nil {
				isNil := truth == (b.Op == token.EQL)
				if isNil {
					env.ErrNil[o] = T
				} else {
					env.ErrNil[o] = F
				}
			}
		}
	}
}

func (m *Machine) classifyReturn(r *ast.ReturnStmt, env *Env) Exit {
	if len(r.Results) != 3 {
		return Exit{Kind: "BADRET", Env: env, Pos: r.Pos(), Note: "arity"}
	}
	isNil := func(e ast.Expr) bool {
		id, ok := ast.Unparen(e).(*ast.Ident)
		return ok && id.Name == "nil" && m.c.Info.Types[e].IsNil()
	}
	first, third := r.Results[0], r.Results[2]
	switch {
	case isNil(first) && !isNil(third):
		// third must be non-nil: Errorf call or err var known non-nil
		if c, ok := ast.Unparen(third).(*ast.CallExpr); ok {
			if fn := typeutil.StaticCallee(m.c.Info, c); fn != nil && (fn.FullName() == "fmt.Errorf" || fn.FullName() == "errors.New") {
				return Exit{Kind: "ERR", Env: env, Pos: r.Pos(), Note: m.errNote(c, env)}
			}
		}
		if o := m.obj(third); o != nil && env.ErrNil[o] == F {
			return Exit{Kind: "ERR", Env: env, Pos: r.Pos(), Note: "propagated"}
		}
		return Exit{Kind: "BADRET", Env: env, Pos: r.Pos(), Note: "error result not provably non-nil"}
	case !isNil(first) && isNil(third):
		if m.obj(first) == m.contV && m.obj(r.Results[1]) == m.idxV {
			if !env.Created {
				// container creation happened in an earlier iteration: checked by typestate rule
			}
			return Exit{Kind: "OK", Env: env, Pos: r.Pos()}
		}
		return Exit{Kind: "BADRET", Env: env, Pos: r.Pos(), Note: "success return is not (container, i, nil)"}
	}
	return Exit{Kind: "BADRET", Env: env, Pos: r.Pos(), Note: "mixed nil/non-nil pair"}
}

func (m *Machine) errNote(c *ast.CallExpr, env *Env) string {
	note := ""
	if tv := m.c.Info.Types[c.Args[0]]; tv.Value != nil {
		note = constant.StringVal(tv.Value)
	}
	return note
}

func (m *Machine) execCall(c *ast.CallExpr, env *Env) bool {
	sel, ok := c.Fun.(*ast.SelectorExpr)
	if !ok {
		return false
	}
	recv := m.obj(sel.X)
	if b, ok := m.builders[recv]; ok {
		switch sel.Sel.Name {
		case "Reset":
			env.Acts = append(env.Acts, Action{Op: "RESET", Buf: b, Pos: c.Pos()})
			env.BufLen[b] = F
			return true
		case "WriteRune":
			what := ""
			if m.obj(c.Args[0]) == m.charV {
				what = "char"
			} else if r, ok := m.runeConst(c.Args[0]); ok {
				what = string(r)
			} else {
				return false
			}
			env.Acts = append(env.Acts, Action{Op: "W", Buf: b, What: what, Pos: c.Pos()})
			env.BufLen[b] = T
			return true
		case "WriteString":
			if v := env.Binds[m.obj(c.Args[0])]; v != nil {
				env.Acts = append(env.Acts, Action{Op: "W", Buf: b, What: "val", Val: v, Pos: c.Pos()})
				env.BufLen[b] = U
				return true
			}
		}
		return false
	}
	if recv == m.contV {
		switch sel.Sel.Name {
		case "Add":
			if len(c.Args) == 1 && !c.Ellipsis.IsValid() {
				if v := env.Binds[m.obj(c.Args[0])]; v != nil {
					env.Acts = append(env.Acts, Action{Op: "EVENT", What: "Add", Val: v, Pos: c.Pos()})
					return true
				}
			}
		case "Set":
			if len(c.Args) == 2 {
				kb := m.builderString(c.Args[0])
				if v := env.Binds[m.obj(c.Args[1])]; v != nil && kb != "" {
					env.Acts = append(env.Acts, Action{Op: "EVENT", What: "Set", Buf: kb, Val: v, Pos: c.Pos()})
					return true
				}
			}
		}
	}
	return false
}

// builderString: e is `b.String()` for a known builder -> its role name
func (m *Machine) builderString(e ast.Expr) string {
	if c, ok := ast.Unparen(e).(*ast.CallExpr); ok {
		if sel, ok := c.Fun.(*ast.SelectorExpr); ok && sel.Sel.Name == "String" && len(c.Args) == 0 {
			return m.builders[m.obj(sel.X)]
		}
	}
	return ""
}

func (m *Machine) execAssign(a *ast.AssignStmt, env *Env) bool {
	info := m.c.Info
	// i += pos
	if a.Tok == token.ADD_ASSIGN && m.obj(a.Lhs[0]) == m.idxV {
		if v := env.Binds[m.obj(a.Rhs[0])]; v != nil && v.Kind == "POS" {
			env.Acts = append(env.Acts, Action{Op: "IADD", Val: v, Pos: a.Pos()})
			return true
		}
		return false
	}
	if len(a.Lhs) == 1 && len(a.Rhs) == 1 {
		lo := m.obj(a.Lhs[0])
		switch lo {
		case m.stateV:
			if o := m.obj(a.Rhs[0]); o != nil {
				if _, isC := o.(*types.Const); isC {
					env.State = o.Name()
					env.Acts = append(env.Acts, Action{Op: "STATE", What: o.Name(), Pos: a.Pos()})
					return true
				}
			}
			return false
		case m.inValV:
			if tv := info.Types[a.Rhs[0]]; tv.Value != nil {
				if constant.BoolVal(tv.Value) {
					env.InVal = T
				} else {
					env.InVal = F
				}
				return true
			}
			return false
		case m.contV:
			if c, ok := a.Rhs[0].(*ast.CallExpr); ok {
				if fn := typeutil.StaticCallee(info, c); fn != nil && (fn.Name() == "NewList" || fn.Name() == "NewObject") && len(c.Args) == 0 {
					env.Created = true
					env.Acts = append(env.Acts, Action{Op: "CREATE", What: fn.Name(), Pos: a.Pos()})
					return true
				}
			}
			return false
		}
	}
	// multi-value definitions from calls
	if len(a.Rhs) == 1 {
		if c, ok := a.Rhs[0].(*ast.CallExpr); ok {
			fn := typeutil.StaticCallee(info, c)
			if fn == nil {
				return false
			}
			switch fn.FullName() {
			case "unicode/utf8.DecodeRuneInString":
				return true // decode: class abstraction stands for the result
			}
			switch fn.Name() {
			case "parseObject", "parseList":
				if len(a.Lhs) != 3 || !m.isJSONSuffix(c.Args[0]) || m.obj(c.Args[1]) != m.lineV {
					return false
				}
				kind := "NESTED_OBJ"
				if fn.Name() == "parseList" {
					kind = "NESTED_LIST"
				}
				v := &AVal{Kind: kind, Site: c.Pos()}
				env.Binds[m.obj(a.Lhs[0])] = v
				env.Binds[m.obj(a.Lhs[1])] = &AVal{Kind: "POS", Site: c.Pos()}
				if eo := m.obj(a.Lhs[2]); eo != nil {
					env.ErrNil[eo] = U
				}
				env.Acts = append(env.Acts, Action{Op: "NESTED", What: fn.Name(), Val: v, Pos: c.Pos()})
				return true
			case "parseField":
				b := m.builderString(c.Args[0])
				if b == "" || len(a.Lhs) != 2 {
					return false
				}
				m.noteLineArg(c)
				env.Binds[m.obj(a.Lhs[0])] = &AVal{Kind: "FIELD", Buf: b, Dec: "parseField", Site: c.Pos()}
				if eo := m.obj(a.Lhs[1]); eo != nil {
					env.ErrNil[eo] = U
				}
				env.Acts = append(env.Acts, Action{Op: "USE", Buf: b, What: "parseField", Pos: c.Pos()})
				return true
			}
			// string decode through a repo-local helper: H(b.String(), ...) (string, error)
			if fn.Pkg() == m.c.Types && len(c.Args) >= 1 && len(a.Lhs) == 2 {
				if b := m.builderString(c.Args[0]); b != "" {
					m.noteLineArg(c)
					env.Binds[m.obj(a.Lhs[0])] = &AVal{Kind: "STR", Buf: b, Dec: fn.FullName(), Site: c.Pos()}
					if id, ok := a.Lhs[1].(*ast.Ident); ok && id.Name == "_" {
						env.Acts = append(env.Acts, Action{Op: "DROPERR", What: fn.FullName(), Pos: c.Pos()})
					}
					if eo := m.obj(a.Lhs[1]); eo != nil {
						env.ErrNil[eo] = U
					}
					env.Acts = append(env.Acts, Action{Op: "USE", Buf: b, What: fn.FullName(), Pos: c.Pos()})
					return true
				}
			}
			// string decode: DEC(fmt.Sprintf(`"%s"`, b.String()))
			if len(c.Args) == 1 {
				if inner, ok := c.Args[0].(*ast.CallExpr); ok {
					if f2 := typeutil.StaticCallee(info, inner); f2 != nil && f2.FullName() == "fmt.Sprintf" && len(inner.Args) == 2 {
						if tv := info.Types[inner.Args[0]]; tv.Value != nil && constant.StringVal(tv.Value) == `"%s"` {
							if b := m.builderString(inner.Args[1]); b != "" {
								env.Binds[m.obj(a.Lhs[0])] = &AVal{Kind: "STR", Buf: b, Dec: fn.FullName(), Site: c.Pos()}
								if len(a.Lhs) == 2 {
									if id, ok := a.Lhs[1].(*ast.Ident); ok && id.Name == "_" {
										env.Acts = append(env.Acts, Action{Op: "DROPERR", What: fn.FullName(), Pos: c.Pos()})
									} else if eo := m.obj(a.Lhs[1]); eo != nil {
										env.ErrNil[eo] = U
									}
								}
								env.Acts = append(env.Acts, Action{Op: "USE", Buf: b, What: fn.FullName(), Pos: c.Pos()})
								return true
							}
						}
					}
				}
			}
		}
	}
	return false
}

func (m *Machine) isJSONSuffix(e ast.Expr) bool {
	s, ok := ast.Unparen(e).(*ast.SliceExpr)
	return ok && m.obj(s.X) == m.jsonV && m.obj(s.Low) == m.idxV && s.High == nil
}

// Step runs one loop iteration abstractly.
func (m *Machine) Step(state string, inVal Tri, bufLen map[string]Tri, class *Class) []Exit {
	env := &Env{State: state, InVal: inVal, BufLen: map[string]Tri{}, Class: class, Binds: map[types.Object]*AVal{}, ErrNil: map[types.Object]Tri{}}
	for k, v := range bufLen {
		env.BufLen[k] = v
	}
	return m.execList(m.loop.Body.List, env, func(e *Env) []Exit {
		return []Exit{{Kind: "FALL", Env: e}}
	})
}

// noteLineArg records whether a consumer call that takes a line number receives `*line`.
func (m *Machine) noteLineArg(c *ast.CallExpr) {
	ok := true
	for _, a := range c.Args[1:] {
		if t := m.c.typeOf(a); t != nil && types.Identical(t, types.Typ[types.Int]) {
			st, isStar := ast.Unparen(a).(*ast.StarExpr)
			ok = isStar && m.obj(st.X) == m.lineV
		}
	}
	m.lineArgOK[c.Pos()] = ok
}
