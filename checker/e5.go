package main

// E5 — parser transition-table extraction: abstract interpretation of one iteration of the
// parser loop over a finite character-class alphabet. The model is re-extracted from the
// source on every run; it is never written by hand.

import (
	"fmt"
	"go/ast"
	"go/token"
	"go/types"
)

type Tri int

const (
	F Tri = iota
	T
	U
)

func (t Tri) String() string { return [...]string{"F", "T", "U"}[t] }
func triNot(a Tri) Tri {
	switch a {
	case T:
		return F
	case F:
		return T
	}
	return U
}
func triAnd(a, b Tri) Tri {
	if a == F || b == F {
		return F
	}
	if a == T && b == T {
		return T
	}
	return U
}
func triOr(a, b Tri) Tri { return triNot(triAnd(triNot(a), triNot(b))) }

// character classes
type Class struct {
	Name  string
	Runes []rune // exact members if small; nil = open class
	Space Tri
	Size  []int // possible encoded sizes
}

var classes = []Class{
	{"NL", []rune{'\n'}, T, []int{1}},
	{"WS", []rune{' ', '\t', '\r'}, T, []int{1}},
	{"QUOTE", []rune{'"'}, F, []int{1}},
	{"BSL", []rune{'\\'}, F, []int{1}},
	{"LBRACE", []rune{'{'}, F, []int{1}},
	{"RBRACE", []rune{'}'}, F, []int{1}},
	{"LBRACK", []rune{'['}, F, []int{1}},
	{"RBRACK", []rune{']'}, F, []int{1}},
	{"COMMA", []rune{','}, F, []int{1}},
	{"COLON", []rune{':'}, F, []int{1}},
	{"LIT", nil, F, []int{1}},             // digits letters + - . (open set, none of the specials)
	{"FFFD", []rune{0xFFFD}, F, []int{3}}, // a correctly encoded U+FFFD
	{"OTHER", nil, U, []int{1, 2, 3, 4}},
	// pseudo-classes: what DecodeRuneInString returns on ill-formed / empty input
	{"BADUTF8", []rune{0xFFFD}, F, []int{1}},
	{"EMPTY", []rune{0xFFFD}, F, []int{0}},
}

const nRealClasses = 13

func classByName(n string) *Class {
	for i := range classes {
		if classes[i].Name == n {
			return &classes[i]
		}
	}
	panic(n)
}

// abstract values bound to locals
type AVal struct {
	Kind string // NESTED_OBJ NESTED_LIST FIELD STR KEYSTR POS ERR NILERR
	Buf  string // which builder fed it
	Dec  string // decoder / parser callee
	Site token.Pos
}

type Action struct {
	Op   string // W RESET EVENT STATE INVAL NESTED IADD LINE CREATE
	Buf  string
	What string
	Val  *AVal
	Key  *AVal
	Pos  token.Pos
}

func (a Action) String() string {
	s := a.Op
	if a.Buf != "" {
		s += "(" + a.Buf + ")"
	}
	if a.What != "" {
		s += ":" + a.What
	}
	if a.Val != nil {
		s += fmt.Sprintf("[%s<-%s]", a.Val.Kind, a.Val.Buf)
	}
	return s
}

type Env struct {
	State   string
	InVal   Tri
	BufLen  map[string]Tri // builder name -> nonempty? (T = len>0, F = empty, U)
	Class   *Class
	Binds   map[types.Object]*AVal
	Acts    []Action
	ErrNil  map[types.Object]Tri // knowledge about err vars
	Created bool
}

type Exit struct {
	Kind string // CONTINUE FALL OK ERR BADRET
	Env  *Env
	Pos  token.Pos
	Note string
}

type Machine struct {
	c         *Ctx
	fn        *ast.FuncDecl
	name      string
	loop      *ast.ForStmt
	jsonV     types.Object
	lineV     types.Object
	charV     types.Object
	sizeV     types.Object
	idxV      types.Object
	stateV    types.Object
	inValV    types.Object
	contV     types.Object
	builders  map[types.Object]string // -> "val" / "key" by declared name
	byteBufs  map[types.Object]bool   // builders that are []byte locals (filled by append / utf8.AppendRune, read by string(b))
	keyRegs   map[types.Object]bool   // string locals declared before the loop: may hold the decoded key between its end and the Set
	states    []string
	undecided []string
	undecPos  token.Pos
	why       string
	lineArgOK map[token.Pos]bool // call sites of literal/string consumers that pass *line
	synthAdv  bool               // the advance was found in the rounds themselves (synthAdvance), not in a post statement
}

func (m *Machine) undec(pos token.Pos, f string, a ...any) {
	m.undecided = append(m.undecided, fmt.Sprintf("%s: %s", m.c.Pos(pos), fmt.Sprintf(f, a...)))
	if !m.undecPos.IsValid() {
		m.undecPos = pos
	}
}

func (m *Machine) obj(e ast.Expr) types.Object {
	if id, ok := ast.Unparen(e).(*ast.Ident); ok {
		if o := m.c.Info.Uses[id]; o != nil {
			return o
		}
		return m.c.Info.Defs[id]
	}
	return nil
}

// hoistAdvance: `for i < len(json) { …; i += size }` — the advance written as the last statement of a body that never says
// `continue` for this loop — is `for ; i < len(json); i += size { … }`: every round that does not leave the loop runs to the end of the
// body. The machine is read on that form (a copy of the declaration; the expressions are the very nodes of the original).
func (m *Machine) hoistAdvance() {
	loop := m.loop
	if loop.Post != nil || loop.Body == nil || len(loop.Body.List) == 0 {
		return
	}
	last, ok := loop.Body.List[len(loop.Body.List)-1].(*ast.AssignStmt)
	if !ok || last.Tok != token.ADD_ASSIGN || len(last.Lhs) != 1 || len(last.Rhs) != 1 || m.obj(last.Lhs[0]) == nil || m.obj(last.Rhs[0]) == nil {
		return
	}
	label := ""
	for _, s := range m.fn.Body.List {
		if ls, ok := s.(*ast.LabeledStmt); ok && ls.Stmt == ast.Stmt(loop) {
			label = ls.Label.Name
		}
	}
	continues := false
	var walk func(n ast.Node, inner int)
	walk = func(n ast.Node, inner int) {
		ast.Inspect(n, func(k ast.Node) bool {
			switch x := k.(type) {
			case *ast.FuncLit:
				return false
			case *ast.ForStmt:
				if k != n {
					walk(x.Body, inner+1)
					return false
				}
			case *ast.RangeStmt:
				if k != n {
					walk(x.Body, inner+1)
					return false
				}
			case *ast.BranchStmt:
				if x.Tok == token.CONTINUE && ((x.Label == nil && inner == 0) || (x.Label != nil && x.Label.Name == label)) {
					continues = true
				}
				if x.Tok == token.GOTO {
					continues = true
				}
			}
			return true
		})
	}
	walk(loop.Body, 0)
	if continues {
		return
	}
	body := *loop.Body
	body.List = append([]ast.Stmt(nil), loop.Body.List[:len(loop.Body.List)-1]...)
	nl := *loop
	nl.Body, nl.Post = &body, last
	fn := *m.fn
	fb := *m.fn.Body
	fb.List = append([]ast.Stmt(nil), m.fn.Body.List...)
	for i, s := range fb.List {
		if s == ast.Stmt(loop) {
			fb.List[i] = &nl
		} else if ls, ok := s.(*ast.LabeledStmt); ok && ls.Stmt == ast.Stmt(loop) {
			l2 := *ls
			l2.Stmt = &nl
			fb.List[i] = &l2
		}
	}
	fn.Body = &fb
	m.fn, m.loop = &fn, &nl
}

// synthAdvance: the position kept in a cursor object (`cursor.read()` returns the rune at `next` and moves `next` behind it). On the
// executor's paths the cursor's fields are locals and its methods are inlined, so the loop reads `for next < len(json) { …; next =
// next + size [+ pos] }` with size the decoded width of the rune at json[next:] — the advance is part of every continuing round
// instead of a post statement. The rounds are presented as the machine reads them: the position variable left alone (but for a nested
// offset), the width in a size variable, the advance as the (synthesised) post step. Nothing is assumed: a round whose new position is
// not `position + width of the rune at the position (+ further terms)` leaves the machine unrecognised.
func (m *Machine) synthAdvance() {
	sm := m.sx()
	if sm.why != "" || sm.loop == nil || sm.loop.CondT == nil {
		return
	}
	b, ok := simplify(sm.loop.CondT).(TBin)
	if !ok {
		return
	}
	var pos TLoop
	var bound Term
	switch b.Op {
	case token.LSS:
		pos, ok = b.X.(TLoop)
		bound = b.Y
	case token.GTR:
		pos, ok = b.Y.(TLoop)
		bound = b.X
	default:
		ok = false
	}
	if !ok || pos.ID != sm.loop.ID || !isIntType(pos.Obj.Type()) {
		return
	}
	if ln, isLen := bound.(TBuiltin); !isLen || ln.Name != "len" || len(ln.Args) != 1 || !isParamTerm(ln.Args[0], m.jsonV) {
		return
	}
	var flat func(t Term, out *[]Term)
	flat = func(t Term, out *[]Term) {
		if s, isSum := t.(TBin); isSum && s.Op == token.ADD {
			flat(s.X, out)
			flat(s.Y, out)
			return
		}
		*out = append(*out, t)
	}
	size := types.NewVar(m.loop.Pos(), m.c.Types, "size·"+pos.Obj.Name(), types.Typ[types.Int])
	type upd struct {
		p        *Path
		pos, siz Term
	}
	var upds []upd
	for _, ip := range sm.iter {
		goesOn := ip.End == "fall" || ip.End == "continue"
		t, has := ip.Env[pos.Obj]
		if !has || sameTerm(t, pos) {
			if goesOn {
				return
			}
			continue // a round that leaves the function before the cursor moved
		}
		var parts []Term
		flat(t, &parts)
		var width Term
		var others []Term
		nPos := 0
		for _, q := range parts {
			switch {
			case sameTerm(q, pos):
				nPos++
			case m.isSize(q) && width == nil:
				// the width of the rune at the position, nothing else
				d := q.(TProj).X.(TCall)
				sl, isS := (TSlice{}), false
				if len(d.Args) == 1 {
					sl, isS = d.Args[0].(TSlice)
				}
				if !isS || !isParamTerm(sl.X, m.jsonV) || !sameTerm(sl.Lo, pos) || sl.Hi != nil {
					if goesOn {
						return
					}
					others = append(others, q)
					continue
				}
				width = q
			default:
				others = append(others, q)
			}
		}
		if nPos != 1 || width == nil {
			if goesOn {
				return
			}
			continue // leaves the function: where it left the cursor does not matter
		}
		var np Term = pos
		for _, o := range others {
			np = TBin{Op: token.ADD, X: np, Y: o}
		}
		upds = append(upds, upd{ip, np, width})
	}
	if len(upds) == 0 {
		return
	}
	for _, u := range upds {
		u.p.Env = copyEnv(u.p.Env)
		u.p.Env[pos.Obj] = u.pos
		u.p.Env[size] = u.siz
	}
	m.idxV, m.sizeV, m.synthAdv = pos.Obj, size, true
}

func newMachine(c *Ctx, name string) *Machine {
	m := &Machine{c: c, name: name, builders: map[types.Object]string{}, lineArgOK: map[token.Pos]bool{}}
	m.fn = c.Decl(name)
	if m.fn == nil {
		m.why = "function " + name + " not found"
		return m
	}
	info := c.Info
	if m.fn.Type.Params == nil || len(m.fn.Type.Params.List) != 2 || len(m.fn.Type.Params.List[0].Names) != 1 || len(m.fn.Type.Params.List[1].Names) != 1 {
		m.why = "unexpected parameter list"
		return m
	}
	m.jsonV = info.Defs[m.fn.Type.Params.List[0].Names[0]]
	m.lineV = info.Defs[m.fn.Type.Params.List[1].Names[0]]
	nLoops := 0
	for _, s := range m.fn.Body.List {
		if ls, ok := s.(*ast.LabeledStmt); ok {
			s = ls.Stmt // scan: for … { … break scan … }
		}
		if fs, ok := s.(*ast.ForStmt); ok {
			m.loop = fs
			nLoops++
		}
	}
	if m.loop == nil || nLoops != 1 {
		m.why = "expected exactly one top-level for loop"
		return m
	}
	m.hoistAdvance()
	// the position variable and the decoded size: the post statement is `i += size`
	if as, ok := m.loop.Post.(*ast.AssignStmt); ok && as.Tok == token.ADD_ASSIGN && len(as.Lhs) == 1 && len(as.Rhs) == 1 {
		m.idxV = m.obj(as.Lhs[0])
		m.sizeV = m.obj(as.Rhs[0])
	}
	ast.Inspect(m.fn.Body, func(n ast.Node) bool {
		id, ok := n.(*ast.Ident)
		if !ok {
			return true
		}
		o := info.Defs[id]
		v, ok := o.(*types.Var)
		if !ok {
			return true
		}
		ts := v.Type().String()
		switch {
		case isStateType(c, v.Type()):
			// the state variable lives across the rounds: the one declared before the loop (a `next` inside a round is a temporary)
			if m.stateV == nil || (v.Pos() < m.loop.Pos() && m.stateV.Pos() >= m.loop.Pos()) {
				m.stateV = v
			}
		case ts == "strings.Builder":
			m.builders[v] = v.Name()
		case isByteSlice(v.Type()) && v.Pos() < m.loop.Pos() && v.Pos() >= m.fn.Body.Pos():
			m.builders[v] = v.Name()
			if m.byteBufs == nil {
				m.byteBufs = map[types.Object]bool{}
			}
			m.byteBufs[v] = true
		case ts == "string" && v.Pos() < m.loop.Pos() && v.Pos() >= m.fn.Body.Pos():
			if m.keyRegs == nil {
				m.keyRegs = map[types.Object]bool{}
			}
			m.keyRegs[v] = true
		case ts == "bool" && m.inValV == nil && v.Pos() < m.loop.Pos():
			m.inValV = v
		case ts == "rune" || ts == "int32":
			if v.Pos() < m.loop.Pos() || m.charV == nil {
				m.charV = v
			}
		case c.Inv().ContByIface(v.Type()) != nil:
			if m.contV == nil && v.Pos() < m.loop.Pos() {
				m.contV = v
			}
		}
		return true
	})
	// builder roles: the builder whose String() is passed as the first argument of Set is the key buffer, the other the value buffer
	if len(m.builders) == 2 {
		var keyB types.Object
		ast.Inspect(m.fn.Body, func(n ast.Node) bool {
			call, ok := n.(*ast.CallExpr)
			if !ok || len(call.Args) != 2 {
				return true
			}
			if sel, ok := call.Fun.(*ast.SelectorExpr); ok && m.obj(sel.X) == m.contV && m.contV != nil {
				if bc, ok := ast.Unparen(call.Args[0]).(*ast.CallExpr); ok {
					if bs, ok := bc.Fun.(*ast.SelectorExpr); ok && bs.Sel.Name == "String" {
						if _, isB := m.builders[m.obj(bs.X)]; isB {
							keyB = m.obj(bs.X)
						}
					}
					if len(bc.Args) == 1 { // string(key)
						if tv, isConv := info.Types[bc.Fun]; isConv && tv.IsType() {
							if _, isB := m.builders[m.obj(bc.Args[0])]; isB {
								keyB = m.obj(bc.Args[0])
							}
						}
					}
				}
			}
			return true
		})
		if keyB == nil {
			// the key is kept in a separate register: the value buffer is the one handed to the literal consumer ((string, …) (any, error))
			var valB types.Object
			ast.Inspect(m.fn.Body, func(n ast.Node) bool {
				call, ok := n.(*ast.CallExpr)
				if !ok || len(call.Args) == 0 {
					return true
				}
				f := c.callee(call)
				if f == nil || f.Pkg() != c.Types {
					return true
				}
				sig, _ := f.Type().(*types.Signature)
				if sig == nil || sig.Results().Len() < 2 || !isEmptyIface(sig.Results().At(0).Type()) {
					return true
				}
				ast.Inspect(call.Args[0], func(k ast.Node) bool {
					if id, ok := k.(*ast.Ident); ok {
						if _, isB := m.builders[m.obj(id)]; isB {
							valB = m.obj(id)
						}
					}
					return true
				})
				return true
			})
			if valB != nil {
				for b := range m.builders {
					if b != valB {
						keyB = b
					}
				}
			} else {
				// … or the key buffer is the one whose content is assigned to the key register (name, err = decode(key.String()))
				ast.Inspect(m.fn.Body, func(n ast.Node) bool {
					as, ok := n.(*ast.AssignStmt)
					if !ok || len(as.Lhs) == 0 || len(as.Rhs) != 1 {
						return true
					}
					if !m.keyRegs[m.obj(as.Lhs[0])] || m.obj(as.Lhs[0]) == nil {
						return true
					}
					ast.Inspect(as.Rhs[0], func(k ast.Node) bool {
						if id, ok := k.(*ast.Ident); ok {
							if _, isB := m.builders[m.obj(id)]; isB {
								keyB = m.obj(id)
							}
						}
						return true
					})
					return true
				})
			}
		}
		for b := range m.builders {
			if b == keyB {
				m.builders[b] = "key"
			} else {
				m.builders[b] = "val"
			}
		}
	} else if len(m.builders) == 1 {
		for b := range m.builders {
			m.builders[b] = "val"
		}
	}
	sc := c.Types.Scope()
	for _, n := range sc.Names() {
		// the states: the constants of the state variable's own type (other small enumerations of the package are none of the machine's business)
		if k, ok := sc.Lookup(n).(*types.Const); ok && isStateType(c, k.Type()) && (m.stateV == nil || types.Identical(k.Type(), m.stateV.Type())) {
			m.states = append(m.states, n)
		}
	}
	if m.idxV == nil || m.sizeV == nil {
		m.synthAdvance() // no `i += size` post statement: the advance is looked for in the rounds themselves
	}
	switch {
	case m.idxV == nil || m.sizeV == nil:
		m.why = "loop is not `for i := …; …; i += size`"
	case m.stateV == nil || len(m.states) == 0:
		m.why = "no state variable of an enumerated state type"
	case m.charV == nil || m.contV == nil || m.inValV == nil:
		m.why = "rune / container / in-value variables not found"
	case len(m.builders) == 0:
		m.why = "no strings.Builder buffers"
	}
	if m.why == "" {
		m.asciiNorm()
	}
	// initial state: the constant the state variable is initialised with
	return m
}

// asciiNorm: `if c := json[i]; c < utf8.RuneSelf { char, size = rune(c), 1 } else { char, size = utf8.DecodeRuneInString(json[i:]) … }`
// — a byte below 0x80 is its own rune, one byte wide, which is exactly what DecodeRuneInString returns for it. On the rounds that
// decided `json[i] < 0x80` the in-place decoding is presented in the decoder's terms (rune(json[i]) = decoded rune, a size of 1 =
// decoded width); the decision itself stays and is evaluated per character class (ASCII classes: true; U+FFFD, ill-formed: false).
// A `rune(json[i])` on a round that has not made that decision is left as it is and is not the current character.
func (m *Machine) asciiNorm() {
	sm := m.sx()
	if sm.why != "" || m.idxV == nil {
		return
	}
	isASCIITest := func(cd Cond) bool {
		b, ok := simplify(cd.T).(TBin)
		if !ok {
			return false
		}
		l, r, op := b.X, b.Y, b.Op
		if _, lc := constInt(l); lc {
			l, r = r, l
			op = map[token.Token]token.Token{token.LSS: token.GTR, token.GTR: token.LSS, token.LEQ: token.GEQ, token.GEQ: token.LEQ}[op]
		}
		k, isK := constInt(r)
		if !isK || !m.isCurByte(l) {
			return false
		}
		switch {
		case op == token.LSS && k == 0x80, op == token.LEQ && k == 0x7f:
			return cd.Truth
		case op == token.GEQ && k == 0x80, op == token.GTR && k == 0x7f:
			return !cd.Truth
		}
		return false
	}
	var decode Term
	for i, ip := range sm.iter {
		ascii := false
		var cur Term
		for _, st := range ip.Steps {
			if st.Kind == "cond" && isASCIITest(st.Cond) {
				ascii = true
				b := simplify(st.Cond.T).(TBin)
				cur = b.X
				if _, lc := constInt(b.X); lc {
					cur = b.Y
				}
			}
		}
		if !ascii {
			continue
		}
		ix := cur.(TIndex)
		if decode == nil {
			var fn *types.Func
			for _, imp := range m.c.Types.Imports() {
				if imp.Path() == "unicode/utf8" {
					fn, _ = imp.Scope().Lookup("DecodeRuneInString").(*types.Func)
				}
			}
			if fn == nil {
				return
			}
			decode = TCall{Fun: fn, Name: fn.Name(), Args: []Term{TSlice{X: TVar{m.jsonV}, Lo: TLoop{m.idxV, sm.loop.ID}}}}
		}
		_ = ix
		f := func(t Term) (Term, bool) {
			if cv, ok := t.(TConv); ok {
				if bt, isB := cv.To.Underlying().(*types.Basic); isB && (bt.Kind() == types.Int32 || bt.Kind() == types.Int) && m.isCurByte(cv.X) {
					return TProj{decode, 0}, true
				}
			}
			// json[i:i+1] on a round that decided the byte is ASCII: the bytes of the current character
			if sl, ok := t.(TSlice); ok && sl.Max == nil && sl.Hi != nil && isParamTerm(sl.X, m.jsonV) && m.loopVar(sl.Lo, m.idxV) {
				if b, ok := sl.Hi.(TBin); ok && b.Op == token.ADD {
					one := func(x Term) bool { k, ok := constInt(x); return ok && k == 1 }
					if (m.loopVar(b.X, m.idxV) && one(b.Y)) || (m.loopVar(b.Y, m.idxV) && one(b.X)) {
						return TSlice{X: sl.X, Lo: sl.Lo, Hi: TBin{Op: token.ADD, X: TLoop{m.idxV, sm.loop.ID}, Y: TProj{decode, 1}}}, true
					}
				}
			}
			return nil, false
		}
		q := mapPath(ip, f)
		if m.sizeV != nil {
			if k, ok := constInt(q.Env[m.sizeV]); ok && k == 1 {
				q.Env[m.sizeV] = TProj{decode, 1}
			}
		}
		sm.iter[i] = q
	}
	sm.loop.Iter = sm.iter
}

// isStateType: a named unsigned-integer type of this package that has constants and is the tag type of a switch in the machines.
func isStateType(c *Ctx, t types.Type) bool {
	n, ok := t.(*types.Named)
	if !ok || n.Obj().Pkg() != c.Types || n.Obj().Exported() {
		return false
	}
	b, ok := n.Underlying().(*types.Basic)
	return ok && b.Info()&types.IsInteger != 0
}

// initialState returns the name of the constant the state variable is initialised with.
func (m *Machine) initialState() string {
	name := ""
	ast.Inspect(m.fn.Body, func(n ast.Node) bool {
		if name != "" {
			return false
		}
		switch x := n.(type) {
		case *ast.AssignStmt:
			if x.Tok == token.DEFINE && len(x.Lhs) == len(x.Rhs) {
				for i := range x.Lhs {
					if m.obj(x.Lhs[i]) == m.stateV {
						if o := m.obj(x.Rhs[i]); o != nil {
							name = o.Name()
						}
					}
				}
			}
		case *ast.ValueSpec:
			if len(x.Names) == len(x.Values) {
				for i := range x.Names {
					if m.c.Info.Defs[x.Names[i]] == m.stateV {
						if o := m.obj(x.Values[i]); o != nil {
							name = o.Name()
						}
					}
				}
			}
		}
		return true
	})
	return name
}
