package main

// E5 — parser transition-table extraction: abstract interpretation of one iteration of the
// parser loop over a finite character-class alphabet. The model is re-extracted from the
// source on every run; it is never written by hand.

import (
	"fmt"
	"go/ast"
	"go/token"
	"go/types"
)

type Tri int

const (
	F Tri = iota
	T
	U
)

func (t Tri) String() string { return [...]string{"F", "T", "U"}[t] }
func triNot(a Tri) Tri {
	switch a {
	case T:
		return F
	case F:
		return T
	}
	return U
}
func triAnd(a, b Tri) Tri {
	if a == F || b == F {
		return F
	}
	if a == T && b == T {
		return T
	}
	return U
}
func triOr(a, b Tri) Tri { return triNot(triAnd(triNot(a), triNot(b))) }

// character classes
type Class struct {
	Name  string
	Runes []rune // exact members if small; nil = open class
	Space Tri
	Size  []int // possible encoded sizes
}

var classes = []Class{
	{"NL", []rune{'\n'}, T, []int{1}},
	{"WS", []rune{' ', '\t', '\r'}, T, []int{1}},
	{"QUOTE", []rune{'"'}, F, []int{1}},
	{"BSL", []rune{'\\'}, F, []int{1}},
	{"LBRACE", []rune{'{'}, F, []int{1}},
	{"RBRACE", []rune{'}'}, F, []int{1}},
	{"LBRACK", []rune{'['}, F, []int{1}},
	{"RBRACK", []rune{']'}, F, []int{1}},
	{"COMMA", []rune{','}, F, []int{1}},
	{"COLON", []rune{':'}, F, []int{1}},
	{"LIT", nil, F, []int{1}},             // digits letters + - . (open set, none of the specials)
	{"FFFD", []rune{0xFFFD}, F, []int{3}}, // a correctly encoded U+FFFD
	{"OTHER", nil, U, []int{1, 2, 3, 4}},
	// pseudo-classes: what DecodeRuneInString returns on ill-formed / empty input
	{"BADUTF8", []rune{0xFFFD}, F, []int{1}},
	{"EMPTY", []rune{0xFFFD}, F, []int{0}},
}

const nRealClasses = 13

func classByName(n string) *Class {
	for i := range classes {
		if classes[i].Name == n {
			return &classes[i]
		}
	}
	panic(n)
}

// abstract values bound to locals
type AVal struct {
	Kind string // NESTED_OBJ NESTED_LIST FIELD STR KEYSTR POS ERR NILERR
	Buf  string // which builder fed it
	Dec  string // decoder / parser callee
	Site token.Pos
}

type Action struct {
	Op   string // W RESET EVENT STATE INVAL NESTED IADD LINE CREATE
	Buf  string
	What string
	Val  *AVal
	Key  *AVal
	Pos  token.Pos
}

func (a Action) String() string {
	s := a.Op
	if a.Buf != "" {
		s += "(" + a.Buf + ")"
	}
	if a.What != "" {
		s += ":" + a.What
	}
	if a.Val != nil {
		s += fmt.Sprintf("[%s<-%s]", a.Val.Kind, a.Val.Buf)
	}
	return s
}

type Env struct {
	State   string
	InVal   Tri
	BufLen  map[string]Tri // builder name -> nonempty? (T = len>0, F = empty, U)
	Class   *Class
	Binds   map[types.Object]*AVal
	Acts    []Action
	ErrNil  map[types.Object]Tri // knowledge about err vars
	Created bool
}

type Exit struct {
	Kind string // CONTINUE FALL OK ERR BADRET
	Env  *Env
	Pos  token.Pos
	Note string
}

type Machine struct {
	c         *Ctx
	fn        *ast.FuncDecl
	name      string
	loop      *ast.ForStmt
	jsonV     types.Object
	lineV     types.Object
	charV     types.Object
	sizeV     types.Object
	idxV      types.Object
	stateV    types.Object
	inValV    types.Object
	contV     types.Object
	builders  map[types.Object]string // -> "val" / "key" by declared name
	byteBufs  map[types.Object]bool   // builders that are []byte locals (filled by append / utf8.AppendRune, read by string(b))
	keyRegs   map[types.Object]bool   // string locals declared before the loop: may hold the decoded key between its end and the Set
	states    []string
	undecided []string
	undecPos  token.Pos
	why       string
	lineArgOK map[token.Pos]bool // call sites of literal/string consumers that pass *line
}

func (m *Machine) undec(pos token.Pos, f string, a ...any) {
	m.undecided = append(m.undecided, fmt.Sprintf("%s: %s", m.c.Pos(pos), fmt.Sprintf(f, a...)))
	if !m.undecPos.IsValid() {
		m.undecPos = pos
	}
}

func (m *Machine) obj(e ast.Expr) types.Object {
	if id, ok := ast.Unparen(e).(*ast.Ident); ok {
		if o := m.c.Info.Uses[id]; o != nil {
			return o
		}
		return m.c.Info.Defs[id]
	}
	return nil
}

func newMachine(c *Ctx, name string) *Machine {
	m := &Machine{c: c, name: name, builders: map[types.Object]string{}, lineArgOK: map[token.Pos]bool{}}
	m.fn = c.Decl(name)
	if m.fn == nil {
		m.why = "function " + name + " not found"
		return m
	}
	info := c.Info
	if m.fn.Type.Params == nil || len(m.fn.Type.Params.List) != 2 || len(m.fn.Type.Params.List[0].Names) != 1 || len(m.fn.Type.Params.List[1].Names) != 1 {
		m.why = "unexpected parameter list"
		return m
	}
	m.jsonV = info.Defs[m.fn.Type.Params.List[0].Names[0]]
	m.lineV = info.Defs[m.fn.Type.Params.List[1].Names[0]]
	nLoops := 0
	for _, s := range m.fn.Body.List {
		if ls, ok := s.(*ast.LabeledStmt); ok {
			s = ls.Stmt // scan: for … { … break scan … }
		}
		if fs, ok := s.(*ast.ForStmt); ok {
			m.loop = fs
			nLoops++
		}
	}
	if m.loop == nil || nLoops != 1 {
		m.why = "expected exactly one top-level for loop"
		return m
	}
	// the position variable and the decoded size: the post statement is `i += size`
	if as, ok := m.loop.Post.(*ast.AssignStmt); ok && as.Tok == token.ADD_ASSIGN && len(as.Lhs) == 1 && len(as.Rhs) == 1 {
		m.idxV = m.obj(as.Lhs[0])
		m.sizeV = m.obj(as.Rhs[0])
	}
	ast.Inspect(m.fn.Body, func(n ast.Node) bool {
		id, ok := n.(*ast.Ident)
		if !ok {
			return true
		}
		o := info.Defs[id]
		v, ok := o.(*types.Var)
		if !ok {
			return true
		}
		ts := v.Type().String()
		switch {
		case isStateType(c, v.Type()):
			m.stateV = v
		case ts == "strings.Builder":
			m.builders[v] = v.Name()
		case isByteSlice(v.Type()) && v.Pos() < m.loop.Pos() && v.Pos() >= m.fn.Body.Pos():
			m.builders[v] = v.Name()
			if m.byteBufs == nil {
				m.byteBufs = map[types.Object]bool{}
			}
			m.byteBufs[v] = true
		case ts == "string" && v.Pos() < m.loop.Pos() && v.Pos() >= m.fn.Body.Pos():
			if m.keyRegs == nil {
				m.keyRegs = map[types.Object]bool{}
			}
			m.keyRegs[v] = true
		case ts == "bool" && m.inValV == nil && v.Pos() < m.loop.Pos():
			m.inValV = v
		case ts == "rune" || ts == "int32":
			if v.Pos() < m.loop.Pos() || m.charV == nil {
				m.charV = v
			}
		case c.Inv().ContByIface(v.Type()) != nil:
			if m.contV == nil && v.Pos() < m.loop.Pos() {
				m.contV = v
			}
		}
		return true
	})
	// builder roles: the builder whose String() is passed as the first argument of Set is the key buffer, the other the value buffer
	if len(m.builders) == 2 {
		var keyB types.Object
		ast.Inspect(m.fn.Body, func(n ast.Node) bool {
			call, ok := n.(*ast.CallExpr)
			if !ok || len(call.Args) != 2 {
				return true
			}
			if sel, ok := call.Fun.(*ast.SelectorExpr); ok && m.obj(sel.X) == m.contV && m.contV != nil {
				if bc, ok := ast.Unparen(call.Args[0]).(*ast.CallExpr); ok {
					if bs, ok := bc.Fun.(*ast.SelectorExpr); ok && bs.Sel.Name == "String" {
						if _, isB := m.builders[m.obj(bs.X)]; isB {
							keyB = m.obj(bs.X)
						}
					}
					if len(bc.Args) == 1 { // string(key)
						if tv, isConv := info.Types[bc.Fun]; isConv && tv.IsType() {
							if _, isB := m.builders[m.obj(bc.Args[0])]; isB {
								keyB = m.obj(bc.Args[0])
							}
						}
					}
				}
			}
			return true
		})
		if keyB == nil {
			// the key is kept in a separate register: the value buffer is the one handed to the literal consumer ((string, …) (any, error))
			var valB types.Object
			ast.Inspect(m.fn.Body, func(n ast.Node) bool {
				call, ok := n.(*ast.CallExpr)
				if !ok || len(call.Args) == 0 {
					return true
				}
				f := c.callee(call)
				if f == nil || f.Pkg() != c.Types {
					return true
				}
				sig, _ := f.Type().(*types.Signature)
				if sig == nil || sig.Results().Len() != 2 || !isEmptyIface(sig.Results().At(0).Type()) {
					return true
				}
				ast.Inspect(call.Args[0], func(k ast.Node) bool {
					if id, ok := k.(*ast.Ident); ok {
						if _, isB := m.builders[m.obj(id)]; isB {
							valB = m.obj(id)
						}
					}
					return true
				})
				return true
			})
			if valB != nil {
				for b := range m.builders {
					if b != valB {
						keyB = b
					}
				}
			}
		}
		for b := range m.builders {
			if b == keyB {
				m.builders[b] = "key"
			} else {
				m.builders[b] = "val"
			}
		}
	} else if len(m.builders) == 1 {
		for b := range m.builders {
			m.builders[b] = "val"
		}
	}
	sc := c.Types.Scope()
	for _, n := range sc.Names() {
		// the states: the constants of the state variable's own type (other small enumerations of the package are none of the machine's business)
		if k, ok := sc.Lookup(n).(*types.Const); ok && isStateType(c, k.Type()) && (m.stateV == nil || types.Identical(k.Type(), m.stateV.Type())) {
			m.states = append(m.states, n)
		}
	}
	switch {
	case m.idxV == nil || m.sizeV == nil:
		m.why = "loop is not `for i := …; …; i += size`"
	case m.stateV == nil || len(m.states) == 0:
		m.why = "no state variable of an enumerated state type"
	case m.charV == nil || m.contV == nil || m.inValV == nil:
		m.why = "rune / container / in-value variables not found"
	case len(m.builders) == 0:
		m.why = "no strings.Builder buffers"
	}
	// initial state: the constant the state variable is initialised with
	return m
}

// isStateType: a named unsigned-integer type of this package that has constants and is the tag type of a switch in the machines.
func isStateType(c *Ctx, t types.Type) bool {
	n, ok := t.(*types.Named)
	if !ok || n.Obj().Pkg() != c.Types || n.Obj().Exported() {
		return false
	}
	b, ok := n.Underlying().(*types.Basic)
	return ok && b.Info()&types.IsInteger != 0
}

// initialState returns the name of the constant the state variable is initialised with.
func (m *Machine) initialState() string {
	name := ""
	ast.Inspect(m.fn.Body, func(n ast.Node) bool {
		if name != "" {
			return false
		}
		switch x := n.(type) {
		case *ast.AssignStmt:
			if x.Tok == token.DEFINE && len(x.Lhs) == len(x.Rhs) {
				for i := range x.Lhs {
					if m.obj(x.Lhs[i]) == m.stateV {
						if o := m.obj(x.Rhs[i]); o != nil {
							name = o.Name()
						}
					}
				}
			}
		case *ast.ValueSpec:
			if len(x.Names) == len(x.Values) {
				for i := range x.Names {
					if m.c.Info.Defs[x.Names[i]] == m.stateV {
						if o := m.obj(x.Values[i]); o != nil {
							name = o.Name()
						}
					}
				}
			}
		}
		return true
	})
	return name
}
