package main

// E8 — serialiser token-source dataflow on the SX path normal form: C02, the serialiser half of C01, C16.
// The text a container serialiser emits is folded symbolically for 0..3 elements: builder writes, Sprintf with a constant
// format, concatenation and strings.Join are reduced to a token sequence over {constant, CHILD, KEY}; scalar serialisers are
// classified by the encoder they apply to their payload; float text is tracked in a small abstract domain.

import (
	"bytes"
	"encoding/json"
	"go/ast"
	"go/constant"
	"go/token"
	"go/types"
	"sort"
	"strconv"
	"strings"
)

// ---------------------------------------------------------------- trusted language table (DESIGN.md §7)

func stringEncoderClass(full string) string {
	switch full {
	case "strconv.Quote", "strconv.QuoteToASCII", "strconv.QuoteToGraphic", "strconv.AppendQuote":
		return "go-syntax"
	case "encoding/json.Marshal", "(*encoding/json.Encoder).Encode":
		return "json"
	}
	return ""
}

// serSX returns an SX instance in which string encoder helpers (func(string) string of this package) stay opaque.
func (c *Ctx) serSX() *SX {
	x := c.NewSX()
	sc := c.Types.Scope()
	for _, n := range sc.Names() {
		f, ok := sc.Lookup(n).(*types.Func)
		if !ok {
			continue
		}
		sig := f.Type().(*types.Signature)
		if sig.Recv() == nil && sig.Params().Len() == 1 && sig.Results().Len() == 1 && isStringType(sig.Params().At(0).Type()) && isStringType(sig.Results().At(0).Type()) {
			x.NoInline[n] = true
		}
	}
	return x
}

func isStringType(t types.Type) bool {
	b, ok := t.Underlying().(*types.Basic)
	return ok && b.Info()&types.IsString != 0
}

// isPayloadTerm: t denotes the receiver's payload: recv.field, recv.getVal().(T) (either assertion form).
func (v *sxView) isPayloadTerm(t Term) bool {
	switch x := t.(type) {
	case TSel:
		return v.isRecv(x.X)
	case TAssert:
		e, ok := v.valueOf(x.X)
		return ok && v.isRecv(e)
	case TProj:
		if a, ok := x.X.(TAssert); ok && x.K == 0 {
			e, ok := v.valueOf(a.X)
			return ok && v.isRecv(e)
		}
	}
	return false
}

// stringHelperClass analyses a helper func(string) string as a string encoder (SX): accepted shapes
//
//	b, _ := json.Marshal(x); return string(b)
//	enc := json.NewEncoder(&buf) [enc.SetEscapeHTML(false)] enc.Encode(x); return strings.TrimSuffix(buf.String(), "\n")
//
// with buf any local io.Writer with a String() method (bytes.Buffer, strings.Builder).
func (c *Ctx) stringHelperClass(fn *types.Func) (class, why string) {
	if cls := stringEncoderClass(fn.FullName()); cls != "" {
		return cls, ""
	}
	fd := c.DeclOf(fn)
	if fd == nil {
		return "", "not a known encoder and not a function of this package"
	}
	par := soleParam(c, fd)
	if par == nil {
		return "", "helper does not take exactly one parameter"
	}
	x := c.NewSX()
	paths := x.Run(fd)
	for _, p := range paths {
		if p.Why != "" {
			return "", "helper outside the path vocabulary: " + p.Why
		}
	}
	paths = c.view(fd).flagNorm(paths) // a `plain` flag with break reads as the early exit it stands for
	// Every feasible path must be an accepted shape of one class. A path is infeasible when one of its conditions contradicts
	// what is known of the encoder's output (json.Marshal/Encode of a string never fail; Encoder.Encode ends its output with "\n").
	n := 0
	for _, p := range paths {
		if p.Why != "" || p.End != "return" || len(p.Vals) != 1 {
			return "", "helper is not a straight-line encoder (a data-dependent shortcut emits text the encoder never saw)"
		}
		if c.verbatimQuoted(p.Vals[0], par) {
			// a fast path that emits `"` + input + `"` without encoding: right exactly when the scan that led here confined every byte
			// of the input to what the JSON encoder emits as it is
			if w := c.verbatimGuard(p, par, jsonSafeByte, "emits the input verbatim, which is right only for bytes JSON lets stand unescaped,"); w != "" {
				return "", w
			}
			if class != "" && class != "json" {
				return "", "paths of the helper use different encoders"
			}
			class = "json"
			n++
			continue
		}
		// a fast path for one concrete input (`if len(val) == 0 { return `+"`\"\"`"+` }`): the constant must be what the JSON encoder
		// emits for that very string (computed here with encoding/json itself, escapeHTML off)
		if k, isK := isConstStringTerm(p.Vals[0]); isK && len(p.Effects()) == 0 {
			pinned, pinOK := "", false
			only := true
			for _, cd := range p.Conds() {
				b, ok := simplify(cd.T).(TBin)
				if !ok || b.Op != token.EQL || !cd.Truth {
					only = false
					continue
				}
				for _, pair := range [][2]Term{{b.X, b.Y}, {b.Y, b.X}} {
					if z, isZ := constInt(pair[1]); isZ && z == 0 {
						if bl, ok := pair[0].(TBuiltin); ok && bl.Name == "len" && len(bl.Args) == 1 && isParamTerm(bl.Args[0], par) {
							pinned, pinOK = "", true
						}
					}
					if ks, isS := isConstStringTerm(pair[1]); isS && isParamTerm(pair[0], par) {
						pinned, pinOK = ks, true
					}
				}
			}
			if pinOK && only && len(p.Conds()) == 1 {
				var buf bytes.Buffer
				enc := json.NewEncoder(&buf)
				enc.SetEscapeHTML(false)
				if err := enc.Encode(pinned); err != nil || strings.TrimSuffix(buf.String(), "\n") != k {
					return "", "a fast path returns " + strconv.Quote(k) + " for the input " + strconv.Quote(pinned) + ", which is not what the JSON encoder emits for it"
				}
				if class != "" && class != "json" {
					return "", "paths of the helper use different encoders"
				}
				class = "json"
				n++
				continue
			}
		}
		cls, w, feasible := c.encoderPath(p, par)
		if !feasible {
			continue
		}
		if w != "" {
			return "", w
		}
		if class != "" && cls != class {
			return "", "paths of the helper use different encoders"
		}
		class = cls
		n++
	}
	if n == 0 {
		return "", "helper has no feasible path"
	}
	return class, ""
}

// scanOnly: the rounds of the loop that go on (or leave by break) do nothing but decide.
func scanOnly(l *LoopRec) bool {
	for _, ip := range l.Iter {
		if ip.Why != "" {
			return false
		}
		if ip.End == "return" || ip.End == "panic" {
			continue
		}
		for _, st := range ip.Steps {
			if st.Kind != "cond" {
				return false
			}
		}
	}
	return true
}

// jsonSafeByte: what encoding/json emits as it is inside a string (its safeSet) and what a JSON decoder reads back as the very byte:
// ASCII from 0x20 up, other than the quote and the backslash.
func jsonSafeByte(b int) bool { return b >= 0x20 && b <= 0x7f && b != '"' && b != '\\' }

// verbatimQuoted: t is `"` + input + `"`.
func (c *Ctx) verbatimQuoted(t Term, par types.Object) bool {
	var parts []Term
	var flat func(t Term)
	flat = func(t Term) {
		if b, ok := t.(TBin); ok && b.Op == token.ADD {
			flat(b.X)
			flat(b.Y)
			return
		}
		parts = append(parts, t)
	}
	flat(c.normByteStrings(t))
	if len(parts) != 3 || !isParamTerm(parts[1], par) {
		return false
	}
	a, oka := isConstStringTerm(parts[0])
	b, okb := isConstStringTerm(parts[2])
	return oka && okb && a == `"` && b == `"`
}

// inputOnly: the term is computed from the helper's input alone (its bytes, its length, loop positions, constants).
func inputOnly(t Term, par types.Object) bool {
	ok := true
	collectSubterms(t, func(u Term) {
		switch x := u.(type) {
		case TConst, TLoop, TBin, TUn, TIndex, TConv:
		case TVar:
			if x.Obj != par && !isLocalVar(x.Obj) {
				ok = false
			}
		case TBuiltin:
			if x.Name != "len" {
				ok = false
			}
		default:
			ok = false
		}
	})
	return ok
}

// exhaustedFlag: the condition holds after the loop exactly when the loop was exhausted: it tests a boolean carried by the loop for its
// initial value, every round that goes on leaves the flag alone and every round that breaks off sets it to the other value.
func exhaustedFlag(l *LoopRec, cd Cond) bool {
	t, want := cd.T, cd.Truth
	for {
		u, ok := t.(TUn)
		if !ok || u.Op != token.NOT {
			break
		}
		t, want = u.X, !want
	}
	lv, ok := t.(TLoop)
	if !ok || lv.ID != l.ID {
		return false
	}
	b0, ok := constBoolOf(simplify(l.Init[lv.Obj]))
	if !ok || b0 != want {
		return false
	}
	for _, ip := range l.Iter {
		v, has := ip.Env[lv.Obj]
		switch ip.End {
		case "fall", "continue":
			if has && !sameTerm(v, lv) {
				if b, isC := constBoolOf(simplify(v)); !isC || b != b0 {
					return false
				}
			}
		case "break":
			b, isC := constBoolOf(simplify(v))
			if !has || !isC || b == b0 {
				return false
			}
		}
	}
	return true
}

// verbatimGuard: path p returns the input verbatim; it must be the path on which ONE complete scan of the input's bytes (`for i := 0;
// i < len(s); i++`, every round going on) has found every byte in the safe set — printable ASCII other than `"` and `\`, which is
// what encoding/json emits unchanged (trusted table). Decided for every byte value 0..255: a byte that lets a round go on must be
// safe. Returns "" when the guard is good.
func (c *Ctx) verbatimGuard(p *Path, par types.Object, safeByte func(b int) bool, what string) string {
	li := -1
	for k, st := range p.Steps {
		switch st.Kind {
		case "loop":
			if li >= 0 {
				return "a verbatim fast path behind more than one loop"
			}
			li = k
		case "cond":
			if li >= 0 {
				// `if plain { return verbatim }` after `plain := true; for … { if bad { plain = false; break } }`: the flag still has its
				// initial value exactly when no round broke off, i.e. the scan ran to the end
				if !exhaustedFlag(p.Steps[li].Loop, st.Cond) {
					return "a verbatim fast path decided after its scan by something that is not the scan (a data-dependent shortcut emits text the encoder never saw)"
				}
				continue
			}
			if !inputOnly(st.Cond.T, par) {
				return "a verbatim fast path behind a decision that is not about the input"
			}
		default:
			return "a verbatim fast path with effects"
		}
	}
	if li < 0 {
		// no scan at all: only the empty input may take it
		for _, cd := range p.Conds() {
			e := &strEnv{hook: func(t Term) (sval, bool) {
				if isParamTerm(t, par) {
					return sval{K: 's', S: "a"}, true
				}
				return sval{}, false
			}}
			if v, ok := e.val(cd.T); ok && v.K == 'b' && v.B != cd.Truth {
				return "" // a one-byte input does not get here: the path is the empty-input path
			}
		}
		return "helper is not a straight-line encoder (a data-dependent shortcut emits text the encoder never saw)"
	}
	if inLoopExitPrefix(p, li) >= 0 {
		return "a verbatim fast path that leaves its scan early"
	}
	l := p.Steps[li].Loop
	if l.For == nil || l.CondT == nil {
		return "the scan before a verbatim fast path is not a counted loop over the input's bytes"
	}
	hd, ok := simplify(l.CondT).(TBin)
	var ctr TLoop
	good := false
	if ok {
		switch hd.Op {
		case token.LSS:
			c0, isL := hd.X.(TLoop)
			ln, isLen := hd.Y.(TBuiltin)
			ctr, good = c0, isL && isLen && ln.Name == "len" && len(ln.Args) == 1 && isParamTerm(ln.Args[0], par)
		case token.GTR:
			c0, isL := hd.Y.(TLoop)
			ln, isLen := hd.X.(TBuiltin)
			ctr, good = c0, isL && isLen && ln.Name == "len" && len(ln.Args) == 1 && isParamTerm(ln.Args[0], par)
		}
	}
	if !good || ctr.ID != l.ID {
		return "the scan before a verbatim fast path does not run to the end of the input"
	}
	if k, isK := constInt(l.Init[ctr.Obj]); !isK || k != 0 {
		return "the scan before a verbatim fast path does not start at the first byte"
	}
	step := 0
	if l.Post != nil {
		step = c.counterStep(l.Post, ctr.Obj)
	} else if d, has := l.PostStep[ctr.Obj]; has {
		step = int(d)
	}
	if step != 1 {
		return "the scan before a verbatim fast path does not visit every byte"
	}
	cur := TIndex{X: TVar{par}, I: ctr}
	for b := 0; b < 256; b++ {
		hook := func(t Term) (sval, bool) {
			if ix, isIx := t.(TIndex); isIx && isParamTerm(ix.X, par) && sameTerm(ix.I, ctr) {
				return sval{K: 'i', I: int64(b)}, true
			}
			return sval{}, false
		}
		_ = cur
		goesOn := false
		for _, ip := range l.Iter {
			if ip.End != "fall" && ip.End != "continue" {
				continue
			}
			if tv, has := ip.Env[ctr.Obj]; has && !sameTerm(tv, ctr) {
				return "the scan before a verbatim fast path moves its position inside a round"
			}
			feasible := true
			for _, st := range ip.Steps {
				if st.Kind != "cond" {
					return "the scan before a verbatim fast path has effects"
				}
				e := &strEnv{hook: hook}
				v, ok := e.val(st.Cond.T)
				if !ok || v.K != 'b' {
					return "the scan before a verbatim fast path decides on something other than the current byte: " + c.termStr(st.Cond.T)
				}
				if v.B != st.Cond.Truth {
					feasible = false
					break
				}
			}
			if feasible {
				goesOn = true
			}
		}
		if goesOn && !safeByte(b) {
			return "a fast path " + what + " although the scan lets byte 0x" + strconv.FormatInt(int64(b), 16) + " pass"
		}
	}
	return ""
}

// encBufString: t is <buffer>.String() (or string(<buffer>.Bytes())) of the buffer the helper's encoder writes.
func encBufString(c *Ctx, t Term, bufT Term) bool {
	t = c.normByteStrings(t)
	if cv, isCv := t.(TConv); isCv && (isStringType(cv.To) || isByteSlice(cv.To)) {
		t = cv.X // string(buf.Bytes()) / []byte(buf.String()): the same text
	}
	bs, ok := t.(TCall)
	return ok && bufT != nil && bs.Fun != nil && (bs.Fun.Name() == "String" || bs.Fun.Name() == "Bytes") && bs.Recv != nil && len(bs.Args) == 0 && sameBuffer(bs.Recv, bufT)
}

// encCond: truth of a condition over the encoder's output E = <encoded>+"\n" / over the encoder's error (T, F) or U.
func encCond(c *Ctx, t Term, bufT Term, par types.Object) Tri {
	t = c.normByteStrings(simplify(t)) // bytes.HasSuffix(buf.Bytes(), []byte("\n")) reads as strings.HasSuffix(buf.String(), "\n")
	if u, ok := t.(TUn); ok && u.Op == token.NOT {
		switch encCond(c, u.X, bufT, par) {
		case T:
			return F
		case F:
			return T
		}
		return U
	}
	isE := func(x Term) bool { return encBufString(c, x, bufT) }
	isLenE := func(x Term) bool {
		b, ok := x.(TBuiltin)
		return ok && b.Name == "len" && len(b.Args) == 1 && isE(b.Args[0])
	}
	switch x := t.(type) {
	case TCall:
		if x.Fun != nil && x.Fun.FullName() == "strings.HasSuffix" && len(x.Args) == 2 && isE(x.Args[0]) {
			if sfx, ok := isConstStringTerm(x.Args[1]); ok && (sfx == "\n" || sfx == "") {
				return T
			}
		}
	case TBin:
		l, r := x.X, x.Y
		op := x.Op
		if _, isNil := l.(TNil); isNil {
			l, r = r, l
		}
		if _, lc := l.(TConst); lc {
			if _, rc := r.(TConst); !rc {
				// constant on the left: k OP x is x OP' k
				l, r = r, l
				switch op {
				case token.LSS:
					op = token.GTR
				case token.LEQ:
					op = token.GEQ
				case token.GTR:
					op = token.LSS
				case token.GEQ:
					op = token.LEQ
				}
			}
		}
		if _, isNil := r.(TNil); isNil && (op == token.EQL || op == token.NEQ) {
			// the error of json.Marshal(par) / enc.Encode(par): a string always encodes
			never := false
			if pr, ok := l.(TProj); ok && pr.K == 1 {
				if call, ok := pr.X.(TCall); ok && call.Fun != nil && call.Fun.FullName() == "encoding/json.Marshal" && len(call.Args) == 1 && isParamTerm(call.Args[0], par) {
					never = true
				}
			}
			if call, ok := l.(TCall); ok && call.Fun != nil && call.Fun.FullName() == "(*encoding/json.Encoder).Encode" && len(call.Args) == 1 && isParamTerm(call.Args[0], par) {
				never = true
			}
			if never {
				if op == token.EQL {
					return T
				}
				return F
			}
			return U
		}
		// len(E) against a constant: len(E) >= 1 (len(E)-c OP k is len(E) OP k+c)
		if sb, ok := l.(TBin); ok && (sb.Op == token.SUB || sb.Op == token.ADD) && isLenE(sb.X) {
			if cc, ok := constInt(sb.Y); ok {
				if k, ok := constInt(r); ok {
					if sb.Op == token.SUB {
						k += cc
					} else {
						k -= cc
					}
					l, r = sb.X, TConst{constant.MakeInt64(k)}
				}
			}
		}
		if k, ok := constInt(r); ok && isLenE(l) {
			switch {
			case op == token.GTR && k <= 0, op == token.GEQ && k <= 1, op == token.NEQ && k <= 0:
				return T
			case op == token.EQL && k <= 0, op == token.LSS && k <= 1, op == token.LEQ && k <= 0:
				return F
			}
			return U
		}
		if s, ok := isConstStringTerm(r); ok && s == "" && isE(l) {
			if op == token.NEQ {
				return T
			}
			if op == token.EQL {
				return F
			}
		}
		// E[len(E)-1] == '\n'
		if k, ok := constInt(r); ok && k == '\n' {
			if ix, ok := l.(TIndex); ok && isE(ix.X) {
				if b, ok := simplify(ix.I).(TBin); ok && b.Op == token.SUB && isLenE(b.X) {
					if one, ok := constInt(b.Y); ok && one == 1 {
						if op == token.EQL {
							return T
						}
						if op == token.NEQ {
							return F
						}
					}
				}
			}
		}
	}
	return U
}

// encoderPath judges one path of a string-encoder helper.
func (c *Ctx) encoderPath(p *Path, par types.Object) (class, why string, feasible bool) {
	ret := c.normByteStrings(p.Vals[0])
	// shape B's encoder and buffer, from the effects
	var encT, bufT Term
	encoded, truncated := false, false
	effWhy := ""
	for _, s := range p.Effects() {
		if s.Kind != "call" || s.Call == nil || s.Call.Fun == nil {
			if s.Kind == "store" {
				continue // zero-initialisation of the local buffer
			}
			if s.Kind == "loop" && s.Loop != nil && scanOnly(s.Loop) {
				continue // a scan of the input that decided for the encoder: no effect (a round that leaves carries its steps itself)
			}
			effWhy = "unexpected effect in the helper"
			break
		}
		switch s.Call.Fun.FullName() {
		case "encoding/json.NewEncoder":
			if encT != nil || len(s.Call.Args) != 1 {
				effWhy = "more than one encoder"
				break
			}
			encT, bufT = *s.Call, s.Call.Args[0]
			ownBuf := false
			switch b := bufT.(type) {
			case TAddr:
				ownBuf = true // &buffer of a local
			case TBuiltin:
				ownBuf = b.Name == "new" // new(bytes.Buffer)
			case TCall:
				ownBuf = b.Fun != nil && (b.Fun.FullName() == "bytes.NewBuffer" || b.Fun.FullName() == "bytes.NewBufferString")
			}
			if !ownBuf {
				effWhy = "the encoder does not write into the helper's own local buffer"
			}
		case "(*encoding/json.Encoder).SetEscapeHTML":
		case "(*encoding/json.Encoder).Encode":
			if len(s.Call.Args) == 1 {
				// Encode(any(val)): the conversion the compiler inserts anyway
				if cv, ok := s.Call.Args[0].(TConv); ok && cv.To != nil && types.IsInterface(cv.To) {
					s.Call.Args = []Term{cv.X}
				}
			}
			if encoded || len(s.Call.Args) != 1 || !isParamTerm(s.Call.Args[0], par) || encT == nil || !sameTerm(s.Call.Recv, encT) {
				effWhy = "Encode is not applied exactly once to the helper's parameter"
			}
			encoded = true
		case "(*strings.Builder).Grow", "(*bytes.Buffer).Grow":
		case "(*bytes.Buffer).Truncate":
			// buffer.Truncate(buffer.Len() - 1) after the encoding: the final newline is cut off in place
			okT := encoded && !truncated && len(s.Call.Args) == 1 && s.Call.Recv != nil && bufT != nil && sameBuffer(s.Call.Recv, bufT)
			if okT {
				okT = false
				if b, isB := simplify(s.Call.Args[0]).(TBin); isB && b.Op == token.SUB {
					if one, isK := constInt(b.Y); isK && one == 1 {
						if ln, isCall := b.X.(TCall); isCall && ln.Fun != nil && ln.Fun.FullName() == "(*bytes.Buffer).Len" && ln.Recv != nil && sameBuffer(ln.Recv, bufT) {
							okT = true
						}
						if lb, isLen := b.X.(TBuiltin); isLen && lb.Name == "len" && len(lb.Args) == 1 && encBufString(c, lb.Args[0], bufT) {
							okT = true
						}
					}
				}
			}
			if !okT {
				effWhy = "the buffer is truncated other than by exactly its last byte after the encoding"
			}
			truncated = true
		case "encoding/json.Marshal":
			if len(s.Call.Args) != 1 || !isParamTerm(s.Call.Args[0], par) {
				effWhy = "unexpected call " + s.Call.Fun.FullName()
			}
		default:
			effWhy = "unexpected call " + s.Call.Fun.FullName()
		}
		if effWhy != "" {
			break
		}
	}
	for _, cd := range p.Conds() {
		if inputOnly(cd.T, par) {
			continue // a decision about the input (a byte that needs escaping was found): whatever it is, this path encodes
		}
		v := U
		if effWhy == "" {
			v = encCond(c, cd.T, bufT, par)
		}
		if v == U {
			return "", "helper is not a straight-line encoder (a data-dependent shortcut emits text the encoder never saw)", true
		}
		if (v == T) != cd.Truth {
			return "", "", false
		}
	}
	// shape A: string(json.Marshal(x)#0)
	if cv, ok := ret.(TConv); ok && isStringType(cv.To) {
		if pr, ok := cv.X.(TProj); ok && pr.K == 0 {
			if call, ok := pr.X.(TCall); ok && call.Fun != nil && call.Fun.FullName() == "encoding/json.Marshal" && len(call.Args) == 1 && isParamTerm(call.Args[0], par) {
				return "json", "", true
			}
		}
	}
	// a Go-syntax quoter applied directly
	if call, ok := ret.(TCall); ok && call.Fun != nil {
		if cls := stringEncoderClass(call.Fun.FullName()); cls == "go-syntax" && len(call.Args) == 1 && isParamTerm(call.Args[0], par) {
			return "go-syntax", "", true
		}
	}
	// shape B
	if effWhy != "" {
		return "", effWhy, true
	}
	if !encoded {
		return "", "helper matches no accepted encoder shape", true
	}
	if truncated {
		// what the path decides about the encoder's output it must decide before the truncation (afterwards the text is another one)
		seenTrunc := false
		for _, st := range p.Steps {
			if st.Kind == "call" && st.Call != nil && st.Call.Fun != nil && st.Call.Fun.FullName() == "(*bytes.Buffer).Truncate" {
				seenTrunc = true
			} else if st.Kind == "cond" && seenTrunc {
				return "", "a decision on the buffer after it was truncated", true
			}
		}
		// the newline went with the Truncate (which the conditions of the path allowed only on a text ending in it): what is left is the text
		if encBufString(c, ret, bufT) {
			return "json", "", true
		}
		return "", "after the truncation the helper does not return the buffer's content", true
	}
	// the returned text is E without its final "\n": TrimSuffix/TrimRight(E, "\n") or E[:len(E)-1]
	if cv, ok := ret.(TConv); ok && isStringType(cv.To) {
		if _, isSl := cv.X.(TSlice); isSl {
			ret = cv.X // string(E-as-bytes[:n])
		}
	}
	if sl, ok := ret.(TSlice); ok && sl.Max == nil && encBufString(c, sl.X, bufT) {
		lo0 := sl.Lo == nil
		if k, ok := constInt(sl.Lo); sl.Lo != nil && ok && k == 0 {
			lo0 = true
		}
		if b, ok := simplify(sl.Hi).(TBin); sl.Hi != nil && ok && lo0 && b.Op == token.SUB {
			if lb, ok := b.X.(TBuiltin); ok && lb.Name == "len" && len(lb.Args) == 1 && encBufString(c, lb.Args[0], bufT) {
				if one, ok := constInt(simplify(b.Y)); ok && one == 1 {
					return "json", "", true
				}
			}
		}
		return "", "the slice of the encoder's output does not remove exactly the trailing newline", true
	}
	trim, ok := ret.(TCall)
	if !ok || trim.Fun == nil || len(trim.Args) != 2 {
		return "", "the trailing newline appended by Encoder.Encode is not trimmed", true
	}
	switch trim.Fun.FullName() {
	case "strings.TrimSuffix", "strings.TrimRight":
	default:
		return "", "the trailing newline appended by Encoder.Encode is not trimmed with strings.TrimSuffix(…, \"\\n\")", true
	}
	if sfx, ok := isConstStringTerm(trim.Args[1]); !ok || sfx != "\n" {
		return "", "the trim does not remove exactly the trailing newline", true
	}
	if !encBufString(c, trim.Args[0], bufT) {
		return "", "helper does not return the content of the buffer the encoder wrote", true
	}
	return "json", "", true
}

// ---------------------------------------------------------------- token emission

type sTok struct {
	Kind string // C (constant), CHILD, KEY, BAD
	Text string
	Enc  *types.Func
	At   int64 // CHILD, KEY: the iteration of the range over the spine whose element this is
}

func tokStr(ts []sTok) string {
	var p []string
	for _, t := range ts {
		switch t.Kind {
		case "C":
			p = append(p, "'"+t.Text+"'")
		case "BAD":
			p = append(p, "BAD("+t.Text+")")
		default:
			p = append(p, t.Kind)
		}
	}
	return strings.Join(p, " ")
}

func mergeToks(ts []sTok) []sTok {
	var out []sTok
	for _, t := range ts {
		if t.Kind == "C" && t.Text == "" {
			continue
		}
		if t.Kind == "C" && len(out) > 0 && out[len(out)-1].Kind == "C" {
			out[len(out)-1].Text += t.Text
			continue
		}
		out = append(out, t)
	}
	return out
}

type emitter struct {
	c       *Ctx
	v       *sxView
	fd      *ast.FuncDecl
	n       int64
	ints    map[string]int64    // loop-carried ints by TLoop key / range key
	bools   map[string]bool     // loop-carried boolean flags
	bufs    map[string][]sTok   // builder content by canonical buffer key
	lists   map[string][][]sTok // accumulated string slices by variable key
	strs    map[string][]sTok   // accumulated strings by variable key
	keyVar  types.Object
	valVar  types.Object
	serName string
	why     string
	iter    int64 // current iteration of the range over the receiver's spine
}

func bufKey(t Term) string {
	if d, ok := t.(TDeref); ok {
		t = d.X
	}
	if a, ok := t.(TAddr); ok {
		t = a.X
	}
	return key(t)
}

func (e *emitter) bad(w string) []sTok { return []sTok{{Kind: "BAD", Text: w}} }

func (e *emitter) tokens(t Term) []sTok {
	c := e.c
	if s, ok := isConstStringTerm(t); ok {
		return []sTok{{Kind: "C", Text: s}}
	}
	if k, ok := t.(TConst); ok && k.Val.Kind() == constant.Int {
		v, _ := constant.Int64Val(k.Val)
		return []sTok{{Kind: "C", Text: string(rune(v))}}
	}
	switch x := t.(type) {
	case TConv:
		if isStringType(x.To) || isIntType(x.To) || isByteSlice(x.To) {
			return e.tokens(x.X)
		}
	case TNil:
		return nil // an empty []byte
	case TLit:
		// []byte{'[', …}
		if x.Type != nil && isByteSlice(x.Type) {
			var out []sTok
			for _, el := range x.Elts {
				out = append(out, e.tokens(el)...)
			}
			return out
		}
	case TBuiltin:
		if x.Type != nil && x.Name == "make" && isByteSlice(x.Type) && len(x.Args) >= 1 {
			if k, ok := constInt(x.Args[0]); ok && k == 0 {
				return nil
			}
		}
		if x.Name == "append" && len(x.Args) >= 1 {
			// text accumulated in a []byte: append(b, 'c'), append(b, s...)
			out := e.tokens(x.Args[0])
			for _, a := range x.Args[1:] {
				out = append(out, e.tokens(a)...)
			}
			return out
		}
	case TBin:
		if x.Op == token.ADD {
			return append(e.tokens(x.X), e.tokens(x.Y)...)
		}
	case TLoop:
		if ts, ok := e.strs[key(TVar{x.Obj})]; ok {
			return append([]sTok(nil), ts...)
		}
		// a loop-carried byte or rune (`separator := byte('{')` … `separator = ','`): the character it holds in this round
		if v, ok := e.ints[key(TVar{x.Obj})]; ok && isCharType(x.Obj.Type()) && v >= 0 && v < 0x80 {
			return []sTok{{Kind: "C", Text: string(rune(v))}}
		}
	case TVar:
		if ts, ok := e.strs[key(x)]; ok {
			return append([]sTok(nil), ts...)
		}
	case TIndex:
		// parts[i]: an item of the accumulated / made string slice
		if items, ok := e.listOf(x.X); ok {
			te := &termEnv{hook: e.hook}
			i, okI := te.int(x.I)
			if !okI || i < 0 || int(i) >= len(items) {
				return e.bad("item slice read at an index that cannot be folded or is out of range: " + c.termStr(t))
			}
			return append([]sTok(nil), items[i]...)
		}
	case TCall:
		if x.Fun == nil {
			break
		}
		full := x.Fun.FullName()
		switch {
		case full == "fmt.Sprintf":
			return e.sprintf(unpack(x.Args))
		case x.Fun.Name() == "String" && x.Recv != nil && len(x.Args) == 0:
			if ts, ok := e.bufs[bufKey(x.Recv)]; ok {
				return append([]sTok(nil), ts...)
			}
		case full == "strings.Join" && len(x.Args) == 2:
			sep, ok := isConstStringTerm(x.Args[1])
			if !ok {
				return e.bad("strings.Join with a non-constant separator")
			}
			var lk string
			switch l := x.Args[0].(type) {
			case TLoop:
				lk = key(TVar{l.Obj})
			case TVar:
				lk = key(l)
			}
			items, ok := e.lists[lk]
			if !ok {
				if mk, isMk := x.Args[0].(TBuiltin); isMk && mk.Name == "make" {
					items, ok = e.madeList(mk)
				}
			}
			if !ok {
				return e.bad("strings.Join over something that is not the accumulated item slice")
			}
			var out []sTok
			for i, it := range items {
				if i > 0 {
					out = append(out, sTok{Kind: "C", Text: sep})
				}
				out = append(out, it...)
			}
			return out
		case x.Recv != nil && len(x.Args) == 0 && x.Fun.Name() == e.serName && e.valVar != nil && isParamTerm(x.Recv, e.valVar):
			return []sTok{{Kind: "CHILD", At: e.iter}}
		case x.Recv != nil && len(x.Args) == 0 && x.Fun.Name() == e.serName:
			// spine[k].serialize() with a foldable k: that element (the first one written before the loop over the rest)
			if ix, ok := x.Recv.(TIndex); ok && e.v.isRecvSpine(ix.X) && e.v.ct != nil && e.v.ct.IsList {
				te := &termEnv{hook: e.hook}
				if i, okI := te.int(ix.I); okI {
					if i < 0 || i >= e.n {
						return e.bad("element " + itoa(int(i)) + " of a spine of " + itoa(int(e.n)) + " is serialised: index out of range")
					}
					return []sTok{{Kind: "CHILD", At: i}}
				}
			}
		case x.Recv == nil && len(x.Args) == 1 && e.keyVar != nil && isParamTerm(x.Args[0], e.keyVar):
			cls, why := c.stringHelperClass(x.Fun)
			switch cls {
			case "json":
				return []sTok{{Kind: "KEY", Enc: x.Fun, At: e.iter}}
			case "go-syntax":
				return e.bad(x.Fun.FullName() + " emits Go literal syntax (\\x01, \\a, \\v, \\U…), which is not JSON")
			default:
				return e.bad("key encoder " + x.Fun.Name() + " is not an approved JSON string encoder: " + why)
			}
		}
	}
	return e.bad("token source not understood: " + c.termStr(t))
}

// listOf: the items of the string slice t denotes (an accumulated slice variable or a slice made in this call).
func (e *emitter) listOf(t Term) ([][]sTok, bool) {
	switch l := t.(type) {
	case TLoop:
		items, ok := e.lists[key(TVar{l.Obj})]
		return items, ok
	case TVar:
		items, ok := e.lists[key(l)]
		return items, ok
	case TBuiltin:
		if l.Name == "make" {
			return e.madeList(l)
		}
	}
	return nil, false
}

// madeList: the items of a local []string created by make([]string, len[, cap]) in this call (len folded; items start empty).
func (e *emitter) madeList(mk TBuiltin) ([][]sTok, bool) {
	sl, ok := mk.Type.Underlying().(*types.Slice)
	if !ok || !isStringType(sl.Elem()) || len(mk.Args) == 0 {
		return nil, false
	}
	k := key(mk)
	if items, ok := e.lists[k]; ok {
		return items, true
	}
	te := &termEnv{hook: e.hook}
	n, ok := te.int(mk.Args[0])
	if !ok || n < 0 || n > 16 {
		return nil, false
	}
	items := make([][]sTok, n)
	e.lists[k] = items
	return items, true
}

func (e *emitter) sprintf(args []Term) []sTok {
	if len(args) == 0 {
		return e.bad("Sprintf without format")
	}
	format, ok := isConstStringTerm(args[0])
	if !ok {
		return e.bad("format string is not a constant: data (a key or value) is interpreted as formatting verbs")
	}
	var out []sTok
	rest := args[1:]
	for {
		i := strings.Index(format, "%")
		if i < 0 {
			break
		}
		if i > 0 {
			out = append(out, sTok{Kind: "C", Text: format[:i]})
		}
		if i+1 >= len(format) || format[i+1] != 's' {
			verb := "%"
			if i+1 < len(format) {
				verb += string(format[i+1])
			}
			return append(out, e.bad("format verb "+verb+" (only %s of already-encoded text is accepted; %v/%q/%d emit Go syntax)")...)
		}
		if len(rest) == 0 {
			return append(out, e.bad("missing Sprintf argument")...)
		}
		out = append(out, e.tokens(rest[0])...)
		rest = rest[1:]
		format = format[i+2:]
	}
	if format != "" {
		out = append(out, sTok{Kind: "C", Text: format})
	}
	if len(rest) != 0 {
		out = append(out, e.bad("extra Sprintf argument")...)
	}
	return out
}

func (e *emitter) hook(t Term) (int64, bool) {
	switch x := t.(type) {
	case TLoop:
		if v, ok := e.ints[key(TVar{x.Obj})]; ok {
			return v, true
		}
	case TVar:
		if v, ok := e.ints[key(x)]; ok {
			return v, true
		}
	}
	if e.v.isCountOfRecv(t) {
		return e.n, true
	}
	if b, ok := t.(TBuiltin); ok && b.Name == "len" && len(b.Args) == 1 {
		if items, ok := e.listOf(b.Args[0]); ok {
			return int64(len(items)), true
		}
	}
	return 0, false
}

func (e *emitter) bhook(t Term) (bool, bool) {
	if lv, ok := t.(TLoop); ok {
		if v, ok := e.bools[key(TVar{lv.Obj})]; ok {
			return v, true
		}
	}
	return false, false
}

// steps interprets the effect steps of a path; returns false on an unsupported construct.
func (e *emitter) steps(steps []Step) bool {
	for _, st := range steps {
		switch st.Kind {
		case "cond":
			// conditions of the selected path were folded by the caller
		case "store":
			// zero-initialisation of an addressed local buffer: nothing to emit
			if ix, isIx := st.LHS.(TIndex); isIx {
				// parts[i] = text, parts a local string slice created by make in this call
				if mk, isMk := ix.X.(TBuiltin); isMk && mk.Name == "make" {
					items, ok := e.madeList(mk)
					te := &termEnv{hook: e.hook}
					i, okI := te.int(ix.I)
					if !ok || !okI || i < 0 || int(i) >= len(items) {
						e.why = "store into a string slice at an index that cannot be folded or is out of range: " + e.c.termStr(st.LHS)
						return false
					}
					items[i] = mergeToks(e.tokens(st.RHS))
					continue
				}
			}
			if ix, isIx := st.LHS.(TIndex); isIx {
				// buf[len(buf)-1] = ']': the last byte of the text accumulated in a []byte is replaced (the separator written after
				// the last element becomes the closing bracket)
				var k string
				switch b := ix.X.(type) {
				case TLoop:
					k = key(TVar{b.Obj})
				case TVar:
					k = key(b)
				}
				if toks, tracked := e.strs[k]; tracked && k != "" {
					last := false
					if sub, ok := ix.I.(TBin); ok && sub.Op == token.SUB {
						if one, isK := constInt(sub.Y); isK && one == 1 {
							if bl, ok := sub.X.(TBuiltin); ok && bl.Name == "len" && len(bl.Args) == 1 && sameTerm(eraseEpochs(bl.Args[0]), eraseEpochs(ix.X)) {
								last = true
							}
						}
					}
					ch, isCh := constInt(st.RHS)
					if !last || !isCh || ch < 0 || ch > 127 {
						e.why = "store into the text buffer other than a constant byte over its last byte: " + e.c.termStr(st.LHS)
						return false
					}
					toks = mergeToks(toks)
					if len(toks) == 0 {
						e.why = "the last byte of an empty buffer is overwritten (index out of range)"
						return false
					}
					lt := toks[len(toks)-1]
					if lt.Kind != "C" || lt.Text == "" {
						e.why = "the last byte of a child's or key's text is overwritten"
						return false
					}
					lt.Text = lt.Text[:len(lt.Text)-1] + string(rune(ch))
					toks = append(append([]sTok(nil), toks[:len(toks)-1]...), lt)
					e.strs[k] = toks
					continue
				}
			}
			if _, isVar := st.LHS.(TVar); !isVar {
				e.why = "store " + e.c.termStr(st.LHS)
				return false
			}
		case "call":
			if st.Call == nil || st.Call.Fun == nil {
				e.why = "unknown call"
				return false
			}
			full := st.Call.Fun.FullName()
			switch {
			case st.Call.Recv != nil && (full == "(*strings.Builder).WriteString" || full == "(*strings.Builder).WriteRune" || full == "(*strings.Builder).WriteByte" ||
				full == "(*bytes.Buffer).WriteString" || full == "(*bytes.Buffer).WriteRune" || full == "(*bytes.Buffer).WriteByte"):
				k := bufKey(st.Call.Recv)
				e.bufs[k] = append(e.bufs[k], e.tokens(st.Call.Args[0])...)
			case full == "fmt.Fprintf" && len(st.Call.Args) >= 2:
				k := bufKey(st.Call.Args[0])
				e.bufs[k] = append(e.bufs[k], e.sprintf(unpack(st.Call.Args[1:]))...)
			case full == "fmt.Fprint" || full == "fmt.Fprintln":
				e.why = full + " formats values with %v (Go syntax)"
				return false
			case full == "(*strings.Builder).Grow" || full == "(*bytes.Buffer).Grow":
			default:
				e.why = "call of " + e.c.termStr(*st.Call)
				return false
			}
		case "loop":
			if !e.loop(st.Loop) {
				return false
			}
		default:
			e.why = st.Kind
			return false
		}
	}
	return true
}

// loop unrolls the range over the receiver's spine for n elements.
func (e *emitter) loop(l *LoopRec) bool {
	if r := e.v.asRange(l); r != nil && (l.Range != nil || e.v.isRecvSpine(r.Over)) {
		l = r
	}
	counted := false
	var listItems [][]sTok
	listRange := false
	// a range over a part of the spine (`for _, v := range items[1:]` after the first element was written by hand): the elements
	// lo..hi-1, visited in order
	subRange, base, subLen := false, int64(0), int64(0)
	if sl, ok := l.Over.(TSlice); ok && l.Range != nil && sl.Max == nil && e.v.isRecvSpine(sl.X) {
		lo, hi := int64(0), e.n
		okB := true
		if sl.Lo != nil {
			te := &termEnv{hook: e.hook}
			lo, okB = te.int(sl.Lo)
		}
		if sl.Hi != nil && okB {
			te := &termEnv{hook: e.hook}
			hi, okB = te.int(sl.Hi)
		}
		if !okB {
			e.why = "a range over a part of the spine whose bounds cannot be folded"
			return false
		}
		if lo < 0 || hi > e.n || lo > hi {
			e.why = "a range over a part of the spine that is out of range for " + itoa(int(e.n)) + " elements (the serialiser would panic)"
			return false
		}
		subRange, base, subLen = true, lo, hi-lo
	}
	if subRange {
	} else if l.Range != nil && !e.v.isRecvSpine(l.Over) {
		// a range over the items accumulated so far (for _, part := range parts): visited item by item
		if items, ok := e.listOf(l.Over); ok {
			listRange, listItems = true, append([][]sTok(nil), items...)
		} else if sl, isSl := l.Over.(TSlice); isSl && sl.Max == nil {
			// … or over a part of them (parts[1:])
			if items, ok := e.listOf(sl.X); ok {
				lo, hi := int64(0), int64(len(items))
				okB := true
				if sl.Lo != nil {
					te := &termEnv{hook: e.hook}
					lo, okB = te.int(sl.Lo)
				}
				if sl.Hi != nil && okB {
					te := &termEnv{hook: e.hook}
					hi, okB = te.int(sl.Hi)
				}
				if !okB || lo < 0 || hi > int64(len(items)) || lo > hi {
					e.why = "a range over a part of the accumulated items whose bounds cannot be folded or are out of range"
					return false
				}
				listRange, listItems = true, append([][]sTok(nil), items[lo:hi]...)
			}
		}
	}
	if listRange || subRange {
	} else if l.Range == nil || !e.v.isRecvSpine(l.Over) {
		// a counted loop over already accumulated items (for i := 0; i < len(parts); i++): unrolled while its condition holds
		if l.For == nil || l.CondT == nil {
			e.why = "a loop that does not range over the receiver's own spine"
			return false
		}
		counted = true
	}
	saveK, saveV := e.keyVar, e.valVar
	defer func() { e.keyVar, e.valVar, e.iter = saveK, saveV, -1 }()
	if counted || listRange {
		e.keyVar, e.valVar = nil, nil
	} else {
		e.keyVar, e.valVar = l.Key, l.Value
	}
	// initial values of loop-carried variables
	for o, t := range l.Init {
		k := key(TVar{o})
		switch {
		case isIntType(o.Type()):
			te := &termEnv{hook: e.hook}
			v, ok := te.int(t)
			if !ok {
				e.why = "loop counter initialiser cannot be folded"
				return false
			}
			e.ints[k] = v
		case isStringType(o.Type()) || isByteSlice(o.Type()):
			e.strs[k] = mergeToks(e.tokens(t))
		case types.Identical(o.Type().Underlying(), types.Typ[types.Bool]):
			te := &termEnv{hook: e.hook, bhook: e.bhook}
			v, ok := te.bool(t)
			if !ok {
				e.why = "loop flag initialiser cannot be folded"
				return false
			}
			e.bools[k] = v
		default:
			if sl, ok := o.Type().Underlying().(*types.Slice); ok && isStringType(sl.Elem()) {
				e.lists[k] = nil
			}
		}
	}
	limit := e.n
	if listRange {
		limit = int64(len(listItems))
	}
	if subRange {
		limit = subLen
	}
	for t := int64(0); counted || t < limit; t++ {
		if listRange {
			e.iter = -1
			if l.Value != nil {
				e.strs[key(TVar{l.Value})] = listItems[t]
			}
		} else if counted {
			if t > 64 {
				e.why = "a counted loop that does not terminate within 64 iterations"
				return false
			}
			te := &termEnv{hook: e.hook, bhook: e.bhook}
			more, ok := te.bool(l.CondT)
			if !ok {
				e.why = "a loop that does not range over the receiver's own spine and whose condition cannot be folded: " + te.fail
				return false
			}
			if !more {
				break
			}
			e.iter = -1
		} else {
			e.iter = base + t
		}
		if l.Key != nil && isIntType(l.Key.Type()) && !counted {
			e.ints[key(TVar{l.Key})] = t
		}
		var sel *Path
		for _, ip := range l.Iter {
			feasible := true
			for _, cd := range ip.Conds() {
				te := &termEnv{hook: e.hook, bhook: e.bhook}
				// conditions are evaluated with the loop-carried values at the point where they occur: counters updated earlier on the
				// same path are part of the condition term itself (SX substitutes locals)
				v, ok := te.bool(cd.T)
				if !ok {
					e.why = "separator condition outside the vocabulary: " + te.fail
					return false
				}
				if v != cd.Truth {
					feasible = false
					break
				}
			}
			if feasible {
				if sel != nil {
					e.why = "two feasible iteration paths"
					return false
				}
				sel = ip
			}
		}
		if sel == nil {
			e.why = "no feasible iteration path"
			return false
		}
		if sel.End != "fall" && sel.End != "continue" {
			e.why = sel.End + " inside the serialisation loop: an element is dropped or duplicated"
			return false
		}
		if !e.steps(sel.Steps) {
			return false
		}
		// loop-carried updates
		nextBools := map[string]bool{}
		for o, nt := range sel.Env {
			k := key(TVar{o})
			if lv, same := nt.(TLoop); same && lv.Obj == o {
				continue
			}
			switch {
			case isIntType(o.Type()):
				if _, tracked := e.ints[k]; tracked && o != l.Key {
					te := &termEnv{hook: e.hook}
					v, ok := te.int(nt)
					if !ok {
						// no longer known: a later decision that needs it cannot be folded and says so
						e.ints[k+"#drop"] = 0
						continue
					}
					e.ints[k+"#next"] = v
				}
			case isStringType(o.Type()) || isByteSlice(o.Type()):
				if _, tracked := e.strs[k]; tracked {
					e.strs[k+"#next"] = mergeToks(e.tokens(nt))
				}
			case types.Identical(o.Type().Underlying(), types.Typ[types.Bool]):
				if _, tracked := e.bools[k]; tracked {
					te := &termEnv{hook: e.hook, bhook: e.bhook}
					v, ok := te.bool(nt)
					if !ok {
						e.why = "loop flag update cannot be folded"
						return false
					}
					nextBools[k] = v
				}
			default:
				if _, tracked := e.lists[k]; tracked {
					ap, ok := nt.(TBuiltin)
					if !ok || ap.Name != "append" || len(ap.Args) != 2 {
						e.why = "item slice updated other than by append"
						return false
					}
					e.lists[k] = append(e.lists[k], mergeToks(e.tokens(ap.Args[1])))
				}
			}
		}
		for k := range e.ints {
			if strings.HasSuffix(k, "#drop") {
				delete(e.ints, strings.TrimSuffix(k, "#drop"))
				delete(e.ints, k)
			}
		}
		for k, v := range e.ints {
			if strings.HasSuffix(k, "#next") {
				e.ints[strings.TrimSuffix(k, "#next")] = v
				delete(e.ints, k)
			}
		}
		for k, v := range e.strs {
			if strings.HasSuffix(k, "#next") {
				e.strs[strings.TrimSuffix(k, "#next")] = v
				delete(e.strs, k)
			}
		}
		for k, v := range nextBools {
			e.bools[k] = v
		}
		if counted && (l.Post != nil || l.PostStep != nil) {
			ints := map[types.Object]int64{}
			for o := range l.Init {
				if v, ok := e.ints[key(TVar{o})]; ok {
					ints[o] = v
				}
			}
			sim := &loopSim{c: e.c, l: l, state: ints}
			if !sim.post() {
				e.why = "counted loop: " + sim.why
				return false
			}
			for o, v := range sim.state {
				e.ints[key(TVar{o})] = v
			}
		}
	}
	return true
}

// emitted folds the container serialiser for n elements and returns the emitted token sequence.
func (c *Ctx) emitted(fd *ast.FuncDecl, paths []*Path, n int64) ([]sTok, string) {
	v := c.view(fd)
	// the path that is not an in-loop exit
	e := &emitter{c: c, v: v, fd: fd, n: n, iter: -1, bools: map[string]bool{}, ints: map[string]int64{}, bufs: map[string][]sTok{}, lists: map[string][][]sTok{}, strs: map[string][]sTok{}, serName: c.FuncObj(fd).Name()}
	// the path taken for n elements: decisions outside the loop may only depend on the element count (an empty fast path). Whether
	// the spine is nil is such a decision for n > 0 (it is not); for n == 0 it may be either, and both ways must emit the same text.
	nilSpine := func(t Term) (bool, bool) { // (is `spine == nil` / `!=`, value when the spine is nil)
		b, ok := t.(TBin)
		if !ok || (b.Op != token.EQL && b.Op != token.NEQ) {
			return false, false
		}
		for _, pair := range [][2]Term{{b.X, b.Y}, {b.Y, b.X}} {
			if _, isNil := pair[1].(TNil); isNil && v.isRecvSpine(pair[0]) {
				return true, b.Op == token.EQL
			}
		}
		return false, false
	}
	var feasiblePaths []*Path
	for _, p := range paths {
		if p.End != "return" || len(p.Vals) != 1 {
			return nil, "a path does not return the text"
		}
		feasible := true
		for _, cd := range p.Conds() {
			if is, whenNil := nilSpine(cd.T); is {
				if n == 0 {
					continue // free: a nil and an empty spine both have no elements
				}
				if (!whenNil) != cd.Truth {
					feasible = false
					break
				}
				continue
			}
			te := &termEnv{hook: e.hook}
			b, ok := te.bool(cd.T)
			if !ok {
				return nil, "a decision outside the loop that is not a function of the element count: " + c.termStr(cd.T)
			}
			if b != cd.Truth {
				feasible = false
				break
			}
		}
		if feasible {
			feasiblePaths = append(feasiblePaths, p)
		}
	}
	if len(feasiblePaths) == 0 {
		return nil, "no path"
	}
	var first []sTok
	for i, main := range feasiblePaths {
		ei := &emitter{c: c, v: v, fd: fd, n: n, iter: -1, bools: map[string]bool{}, ints: map[string]int64{}, bufs: map[string][]sTok{}, lists: map[string][][]sTok{}, strs: map[string][]sTok{}, serName: c.FuncObj(fd).Name()}
		if !ei.steps(main.Steps) {
			return nil, ei.why
		}
		out := mergeToks(ei.tokens(main.Vals[0]))
		if i == 0 {
			first = out
			continue
		}
		if tokStr(out) != tokStr(first) {
			return nil, "more than one path (a data-dependent shortcut)"
		}
	}
	return first, ""
}

// ---------------------------------------------------------------- container serialisers

var serRule = func(id string) string { return id }

func asC01(id string) string {
	switch id {
	case "C02.R1", "C02.R2", "C02.R3", "C02.R4":
		return "C01.R1"
	}
	return id
}

func asC16(id string) string {
	if strings.HasPrefix(id, "C02.") {
		return "C16.R3"
	}
	if id == "C01.R3" {
		return "C16.R3"
	}
	return id
}

func c02Container(c *Ctx, ct *Cont) {
	tn := ct.Named.Obj().Name()
	name := "(*" + tn + ").serialize"
	fd := c.NeedDecl(serRule("C02.R2"), name)
	if fd == nil {
		return
	}
	open, close := "{", "}"
	if ct.IsList {
		open, close = "[", "]"
	}
	shape := c.Ob(serRule("C02.R2"), name+"/shape", fd.Pos())
	emit := c.Ob(serRule("C02.R1"), name+"/emitters", fd.Pos())
	sep := c.Ob(serRule("C02.R3"), name+"/separator", fd.Pos())
	x := c.serSX()
	paths := x.Run(fd)
	for _, p := range paths {
		if p.Why != "" {
			shape.Undecided("body outside the path vocabulary: %s", p.Why)
			return
		}
	}
	{
		// a shrinking window or a countdown over the spine is the index loop it stands for
		v := c.view(fd)
		paths = v.countdownNorm(v.windowNorm(paths))
	}
	bad, undec := "", ""
	badEmit := ""
	sample := ""
	for n := int64(0); n <= int64(c.depth(3, 6)) && bad == "" && undec == ""; n++ {
		got, why := c.emitted(fd, paths, n)
		if why != "" {
			undec = why
			break
		}
		var want []sTok
		want = append(want, sTok{Kind: "C", Text: open})
		for t := int64(0); t < n; t++ {
			if t > 0 {
				want = append(want, sTok{Kind: "C", Text: ","})
			}
			if !ct.IsList {
				want = append(want, sTok{Kind: "KEY"}, sTok{Kind: "C", Text: ":"})
			}
			want = append(want, sTok{Kind: "CHILD"})
		}
		want = mergeToks(append(want, sTok{Kind: "C", Text: close}))
		for _, t := range got {
			if t.Kind == "BAD" && badEmit == "" {
				badEmit = t.Text
			}
		}
		if tokStr(got) != tokStr(want) && badEmit == "" {
			bad = "with " + itoa(int(n)) + " element(s) the emitted text is  " + tokStr(got) + "  — expected  " + tokStr(want)
		}
		if bad == "" && badEmit == "" {
			// each element once, in range order: the k-th KEY and the k-th CHILD are those of iteration k
			nk, nc := int64(0), int64(0)
			for _, t := range got {
				switch t.Kind {
				case "KEY":
					if t.At != nk {
						bad = "with " + itoa(int(n)) + " element(s) the " + itoa(int(nk)+1) + ". key emitted is that of range iteration " + itoa(int(t.At)+1) + ": keys and values are not emitted pairwise in range order"
					}
					nk++
				case "CHILD":
					if t.At != nc {
						bad = "with " + itoa(int(n)) + " element(s) the " + itoa(int(nc)+1) + ". value emitted is that of range iteration " + itoa(int(t.At)+1) + ": an element is duplicated, dropped or out of order"
					}
					nc++
				}
			}
		}
		if n == 2 {
			sample = tokStr(got)
		}
	}
	switch {
	case undec != "":
		shape.Undecided("serialiser outside the emission vocabulary (builder writes, Sprintf with a constant format, +, strings.Join, one range loop): %s", undec)
	case badEmit != "":
		emit.Fail("%s", badEmit)
	case bad != "":
		if strings.Contains(bad, "','") || strings.Contains(bad, ",'") {
			sep.Fail("%s", bad)
		} else {
			shape.Fail("%s", bad)
		}
	default:
		shape.Ok("emitted text folded for 0.."+itoa(c.depth(3, 6))+" elements, e.g. 2 elements: %s", sample)
		emit.Ok("every byte comes from the container's own punctuation, the approved JSON string encoder applied to the range key, or the child's serialiser of the range value — each element exactly once, in range order")
		sep.Ok("',' is written exactly between consecutive elements (0.." + itoa(c.depth(3, 6)) + " elements folded)")
	}
}

// ---------------------------------------------------------------- scalar serialisers

type tagSet map[string]bool

// floatTags classifies the text of a FormatFloat call term: Fn (plain decimal, no '.'), Fm (plain with '.'), En/Em (exponent form).
func (v *sxView) floatTags(t Term) (tagSet, string) {
	call, ok := t.(TCall)
	if !ok || call.Fun == nil || call.Fun.FullName() != "strconv.FormatFloat" || len(call.Args) != 4 {
		return nil, "text is not a strconv.FormatFloat result"
	}
	if !v.isPayloadTerm(call.Args[0]) {
		return nil, "FormatFloat is not applied to the receiver's payload"
	}
	if bits, ok := constInt(simplify(call.Args[3])); !ok || bits != 64 {
		return nil, "FormatFloat bit size is not the constant 64"
	}
	prec, ok := constInt(simplify(call.Args[2]))
	if !ok {
		return nil, "FormatFloat precision is not a constant"
	}
	verb, ok := constInt(simplify(call.Args[1]))
	if !ok {
		return nil, "FormatFloat verb is not a constant on this path"
	}
	out := tagSet{}
	switch rune(verb) {
	case 'e', 'E':
		if prec == 0 {
			out["En"] = true
		} else if prec > 0 {
			out["Em"] = true
		} else {
			out["En"], out["Em"] = true, true
		}
	case 'f', 'F':
		if prec == 0 {
			out["Fn"] = true
		} else if prec > 0 {
			out["Fm"] = true
		} else {
			out["Fn"], out["Fm"] = true, true
		}
	case 'g', 'G':
		out["Fn"], out["Fm"], out["En"], out["Em"] = true, true, true, true
	default:
		return nil, "unknown FormatFloat verb"
	}
	return out, ""
}

// refineTags applies a path condition about the text term to its tag set.
func refineTags(text Term, tags tagSet, cd Cond) tagSet {
	var has func(tag string) bool
	truth := cd.Truth
	t := cd.T
	if u, ok := t.(TUn); ok && u.Op == token.NOT {
		t, truth = u.X, !truth
	}
	switch x := t.(type) {
	case TCall:
		if x.Fun == nil || len(x.Args) != 2 || !sameTerm(x.Args[0], text) {
			return tags
		}
		switch x.Fun.FullName() {
		case "strings.Contains":
			if s, ok := isConstStringTerm(x.Args[1]); ok && s == "." {
				has = func(tag string) bool { return tag == "Fm" || tag == "Em" }
			}
		case "strings.ContainsRune":
			if r, ok := constInt(x.Args[1]); ok && r == '.' {
				has = func(tag string) bool { return tag == "Fm" || tag == "Em" }
			}
		case "strings.ContainsAny":
			if s, ok := isConstStringTerm(x.Args[1]); ok {
				// the exponent letter the text can contain is the one of its FormatFloat verb
				exp := ""
				if fc, ok := text.(TCall); ok && len(fc.Args) == 4 {
					if verb, ok := constInt(simplify(fc.Args[1])); ok {
						switch rune(verb) {
						case 'e', 'g':
							exp = "e"
						case 'E', 'G':
							exp = "E"
						}
					}
				}
				definite := func(tag string) bool {
					return strings.Contains(s, ".") && (tag == "Fm" || tag == "Em") || exp != "" && strings.Contains(s, exp) && (tag == "En" || tag == "Em")
				}
				if strings.Trim(s, ".eE") != "" && truth {
					// a digit or a sign in the set: any text may contain it, the positive outcome says nothing
					return tags
				}
				has = definite
			}
		}
	case TBin:
		// strings.IndexByte(text, '.') < 0  /  >= 0 / == -1 / != -1 (either orientation after simplification)
		idx, k := x.X, x.Y
		op := x.Op
		if _, ok := constInt(idx); ok {
			idx, k = k, idx
			op = map[token.Token]token.Token{token.LSS: token.GTR, token.GTR: token.LSS, token.LEQ: token.GEQ, token.GEQ: token.LEQ, token.EQL: token.EQL, token.NEQ: token.NEQ}[op]
		}
		call, ok := idx.(TCall)
		kv, okk := constInt(k)
		if !ok || !okk || call.Fun == nil || len(call.Args) != 2 || !sameTerm(call.Args[0], text) {
			return tags
		}
		dot := false
		switch call.Fun.FullName() {
		case "strings.IndexByte", "strings.IndexRune":
			r, ok := constInt(call.Args[1])
			dot = ok && r == '.'
		case "strings.Index":
			s, ok := isConstStringTerm(call.Args[1])
			dot = ok && s == "."
		}
		if !dot {
			return tags
		}
		// found <=> index >= 0
		var foundWhenTrue, decided bool
		switch {
		case op == token.LSS && kv == 0, op == token.EQL && kv == -1, op == token.LEQ && kv == -1:
			foundWhenTrue, decided = false, true
		case op == token.GEQ && kv == 0, op == token.NEQ && kv == -1, op == token.GTR && kv == -1:
			foundWhenTrue, decided = true, true
		}
		if decided {
			has = func(tag string) bool { return tag == "Fm" || tag == "Em" }
			if !foundWhenTrue {
				truth = !truth
			}
		}
	}
	if has == nil {
		return tags
	}
	out := tagSet{}
	for tag := range tags {
		if has(tag) == truth {
			out[tag] = true
		}
	}
	return out
}

func c01FloatMarking(c *Ctx) {
	for _, w := range c.Inv().Wrappers {
		if c.wrapperKind(w) != "float" {
			continue
		}
		name := "(*" + w.Obj().Name() + ").serialize"
		fd := c.NeedDecl(serRule("C01.R3"), name)
		if fd == nil {
			return
		}
		v := c.view(fd)
		// string -> string helpers of the float serialiser ("append .0 unless there is a point") are followed; if one of them is outside the
		// path vocabulary it stays an opaque call, as for the other serialisers
		raw := c.NewSX().Run(fd)
		for _, p := range raw {
			if p.Why != "" {
				raw = c.serSX().Run(fd)
				break
			}
		}
		paths := v.flagNorm(raw) // a hand-written scan for the decimal point reads as strings.ContainsRune
		for i, p := range paths {
			paths[i] = mapPath(p, func(t Term) (Term, bool) { return c.normByteStrings(t), true })
		}
		n := 0
		for i, p := range paths {
			n++
			ob := c.Ob(serRule("C01.R3"), name+"#ret"+itoa(i+1), posOfNode(p.Node))
			ob2 := c.Ob(serRule("C02.R1"), name+"#ret"+itoa(i+1), posOfNode(p.Node))
			if p.Why != "" || p.End != "return" || len(p.Vals) != 1 || len(p.Effects()) != 0 {
				ob.Undecided("float serialiser path outside the vocabulary: %s %s", p.End, p.Why)
				continue
			}
			text, suffix := p.Vals[0], ""
			if b, ok := text.(TBin); ok && b.Op == token.ADD {
				if s, ok := isConstStringTerm(b.Y); ok {
					text, suffix = b.X, s
				}
			}
			tags, why := v.floatTags(text)
			if why != "" {
				ob.Undecided("%s", why)
				continue
			}
			for _, cd := range p.Conds() {
				tags = refineTags(text, tags, cd)
			}
			final := tagSet{}
			for tag := range tags {
				switch {
				case suffix == "":
					final[tag] = true
				case suffix == ".0" && tag == "Fn":
					final["Fm"] = true
				default:
					final["BAD:"+tag+"+"+suffix] = true
				}
			}
			var ts []string
			for t := range final {
				ts = append(ts, t)
			}
			sort.Strings(ts)
			bad, unmarked := "", false
			for _, t := range ts {
				if strings.HasPrefix(t, "BAD") {
					bad = t
				}
				if t == "Fn" {
					unmarked = true
				}
			}
			switch {
			case len(ts) == 0:
				ob.OkTrivial("path is infeasible for the text classes of its FormatFloat call")
				ob2.OkTrivial("infeasible path")
			case bad != "":
				ob.Fail("returned text may be malformed (%s): a suffix is appended to a text that is not a plain integer-like decimal, e.g. \"1e+06.0\"", bad)
				ob2.Fail("float text may not be a JSON number (%s)", bad)
			case unmarked:
				ob.Fail("a whole-valued float may be printed without '.', 'e' or 'E' (text classes %v): it reads back as an int", ts)
				ob2.Ok("float text classes %v are JSON numbers", ts)
			default:
				ob.Ok("text classes %v: always contains '.' or an exponent, so the parser's int stage cannot claim it", ts)
				ob2.Ok("float text classes %v are JSON numbers (FormatFloat with bit size 64 on a finite value)", ts)
			}
		}
		c.R.Floor(serRule("C01.R3"), n, 2)
	}
}

var valueEncoders = map[*Ctx]*types.Func{}

func c02Scalars(c *Ctx) {
	n := 0
	for _, w := range c.Inv().Wrappers {
		kind := c.wrapperKind(w)
		if kind == "float" {
			n++
			continue
		}
		name := "(*" + w.Obj().Name() + ").serialize"
		fd := c.NeedDecl(serRule("C02.R1"), name)
		if fd == nil {
			continue
		}
		n++
		ob := c.Ob(serRule("C02.R1"), name, fd.Pos())
		paths := c.serSX().Run(fd)
		v := c.view(fd)
		if kind == "bool" && len(paths) > 1 {
			// a branching serialiser: folded for both payloads
			bad := ""
			for _, b := range []bool{true, false} {
				hook := func(t Term) (sval, bool) {
					if v.isPayloadTerm(t) {
						return sval{K: 'b', B: b}, true
					}
					return sval{}, false
				}
				got, n := "", 0
				for _, p := range paths {
					if p.Why != "" || p.End != "return" || len(p.Vals) != 1 || len(p.Effects()) != 0 {
						bad = "a path of the serialiser is not an effect-free return"
						break
					}
					feasible := true
					for _, cd := range p.Conds() {
						e := &strEnv{hook: hook}
						cv, ok := e.val(cd.T)
						if !ok || cv.K != 'b' {
							bad = "a condition of the serialiser is not a function of the payload: " + c.termStr(cd.T)
							break
						}
						if cv.B != cd.Truth {
							feasible = false
							break
						}
					}
					if bad != "" {
						break
					}
					if !feasible {
						continue
					}
					e := &strEnv{hook: hook}
					rv, ok := e.val(p.Vals[0])
					if !ok || rv.K != 's' {
						bad = "the returned text is not a function of the payload: " + c.termStr(p.Vals[0])
						break
					}
					got = rv.S
					n++
				}
				if bad == "" && (n != 1 || got != strconv.FormatBool(b)) {
					bad = "payload " + strconv.FormatBool(b) + " is emitted as " + strconv.Quote(got)
				}
				if bad != "" {
					break
				}
			}
			if strings.HasPrefix(bad, "payload") {
				ob.Fail("bool wrapper does not emit true|false for its payload: %s", bad)
			} else if bad != "" {
				ob.Undecided("%s", bad)
			} else {
				ob.Ok("folded for both payloads over %d paths: emits true for true and false for false", len(paths))
			}
			continue
		}
		if len(paths) != 1 || paths[0].Why != "" || paths[0].End != "return" || len(paths[0].Vals) != 1 || len(paths[0].Effects()) != 0 {
			ob.Undecided("serialiser is not a single effect-free return")
			continue
		}
		res := c.normByteStrings(paths[0].Vals[0]) // string(strconv.AppendInt(scratch[:0], …)) reads as strconv.FormatInt(…)
		call, isCall := res.(TCall)
		switch kind {
		case "nil":
			s, ok := isConstStringTerm(res)
			ob.Check(ok && s == "null", "emits the literal null", "nil wrapper does not emit `null`")
		case "bool":
			ob.Check(isCall && call.Fun != nil && call.Fun.FullName() == "strconv.FormatBool" && len(call.Args) == 1 && v.isPayloadTerm(call.Args[0]), "strconv.FormatBool(payload): true|false", "bool wrapper does not emit strconv.FormatBool(payload)")
		case "int":
			good := false
			if isCall && call.Fun != nil {
				switch call.Fun.FullName() {
				case "strconv.Itoa":
					good = len(call.Args) == 1 && v.isPayloadTerm(call.Args[0])
				case "strconv.FormatInt":
					if len(call.Args) == 2 {
						base, okb := constInt(simplify(call.Args[1]))
						if cv, ok := call.Args[0].(TConv); ok && okb && base == 10 {
							good = v.isPayloadTerm(cv.X)
						}
					}
				}
			}
			ob.Check(good, "decimal integer text of the payload (Itoa/FormatInt base 10): a JSON int without '.', 'e'", "int wrapper does not emit the decimal text of its payload")
			c.Ob(serRule("C01.R3"), name, fd.Pos()).Check(good, "int text is Itoa/FormatInt(…,10) of the payload", "int text is not the plain decimal of the payload")
		case "string":
			if !isCall || call.Fun == nil || len(call.Args) != 1 || !v.isPayloadTerm(call.Args[0]) {
				ob.Fail("string wrapper does not emit an encoder applied to its payload")
				continue
			}
			cls, why := c.stringHelperClass(call.Fun)
			switch cls {
			case "json":
				ob.Ok("string payload goes through %s, classified JSON-string-safe (encoding/json)", call.Fun.Name())
				valueEncoders[c] = call.Fun
			case "go-syntax":
				ob.Fail("%s emits Go literal syntax (\\x01, \\a, \\v, \\U0001f600), which an RFC 8259 decoder rejects", call.Fun.FullName())
			default:
				ob.Undecided("string encoder %s is not an approved JSON string encoder: %s", call.Fun.Name(), why)
			}
		default:
			ob.Undecided("wrapper of unknown kind")
		}
	}
	c.R.Floor(serRule("C02.R1"), n, 5)
}

func c02String(c *Ctx) {
	n := 0
	for _, ct := range c.Inv().Conts {
		name := "(*" + ct.Named.Obj().Name() + ").String"
		fd := c.NeedDecl(serRule("C02.R4"), name)
		if fd == nil {
			continue
		}
		n++
		paths, why := c.runPaths(fd)
		v := c.view(fd)
		good := why == "" && len(paths) == 1 && paths[0].End == "return" && len(paths[0].Vals) == 1 && len(paths[0].Effects()) == 0
		if good {
			nm, args, ok := v.selfCall(paths[0].Vals[0])
			good = ok && nm == "serialize" && len(args) == 0
			if call, isCall := paths[0].Vals[0].(TCall); isCall && !good {
				debugf("c02String %s: fun=%v recv=%s self=%v ct=%v\n", name, call.Fun, key(call.Recv), call.Recv != nil && v.isSelf(call.Recv), v.ct != nil)
			}
		}
		c.Ob(serRule("C02.R4"), name, fd.Pos()).Check(good, "String() returns self.serialize() unmodified", "String() is not `return self.serialize()`")
	}
	c.R.Floor(serRule("C02.R4"), n, 2)
}

func c02Rules() []Rule {
	return []Rule{
		{ID: "C02.R1", Doc: "emitter discipline: every byte of String() comes from the container's own JSON punctuation, a child serialiser, or an approved encoder (JSON-string-safe for strings and keys, JSON number/literal for int, float64, bool, nil)", Run: func(c *Ctx) {
			c02Scalars(c)
			c01FloatMarking(c)
		}},
		{ID: "C02.R2", Doc: "shape: '[' (CHILD (',' CHILD)*)? ']' and '{' (KEY ':' CHILD (',' KEY ':' CHILD)*)? '}' over one range of the receiver's own spine (emitted text folded for 0..3 elements)", Run: func(c *Ctx) {
			for _, ct := range c.Inv().Conts {
				c02Container(c, ct)
			}
		}},
		{ID: "C02.R3", Doc: "',' exactly between consecutive elements (part of the folded emission)", Run: func(c *Ctx) {}},
		{ID: "C02.R4", Doc: "String() returns serialize() of the receiver unmodified", Run: c02String},
	}
}

func init() {
	register(&Property{
		ID: "C02",
		Explanation: "Token-source dataflow of the 7 serialize implementations on the symbolic path normal form (SX): the text a container serialiser emits is folded for 0..3 elements — strings.Builder/bytes.Buffer writes, fmt.Sprintf/Fprintf with a constant format made of %s verbs and punctuation, +, strings.Join over an accumulated item slice, counters — " +
			"into a token sequence over {constant, CHILD = serialize of the range value, KEY = encoder applied to the range key}, which must equal '[' (CHILD (',' CHILD)*)? ']' resp. '{' (KEY ':' CHILD (',' …)*)? '}'; encoders are classified by the trusted language table (strconv.Quote* = Go syntax, not JSON; encoding/json = JSON; " +
			"repo-local helpers are analysed down to an accepted straight-line shape); float text is tracked in a small abstract domain (plain/with '.', exponent/with '.'). The encoders' own conformance, NaN/Inf and invalid UTF-8 in stored strings are outside.",
		Rules: c02Rules(),
	})
}

// isCharType: byte, rune (or another integer type a character constant was stored in).
func isCharType(t types.Type) bool {
	b, ok := t.Underlying().(*types.Basic)
	return ok && (b.Kind() == types.Uint8 || b.Kind() == types.Int32)
}
