package main

// E8 — serialiser token-source dataflow: C02, the serialiser half of C01, C16.

import (
	"go/ast"
	"go/token"
	"go/types"
	"sort"
	"strings"
)

// ---------------------------------------------------------------- trusted language table (DESIGN.md §7)

// stringEncoderClass classifies a function (by resolved full name) that turns a string into a quoted literal.
func stringEncoderClass(full string) string {
	switch full {
	case "strconv.Quote", "strconv.QuoteToASCII", "strconv.QuoteToGraphic", "strconv.AppendQuote":
		return "go-syntax"
	case "encoding/json.Marshal", "(*encoding/json.Encoder).Encode":
		return "json"
	}
	return ""
}

// ---------------------------------------------------------------- helpers

// payloadOf: expression denotes the receiver's payload: recv.val, recv.getVal().(T), or a single-assignment local of those.
func (c *Ctx) isPayload(fd *ast.FuncDecl, e ast.Expr, alias map[types.Object]ast.Expr) bool {
	for k := 0; k < 4; k++ {
		e = unparen(e)
		if id, ok := e.(*ast.Ident); ok {
			if d, ok := alias[c.obj(id)]; ok {
				e = d
				continue
			}
		}
		break
	}
	recv := c.recvObj(fd)
	switch x := e.(type) {
	case *ast.SelectorExpr:
		if c.obj(x.X) == recv {
			if s := c.Info.Selections[x]; s != nil && s.Kind() == types.FieldVal {
				return true
			}
		}
	case *ast.TypeAssertExpr:
		if call, ok := unparen(x.X).(*ast.CallExpr); ok && len(call.Args) == 0 {
			if sel, ok := unparen(call.Fun).(*ast.SelectorExpr); ok && c.obj(sel.X) == recv && c.isValueAccessor(c.callee(call)) {
				return true
			}
		}
	}
	return false
}

func singleAssignAliases(c *Ctx, body *ast.BlockStmt) map[types.Object]ast.Expr {
	counts := map[types.Object]int{}
	def := map[types.Object]ast.Expr{}
	ast.Inspect(body, func(n ast.Node) bool {
		switch x := n.(type) {
		case *ast.AssignStmt:
			for i, l := range x.Lhs {
				if o := c.obj(l); o != nil {
					counts[o]++
					if len(x.Lhs) == len(x.Rhs) {
						def[o] = x.Rhs[i]
					}
				}
			}
		case *ast.IncDecStmt:
			if o := c.obj(x.X); o != nil {
				counts[o] += 2
			}
		}
		return true
	})
	out := map[types.Object]ast.Expr{}
	for o, n := range counts {
		if n == 1 && def[o] != nil {
			out[o] = def[o]
		}
	}
	return out
}

// stringHelperClass analyses a repo-local helper func(string) string and classifies it as a string encoder.
// Accepted shapes (DESIGN.md E8): `b, _ := json.Marshal(x); return string(b)` and
// `var buf bytes.Buffer; enc := json.NewEncoder(&buf); [enc.SetEscapeHTML(false);] enc.Encode(x); return strings.TrimSuffix(buf.String(), "\n")`.
func (c *Ctx) stringHelperClass(fn *types.Func) (class, why string) {
	if cls := stringEncoderClass(fn.FullName()); cls != "" {
		return cls, ""
	}
	fd := c.DeclOf(fn)
	if fd == nil {
		return "", "not a known encoder and not a function of this package"
	}
	par := soleParam(c, fd)
	if par == nil {
		return "", "helper does not take exactly one parameter"
	}
	body := fd.Body.List
	// shape A
	if len(body) == 2 {
		if as, ok := body[0].(*ast.AssignStmt); ok && len(as.Lhs) == 2 && len(as.Rhs) == 1 {
			if call, ok := unparen(as.Rhs[0]).(*ast.CallExpr); ok && c.calleeFull(call) == "encoding/json.Marshal" && len(call.Args) == 1 && c.obj(call.Args[0]) == par {
				if r, ok := body[1].(*ast.ReturnStmt); ok && len(r.Results) == 1 {
					if conv, ok := unparen(r.Results[0]).(*ast.CallExpr); ok && len(conv.Args) == 1 && c.obj(conv.Args[0]) == c.obj(as.Lhs[0]) {
						if tv, ok := c.Info.Types[conv.Fun]; ok && tv.IsType() {
							return "json", ""
						}
					}
				}
			}
		}
	}
	// shape B
	var buf, enc types.Object
	encoded, trimmed := false, false
	for _, s := range body {
		switch x := s.(type) {
		case *ast.DeclStmt:
			gd := x.Decl.(*ast.GenDecl)
			if len(gd.Specs) != 1 {
				return "", "unexpected declaration in the helper"
			}
			vs, ok := gd.Specs[0].(*ast.ValueSpec)
			if !ok || len(vs.Names) != 1 || len(vs.Values) != 0 || buf != nil {
				return "", "unexpected declaration in the helper"
			}
			if t := c.typeOf(vs.Type); t == nil || t.String() != "bytes.Buffer" {
				return "", "helper declares something other than a local bytes.Buffer"
			}
			buf = c.Info.Defs[vs.Names[0]]
		case *ast.AssignStmt:
			call, ok := unparen(x.Rhs[0]).(*ast.CallExpr)
			if !ok || len(x.Lhs) != 1 || c.calleeFull(call) != "encoding/json.NewEncoder" || len(call.Args) != 1 || enc != nil {
				return "", "unexpected assignment in the helper"
			}
			u, ok := unparen(call.Args[0]).(*ast.UnaryExpr)
			if !ok || u.Op != token.AND || c.obj(u.X) != buf || buf == nil {
				return "", "the encoder does not write into the helper's own local buffer"
			}
			enc = c.obj(x.Lhs[0])
		case *ast.ExprStmt:
			call, ok := x.X.(*ast.CallExpr)
			if !ok {
				return "", "unexpected statement in the helper"
			}
			sel, ok := unparen(call.Fun).(*ast.SelectorExpr)
			if !ok || c.obj(sel.X) != enc || enc == nil {
				return "", "unexpected call in the helper"
			}
			switch c.calleeFull(call) {
			case "(*encoding/json.Encoder).SetEscapeHTML":
			case "(*encoding/json.Encoder).Encode":
				if len(call.Args) != 1 || c.obj(call.Args[0]) != par || encoded {
					return "", "Encode is not applied exactly once to the helper's parameter"
				}
				encoded = true
			default:
				return "", "unexpected encoder method " + c.calleeFull(call)
			}
		case *ast.ReturnStmt:
			if len(x.Results) != 1 || !encoded {
				return "", "helper returns before encoding"
			}
			call, ok := unparen(x.Results[0]).(*ast.CallExpr)
			if !ok || c.calleeFull(call) != "strings.TrimSuffix" || len(call.Args) != 2 {
				return "", "the trailing newline appended by Encoder.Encode is not trimmed with strings.TrimSuffix(…, \"\\n\")"
			}
			if sfx, ok := c.constString(call.Args[1]); !ok || sfx != "\n" {
				return "", "TrimSuffix does not remove exactly the one trailing newline"
			}
			bs, ok := unparen(call.Args[0]).(*ast.CallExpr)
			if !ok || len(bs.Args) != 0 || c.calleeFull(bs) != "(*bytes.Buffer).String" {
				return "", "helper does not return the buffer's content"
			}
			if sel, ok := unparen(bs.Fun).(*ast.SelectorExpr); !ok || c.obj(sel.X) != buf {
				return "", "helper returns another buffer's content"
			}
			trimmed = true
		default:
			return "", "statement outside the accepted encoder-helper shapes"
		}
	}
	if encoded && trimmed {
		return "json", ""
	}
	return "", "helper matches no accepted encoder shape"
}

// ---------------------------------------------------------------- token sources

type sTok struct {
	Kind string // CONST, CHILD, KEY, BAD
	Text string
	Why  string
	Pos  token.Pos
}

// tokensOf decomposes a string expression into ordered token sources.
func (c *Ctx) tokensOf(fd *ast.FuncDecl, e ast.Expr, key, val types.Object) []sTok {
	e = unparen(e)
	if s, ok := c.constString(e); ok {
		return []sTok{{Kind: "CONST", Text: s, Pos: e.Pos()}}
	}
	if tv, ok := c.Info.Types[e]; ok && tv.Value != nil { // rune constant passed to WriteRune
		if r, ok := c.constInt(e); ok {
			return []sTok{{Kind: "CONST", Text: string(rune(r)), Pos: e.Pos()}}
		}
	}
	switch x := e.(type) {
	case *ast.BinaryExpr:
		if x.Op == token.ADD {
			return append(c.tokensOf(fd, x.X, key, val), c.tokensOf(fd, x.Y, key, val)...)
		}
	case *ast.CallExpr:
		full := c.calleeFull(x)
		if full == "fmt.Sprintf" {
			return c.sprintfTokens(fd, x.Args, key, val, x.Pos())
		}
		// child serialisation: <range value>.serialize()
		if sel, ok := unparen(x.Fun).(*ast.SelectorExpr); ok && len(x.Args) == 0 && val != nil && c.obj(sel.X) == val {
			if f := c.callee(x); f != nil && f.Name() == c.FuncObj(fd).Name() {
				return []sTok{{Kind: "CHILD", Pos: x.Pos()}}
			}
		}
		// key encoder applied to the range key
		if f := c.callee(x); f != nil && len(x.Args) == 1 && key != nil && c.obj(x.Args[0]) == key {
			cls, why := c.stringHelperClass(f)
			switch cls {
			case "json":
				return []sTok{{Kind: "KEY", Text: f.Name(), Pos: x.Pos()}}
			case "go-syntax":
				return []sTok{{Kind: "BAD", Why: f.FullName() + " emits Go literal syntax (\\x01, \\a, \\v, \\U…), which is not JSON", Pos: x.Pos()}}
			default:
				return []sTok{{Kind: "BAD", Why: "key encoder " + f.Name() + " is not an approved JSON string encoder: " + why, Pos: x.Pos()}}
			}
		}
	}
	return []sTok{{Kind: "BAD", Why: "token source not understood: " + exprStr(e), Pos: e.Pos()}}
}

func (c *Ctx) sprintfTokens(fd *ast.FuncDecl, args []ast.Expr, key, val types.Object, pos token.Pos) []sTok {
	if len(args) == 0 {
		return []sTok{{Kind: "BAD", Why: "Sprintf without format", Pos: pos}}
	}
	format, ok := c.constString(args[0])
	if !ok {
		return []sTok{{Kind: "BAD", Why: "format string is not a constant: data (a key or value) is interpreted as formatting verbs", Pos: pos}}
	}
	var out []sTok
	rest := args[1:]
	for {
		i := strings.Index(format, "%")
		if i < 0 {
			break
		}
		if i > 0 {
			out = append(out, sTok{Kind: "CONST", Text: format[:i], Pos: pos})
		}
		if i+1 >= len(format) || format[i+1] != 's' {
			verb := "%"
			if i+1 < len(format) {
				verb += string(format[i+1])
			}
			return append(out, sTok{Kind: "BAD", Why: "format verb " + verb + " (only %s of already-encoded text is accepted; %v/%q/%d emit Go syntax)", Pos: pos})
		}
		if len(rest) == 0 {
			return append(out, sTok{Kind: "BAD", Why: "missing Sprintf argument", Pos: pos})
		}
		out = append(out, c.tokensOf(fd, rest[0], key, val)...)
		rest = rest[1:]
		format = format[i+2:]
	}
	if format != "" {
		out = append(out, sTok{Kind: "CONST", Text: format, Pos: pos})
	}
	if len(rest) != 0 {
		out = append(out, sTok{Kind: "BAD", Why: "extra Sprintf argument", Pos: pos})
	}
	return out
}

// builderWrite: stmt is b.WriteRune/WriteString/WriteByte(x) or fmt.Fprintf(&b, …) on builder b; returns tokens.
func (c *Ctx) builderWrite(fd *ast.FuncDecl, s ast.Stmt, b types.Object, key, val types.Object) ([]sTok, bool) {
	es, ok := s.(*ast.ExprStmt)
	if !ok {
		return nil, false
	}
	call, ok := es.X.(*ast.CallExpr)
	if !ok {
		return nil, false
	}
	full := c.calleeFull(call)
	if full == "fmt.Fprintf" || full == "fmt.Fprint" {
		if len(call.Args) >= 2 {
			if u, ok := unparen(call.Args[0]).(*ast.UnaryExpr); ok && u.Op == token.AND && c.obj(u.X) == b {
				if full == "fmt.Fprint" {
					return []sTok{{Kind: "BAD", Why: "fmt.Fprint formats values with %v (Go syntax)", Pos: call.Pos()}}, true
				}
				return c.sprintfTokens(fd, call.Args[1:], key, val, call.Pos()), true
			}
		}
		return nil, false
	}
	sel, ok := unparen(call.Fun).(*ast.SelectorExpr)
	if !ok || c.obj(sel.X) != b || len(call.Args) != 1 {
		return nil, false
	}
	switch sel.Sel.Name {
	case "WriteRune", "WriteString", "WriteByte":
		return c.tokensOf(fd, call.Args[0], key, val), true
	}
	return nil, false
}

func tokString(ts []sTok) string {
	var p []string
	for _, t := range ts {
		if t.Kind == "CONST" {
			p = append(p, "'"+t.Text+"'")
		} else {
			p = append(p, t.Kind)
		}
	}
	return strings.Join(p, " ")
}

// mergeConsts joins adjacent constants.
func mergeConsts(ts []sTok) []sTok {
	var out []sTok
	for _, t := range ts {
		if t.Kind == "CONST" && len(out) > 0 && out[len(out)-1].Kind == "CONST" {
			out[len(out)-1].Text += t.Text
			continue
		}
		out = append(out, t)
	}
	return out
}

// ---------------------------------------------------------------- container serialisers

func c02Container(c *Ctx, ct *Cont) {
	tn := ct.Named.Obj().Name()
	name := "(*" + tn + ").serialize"
	fd := c.NeedDecl(serRule("C02.R2"), name)
	if fd == nil {
		return
	}
	open, close := "{", "}"
	if ct.IsList {
		open, close = "[", "]"
	}
	shape := c.Ob(serRule("C02.R2"), name+"/shape", fd.Pos())
	// builder
	var b types.Object
	for _, s := range fd.Body.List {
		if ds, ok := s.(*ast.DeclStmt); ok {
			if gd, ok := ds.Decl.(*ast.GenDecl); ok {
				for _, sp := range gd.Specs {
					if vs, ok := sp.(*ast.ValueSpec); ok && len(vs.Names) == 1 {
						if t := c.typeOf(vs.Type); t != nil && t.String() == "strings.Builder" {
							b = c.Info.Defs[vs.Names[0]]
						}
					}
				}
			}
		}
	}
	sl := spineLoops(c, fd)
	if b == nil || len(sl) != 1 || len(allLoops(fd)) != 1 || sl[0].Depth != 0 {
		shape.Undecided("serialiser is not: strings.Builder + one range loop over the receiver's spine")
		return
	}
	l := sl[0]
	if why := loopHasEarlyExit(l.Stmt); why != "" {
		shape.Fail("%s inside the serialisation loop: an element is dropped or duplicated", why)
		return
	}
	var pre, post []sTok
	var counter types.Object
	counterInit := int64(0)
	phase := 0
	for _, s := range fd.Body.List {
		switch {
		case s == ast.Stmt(l.Stmt):
			phase = 1
			continue
		}
		if _, ok := s.(*ast.DeclStmt); ok {
			continue
		}
		if as, ok := s.(*ast.AssignStmt); ok && phase == 0 && as.Tok == token.DEFINE && len(as.Lhs) == 1 && len(as.Rhs) == 1 {
			if k, ok := c.constInt(as.Rhs[0]); ok && counter == nil {
				counter, counterInit = c.obj(as.Lhs[0]), k
				continue
			}
		}
		if r, ok := s.(*ast.ReturnStmt); ok && phase == 1 {
			good := len(r.Results) == 1
			if good {
				call, ok := unparen(r.Results[0]).(*ast.CallExpr)
				good = ok && len(call.Args) == 0 && c.calleeFull(call) == "(*strings.Builder).String"
				if good {
					sel := unparen(call.Fun).(*ast.SelectorExpr)
					good = c.obj(sel.X) == b
				}
			}
			if !good {
				shape.Fail("serialiser does not return the builder's content")
				return
			}
			continue
		}
		ts, ok := c.builderWrite(fd, s, b, nil, nil)
		if !ok {
			shape.Undecided("statement outside the vocabulary (builder writes, one loop, return builder.String())")
			return
		}
		if phase == 0 {
			pre = append(pre, ts...)
		} else {
			post = append(post, ts...)
		}
	}
	pre, post = mergeConsts(pre), mergeConsts(post)
	okFrame := len(pre) == 1 && pre[0].Kind == "CONST" && pre[0].Text == open && len(post) == 1 && post[0].Kind == "CONST" && post[0].Text == close
	c.Ob(serRule("C02.R2"), name+"/brackets", fd.Pos()).Check(okFrame, "opens with '"+open+"' and closes with '"+close+"' exactly once", "text outside the loop is "+tokString(pre)+" … "+tokString(post)+", expected '"+open+"' … '"+close+"'")
	// loop body: writes and at most one guarded separator write
	var elemToks []sTok
	var sepIf *ast.IfStmt
	sepBefore := false
	counterIncBeforeCond := false
	counterIncs := 0
	for _, s := range l.Stmt.Body.List {
		switch x := s.(type) {
		case *ast.IfStmt:
			if sepIf != nil || x.Else != nil {
				shape.Undecided("more than one conditional in the loop body")
				return
			}
			if x.Init != nil {
				if inc, ok := x.Init.(*ast.IncDecStmt); ok && inc.Tok == token.INC && counter != nil && c.obj(inc.X) == counter {
					counterIncs++
					counterIncBeforeCond = true
				} else {
					shape.Undecided("if-init statement not understood")
					return
				}
			}
			if len(x.Body.List) != 1 {
				shape.Undecided("separator branch has more than one statement")
				return
			}
			ts, ok := c.builderWrite(fd, x.Body.List[0], b, l.Key, l.Value)
			ts = mergeConsts(ts)
			if !ok || len(ts) != 1 || ts[0].Kind != "CONST" || ts[0].Text != "," {
				shape.Fail("the conditional write inside the loop is not the ',' separator")
				return
			}
			sepIf = x
			sepBefore = len(elemToks) == 0
		case *ast.IncDecStmt:
			if counter != nil && c.obj(x.X) == counter && x.Tok == token.INC {
				counterIncs++
				if sepIf == nil {
					counterIncBeforeCond = true
				}
				continue
			}
			shape.Undecided("increment of an unknown variable in the loop")
			return
		default:
			ts, ok := c.builderWrite(fd, s, b, l.Key, l.Value)
			if !ok {
				shape.Undecided("loop statement outside the vocabulary")
				return
			}
			elemToks = append(elemToks, ts...)
		}
	}
	elemToks = mergeConsts(elemToks)
	shape.Ok("Builder: %s  ( %s  [sep] )*  %s", tokString(pre), tokString(elemToks), tokString(post))
	// R1: emitter discipline on every token
	r1 := c.Ob(serRule("C02.R1"), name+"/emitters", l.Stmt.Pos())
	bad := ""
	for _, t := range elemToks {
		if t.Kind == "BAD" {
			bad = t.Why
		}
	}
	var wantSeq string
	if ct.IsList {
		wantSeq = "CHILD"
	} else {
		wantSeq = "KEY ':' CHILD"
	}
	switch {
	case bad != "":
		r1.Fail("%s", bad)
	case tokString(elemToks) != wantSeq:
		r1.Fail("per-element text is %s, expected %s (own punctuation, the JSON-encoded range key, the child's serialisation — each exactly once)", tokString(elemToks), wantSeq)
	default:
		r1.Ok("per element: %s — only own punctuation, the approved JSON string encoder on the range key, and the child serialiser", wantSeq)
	}
	// R3: separator guard
	r3 := c.Ob(serRule("C02.R3"), name+"/separator", l.Stmt.Pos())
	if sepIf == nil {
		r3.Fail("no guarded ',' between elements")
		return
	}
	if counter != nil && counterIncs > 1 {
		r3.Fail("the counter is incremented more than once per iteration")
		return
	}
	good, why := true, ""
	for n := int64(1); n <= 4 && good; n++ {
		for t := int64(0); t < n && good; t++ {
			vars := map[types.Object]int64{}
			if l.Key != nil && ct.IsList {
				vars[l.Key] = t
			}
			if counter != nil && counterIncs == 1 {
				vars[counter] = counterInit + t
				if counterIncBeforeCond {
					vars[counter] = counterInit + t + 1
				}
			}
			ev := &evalEnv{c: c, vars: vars, hook: func(e ast.Expr) (int64, bool) {
				if c.isCountOfRecv(fd, e) {
					return n, true
				}
				return 0, false
			}}
			v, ok := ev.bool(sepIf.Cond)
			want := t < n-1
			if sepBefore {
				want = t > 0
			}
			if !ok {
				good, why = false, "separator condition outside the vocabulary: "+ev.fail
			} else if v != want {
				good, why = false, "with "+itoa(int(n))+" elements, iteration "+itoa(int(t))+": ',' written="+boolStr(v)+", expected "+boolStr(want)
			}
		}
	}
	if good {
		r3.Ok("',' is written exactly between consecutive elements (folded for 1..4 elements): %s", exprStr(sepIf.Cond))
	} else {
		r3.Fail("separator guard %s is not `not the %s iteration`: %s", exprStr(sepIf.Cond), map[bool]string{true: "first", false: "last"}[sepBefore], why)
	}
}

// ---------------------------------------------------------------- scalar serialisers

// float text tags: Fn (plain decimal, no '.'), Fm (plain decimal with '.'), En/Em (exponent form without/with '.'), BAD
type tagSet map[string]bool

func (t tagSet) clone() tagSet {
	o := tagSet{}
	for k := range t {
		o[k] = true
	}
	return o
}

type fstate struct {
	strs  map[types.Object]tagSet
	verbs map[types.Object]map[rune]bool
}

func (s *fstate) clone() *fstate {
	n := &fstate{strs: map[types.Object]tagSet{}, verbs: map[types.Object]map[rune]bool{}}
	for k, v := range s.strs {
		n.strs[k] = v.clone()
	}
	for k, v := range s.verbs {
		m := map[rune]bool{}
		for r := range v {
			m[r] = true
		}
		n.verbs[k] = m
	}
	return n
}

type floatInterp struct {
	c       *Ctx
	fd      *ast.FuncDecl
	alias   map[types.Object]ast.Expr
	returns []struct {
		tags tagSet
		pos  token.Pos
	}
	undecided string
}

func (fi *floatInterp) textOf(e ast.Expr, st *fstate) tagSet {
	c := fi.c
	e = unparen(e)
	if id, ok := e.(*ast.Ident); ok {
		if t, ok := st.strs[c.obj(id)]; ok {
			return t.clone()
		}
	}
	if be, ok := e.(*ast.BinaryExpr); ok && be.Op == token.ADD {
		base := fi.textOf(be.X, st)
		sfx, ok := c.constString(be.Y)
		if base == nil || !ok {
			return nil
		}
		return appendSuffix(base, sfx)
	}
	call, ok := e.(*ast.CallExpr)
	if !ok {
		return nil
	}
	switch c.calleeFull(call) {
	case "strconv.FormatFloat":
		if len(call.Args) != 4 || !c.isPayload(fi.fd, call.Args[0], fi.alias) {
			return nil
		}
		if bits, ok := c.constInt(call.Args[3]); !ok || bits != 64 {
			fi.undecided = "FormatFloat bit size is not the constant 64"
			return nil
		}
		prec, ok := c.constInt(call.Args[2])
		if !ok {
			return nil
		}
		verbs := map[rune]bool{}
		if v, ok := c.constInt(call.Args[1]); ok {
			verbs[rune(v)] = true
		} else if m, ok := st.verbs[c.obj(call.Args[1])]; ok {
			verbs = m
		} else {
			return nil
		}
		out := tagSet{}
		for v := range verbs {
			switch v {
			case 'e', 'E':
				if prec == 0 {
					out["En"] = true
				} else if prec > 0 {
					out["Em"] = true
				} else {
					out["En"], out["Em"] = true, true
				}
			case 'f', 'F':
				if prec == 0 {
					out["Fn"] = true
				} else if prec > 0 {
					out["Fm"] = true
				} else {
					out["Fn"], out["Fm"] = true, true
				}
			case 'g', 'G':
				out["Fn"], out["Fm"], out["En"], out["Em"] = true, true, true, true
			default:
				out["BAD"] = true
			}
		}
		return out
	}
	return nil
}

func appendSuffix(base tagSet, sfx string) tagSet {
	out := tagSet{}
	for t := range base {
		switch {
		case sfx == "":
			out[t] = true
		case sfx == ".0" && t == "Fn":
			out["Fm"] = true
		default:
			out["BAD:"+t+"+"+sfx] = true
		}
	}
	return out
}

// split refines the tag set of variable v by a condition; returns (true-branch state, false-branch state).
func (fi *floatInterp) split(cond ast.Expr, st *fstate) (*fstate, *fstate) {
	c := fi.c
	t, f := st.clone(), st.clone()
	at := atomOf(cond, false)
	call, ok := at.Expr.(*ast.CallExpr)
	if !ok || len(call.Args) != 2 {
		return t, f
	}
	v := c.obj(call.Args[0])
	set, tracked := st.strs[v]
	needle, isConst := c.constString(call.Args[1])
	if !tracked || !isConst {
		return t, f
	}
	var has func(tag string) bool
	switch c.calleeFull(call) {
	case "strings.Contains":
		switch needle {
		case ".":
			has = func(tag string) bool { return tag == "Fm" || tag == "Em" }
		case "e":
			has = func(tag string) bool { return tag == "En" || tag == "Em" } // lower-case 'e' only for verb 'e'; conservative enough for the table
		default:
			return t, f
		}
	case "strings.ContainsAny":
		chars := map[rune]bool{}
		for _, r := range needle {
			chars[r] = true
		}
		switch {
		case chars['.'] && (chars['e'] || chars['E']):
			has = func(tag string) bool { return tag != "Fn" }
		case chars['.']:
			has = func(tag string) bool { return tag == "Fm" || tag == "Em" }
		default:
			return t, f
		}
	default:
		return t, f
	}
	yes, no := tagSet{}, tagSet{}
	for tag := range set {
		if strings.HasPrefix(tag, "BAD") {
			yes[tag], no[tag] = true, true
		} else if has(tag) {
			yes[tag] = true
		} else {
			no[tag] = true
		}
	}
	if at.Neg {
		yes, no = no, yes
	}
	t.strs[v], f.strs[v] = yes, no
	return t, f
}

// exec runs the statement list on the abstract state; returns the fall-through states.
func (fi *floatInterp) exec(stmts []ast.Stmt, in []*fstate) []*fstate {
	c := fi.c
	cur := in
	for _, s := range stmts {
		if len(cur) == 0 {
			return nil
		}
		var next []*fstate
		switch x := s.(type) {
		case *ast.AssignStmt:
			for _, st := range cur {
				if len(x.Lhs) != 1 || len(x.Rhs) != 1 {
					fi.undecided = "multi-assignment in the float serialiser"
					return nil
				}
				o := c.obj(x.Lhs[0])
				switch {
				case x.Tok == token.ADD_ASSIGN:
					sfx, ok := c.constString(x.Rhs[0])
					if base, tracked := st.strs[o]; tracked && ok {
						st.strs[o] = appendSuffix(base, sfx)
					} else {
						fi.undecided = "append to an untracked string"
					}
				default:
					if t := fi.textOf(x.Rhs[0], st); t != nil {
						st.strs[o] = t
					} else if v, ok := c.constInt(x.Rhs[0]); ok && isByteLike(c.typeOf(x.Rhs[0])) {
						st.verbs[o] = map[rune]bool{rune(v): true}
					}
					// other locals (val, abs, …) are not text: ignored
				}
				next = append(next, st)
			}
		case *ast.DeclStmt:
			next = cur
		case *ast.IfStmt:
			if x.Init != nil {
				fi.undecided = "if with init statement"
				return nil
			}
			for _, st := range cur {
				t, f := fi.split(x.Cond, st)
				next = append(next, fi.exec(x.Body.List, []*fstate{t})...)
				switch e := x.Else.(type) {
				case nil:
					next = append(next, f)
				case *ast.BlockStmt:
					next = append(next, fi.exec(e.List, []*fstate{f})...)
				case *ast.IfStmt:
					next = append(next, fi.exec([]ast.Stmt{e}, []*fstate{f})...)
				}
			}
		case *ast.ReturnStmt:
			for _, st := range cur {
				if len(x.Results) != 1 {
					fi.undecided = "return without a single value"
					return nil
				}
				t := fi.textOf(x.Results[0], st)
				if t == nil {
					fi.undecided = "returned text not understood: " + exprStr(x.Results[0])
					return nil
				}
				fi.returns = append(fi.returns, struct {
					tags tagSet
					pos  token.Pos
				}{t, x.Pos()})
			}
			return nil
		default:
			fi.undecided = "statement outside the vocabulary of the float serialiser"
			return nil
		}
		cur = next
	}
	return cur
}

func isByteLike(t types.Type) bool {
	if t == nil {
		return false
	}
	b, ok := t.Underlying().(*types.Basic)
	return ok && b.Info()&types.IsInteger != 0
}

func c01FloatMarking(c *Ctx) {
	for _, w := range c.Inv().Wrappers {
		if c.wrapperKind(w) != "float" {
			continue
		}
		name := "(*" + w.Obj().Name() + ").serialize"
		fd := c.NeedDecl(serRule("C01.R3"), name)
		if fd == nil {
			return
		}
		fi := &floatInterp{c: c, fd: fd, alias: singleAssignAliases(c, fd.Body)}
		st := &fstate{strs: map[types.Object]tagSet{}, verbs: map[types.Object]map[rune]bool{}}
		rest := fi.exec(fd.Body.List, []*fstate{st})
		if fi.undecided != "" {
			c.Ob(serRule("C01.R3"), name, fd.Pos()).Undecided("%s", fi.undecided)
			return
		}
		if len(rest) > 0 {
			c.Ob(serRule("C01.R3"), name, fd.Pos()).Undecided("a path falls off the end of the function")
			return
		}
		for i, r := range fi.returns {
			var tags []string
			for t := range r.tags {
				tags = append(tags, t)
			}
			sort.Strings(tags)
			ob := c.Ob(serRule("C01.R3"), name+"#ret"+itoa(i+1), r.pos)
			ob2 := c.Ob(serRule("C02.R1"), name+"#ret"+itoa(i+1), r.pos)
			bad, unmarked := "", false
			for _, t := range tags {
				if strings.HasPrefix(t, "BAD") {
					bad = t
				}
				if t == "Fn" {
					unmarked = true
				}
			}
			switch {
			case bad != "":
				ob.Fail("returned text may be malformed (%s): a suffix is appended to a text that is not a plain integer-like decimal, e.g. \"1e+06.0\"", bad)
				ob2.Fail("float text may not be a JSON number (%s)", bad)
			case unmarked:
				ob.Fail("a whole-valued float may be printed without '.', 'e' or 'E' (text classes %v): it reads back as an int", tags)
				ob2.Ok("float text classes %v are JSON numbers", tags)
			default:
				ob.Ok("text classes %v: always contains '.' or an exponent, so the parser's int stage cannot claim it", tags)
				ob2.Ok("float text classes %v are JSON numbers (FormatFloat with bit size 64 on a finite value)", tags)
			}
		}
		c.R.Floor(serRule("C01.R3"), len(fi.returns), 2)
	}
}

// scalarSerializers: nil, bool, int, string wrappers.
func c02Scalars(c *Ctx) {
	n := 0
	for _, w := range c.Inv().Wrappers {
		kind := c.wrapperKind(w)
		if kind == "float" {
			n++
			continue
		}
		name := "(*" + w.Obj().Name() + ").serialize"
		fd := c.NeedDecl(serRule("C02.R1"), name)
		if fd == nil {
			continue
		}
		n++
		alias := singleAssignAliases(c, fd.Body)
		rets := returnsOf(fd.Body)
		ob := c.Ob(serRule("C02.R1"), name, fd.Pos())
		if len(rets) != 1 || len(rets[0].Results) != 1 {
			ob.Undecided("serialiser does not have a single return")
			continue
		}
		// only alias definitions may precede the return
		for _, s := range fd.Body.List[:len(fd.Body.List)-1] {
			if _, ok := s.(*ast.AssignStmt); !ok {
				ob.Undecided("unexpected statement before the return")
			}
		}
		res := unparen(rets[0].Results[0])
		switch kind {
		case "nil":
			s, ok := c.constString(res)
			ob.Check(ok && s == "null", "emits the literal null", "nil wrapper does not emit `null`")
		case "bool":
			call, ok := res.(*ast.CallExpr)
			ob.Check(ok && c.calleeFull(call) == "strconv.FormatBool" && len(call.Args) == 1 && c.isPayload(fd, call.Args[0], alias), "strconv.FormatBool(payload): true|false", "bool wrapper does not emit strconv.FormatBool(payload)")
		case "int":
			call, ok := res.(*ast.CallExpr)
			good := false
			if ok {
				switch c.calleeFull(call) {
				case "strconv.Itoa":
					good = len(call.Args) == 1 && c.isPayload(fd, call.Args[0], alias)
				case "strconv.FormatInt":
					if len(call.Args) == 2 {
						base, okb := c.constInt(call.Args[1])
						if conv, okc := unparen(call.Args[0]).(*ast.CallExpr); okc && len(conv.Args) == 1 && okb && base == 10 {
							good = c.isPayload(fd, conv.Args[0], alias)
						}
					}
				}
			}
			ob.Check(good, "decimal integer text of the payload (Itoa/FormatInt base 10): a JSON int without '.', 'e'", "int wrapper does not emit the decimal text of its payload")
			c.Ob(serRule("C01.R3"), name, fd.Pos()).Check(good, "int text is Itoa/FormatInt(…,10) of the payload", "int text is not the plain decimal of the payload")
		case "string":
			call, ok := res.(*ast.CallExpr)
			if !ok || len(call.Args) != 1 || !c.isPayload(fd, call.Args[0], alias) || c.callee(call) == nil {
				ob.Fail("string wrapper does not emit an encoder applied to its payload")
				continue
			}
			cls, why := c.stringHelperClass(c.callee(call))
			switch cls {
			case "json":
				ob.Ok("string payload goes through %s, classified JSON-string-safe (encoding/json)", c.callee(call).Name())
				valueEncoders[c] = c.callee(call)
			case "go-syntax":
				ob.Fail("%s emits Go literal syntax (\\x01, \\a, \\v, \\U0001f600), which an RFC 8259 decoder rejects", c.callee(call).FullName())
			default:
				ob.Undecided("string encoder %s is not an approved JSON string encoder: %s", c.callee(call).Name(), why)
			}
		default:
			ob.Undecided("wrapper of unknown kind")
		}
	}
	c.R.Floor(serRule("C02.R1"), n, 5)
}

var valueEncoders = map[*Ctx]*types.Func{}

// serRule maps the canonical C02 rule ids to the ids of the property currently being decided.
var serRule = func(id string) string { return id }

func asC01(id string) string {
	switch id {
	case "C02.R1", "C02.R2", "C02.R3", "C02.R4":
		return "C01.R1"
	}
	return id
}

func asC16(id string) string {
	if strings.HasPrefix(id, "C02.") {
		return "C16.R3"
	}
	if id == "C01.R3" {
		return "C16.R3"
	}
	return id
}

func c02String(c *Ctx) {
	n := 0
	for _, ct := range c.Inv().Conts {
		name := "(*" + ct.Named.Obj().Name() + ").String"
		fd := c.NeedDecl(serRule("C02.R4"), name)
		if fd == nil {
			continue
		}
		n++
		r := singleReturn(fd.Body)
		good := r != nil && len(r.Results) == 1
		if good {
			call, ok := unparen(r.Results[0]).(*ast.CallExpr)
			good = ok && len(call.Args) == 0
			if good {
				sel, ok := unparen(call.Fun).(*ast.SelectorExpr)
				good = ok && c.isSelf(fd, sel.X) && c.callee(call) != nil && c.callee(call).Name() == "serialize"
			}
		}
		c.Ob(serRule("C02.R4"), name, fd.Pos()).Check(good, "String() returns self.serialize() unmodified", "String() is not `return self.serialize()`")
	}
	c.R.Floor(serRule("C02.R4"), n, 2)
}

func c02Rules() []Rule {
	return []Rule{
		{ID: "C02.R1", Doc: "emitter discipline: every byte of String() comes from the container's own JSON punctuation, a child serialiser, or an approved encoder (JSON-string-safe for strings and keys, JSON number/literal for int, float64, bool, nil)", Run: func(c *Ctx) {
			c02Scalars(c)
			c01FloatMarking(c)
		}},
		{ID: "C02.R2", Doc: "shape: '[' (CHILD (',' CHILD)*)? ']' and '{' (KEY ':' CHILD (',' KEY ':' CHILD)*)? '}' over one range of the receiver's own spine", Run: func(c *Ctx) {
			for _, ct := range c.Inv().Conts {
				c02Container(c, ct)
			}
		}},
		{ID: "C02.R3", Doc: "separator guard equals `not the last (first) iteration` (folded for 1..4 elements)", Run: func(c *Ctx) {}},
		{ID: "C02.R4", Doc: "String() returns serialize() of the receiver unmodified", Run: c02String},
	}
}

func init() {
	register(&Property{
		ID: "C02",
		Explanation: "Token-source dataflow of the 7 serialize implementations: the returned string is decomposed (strings.Builder writes, fmt.Sprintf with a constant format made of %s verbs and punctuation, +) into constants, CHILD (serialize of the range value) and encoder applications; " +
			"encoders are classified by the trusted language table (strconv.Quote* = Go syntax, not JSON; encoding/json = JSON; repo-local helpers are analysed down to an accepted shape); float text is tracked in a small abstract domain (plain/with '.', exponent/with '.'); " +
			"the ',' guard is folded for 1..4 elements. The encoders' own conformance, NaN/Inf and invalid UTF-8 in stored strings are outside.",
		Rules: c02Rules(),
	})
}
