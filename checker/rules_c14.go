package main

// C14 — typed views select exactly the elements of their kind, in order, each once.
// A small structured walker turns the body of each range loop over the receiver's spine into
// (kind tests, guarded actions); the per-family rules are phrased over that normal form.

import (
	"go/ast"
	"go/token"
	"go/types"
	"strings"
)

var accessorCache = map[*Ctx]map[string]bool{}

// isValueAccessor: method of the field interface with signature func() any whose container implementations return the registered ego
// (this is what distinguishes getVal from copy, whose scalar bodies are identical).
func (c *Ctx) isValueAccessor(f *types.Func) bool {
	if f == nil || c.Inv().Field == nil {
		return false
	}
	m, ok := accessorCache[c]
	if !ok {
		m = map[string]bool{}
		accessorCache[c] = m
		a := c.E3()
		fi := c.Inv().Field.Underlying().(*types.Interface)
		for i := 0; i < fi.NumMethods(); i++ {
			fm := fi.Method(i)
			sig := fm.Type().(*types.Signature)
			if sig.Params().Len() != 0 || sig.Results().Len() != 1 || !isEmptyIface(sig.Results().At(0).Type()) {
				continue
			}
			good := true
			for _, ct := range c.Inv().Conts {
				fn := a.ByName("(*" + ct.Named.Obj().Name() + ")." + fm.Name())
				if fn == nil || a.sum[fn].Ret&oROOTS != oRECV {
					good = false
				}
			}
			if good {
				m[fm.Name()] = true
			}
		}
	}
	if !m[f.Name()] {
		return false
	}
	// f must be that method of the field interface (or of a type implementing it in this package)
	sig := f.Type().(*types.Signature)
	if sig.Recv() == nil {
		return false
	}
	rt := sig.Recv().Type()
	if p, ok := rt.(*types.Pointer); ok {
		rt = p.Elem()
	}
	n, ok := rt.(*types.Named)
	return ok && n.Obj().Pkg() == c.Types
}

func isEmptyIface(t types.Type) bool {
	it, ok := t.Underlying().(*types.Interface)
	return ok && it.NumMethods() == 0
}

// kindOfType maps a tested type to a kind name: basic Go value types, container interfaces, wrapper pointers.
func (c *Ctx) kindOfType(t types.Type) string {
	if t == nil {
		return ""
	}
	if ct := c.Inv().ContByIface(t); ct != nil {
		if ct.IsList {
			return "list"
		}
		return "object"
	}
	if p, ok := t.(*types.Pointer); ok {
		if n, ok := p.Elem().(*types.Named); ok {
			if ct := c.Inv().ContOf(n); ct != nil {
				if ct.IsList {
					return "list"
				}
				return "object"
			}
			for _, w := range c.Inv().Wrappers {
				if w.Obj() == n.Obj() {
					return c.wrapperKind(w)
				}
			}
		}
	}
	if b, ok := t.(*types.Basic); ok {
		switch b.Kind() {
		case types.String:
			return "string"
		case types.Bool:
			return "bool"
		case types.Int:
			return "int"
		case types.Float64:
			return "float"
		}
	}
	return ""
}

// wrapperKind: kind of a scalar wrapper from the type of its single payload field (no field = nil).
func (c *Ctx) wrapperKind(w *types.Named) string {
	st, ok := w.Underlying().(*types.Struct)
	if !ok {
		return ""
	}
	if st.NumFields() == 0 {
		return "nil"
	}
	if st.NumFields() == 1 {
		return c.kindOfType(st.Field(0).Type())
	}
	return ""
}

func c14Family(name string) string {
	switch {
	case strings.HasPrefix(name, "All"):
		return "All"
	case strings.HasSuffix(name, "Async"):
		return ""
	case strings.HasPrefix(name, "ForEach"):
		return "ForEach"
	case strings.HasPrefix(name, "Map"):
		return "Map"
	case strings.HasPrefix(name, "Reduce"):
		return "Reduce"
	case strings.HasPrefix(name, "Filter"):
		return "Filter"
	case strings.HasSuffix(name, "Slice") && name != "NativeSlice":
		return "Slice"
	}
	return ""
}

var allKinds = map[string][]string{"AllObjects": {"object"}, "AllLists": {"list"}, "AllStrings": {"string"}, "AllBools": {"bool"}, "AllInts": {"int"},
	"AllFloats": {"float"}, "AllNumeric": {"int", "float"}}

func init() {
	register(&Property{
		ID: "C14",
		Explanation: "Loop-shape and kind-test rules over every typed/untyped view (All*, ForEach*, Map*, Reduce*, Filter*, *Slice) of both containers, decided on the symbolic path normal form (SX): each method must be one range loop over the receiver's own spine (no early exit); " +
			"every path through one iteration is classified by the kind tests it passed, and must perform exactly the family's action — one callback call / append / Add / Set / accumulator update with the tested value (typed) or the element's getVal() (untyped) and the range key — " +
			"when the element has the kind the callback/slice signature (or the frozen All* name table) demands, and nothing at all otherwise (so a predicate is never invoked for elements of another kind). " +
			"Range over a slice visits in index order, each element once (Go semantics). Behaviour of callbacks and map iteration order are outside.",
		Rules: []Rule{
			{ID: "C14.R1", Doc: "loop shape: one range over the receiver's own spine, no early exit; exactly the family's action per selected element, none otherwise", Run: c14Run},
			{ID: "C14.R3", Doc: "every container that can be stored is registered (Ego non-nil on every path of its constructor), so getVal-based views and TypeOf agree on containers (= C19.R2)", Run: func(c *Ctx) {
				c.R.Floor("C14.R3", runAs(c, "C14.R3", c19R2, func(o *Obligation) bool {
					return strings.HasPrefix(o.Construct, "alloc/") || strings.HasPrefix(o.Construct, "ptr-store/")
				}), 3)
			}},
			{ID: "C14.R5", Doc: "`the value Get returns`, which the untyped views hand to their callbacks, exists for every element: Get is spine[index].getVal() for every index in range, a nil element included (= C05.R6 on Get)", Run: func(c *Ctx) {
				c.R.Floor("C14.R5", runAs(c, "C14.R5", c05Reference, func(o *Obligation) bool { return strings.Contains(o.Construct, "(*list).Get") }), 1)
			}},
			{ID: "C14.R4", Doc: "TypeOf, the kind the typed views must agree with, reports every stored kind, containers by their interface (= C12.R3)", Run: func(c *Ctx) {
				c.R.Floor("C14.R4", runAs(c, "C14.R4", c12R3, func(o *Obligation) bool { return strings.Contains(o.Construct, "TypeOf") }), 2)
			}},
			{ID: "C14.R2", Doc: "kind test equals the kind demanded by the signature (or All* name table); AllX returns false exactly on a non-K element and true after the loop", Run: func(c *Ctx) {}},
		},
	})
}

func c14Run(c *Ctx) {
	loops := 0
	for _, ct := range c.Inv().Conts {
		if ct.Iface == nil {
			continue
		}
		for _, m := range pinnedMethods(ct) {
			fam := c14Family(m.Name())
			if fam == "" {
				continue
			}
			name := "(*" + ct.Named.Obj().Name() + ")." + m.Name()
			fd := c.Decl(name)
			if fd == nil {
				c.Ob("C14.R1", name, token.NoPos).Missing("no implementation")
				continue
			}
			loops++
			c14Method(c, ct, fd, m, fam, name)
		}
	}
	c.R.Floor("C14.R1", loops, 56)
}

// c14Elem classifies a term relative to the loop's current element: "raw" (the field), "val" (its getVal()), "".
func (v *sxView) elemForm(t Term, l *LoopRec) string {
	isElem := func(e Term) bool {
		if l.Value != nil && isParamTerm(e, l.Value) {
			return true
		}
		ix, ok := e.(TIndex)
		return ok && v.isRecvSpine(ix.X) && l.Key != nil && isParamTerm(ix.I, l.Key)
	}
	if isElem(t) {
		return "raw"
	}
	if e, ok := v.valueOf(t); ok && isElem(e) {
		return "val"
	}
	return ""
}

// kindOfTest: the kind identified by testing operand (an element form) against T, "" if the test identifies no kind.
func (v *sxView) kindOfTest(op Term, T types.Type, l *LoopRec) string {
	form := v.elemForm(op, l)
	k := v.c.kindOfType(T)
	if form == "" || k == "" {
		return ""
	}
	_, isBasic := T.(*types.Basic)
	ptr, isPtr := T.(*types.Pointer)
	if isPtr {
		if n, ok := ptr.Elem().(*types.Named); ok && v.c.Inv().ContOf(n) != nil {
			return "" // *list / *object: a derived container stored in the list is neither — containers are recognised by their interface
		}
	}
	switch {
	case isBasic && form == "val":
		return k
	case isPtr && form == "raw":
		return k
	case !isBasic && !isPtr:
		return k
	}
	return ""
}

// testedValue: t is the value bound by a successful test of the element: op.(T)#0 or op.(T); returns op, T.
func testedValue(t Term) (Term, types.Type, bool) {
	switch x := t.(type) {
	case TProj:
		if a, ok := x.X.(TAssert); ok && x.K == 0 {
			return a.X, a.To, true
		}
	case TAssert:
		return x.X, x.To, true
	}
	return nil, nil, false
}

func unpack(args []Term) []Term {
	if n := len(args); n > 0 {
		if pack, ok := args[n-1].(TLit); ok && pack.Node == nil {
			return append(append([]Term(nil), args[:n-1]...), pack.Elts...)
		}
		// `f(format, append(args, more)...)` with the callee's pack known: the pack's elements followed by the appended ones
		if ap, ok := args[n-1].(TBuiltin); ok && ap.Name == "append" && len(ap.Args) >= 1 {
			if pack, ok := ap.Args[0].(TLit); ok && pack.Node == nil {
				out := append(append([]Term(nil), args[:n-1]...), pack.Elts...)
				return append(out, ap.Args[1:]...)
			}
		}
	}
	return args
}

func c14Method(c *Ctx, ct *Cont, fd *ast.FuncDecl, m *types.Func, fam, name string) {
	sig := m.Type().(*types.Signature)
	r1 := func(suffix string) *Ob { return c.Ob("C14.R1", name+"/"+suffix, fd.Pos()) }
	r2 := func(suffix string) *Ob { return c.Ob("C14.R2", name+"/"+suffix, fd.Pos()) }
	// a view built on a sibling view of the same receiver (BoolSlice on ForEachBool, called statically) is followed into the sibling
	paths, why := c.runPathsWith(fd, func(x *SX) { x.InlineStaticSelf = true })
	if why != "" {
		r1("loop").Undecided("body outside the path vocabulary: %s", why)
		return
	}
	v := c.view(fd)
	if fam == "All" {
		// a predicate over all elements without callbacks: the order of the visit does not matter
		v2 := *v
		v2.anyOrder = true
		paths = v2.normalizePaths(paths)
	}
	// the main path (after the loop) and the loop
	var main *Path
	var loop *LoopRec
	var exits []*Path // paths that leave from inside the loop
	for _, p := range paths {
		li := -1
		for i, s := range p.Steps {
			if s.Kind == "loop" {
				if li >= 0 {
					r1("loop").Fail("more than one loop")
					return
				}
				li, loop = i, s.Loop
			}
		}
		if li < 0 {
			r1("loop").Fail("a path bypasses the loop: expected exactly one loop, a range over the receiver's own spine")
			return
		}
		if li == len(p.Steps)-1 {
			if main != nil {
				r1("loop").Fail("more than one path after the loop")
				return
			}
			main = p
		} else {
			exits = append(exits, p)
		}
	}
	if main == nil || loop == nil {
		r1("loop").Fail("expected exactly one loop, a range over the receiver's own spine")
		return
	}
	if r := v.asRange(loop); r != nil {
		loop = r
	}
	if loop.Range == nil || !v.isRecvSpine(loop.Over) {
		r1("loop").Fail("the loop does not range over the receiver's own spine")
		return
	}
	if fam != "All" && len(exits) != 0 {
		r1("loop").Fail("%s from inside the loop: elements after it are not visited", exits[0].End)
		return
	}
	for _, ip := range loop.Iter {
		if ip.End == "break" {
			r1("loop").Fail("break: elements after it are not visited exactly once")
			return
		}
	}
	r1("loop").Ok("single range over the receiver's spine, no early exit")

	if fam == "All" {
		c14All(c, v, m, loop, main, exits, name)
		return
	}
	// element kind demanded by the signature
	var wantT types.Type
	var cbObj types.Object
	for i := 0; i < sig.Params().Len(); i++ {
		if fs, ok := sig.Params().At(i).Type().Underlying().(*types.Signature); ok && fs.Params().Len() > 0 {
			wantT = fs.Params().At(fs.Params().Len() - 1).Type()
		}
	}
	for _, f := range fd.Type.Params.List {
		for _, nm := range f.Names {
			if _, ok := c.typeOf(f.Type).Underlying().(*types.Signature); ok {
				cbObj = c.Info.Defs[nm]
			}
		}
	}
	if fam == "Slice" {
		if sl, ok := sig.Results().At(0).Type().Underlying().(*types.Slice); ok {
			wantT = sl.Elem()
		}
	}
	if wantT == nil {
		r2("kind").Undecided("cannot derive the element type from the signature %s", sig)
		return
	}
	untyped := isEmptyIface(wantT)
	wantKind := c.kindOfType(wantT)
	if !untyped && wantKind == "" {
		r2("kind").Undecided("element type %s is not one of the kinds", shortType(wantT))
		return
	}
	isCb := func(t Term) (*TCall, bool) {
		call, ok := t.(TCall)
		if !ok || call.Fun != nil || cbObj == nil || !isParamTerm(call.Dyn, cbObj) {
			return nil, false
		}
		return &call, true
	}
	// the accumulator / result of the family
	var acc types.Object // Reduce, Slice: loop-carried local that is returned
	var result Term      // Map, Filter: fresh container that is returned
	switch fam {
	case "Reduce", "Slice":
		lv, ok := TLoop{}, false
		if main.End == "return" && len(main.Vals) == 1 {
			lv, ok = main.Vals[0].(TLoop)
		}
		if !ok || lv.ID != loop.ID {
			r1("action").Fail("the returned value is not the variable the loop accumulates into")
			return
		}
		acc = lv.Obj
		init, has := loop.Init[acc]
		if fam == "Reduce" {
			var initParam types.Object
			if len(fd.Type.Params.List) > 0 && len(fd.Type.Params.List[0].Names) > 0 {
				initParam = c.Info.Defs[fd.Type.Params.List[0].Names[0]]
			}
			good := (has && isParamTerm(init, initParam)) || (!has && acc == initParam)
			c.Ob("C14.R1", name+"/accumulator", fd.Pos()).Check(good, "accumulator starts from the initial argument and is the returned value", "accumulator is not initialised from the first parameter or not returned")
		} else {
			mk, ok := init.(TBuiltin)
			if !has || !ok || mk.Name != "make" {
				r1("action").Fail("the result slice is not created fresh by make before the loop")
				return
			}
		}
	case "Map", "Filter":
		if main.End != "return" || len(main.Vals) != 1 || !freshEmptyContainer(c, main.Vals[0], ct.IsList) {
			r1("action").Fail("the result is not a fresh empty container created before the loop")
			return
		}
		result = main.Vals[0]
	case "ForEach":
		if main.End != "return" || len(main.Vals) != 1 || !v.isEgo(main.Vals[0]) {
			r1("action").Fail("ForEach does not return the registered ego")
			return
		}
	}
	for _, s := range main.Effects() {
		if s.Kind == "loop" {
			continue
		}
		if s.Kind == "call" && s.Call != nil && s.Call.Fun != nil && (s.Call.Fun.Name() == ctorName(ct.IsList) || s.Call.Fun.Name() == "Init") {
			continue
		}
		if s.Kind == "store" && result != nil {
			// the fresh result registers itself by hand: result.ptr = result (what Init does)
			if sel, ok := s.LHS.(TSel); ok && sameField(sel.Field, ct.Ptr) && sameTerm(eraseEpochs(sel.X), eraseEpochs(result)) && sameTerm(eraseEpochs(s.RHS), eraseEpochs(result)) {
				continue
			}
		}
		r1("action").Fail("effect outside the loop: %s", c.stepStr(s))
		return
	}
	nSel := 0
	for _, ip := range loop.Iter {
		// classify by kind tests; remember the tested value; collect predicate decisions
		selKind, sawTest := "", false
		var predCalls []Cond
		bad := ""
		for _, cd := range ip.Conds() {
			if op, T, isTest := kindTestOf(cd.T); isTest {
				k := v.kindOfTest(op, T, loop)
				if k == "" {
					bad = "kind test " + c.termStr(cd.T) + " does not identify a kind of the current element"
					break
				}
				sawTest = true
				if cd.Truth {
					if selKind != "" {
						bad = "two kind tests succeed on one path"
						break
					}
					selKind = k
					if !types.Identical(T, wantT) && !untyped {
						bad = "tested type " + shortType(T) + " differs from the signature's element type " + shortType(wantT)
					}
				}
				continue
			}
			if _, ok := isCb(cd.T); ok && fam == "Filter" {
				predCalls = append(predCalls, cd)
				continue
			}
			bad = "decision on " + c.termStr(cd.T) + ": not every element of the kind is processed alike"
			break
		}
		if bad != "" {
			r2("guard").Fail("%s", bad)
			return
		}
		if untyped && sawTest {
			r2("guard").Fail("untyped view filters elements by a kind test")
			return
		}
		selected := untyped || selKind == wantKind
		if !untyped && selKind != "" && selKind != wantKind {
			r2("guard").Fail("the view selects elements of kind %q, but the signature demands %q", selKind, wantKind)
			return
		}
		isElemVal := func(t Term) bool {
			if untyped {
				return v.elemForm(t, loop) == "val"
			}
			op, T, ok := testedValue(t)
			return ok && types.Identical(T, wantT) && v.kindOfTest(op, T, loop) == wantKind
		}
		cbArgsOK := func(call *TCall, accFirst bool) string {
			args := call.Args
			if accFirst {
				if len(args) != 2 || !sameTerm(args[0], TLoop{acc, loop.ID}) {
					return "accumulator is not threaded as the first argument"
				}
				args = args[1:]
			}
			switch len(args) {
			case 1:
				if !isElemVal(args[0]) {
					return "callback does not receive the tested element value / getVal() of the element"
				}
			case 2:
				if loop.Key == nil || !isParamTerm(args[0], loop.Key) {
					return "first callback argument is not the range key (index / field name)"
				}
				if !isElemVal(args[1]) {
					return "callback does not receive the tested element value / getVal() of the element"
				}
			default:
				return "unexpected callback arity"
			}
			return ""
		}
		effs := ip.Effects()
		if !selected {
			if len(effs) != 0 {
				r1("action").Fail("an element that does not have the selected kind still causes %s (e.g. the predicate is invoked before the kind test succeeded)", c.stepStr(effs[0]))
				return
			}
			if acc != nil {
				if end, ok := ip.Env[acc]; ok && !sameTerm(end, TLoop{acc, loop.ID}) {
					r1("action").Fail("the accumulator changes for an element of another kind")
					return
				}
			}
			continue
		}
		nSel++
		fail := func(w string) { r1("action").Fail("%s", w) }
		// `result.spine = append(result.spine, parseVal(x))`: Add of one value, inlined from a private helper
		pushStore := func(ps Step, want func(Term) bool) bool {
			if ps.Kind != "store" || !ct.IsList {
				return false
			}
			base, sct := v.spineOf(ps.LHS)
			if sct == nil || !sct.IsList || !sameTerm(base, result) {
				return false
			}
			ap, isA := ps.RHS.(TBuiltin)
			if !isA || ap.Name != "append" || len(ap.Args) != 2 || !sameTerm(eraseEpochs(ap.Args[0]), eraseEpochs(ps.LHS)) {
				return false
			}
			pv, isPV := ap.Args[1].(TCall)
			return isPV && pv.Fun != nil && pv.Fun.Pkg() == c.Types && pv.Fun.Name() == "parseVal" && len(pv.Args) == 1 && want(pv.Args[0])
		}
		switch fam {
		case "ForEach":
			if len(effs) != 1 || effs[0].Kind != "call" {
				fail("a selected element does not cause exactly one callback call")
				return
			}
			call, ok := isCb(*effs[0].Call)
			if !ok {
				fail("the action is not a call of the callback parameter")
				return
			}
			if w := cbArgsOK(call, false); w != "" {
				fail(w)
				return
			}
		case "Map":
			if len(effs) != 2 {
				fail("a selected element does not cause exactly: one callback call, one Add/Set of its result")
				return
			}
			call, ok := isCb(*effs[0].Call)
			if !ok {
				fail("the first action is not a call of the callback parameter")
				return
			}
			if w := cbArgsOK(call, false); w != "" {
				fail(w)
				return
			}
			st := effs[1].Call
			if pushStore(effs[1], func(t Term) bool { return sameTerm(t, *effs[0].Call) }) {
				break
			}
			if st == nil || st.Fun == nil || st.Recv == nil || !sameTerm(st.Recv, result) {
				fail("the callback's result is not stored into the result container")
				return
			}
			args := unpack(st.Args)
			if ct.IsList {
				if st.Fun.Name() != "Add" || len(args) != 1 || !sameTerm(args[0], *effs[0].Call) {
					fail("list Map must Add exactly the callback's result per selected element")
					return
				}
			} else {
				if st.Fun.Name() != "Set" || len(args) != 2 || loop.Key == nil || !isParamTerm(args[0], loop.Key) || !sameTerm(args[1], *effs[0].Call) {
					fail("object Map must Set the callback's result under the range key")
					return
				}
			}
		case "Filter":
			if len(predCalls) != 1 || len(effs) < 1 {
				fail("a selected element is not decided by exactly one predicate call")
				return
			}
			pc, _ := isCb(predCalls[0].T)
			if w := cbArgsOK(pc, false); w != "" {
				fail("predicate: " + w)
				return
			}
			if predCalls[0].Truth {
				if len(effs) != 2 {
					fail("an accepted element does not cause exactly one Add")
					return
				}
				st := effs[1].Call
				args := []Term(nil)
				if st != nil {
					args = unpack(st.Args)
				}
				pushOK := pushStore(effs[1], isElemVal)
				if pushOK {
					// accepted
				} else if st == nil || st.Fun == nil || st.Fun.Name() != "Add" || st.Recv == nil || !sameTerm(st.Recv, result) || len(args) != 1 || !isElemVal(args[0]) {
					fail("Filter must Add exactly the tested element to the result")
					return
				}
			} else if len(effs) != 1 {
				fail("a rejected element still changes the result")
				return
			}
		case "Reduce":
			end, ok := ip.Env[acc]
			call, isC := (*TCall)(nil), false
			if ok {
				call, isC = isCb(end)
			}
			if !isC || len(effs) != 1 {
				fail("a selected element does not update the accumulator by exactly acc = f(acc, x)")
				return
			}
			if w := cbArgsOK(call, true); w != "" {
				fail(w)
				return
			}
		case "Slice":
			end, ok := ip.Env[acc]
			ap, isA := TBuiltin{}, false
			if ok {
				ap, isA = end.(TBuiltin)
			}
			if !isA || ap.Name != "append" || len(ap.Args) != 2 || !sameTerm(ap.Args[0], TLoop{acc, loop.ID}) || !isElemVal(ap.Args[1]) || len(effs) != 0 {
				fail("a selected element is not appended exactly once as its tested value")
				return
			}
		}
	}
	if nSel == 0 {
		r1("action").Fail("no iteration path processes an element of the selected kind")
		return
	}
	r2("guard").Ok("the action is performed exactly for elements of kind %s, nothing happens for the others", map[bool]string{true: "any (no test)", false: wantKind}[untyped])
	r1("action").Ok("%s: one action per selected element, value = %s, key = range key where applicable", fam, map[bool]string{true: "element.getVal()", false: "tested value"}[untyped])
}

func c14All(c *Ctx, v *sxView, m *types.Func, loop *LoopRec, main *Path, exits []*Path, name string) {
	r1 := func(suffix string) *Ob { return c.Ob("C14.R1", name+"/"+suffix, loop.Node.Pos()) }
	r2 := func(suffix string) *Ob { return c.Ob("C14.R2", name+"/"+suffix, loop.Node.Pos()) }
	want := allKinds[m.Name()]
	if want == nil {
		r2("kind").Undecided("All* predicate %s is not in the frozen name->kind table", m.Name())
		return
	}
	wantSet := map[string]bool{}
	for _, k := range want {
		wantSet[k] = true
	}
	if main.End != "return" || len(main.Vals) != 1 || !isConstBoolTerm(simplify(main.Vals[0]), true) || len(main.Effects()) != 1 {
		r2("after-loop").Fail("`return true` does not follow the loop (vacuous truth on the empty list)")
		return
	}
	for _, ip := range loop.Iter {
		if len(ip.Effects()) != 0 {
			r1("action").Fail("All* loop has an effect")
			return
		}
		passed := map[string]bool{}
		tested := map[string]bool{}
		for _, cd := range ip.Conds() {
			op, T, isTest := kindTestOf(cd.T)
			k := ""
			if isTest {
				k = v.kindOfTest(op, T, loop)
			}
			if k == "" {
				r2("guard").Fail("decision %s is not a kind test of the current element", c.termStr(cd.T))
				return
			}
			tested[k] = true
			if cd.Truth {
				passed[k] = true
			}
		}
		// every field has exactly one kind (C12): an element that passed the test of another kind is identified as not wanted
		isWanted, isOther := false, false
		for k := range passed {
			if wantSet[k] {
				isWanted = true
			} else {
				isOther = true
			}
		}
		switch ip.End {
		case "fall", "continue":
			if !isWanted {
				r2("guard").Fail("an element that passed none of the tests for %v lets the loop continue", want)
				return
			}
		case "return":
			if len(ip.Vals) != 1 || !isConstBoolTerm(simplify(ip.Vals[0]), false) {
				r1("action").Fail("the return inside the loop is not `return false` (it would end the check at the first matching element)")
				return
			}
			if isWanted {
				r2("guard").Fail("an element of a wanted kind makes %s return false", m.Name())
				return
			}
			for _, k := range want {
				if !tested[k] && !isOther {
					r2("guard").Fail("`return false` is reached without testing for kind %q", k)
					return
				}
			}
		default:
			r1("action").Fail("%s inside an All* loop", ip.End)
			return
		}
	}
	r2("guard").Ok("returns false exactly when the element is none of %v", want)
	r2("after-loop").Ok("`return true` follows the loop (vacuously true on the empty list)")
}

func (c *Ctx) isConstBool(e ast.Expr, v bool) bool {
	tv, ok := c.Info.Types[e]
	if !ok || tv.Value == nil {
		return false
	}
	return tv.Value.String() == map[bool]string{true: "true", false: "false"}[v]
}

func keysOf(m map[string]bool) []string {
	var s []string
	for k := range m {
		s = append(s, k)
	}
	sortStrings(s)
	return s
}
