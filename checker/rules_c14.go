package main

// C14 — typed views select exactly the elements of their kind, in order, each once.
// A small structured walker turns the body of each range loop over the receiver's spine into
// (kind tests, guarded actions); the per-family rules are phrased over that normal form.

import (
	"go/ast"
	"go/token"
	"go/types"
	"strings"
)

type gAtom struct {
	Neg  bool
	Expr ast.Expr
}

type kindTest struct {
	Ok, Val types.Object
	Operand ast.Expr
	T       types.Type
	Pos     token.Pos
}

type lAction struct {
	Kind  string // call, assign, return, incdec, other
	Stmt  ast.Stmt
	Guard []gAtom
}

type loopNF struct {
	Tests     []*kindTest
	Actions   []lAction
	Undecided []string
}

func splitAnd(e ast.Expr) []ast.Expr {
	e = unparen(e)
	if b, ok := e.(*ast.BinaryExpr); ok && b.Op == token.LAND {
		return append(splitAnd(b.X), splitAnd(b.Y)...)
	}
	return []ast.Expr{e}
}

func atomOf(e ast.Expr, neg bool) gAtom {
	e = unparen(e)
	for {
		u, ok := e.(*ast.UnaryExpr)
		if !ok || u.Op != token.NOT {
			break
		}
		neg = !neg
		e = unparen(u.X)
	}
	return gAtom{neg, e}
}

func (c *Ctx) loopNormalForm(body *ast.BlockStmt) *loopNF {
	nf := &loopNF{}
	var walk func(stmts []ast.Stmt, guard []gAtom)
	recordTest := func(s ast.Stmt) bool {
		as, ok := s.(*ast.AssignStmt)
		if !ok || len(as.Lhs) != 2 || len(as.Rhs) != 1 {
			return false
		}
		ta, ok := unparen(as.Rhs[0]).(*ast.TypeAssertExpr)
		if !ok || ta.Type == nil {
			return false
		}
		kt := &kindTest{Operand: ta.X, T: c.typeOf(ta.Type), Pos: as.Pos()}
		if id, ok := as.Lhs[0].(*ast.Ident); ok && id.Name != "_" {
			kt.Val = c.obj(id)
		}
		if id, ok := as.Lhs[1].(*ast.Ident); ok && id.Name != "_" {
			kt.Ok = c.obj(id)
		}
		nf.Tests = append(nf.Tests, kt)
		return true
	}
	walk = func(stmts []ast.Stmt, guard []gAtom) {
		for i, s := range stmts {
			switch x := s.(type) {
			case *ast.AssignStmt:
				if recordTest(x) {
					continue
				}
				nf.Actions = append(nf.Actions, lAction{"assign", x, append([]gAtom(nil), guard...)})
			case *ast.ExprStmt:
				nf.Actions = append(nf.Actions, lAction{"call", x, append([]gAtom(nil), guard...)})
			case *ast.IncDecStmt:
				nf.Actions = append(nf.Actions, lAction{"incdec", x, append([]gAtom(nil), guard...)})
			case *ast.ReturnStmt:
				nf.Actions = append(nf.Actions, lAction{"return", x, append([]gAtom(nil), guard...)})
			case *ast.BlockStmt:
				walk(x.List, guard)
			case *ast.IfStmt:
				if x.Init != nil && !recordTest(x.Init) {
					nf.Undecided = append(nf.Undecided, "if-init statement that is not a kind test")
				}
				conds := splitAnd(x.Cond)
				g := append([]gAtom(nil), guard...)
				for _, ce := range conds {
					g = append(g, atomOf(ce, false))
				}
				body := x.Body.List
				endsContinue := false
				if n := len(body); n > 0 {
					if br, ok := body[n-1].(*ast.BranchStmt); ok && br.Tok == token.CONTINUE && br.Label == nil {
						endsContinue = true
						body = body[:n-1]
					}
				}
				walk(body, g)
				var neg []gAtom
				if x.Else != nil || endsContinue {
					if len(conds) != 1 {
						nf.Undecided = append(nf.Undecided, "negation of a conjunction (else / continue after a compound condition)")
						continue
					}
					neg = append(append([]gAtom(nil), guard...), atomOf(conds[0], true))
				}
				if x.Else != nil {
					switch e := x.Else.(type) {
					case *ast.BlockStmt:
						walk(e.List, neg)
					default:
						walk([]ast.Stmt{e}, neg)
					}
				}
				if endsContinue && x.Else == nil {
					walk(stmts[i+1:], neg)
					return
				}
			case *ast.BranchStmt:
				nf.Undecided = append(nf.Undecided, x.Tok.String()+" statement")
			case *ast.EmptyStmt:
			default:
				nf.Undecided = append(nf.Undecided, "statement not understood")
			}
		}
	}
	walk(body.List, nil)
	return nf
}

// elemForm classifies an expression relative to the range value `item`: "raw" (item), "val" (item.<valueAccessor>()), "".
func (c *Ctx) elemForm(e ast.Expr, item types.Object) string {
	e = unparen(e)
	if item == nil {
		return ""
	}
	if c.obj(e) == item {
		return "raw"
	}
	if call, ok := e.(*ast.CallExpr); ok && len(call.Args) == 0 {
		if sel, ok := unparen(call.Fun).(*ast.SelectorExpr); ok && c.obj(sel.X) == item && c.isValueAccessor(c.callee(call)) {
			return "val"
		}
	}
	return ""
}

var accessorCache = map[*Ctx]map[string]bool{}

// isValueAccessor: method of the field interface with signature func() any whose container implementations return the registered ego
// (this is what distinguishes getVal from copy, whose scalar bodies are identical).
func (c *Ctx) isValueAccessor(f *types.Func) bool {
	if f == nil || c.Inv().Field == nil {
		return false
	}
	m, ok := accessorCache[c]
	if !ok {
		m = map[string]bool{}
		accessorCache[c] = m
		a := c.E3()
		fi := c.Inv().Field.Underlying().(*types.Interface)
		for i := 0; i < fi.NumMethods(); i++ {
			fm := fi.Method(i)
			sig := fm.Type().(*types.Signature)
			if sig.Params().Len() != 0 || sig.Results().Len() != 1 || !isEmptyIface(sig.Results().At(0).Type()) {
				continue
			}
			good := true
			for _, ct := range c.Inv().Conts {
				fn := a.ByName("(*" + ct.Named.Obj().Name() + ")." + fm.Name())
				if fn == nil || a.sum[fn].Ret&oROOTS != oRECV {
					good = false
				}
			}
			if good {
				m[fm.Name()] = true
			}
		}
	}
	if !m[f.Name()] {
		return false
	}
	// f must be that method of the field interface (or of a type implementing it in this package)
	sig := f.Type().(*types.Signature)
	if sig.Recv() == nil {
		return false
	}
	rt := sig.Recv().Type()
	if p, ok := rt.(*types.Pointer); ok {
		rt = p.Elem()
	}
	n, ok := rt.(*types.Named)
	return ok && n.Obj().Pkg() == c.Types
}

func isEmptyIface(t types.Type) bool {
	it, ok := t.Underlying().(*types.Interface)
	return ok && it.NumMethods() == 0
}

// kindOfType maps a tested type to a kind name: basic Go value types, container interfaces, wrapper pointers.
func (c *Ctx) kindOfType(t types.Type) string {
	if t == nil {
		return ""
	}
	if ct := c.Inv().ContByIface(t); ct != nil {
		if ct.IsList {
			return "list"
		}
		return "object"
	}
	if p, ok := t.(*types.Pointer); ok {
		if n, ok := p.Elem().(*types.Named); ok {
			if ct := c.Inv().ContOf(n); ct != nil {
				if ct.IsList {
					return "list"
				}
				return "object"
			}
			for _, w := range c.Inv().Wrappers {
				if w.Obj() == n.Obj() {
					return c.wrapperKind(w)
				}
			}
		}
	}
	if b, ok := t.(*types.Basic); ok {
		switch b.Kind() {
		case types.String:
			return "string"
		case types.Bool:
			return "bool"
		case types.Int:
			return "int"
		case types.Float64:
			return "float"
		}
	}
	return ""
}

// wrapperKind: kind of a scalar wrapper from the type of its single payload field (no field = nil).
func (c *Ctx) wrapperKind(w *types.Named) string {
	st, ok := w.Underlying().(*types.Struct)
	if !ok {
		return ""
	}
	if st.NumFields() == 0 {
		return "nil"
	}
	if st.NumFields() == 1 {
		return c.kindOfType(st.Field(0).Type())
	}
	return ""
}

// testValid: the kind test examines the range element in a form for which the asserted type identifies kind K.
func (c *Ctx) testKind(kt *kindTest, item types.Object) string {
	form := c.elemForm(kt.Operand, item)
	k := c.kindOfType(kt.T)
	if k == "" || form == "" {
		return ""
	}
	_, isBasic := kt.T.(*types.Basic)
	_, isPtr := kt.T.(*types.Pointer)
	switch {
	case isBasic && form == "val":
		return k
	case isPtr && form == "raw":
		return k
	case !isBasic && !isPtr: // container interface: on the field or on its value (getVal of a container is its ego, same kind)
		return k
	}
	return ""
}

func c14Family(name string) string {
	switch {
	case strings.HasPrefix(name, "All"):
		return "All"
	case strings.HasSuffix(name, "Async"):
		return ""
	case strings.HasPrefix(name, "ForEach"):
		return "ForEach"
	case strings.HasPrefix(name, "Map"):
		return "Map"
	case strings.HasPrefix(name, "Reduce"):
		return "Reduce"
	case strings.HasPrefix(name, "Filter"):
		return "Filter"
	case strings.HasSuffix(name, "Slice") && name != "NativeSlice":
		return "Slice"
	}
	return ""
}

var allKinds = map[string][]string{"AllObjects": {"object"}, "AllLists": {"list"}, "AllStrings": {"string"}, "AllBools": {"bool"}, "AllInts": {"int"},
	"AllFloats": {"float"}, "AllNumeric": {"int", "float"}}

func init() {
	register(&Property{
		ID: "C14",
		Explanation: "Loop-shape and kind-test rules over every typed/untyped view (All*, ForEach*, Map*, Reduce*, Filter*, *Slice) of both containers. Each method body is reduced to a normal form " +
			"(kind tests + guarded actions) by a structured walk of the single range loop over the receiver's own spine; the rules then require: no early exit, exactly one action per iteration, guarded exactly by the ok of a test " +
			"for the kind that the callback/slice signature (or the frozen All* name table) demands, the value handed on being the tested value (typed) or the element's getVal() (untyped), the range key as index/key. " +
			"Range over a slice visits in index order, each element once (Go semantics). Behaviour of callbacks and map iteration order are outside.",
		Rules: []Rule{
			{ID: "C14.R1", Doc: "loop shape: one range over the receiver's own spine, no break/return/goto/continue-skips, exactly one callback/append/Add/Set/accumulate per iteration", Run: c14Run},
			{ID: "C14.R2", Doc: "kind test equals the kind demanded by the signature (or All* name table); AllX returns false exactly on a non-K element and true after the loop", Run: func(c *Ctx) {}},
		},
	})
}

func c14Run(c *Ctx) {
	loops := 0
	for _, ct := range c.Inv().Conts {
		if ct.Iface == nil {
			continue
		}
		for _, m := range ifaceMethods(ct.Iface) {
			fam := c14Family(m.Name())
			if fam == "" {
				continue
			}
			name := "(*" + ct.Named.Obj().Name() + ")." + m.Name()
			fd := c.Decl(name)
			if fd == nil {
				c.Ob("C14.R1", name, token.NoPos).Missing("no implementation")
				continue
			}
			sl := spineLoops(c, fd)
			all := allLoops(fd)
			ob := c.Ob("C14.R1", name+"/loop", fd.Pos())
			if len(sl) != 1 || len(all) != 1 || sl[0].Depth != 0 {
				ob.Fail("expected exactly one loop, a range over the receiver's own spine; found %d loops of which %d range the spine", len(all), len(sl))
				continue
			}
			loops++
			l := sl[0]
			if why := loopEarlyExit(l.Stmt, true); why != "" && fam != "All" {
				ob.Fail("%s: elements after (or around) it are not visited exactly once", why)
				continue
			}
			if fam == "All" {
				if why := loopEarlyExitNoReturn(l.Stmt); why != "" {
					ob.Fail("%s inside an All* predicate loop", why)
					continue
				}
			}
			if l.Stmt.Tok == token.ASSIGN {
				ob.Fail("range assigns to pre-existing variables")
				continue
			}
			ob.Ok("single range over %s, no early exit", exprStr(l.Stmt.X))
			nf := c.loopNormalForm(l.Stmt.Body)
			if len(nf.Undecided) > 0 {
				c.Ob("C14.R1", name+"/body", l.Stmt.Pos()).Undecided("loop body outside the understood vocabulary: %s", strings.Join(nf.Undecided, "; "))
				continue
			}
			c14Family_(c, ct, fd, m, fam, l, nf, name)
		}
	}
	c.R.Floor("C14.R1", loops, 56)
}

func loopEarlyExitNoReturn(loop ast.Stmt) string {
	// like loopEarlyExit but tolerating return (All* predicates return false from inside the loop)
	why := ""
	rs := loop.(*ast.RangeStmt)
	inspectNoLit(rs.Body, func(n ast.Node) bool {
		if b, ok := n.(*ast.BranchStmt); ok {
			if b.Tok == token.BREAK || b.Tok == token.GOTO || b.Label != nil {
				why = b.Tok.String()
			}
		}
		switch n.(type) {
		case *ast.ForStmt, *ast.RangeStmt:
			if n != ast.Node(rs) {
				why = "nested loop"
			}
		}
		return true
	})
	return why
}

// guardOK: guard consists exactly of the positive ok of test kt (plus, optionally, extra atoms returned for the caller).
func guardAtoms(c *Ctx, g []gAtom) (oks []types.Object, negOks []types.Object, others []gAtom) {
	for _, a := range g {
		if id, ok := a.Expr.(*ast.Ident); ok {
			if o := c.obj(id); o != nil {
				if _, isVar := o.(*types.Var); isVar && types.Identical(o.Type().Underlying(), types.Typ[types.Bool]) {
					if a.Neg {
						negOks = append(negOks, o)
					} else {
						oks = append(oks, o)
					}
					continue
				}
			}
		}
		others = append(others, a)
	}
	return
}

func findTest(nf *loopNF, ok types.Object) *kindTest {
	for _, t := range nf.Tests {
		if t.Ok == ok && ok != nil {
			return t
		}
	}
	return nil
}

func c14Family_(c *Ctx, ct *Cont, fd *ast.FuncDecl, m *types.Func, fam string, l spineLoop, nf *loopNF, name string) {
	sig := m.Type().(*types.Signature)
	r1 := func(suffix string) *Ob { return c.Ob("C14.R1", name+"/"+suffix, l.Stmt.Pos()) }
	r2 := func(suffix string) *Ob { return c.Ob("C14.R2", name+"/"+suffix, l.Stmt.Pos()) }

	if fam == "All" {
		want := allKinds[m.Name()]
		if want == nil {
			r2("kind").Undecided("All* predicate %s is not in the frozen name->kind table", m.Name())
			return
		}
		// actions: exactly one `return false`, guarded by the negated ok of one test per wanted kind, nothing else
		if len(nf.Actions) != 1 || nf.Actions[0].Kind != "return" {
			r1("action").Fail("All* loop body must consist of kind tests and a single `return false`; found %d actions", len(nf.Actions))
			return
		}
		ret := nf.Actions[0].Stmt.(*ast.ReturnStmt)
		if len(ret.Results) != 1 || !c.isConstBool(ret.Results[0], false) {
			r1("action").Fail("the return inside the loop is not `return false`")
			return
		}
		oks, negOks, others := guardAtoms(c, nf.Actions[0].Guard)
		if len(oks) != 0 || len(others) != 0 {
			r2("guard").Fail("`return false` is guarded by something other than failed kind tests")
			return
		}
		got := map[string]bool{}
		for _, o := range negOks {
			kt := findTest(nf, o)
			if kt == nil {
				r2("guard").Fail("guard variable is not the ok of a kind test on the element")
				return
			}
			k := c.testKind(kt, l.Value)
			if k == "" {
				r2("guard").Fail("kind test %s.(%s) does not identify a kind of the range element", exprStr(kt.Operand), shortType(kt.T))
				return
			}
			got[k] = true
		}
		okKinds := len(got) == len(want) && len(negOks) == len(want)
		for _, k := range want {
			if !got[k] {
				okKinds = false
			}
		}
		if !okKinds {
			r2("guard").Fail("%s returns false when the element fails tests for kinds %v; the property demands exactly %v", m.Name(), keysOf(got), want)
			return
		}
		r2("guard").Ok("returns false exactly when the element is none of %v", want)
		// after the loop: return true, and nothing else returns
		rets := returnsOf(fd.Body)
		last, _ := fd.Body.List[len(fd.Body.List)-1].(*ast.ReturnStmt)
		if len(rets) == 2 && last != nil && len(last.Results) == 1 && c.isConstBool(last.Results[0], true) {
			r2("after-loop").Ok("`return true` follows the loop (vacuously true on the empty list); no other return")
		} else {
			r2("after-loop").Fail("expected exactly the in-loop `return false` and a final `return true`; found %d returns", len(rets))
		}
		return
	}

	// element kind demanded by the signature
	var wantT types.Type
	var cbParam *types.Var
	for i := 0; i < sig.Params().Len(); i++ {
		if fs, ok := sig.Params().At(i).Type().Underlying().(*types.Signature); ok {
			cbParam = sig.Params().At(i)
			if fs.Params().Len() > 0 {
				wantT = fs.Params().At(fs.Params().Len() - 1).Type()
			}
		}
	}
	if fam == "Slice" {
		if sl, ok := sig.Results().At(0).Type().Underlying().(*types.Slice); ok {
			wantT = sl.Elem()
		}
	}
	if wantT == nil {
		r2("kind").Undecided("cannot derive the element type from the signature %s", sig)
		return
	}
	untyped := isEmptyIface(wantT)
	wantKind := c.kindOfType(wantT)
	if !untyped && wantKind == "" {
		r2("kind").Undecided("element type %s is not one of the kinds", shortType(wantT))
		return
	}
	// the callback parameter object inside the implementation
	var cbObj types.Object
	if cbParam != nil {
		idx := 0
		for _, f := range fd.Type.Params.List {
			for _, nm := range f.Names {
				if _, ok := c.typeOf(f.Type).Underlying().(*types.Signature); ok {
					cbObj = c.Info.Defs[nm]
				}
				idx++
			}
		}
	}
	// exactly one action
	if len(nf.Actions) != 1 {
		r1("action").Fail("expected exactly one action per iteration, found %d", len(nf.Actions))
		return
	}
	act := nf.Actions[0]
	oks, negOks, others := guardAtoms(c, act.Guard)
	if len(negOks) != 0 {
		r2("guard").Fail("action is guarded by a failed kind test")
		return
	}
	// element value expected by the action
	var elemVal types.Object // typed: the val of the test
	if untyped {
		if len(oks) != 0 {
			r2("guard").Fail("untyped view filters elements by a kind test")
			return
		}
	} else {
		if len(oks) != 1 {
			r2("guard").Fail("typed view must be guarded by exactly one kind test, found %d", len(oks))
			return
		}
		kt := findTest(nf, oks[0])
		if kt == nil {
			r2("guard").Fail("guard variable is not the ok of a kind test")
			return
		}
		if k := c.testKind(kt, l.Value); k != wantKind {
			r2("guard").Fail("kind test %s.(%s) selects kind %q, but the signature demands %q", exprStr(kt.Operand), shortType(kt.T), k, wantKind)
			return
		}
		if !types.Identical(kt.T, wantT) {
			r2("guard").Fail("tested type %s differs from the signature's element type %s", shortType(kt.T), shortType(wantT))
			return
		}
		elemVal = kt.Val
	}
	isElem := func(e ast.Expr) bool {
		if untyped {
			return c.elemForm(e, l.Value) == "val"
		}
		return elemVal != nil && c.obj(e) == elemVal
	}
	isCb := func(e ast.Expr) (*ast.CallExpr, bool) {
		call, ok := unparen(e).(*ast.CallExpr)
		if !ok || cbObj == nil || c.obj(call.Fun) != cbObj {
			return nil, false
		}
		return call, true
	}
	// callback argument convention: (elem) or (rangeKey, elem)
	cbArgsOK := func(call *ast.CallExpr, accFirst types.Object) string {
		args := call.Args
		if accFirst != nil {
			if len(args) != 2 || c.obj(args[0]) != accFirst {
				return "accumulator is not threaded as the first argument"
			}
			args = args[1:]
		}
		switch len(args) {
		case 1:
			if !isElem(args[0]) {
				return "callback does not receive the tested element value / getVal() of the element"
			}
		case 2:
			if l.Key == nil || c.obj(args[0]) != l.Key {
				return "first callback argument is not the range key (index / field name)"
			}
			if !isElem(args[1]) {
				return "callback does not receive the tested element value / getVal() of the element"
			}
		default:
			return "unexpected callback arity"
		}
		return ""
	}
	// Filter: guard has one extra atom = positive callback(elem)
	if fam == "Filter" {
		if len(others) != 1 || others[0].Neg {
			r2("guard").Fail("Filter action must be guarded by the predicate (positive), found %d extra guard atoms", len(others))
			return
		}
		pc, ok := isCb(others[0].Expr)
		if !ok {
			r2("guard").Fail("extra guard atom is not a call of the predicate parameter")
			return
		}
		if why := cbArgsOK(pc, nil); why != "" {
			r2("guard").Fail("predicate: %s", why)
			return
		}
		if !untyped {
			// short-circuit order: the kind test must be evaluated before the predicate is invoked
			first := act.Guard[0]
			if id, isId := first.Expr.(*ast.Ident); !isId || first.Neg || c.obj(id) != oks[0] {
				r2("guard").Fail("the predicate is invoked before the kind test has succeeded: it is called for elements of other kinds (with a zero value) as well")
				return
			}
		}
	} else if len(others) != 0 {
		r2("guard").Fail("action has an extra guard condition %s: not every element of the kind is processed", exprStr(others[0].Expr))
		return
	}
	r2("guard").Ok("action guarded exactly by the kind test for %q%s", map[bool]string{true: "any (no test)", false: wantKind}[untyped], map[bool]string{true: " and the predicate", false: ""}[fam == "Filter"])

	// the action itself
	resultVar := func(e ast.Expr) types.Object { // local initialised before the loop
		o := c.obj(e)
		if o == nil || o.Pos() > l.Stmt.Pos() || o.Pos() < fd.Body.Pos() {
			if o != nil && fd.Type.Results != nil { // named result
				for _, f := range fd.Type.Results.List {
					for _, nm := range f.Names {
						if c.Info.Defs[nm] == o {
							return o
						}
					}
				}
			}
			return nil
		}
		return o
	}
	fail := func(why string) { r1("action").Fail("%s", why) }
	switch fam {
	case "ForEach":
		es, ok := act.Stmt.(*ast.ExprStmt)
		if !ok {
			fail("action is not a call of the callback")
			return
		}
		call, ok := isCb(es.X)
		if !ok {
			fail("action is not a call of the callback parameter")
			return
		}
		if why := cbArgsOK(call, nil); why != "" {
			fail(why)
			return
		}
	case "Map":
		es, ok := act.Stmt.(*ast.ExprStmt)
		call, ok2 := (*ast.CallExpr)(nil), false
		if ok {
			call, ok2 = unparen(es.X).(*ast.CallExpr)
		}
		if !ok2 {
			fail("action is not result.Add/Set(callback(...))")
			return
		}
		sel, ok := unparen(call.Fun).(*ast.SelectorExpr)
		if !ok || resultVar(sel.X) == nil {
			fail("action is not a method call on the result container")
			return
		}
		callee := c.callee(call)
		var inner ast.Expr
		if ct.IsList {
			if callee == nil || callee.Name() != "Add" || len(call.Args) != 1 {
				fail("list Map must Add exactly one value per selected element")
				return
			}
			inner = call.Args[0]
		} else {
			if callee == nil || callee.Name() != "Set" || len(call.Args) != 2 {
				fail("object Map must Set exactly one pair per selected field")
				return
			}
			if l.Key == nil || c.obj(call.Args[0]) != l.Key {
				fail("object Map stores the result under something other than the range key")
				return
			}
			inner = call.Args[1]
		}
		ic, ok := isCb(inner)
		if !ok {
			fail("stored value is not the callback's result")
			return
		}
		if why := cbArgsOK(ic, nil); why != "" {
			fail(why)
			return
		}
	case "Filter":
		es, ok := act.Stmt.(*ast.ExprStmt)
		call, ok2 := (*ast.CallExpr)(nil), false
		if ok {
			call, ok2 = unparen(es.X).(*ast.CallExpr)
		}
		if !ok2 {
			fail("action is not result.Add(element)")
			return
		}
		sel, ok := unparen(call.Fun).(*ast.SelectorExpr)
		callee := c.callee(call)
		if !ok || resultVar(sel.X) == nil || callee == nil || callee.Name() != "Add" || len(call.Args) != 1 || !isElem(call.Args[0]) {
			fail("Filter must Add exactly the tested element to the result")
			return
		}
	case "Reduce":
		as, ok := act.Stmt.(*ast.AssignStmt)
		if !ok || as.Tok != token.ASSIGN || len(as.Lhs) != 1 || len(as.Rhs) != 1 {
			fail("action is not `acc = f(acc, x)`")
			return
		}
		acc := resultVar(as.Lhs[0])
		call, ok := isCb(as.Rhs[0])
		if acc == nil || !ok {
			fail("action is not `acc = f(acc, x)` on an accumulator declared before the loop")
			return
		}
		if why := cbArgsOK(call, acc); why != "" {
			fail(why)
			return
		}
		c14ReduceFrame(c, fd, acc, l, name)
	case "Slice":
		as, ok := act.Stmt.(*ast.AssignStmt)
		if !ok || as.Tok != token.ASSIGN || len(as.Lhs) != 1 || len(as.Rhs) != 1 {
			fail("action is not `s = append(s, x)`")
			return
		}
		s := resultVar(as.Lhs[0])
		call, ok := unparen(as.Rhs[0]).(*ast.CallExpr)
		if s == nil || !ok || !c.isBuiltin(call, "append") || len(call.Args) != 2 || c.obj(call.Args[0]) != s || !isElem(call.Args[1]) || call.Ellipsis.IsValid() {
			fail("typed slice must append exactly the tested element value")
			return
		}
		rets := returnsOf(fd.Body)
		if len(rets) != 1 || len(rets[0].Results) != 1 || c.obj(rets[0].Results[0]) != s {
			fail("the slice that is appended to is not what is returned")
			return
		}
	}
	r1("action").Ok("%s: one action per iteration on the selected element, value = %s, key = range key where applicable", fam, map[bool]string{true: "element.getVal()", false: "tested value"}[untyped])
}

func c14ReduceFrame(c *Ctx, fd *ast.FuncDecl, acc types.Object, l spineLoop, name string) {
	ob := c.Ob("C14.R1", name+"/accumulator", l.Stmt.Pos())
	// acc is initialised from the `initial` parameter and returned
	var initParam types.Object
	if fd.Type.Params != nil && len(fd.Type.Params.List) > 0 && len(fd.Type.Params.List[0].Names) > 0 {
		initParam = c.Info.Defs[fd.Type.Params.List[0].Names[0]]
	}
	initOK := false
	for _, s := range fd.Body.List {
		if s == ast.Stmt(l.Stmt) {
			break
		}
		if as, ok := s.(*ast.AssignStmt); ok && len(as.Lhs) == 1 && len(as.Rhs) == 1 && c.obj(as.Lhs[0]) == acc {
			initOK = c.obj(as.Rhs[0]) == initParam && initParam != nil
		}
	}
	if acc == initParam {
		initOK = true
	}
	rets := returnsOf(fd.Body)
	retOK := len(rets) == 1 && len(rets[0].Results) == 1 && c.obj(rets[0].Results[0]) == acc
	ob.Check(initOK && retOK, "accumulator starts from the initial argument and is the returned value", "accumulator is not initialised from the first parameter or not returned")
}

func (c *Ctx) isConstBool(e ast.Expr, v bool) bool {
	tv, ok := c.Info.Types[e]
	if !ok || tv.Value == nil {
		return false
	}
	return tv.Value.String() == map[bool]string{true: "true", false: "false"}[v]
}

func keysOf(m map[string]bool) []string {
	var s []string
	for k := range m {
		s = append(s, k)
	}
	sortStrings(s)
	return s
}
