package main

// E5 on SX: the transition function of the parser machines is obtained by abstractly evaluating the SX iteration paths of the
// machine's main loop for every (state, character class, flags). Because the paths come from the symbolic executor, helper
// extraction (decode helpers, error constructors), switch/if restructuring and hoisted locals do not change the table.

import (
	"go/ast"
	"go/constant"
	"go/token"
	"go/types"
	"sort"
)

type sxM struct {
	loop    *LoopRec
	iter    []*Path
	after   *Path // path that leaves the loop normally (end of input)
	prelude []Step
	why     string
	decoder map[*types.Func]bool
}

var sxMCache = map[*Machine]*sxM{}

func (m *Machine) sx() *sxM {
	if s, ok := sxMCache[m]; ok {
		return s
	}
	s := &sxM{decoder: map[*types.Func]bool{}}
	sxMCache[m] = s
	c := m.c
	x := c.NewSX()
	x.budget = 200000
	// token consumers stay opaque and are recorded as steps: functions of this package taking exactly one string (the token, at any
	// position) and returning (T, error)
	sc := c.Types.Scope()
	for _, n := range sc.Names() {
		f, ok := sc.Lookup(n).(*types.Func)
		if !ok {
			continue
		}
		sig := f.Type().(*types.Signature)
		if sig.Recv() != nil || sig.Params().Len() == 0 || sig.Results().Len() != 2 {
			continue
		}
		if _, ok := tokenParam(sig); !ok {
			continue
		}
		if !types.Identical(sig.Results().At(1).Type(), types.Universe.Lookup("error").Type()) {
			continue
		}
		// (string, error): string decoder; (any, error): literal consumer. Helpers returning e.g. (rune, int, error) have 3 results and are inlined.
		x.NoInline[n] = true
		s.decoder[f] = true
	}
	x.ForceStep = func(f *types.Func) bool { return s.decoder[f] }
	paths := x.Run(m.fn)
	for _, p := range paths {
		if p.Why != "" {
			s.why = p.Why
			return s
		}
	}
	paths = c.view(m.fn).flagNorm(paths) // `end, closed = i, true; break` reads as the return it stands for
	for _, p := range paths {
		for i, st := range p.Steps {
			if st.Kind != "loop" {
				continue
			}
			if s.loop != nil && s.loop != st.Loop {
				s.why = "more than one loop in the machine"
				return s
			}
			s.loop = st.Loop
			if i == len(p.Steps)-1 {
				s.after = p
				s.prelude = p.Steps[:i]
			}
		}
	}
	if s.loop == nil || s.loop.For == nil {
		s.why = "no counted main loop"
		return s
	}
	s.iter = s.loop.Iter
	for _, p := range s.iter {
		if p.Why != "" {
			s.why = p.Why
		}
	}
	return s
}

// ---- term recognisers

func (m *Machine) isDecode(t Term) bool {
	c, ok := t.(TCall)
	return ok && c.Fun != nil && c.Fun.FullName() == "unicode/utf8.DecodeRuneInString"
}

func (m *Machine) isChar(t Term) bool {
	p, ok := t.(TProj)
	return ok && p.K == 0 && m.isDecode(p.X)
}

// isCurRuneBytes: t is json[i:][:size] or json[i:i+size] with size the decoded width of the current character.
func (m *Machine) isCurRuneBytes(t Term) bool {
	sl, ok := t.(TSlice)
	if !ok || sl.Hi == nil || sl.Max != nil {
		return false
	}
	lo0 := sl.Lo == nil
	if k, ok := constInt(sl.Lo); sl.Lo != nil && ok && k == 0 {
		lo0 = true
	}
	if in, ok := sl.X.(TSlice); ok && lo0 {
		return isParamTerm(in.X, m.jsonV) && m.loopVar(in.Lo, m.idxV) && in.Hi == nil && m.isSize(sl.Hi)
	}
	if isParamTerm(sl.X, m.jsonV) && m.loopVar(sl.Lo, m.idxV) {
		if b, ok := sl.Hi.(TBin); ok && b.Op == token.ADD {
			return (m.loopVar(b.X, m.idxV) && m.isSize(b.Y)) || (m.loopVar(b.Y, m.idxV) && m.isSize(b.X))
		}
	}
	return false
}

func (m *Machine) isSize(t Term) bool {
	p, ok := t.(TProj)
	return ok && p.K == 1 && m.isDecode(p.X)
}

func (m *Machine) loopVar(t Term, o types.Object) bool {
	lv, ok := t.(TLoop)
	return ok && o != nil && lv.Obj == o
}

// builderOf: t denotes one of the machine's builders (its zero-value literal or a pointer to it); returns the role.
func (m *Machine) builderOf(t Term, pre map[string]string) string {
	if a, ok := t.(TAddr); ok {
		t = a.X
	}
	if d, ok := t.(TDeref); ok {
		t = d.X
		if a, ok := t.(TAddr); ok {
			t = a.X
		}
	}
	switch x := t.(type) {
	case TLit:
		if x.Type != nil && x.Type.String() == "strings.Builder" {
			return pre[key(x)]
		}
	case TVar:
		if r, ok := m.builders[x.Obj]; ok {
			return r
		}
	}
	return ""
}

// builderString: t is <builder>.String(); returns the role.
func (m *Machine) builderStringT(t Term, roles map[string]string) string {
	if cv, ok := t.(TConv); ok && isStringType(cv.To) {
		// string(buf): a []byte buffer as it was at the start of the iteration
		if lv, ok := cv.X.(TLoop); ok && m.byteBufs[lv.Obj] {
			return m.builders[lv.Obj]
		}
		return ""
	}
	c, ok := t.(TCall)
	if !ok || c.Fun == nil || c.Fun.FullName() != "(*strings.Builder).String" || c.Recv == nil {
		return ""
	}
	return m.builderOf(c.Recv, roles)
}

// builderRoles maps the key of each builder's zero literal (as bound in the loop-head environment) to "val"/"key".
func (m *Machine) builderRoles() map[string]string {
	roles := map[string]string{}
	s := m.sx()
	for o, role := range m.builders {
		if t, ok := s.loop.HeadEnv[o]; ok {
			roles[key(t)] = role
		}
	}
	return roles
}

type absEval struct {
	m      *Machine
	state  string
	inVal  Tri
	bufLen map[string]Tri
	class  *Class
	roles  map[string]string
	errNil map[string]Tri // by key of the call whose error result is tested
	consts map[string]string
}

func (m *Machine) stateConsts() map[string]string {
	out := map[string]string{}
	sc := m.c.Types.Scope()
	for _, n := range sc.Names() {
		if k, ok := sc.Lookup(n).(*types.Const); ok && isStateType(m.c, k.Type()) && (m.stateV == nil || types.Identical(k.Type(), m.stateV.Type())) {
			out[k.Val().ExactString()] = n
		}
	}
	return out
}

func runeOf(t Term) (rune, bool) {
	k, ok := t.(TConst)
	if !ok || k.Val.Kind() != constant.Int {
		return 0, false
	}
	v, _ := constant.Int64Val(k.Val)
	return rune(v), true
}

func (a *absEval) charEq(r rune) Tri {
	c := a.class
	if c.Runes != nil {
		in := false
		for _, x := range c.Runes {
			if x == r {
				in = true
			}
		}
		if !in {
			return F
		}
		if len(c.Runes) == 1 {
			return T
		}
		return U
	}
	for _, k := range classes {
		for _, x := range k.Runes {
			if x == r {
				return F
			}
		}
	}
	return U
}

// charCmp: `char OP k` over the runes of the class.
func (a *absEval) charCmp(op token.Token, k int64) Tri {
	c := a.class
	cmp := func(r int64) bool {
		switch op {
		case token.LSS:
			return r < k
		case token.LEQ:
			return r <= k
		case token.GTR:
			return r > k
		}
		return r >= k
	}
	var lo, hi int64
	switch {
	case c.Runes != nil:
		lo, hi = int64(c.Runes[0]), int64(c.Runes[0])
		for _, r := range c.Runes {
			if int64(r) < lo {
				lo = int64(r)
			}
			if int64(r) > hi {
				hi = int64(r)
			}
		}
	case c.Name == "LIT":
		lo, hi = 0x21, 0x7e
	default:
		lo, hi = 0, 0x10FFFF
	}
	// the comparisons are monotone in the rune: the two ends decide
	switch {
	case cmp(lo) && cmp(hi):
		return T
	case !cmp(lo) && !cmp(hi):
		return F
	}
	return U
}

// isCurByte: json[i:][0] or json[i] with i the loop position at the start of the iteration.
func (m *Machine) isCurByte(t Term) bool {
	ix, ok := t.(TIndex)
	if !ok {
		return false
	}
	if cv, ok := ix.X.(TConv); ok { // []byte(json)[i]
		ix.X = cv.X
	}
	if sl, ok := ix.X.(TSlice); ok {
		k, isK := constInt(ix.I)
		return isK && k == 0 && isParamTerm(sl.X, m.jsonV) && m.loopVar(sl.Lo, m.idxV) && sl.Hi == nil
	}
	return isParamTerm(ix.X, m.jsonV) && m.loopVar(ix.I, m.idxV)
}

// byteEq: does the first byte of the current rune's encoding equal r?
func (a *absEval) byteEq(r rune) (Tri, bool) {
	c := a.class
	switch c.Name {
	case "BADUTF8", "EMPTY", "OTHER":
		return U, c.Name != "EMPTY" // with no input left the index would panic: not decided here
	case "FFFD":
		if r == 0xEF {
			return T, true
		}
		return F, true
	}
	if r >= 0x80 {
		return F, true
	}
	return a.charEq(r), true
}

func (a *absEval) sizeCmp(op token.Token, k int64) Tri {
	anyT, anyF := false, false
	for _, s := range a.class.Size {
		var v bool
		switch op {
		case token.EQL:
			v = int64(s) == k
		case token.NEQ:
			v = int64(s) != k
		case token.LSS:
			v = int64(s) < k
		case token.LEQ:
			v = int64(s) <= k
		case token.GTR:
			v = int64(s) > k
		case token.GEQ:
			v = int64(s) >= k
		}
		if v {
			anyT = true
		} else {
			anyF = true
		}
	}
	switch {
	case anyT && !anyF:
		return T
	case anyF && !anyT:
		return F
	}
	return U
}

// atom evaluates one path condition abstractly; ok=false: outside the vocabulary.
func (a *absEval) atom(t Term) (Tri, bool) {
	m := a.m
	switch x := t.(type) {
	case TConst:
		if x.Val.Kind() == constant.Bool {
			if constant.BoolVal(x.Val) {
				return T, true
			}
			return F, true
		}
	case TUn:
		if x.Op == token.NOT {
			v, ok := a.atom(x.X)
			return triNot(v), ok
		}
	case TLoop:
		if x.Obj == m.inValV {
			return a.inVal, true
		}
	case TCall:
		if x.Fun != nil && x.Fun.FullName() == "unicode.IsSpace" && len(x.Args) == 1 && m.isChar(x.Args[0]) {
			return a.class.Space, true
		}
	case TBin:
		switch x.Op {
		case token.LAND:
			l, ok1 := a.atom(x.X)
			r, ok2 := a.atom(x.Y)
			return triAnd(l, r), ok1 && ok2
		case token.LOR:
			l, ok1 := a.atom(x.X)
			r, ok2 := a.atom(x.Y)
			return triOr(l, r), ok1 && ok2
		}
		// orientation-insensitive matching
		for _, sw := range []bool{false, true} {
			l, r, op := x.X, x.Y, x.Op
			if sw {
				l, r = r, l
				op = map[token.Token]token.Token{token.LSS: token.GTR, token.GTR: token.LSS, token.LEQ: token.GEQ, token.GEQ: token.LEQ, token.EQL: token.EQL, token.NEQ: token.NEQ}[op]
			}
			// state == const
			if m.loopVar(l, m.stateV) {
				if k, ok := r.(TConst); ok && (op == token.EQL || op == token.NEQ) {
					name := a.consts[k.Val.ExactString()]
					v := F
					if name == a.state {
						v = T
					}
					if op == token.NEQ {
						v = triNot(v)
					}
					return v, true
				}
			}
			// char == rune
			if m.isChar(l) {
				if rr, ok := runeOf(r); ok && (op == token.EQL || op == token.NEQ) {
					v := a.charEq(rr)
					if op == token.NEQ {
						v = triNot(v)
					}
					return v, true
				}
			}
			// char OP k: an order comparison of the current rune, decided over the members of the class (LIT is printable ASCII
			// 0x21..0x7e without the specials; OTHER is everything else and stays open)
			if m.isChar(l) && (op == token.LSS || op == token.LEQ || op == token.GTR || op == token.GEQ) {
				if k, ok := constInt(r); ok {
					return a.charCmp(op, k), true
				}
			}
			// json[i] < 0x80: the current rune is ASCII — by class
			if m.isCurByte(l) {
				if k, ok := constInt(r); ok && ((k == 0x80 && (op == token.LSS || op == token.GEQ)) || (k == 0x7f && (op == token.LEQ || op == token.GTR))) {
					v := U
					switch a.class.Name {
					case "FFFD", "BADUTF8":
						v = F // first byte 0xEF / a byte that cannot start or continue a sequence here: >= 0x80
					case "OTHER":
						v = U // control characters and everything beyond ASCII
					case "EMPTY":
						v = F // no byte there (the loop condition keeps the machine from asking): what the decoder says about it is decided on the decoding branch
					default:
						v = T
					}
					if op == token.GEQ || op == token.GTR {
						v = triNot(v)
					}
					return v, true
				}
			}
			// first byte of the rune being decoded: json[i:][0] or json[i] — for a one-byte class the byte is the rune
			if m.isCurByte(l) {
				if rr, ok := runeOf(r); ok && (op == token.EQL || op == token.NEQ) {
					v, known := a.byteEq(rr)
					if known {
						if op == token.NEQ {
							v = triNot(v)
						}
						return v, true
					}
				}
			}
			// size OP k
			if m.isSize(l) {
				if k, ok := constInt(r); ok {
					return a.sizeCmp(op, k), true
				}
			}
			// len(buf) OP 0 on a []byte buffer
			if bl, ok := l.(TBuiltin); ok && bl.Name == "len" && len(bl.Args) == 1 {
				if lv, ok := bl.Args[0].(TLoop); ok && m.byteBufs[lv.Obj] {
					if k, ok := constInt(r); ok && k == 0 {
						cur := a.bufLen[m.builders[lv.Obj]]
						switch op {
						case token.GTR, token.NEQ:
							return cur, true
						case token.EQL, token.LEQ:
							return triNot(cur), true
						}
					}
				}
			}
			// builder.Len() OP 0
			if c, ok := l.(TCall); ok && c.Fun != nil && c.Fun.FullName() == "(*strings.Builder).Len" && c.Recv != nil {
				if role := m.builderOf(c.Recv, a.roles); role != "" {
					if k, ok := constInt(r); ok && k == 0 {
						cur := a.bufLen[role]
						switch op {
						case token.GTR, token.NEQ:
							return cur, true
						case token.EQL, token.LEQ:
							return triNot(cur), true
						}
					}
				}
			}
			// err != nil / err == nil
			if _, isNil := r.(TNil); isNil && (op == token.EQL || op == token.NEQ) {
				if p, ok := l.(TProj); ok {
					if call, ok := p.X.(TCall); ok {
						k := key(call)
						v, known := a.errNil[k]
						if !known {
							v = U
						}
						if op == token.NEQ {
							v = triNot(v)
						}
						return v, true
					}
				}
			}
		}
	}
	return U, false
}

// refineErr records what a taken branch tells about a call's error result.
func (a *absEval) refineErr(t Term, truth bool) {
	if u, ok := t.(TUn); ok && u.Op == token.NOT {
		a.refineErr(u.X, !truth)
		return
	}
	b, ok := t.(TBin)
	if !ok || (b.Op != token.EQL && b.Op != token.NEQ) {
		return
	}
	l, r := b.X, b.Y
	if _, isNil := l.(TNil); isNil {
		l, r = r, l
	}
	if _, isNil := r.(TNil); !isNil {
		return
	}
	p, ok := l.(TProj)
	if !ok {
		return
	}
	call, ok := p.X.(TCall)
	if !ok {
		return
	}
	isNil := truth == (b.Op == token.EQL)
	if isNil {
		a.errNil[key(call)] = T
	} else {
		a.errNil[key(call)] = F
	}
}

// Step evaluates every iteration path abstractly for (state, flags, class) and returns the feasible exits.
func (m *Machine) Step(state string, inVal Tri, bufLen map[string]Tri, class *Class) []Exit {
	s := m.sx()
	if s.why != "" {
		m.undec(m.fn.Pos(), "machine outside the path vocabulary: %s", s.why)
		return nil
	}
	roles := m.builderRoles()
	consts := m.stateConsts()
	var exits []Exit
	for _, p := range s.iter {
		a := &absEval{m: m, state: state, inVal: inVal, bufLen: map[string]Tri{}, class: class, roles: roles, errNil: map[string]Tri{}, consts: consts}
		for k, v := range bufLen {
			a.bufLen[k] = v
		}
		env := &Env{State: state, InVal: inVal, BufLen: a.bufLen, Class: class}
		feasible := true
		binds := map[string]*AVal{} // by key of the producing call
		for _, st := range p.Steps {
			if !feasible {
				break
			}
			switch st.Kind {
			case "cond":
				v, ok := a.atom(st.Cond.T)
				if !ok {
					m.undec(posOfNode(st.Node), "condition not understood: %s", m.c.termStr(st.Cond.T))
					continue
				}
				if (v == T && !st.Cond.Truth) || (v == F && st.Cond.Truth) {
					feasible = false
					continue
				}
				a.refineErr(st.Cond.T, st.Cond.Truth)
			case "store":
				if d, ok := st.LHS.(TDeref); ok && isParamTerm(d.X, m.lineV) {
					// *line = *line + 1
					if b, ok := st.RHS.(TBin); ok && b.Op == token.ADD {
						if k, ok := constInt(b.Y); ok && k == 1 {
							if d2, ok := b.X.(TDeref); ok && isParamTerm(d2.X, m.lineV) {
								env.Acts = append(env.Acts, Action{Op: "LINE", Pos: posOfNode(st.Node)})
								continue
							}
						}
					}
				}
				m.undec(posOfNode(st.Node), "store not understood: %s", m.c.termStr(st.LHS))
			case "call":
				if !m.callStep(st, a, env, binds) {
					what := "builtin"
					if st.Call != nil {
						what = m.c.termStr(*st.Call)
					}
					m.undec(posOfNode(st.Node), "call not understood: %s", what)
				}
			default:
				m.undec(posOfNode(st.Node), "%s inside the machine loop", st.Kind)
			}
		}
		if !feasible {
			continue
		}
		// final environment
		if t, ok := p.Env[m.stateV]; ok {
			if k, ok := t.(TConst); ok {
				if name := consts[k.Val.ExactString()]; name != "" && name != state {
					env.State = name
					env.Acts = append(env.Acts, Action{Op: "STATE", What: name})
				} else if name != "" {
					env.State = name
				}
			} else if !m.loopVar(t, m.stateV) {
				m.undec(m.fn.Pos(), "state assigned a non-constant")
			}
		}
		if t, ok := p.Env[m.inValV]; ok {
			switch {
			case isConstBoolTerm(t, true):
				env.InVal = T
			case isConstBoolTerm(t, false):
				env.InVal = F
			case m.loopVar(t, m.inValV):
			default:
				m.undec(m.fn.Pos(), "in-value flag assigned a non-constant")
			}
		}
		if t, ok := p.Env[m.contV]; ok && !m.loopVar(t, m.contV) {
			if call, ok := t.(TCall); ok && call.Fun != nil && (call.Fun.Name() == "NewList" || call.Fun.Name() == "NewObject") && len(call.Args) == 0 {
				env.Created = true
				env.Acts = append(env.Acts, Action{Op: "CREATE", What: call.Fun.Name()})
			} else {
				m.undec(m.fn.Pos(), "container variable assigned something other than a fresh container")
			}
		}
		if t, ok := p.Env[m.idxV]; ok && !m.loopVar(t, m.idxV) {
			good := false
			if b, ok := t.(TBin); ok && b.Op == token.ADD && m.loopVar(b.X, m.idxV) {
				if pr, ok := b.Y.(TProj); ok && pr.K == 1 {
					if v := binds[key(pr.X)]; v != nil && (v.Kind == "NESTED_OBJ" || v.Kind == "NESTED_LIST") {
						env.Acts = append(env.Acts, Action{Op: "IADD", Val: &AVal{Kind: "POS"}})
						good = true
					}
				}
			}
			if !good {
				m.undec(m.fn.Pos(), "loop index modified other than by a nested offset: %s", m.c.termStr(t))
			}
		}
		// []byte buffers: what the iteration made of them, read off their final value (after every read of the iteration: reads
		// name the buffer as it was at the start)
		for _, o := range m.sortedByteBufs() {
			t, ok := p.Env[o]
			if !ok || m.loopVar(t, o) {
				continue
			}
			if !m.byteBufUpdate(t, o, m.builders[o], a, env, binds, posOfNode(p.Node)) {
				m.undec(posOfNode(p.Node), "buffer update not understood: %s = %s", o.Name(), m.c.termStr(t))
			}
		}
		// string registers: only ever assigned the decoded key
		var regs []types.Object
		for o := range m.keyRegs {
			regs = append(regs, o)
		}
		sort.Slice(regs, func(i, j int) bool { return regs[i].Pos() < regs[j].Pos() })
		for _, o := range regs {
			t, ok := p.Env[o]
			if !ok || m.loopVar(t, o) {
				continue
			}
			good := false
			if pr, ok := t.(TProj); ok && pr.K == 0 {
				if v := binds[key(pr.X)]; v != nil {
					env.Acts = append(env.Acts, Action{Op: "KEYREG", Val: v, Pos: posOfNode(p.Node)})
					good = true
				}
			}
			if !good {
				m.undec(posOfNode(p.Node), "string register %s assigned something other than a decoder's result: %s", o.Name(), m.c.termStr(t))
			}
		}
		env.BufLen = a.bufLen
		ex := Exit{Env: env, Pos: posOfNode(p.Node)}
		switch p.End {
		case "fall":
			ex.Kind = "FALL"
		case "continue":
			ex.Kind = "CONTINUE"
		case "return":
			ex = m.classifyReturnT(p, a, env)
		case "panic":
			ex.Kind, ex.Note = "BADRET", "explicit panic inside the machine"
		default:
			ex.Kind, ex.Note = "BADRET", p.End
		}
		exits = append(exits, ex)
	}
	return exits
}

func (m *Machine) sortedByteBufs() []types.Object {
	var out []types.Object
	for o := range m.byteBufs {
		out = append(out, o)
	}
	sort.Slice(out, func(i, j int) bool { return out[i].Pos() < out[j].Pos() })
	return out
}

// byteBufUpdate turns the final value of a []byte buffer into RESET / W actions: buf′, buf′[:0], nil, append(X, …), utf8.AppendRune(X, r).
func (m *Machine) byteBufUpdate(t Term, o types.Object, role string, a *absEval, env *Env, binds map[string]*AVal, pos token.Pos) bool {
	write := func(arg Term, spread bool) bool {
		if cv, ok := arg.(TConv); ok && !spread {
			arg = cv.X
		}
		switch {
		case !spread && m.isChar(arg):
			env.Acts = append(env.Acts, Action{Op: "W", Buf: role, What: "char", Pos: pos})
			a.bufLen[role] = T
			return true
		case !spread:
			if r, ok := runeOf(arg); ok {
				env.Acts = append(env.Acts, Action{Op: "W", Buf: role, What: string(r), Pos: pos})
				a.bufLen[role] = T
				return true
			}
			return false
		}
		// spread string
		if pr, ok := arg.(TProj); ok && pr.K == 0 {
			if v := binds[key(pr.X)]; v != nil {
				env.Acts = append(env.Acts, Action{Op: "W", Buf: role, What: "val", Val: v, Pos: pos})
				a.bufLen[role] = U
				return true
			}
		}
		if m.isCurRuneBytes(arg) {
			env.Acts = append(env.Acts, Action{Op: "W", Buf: role, What: "char", Pos: pos})
			a.bufLen[role] = T
			return true
		}
		if s, ok := isConstStringTerm(arg); ok {
			env.Acts = append(env.Acts, Action{Op: "W", Buf: role, What: s, Pos: pos})
			if s != "" {
				a.bufLen[role] = T
			}
			return true
		}
		return false
	}
	switch x := t.(type) {
	case TLoop:
		return x.Obj == o
	case TNil:
		env.Acts = append(env.Acts, Action{Op: "RESET", Buf: role, Pos: pos})
		a.bufLen[role] = F
		return true
	case TSlice:
		hi0 := false
		if k, ok := constInt(x.Hi); x.Hi != nil && ok && k == 0 {
			hi0 = true
		}
		lo0 := x.Lo == nil
		if k, ok := constInt(x.Lo); x.Lo != nil && ok && k == 0 {
			lo0 = true
		}
		if lv, ok := x.X.(TLoop); ok && lv.Obj == o && hi0 && lo0 {
			env.Acts = append(env.Acts, Action{Op: "RESET", Buf: role, Pos: pos})
			a.bufLen[role] = F
			return true
		}
		return false
	case TBuiltin:
		switch x.Name {
		case "make":
			if len(x.Args) >= 1 {
				if k, ok := constInt(x.Args[0]); ok && k == 0 {
					env.Acts = append(env.Acts, Action{Op: "RESET", Buf: role, Pos: pos})
					a.bufLen[role] = F
					return true
				}
			}
			return false
		case "append":
			if len(x.Args) < 1 || !m.byteBufUpdate(x.Args[0], o, role, a, env, binds, pos) {
				return false
			}
			spread := false
			if ce, ok := x.Site.(*ast.CallExpr); ok && ce.Ellipsis.IsValid() {
				spread = true
			}
			for _, arg := range x.Args[1:] {
				if !write(arg, spread) {
					return false
				}
			}
			return true
		}
	case TCall:
		if x.Fun != nil && x.Fun.FullName() == "unicode/utf8.AppendRune" && len(x.Args) == 2 {
			return m.byteBufUpdate(x.Args[0], o, role, a, env, binds, pos) && write(x.Args[1], false)
		}
	}
	return false
}

func (m *Machine) classifyReturnT(p *Path, a *absEval, env *Env) Exit {
	ex := Exit{Env: env, Pos: posOfNode(p.Node)}
	if len(p.Vals) != 3 {
		ex.Kind, ex.Note = "BADRET", "arity"
		return ex
	}
	_, firstNil := p.Vals[0].(TNil)
	_, thirdNil := p.Vals[2].(TNil)
	switch {
	case firstNil && !thirdNil:
		if call, ok := p.Vals[2].(TCall); ok && call.Fun != nil && (call.Fun.FullName() == "fmt.Errorf" || call.Fun.FullName() == "errors.New") {
			ex.Kind = "ERR"
			if len(call.Args) > 0 {
				if s, ok := isConstStringTerm(call.Args[0]); ok {
					ex.Note = s
				}
			}
			return ex
		}
		if pr, ok := p.Vals[2].(TProj); ok {
			if call, ok := pr.X.(TCall); ok && a.errNil[key(call)] == F {
				ex.Kind, ex.Note = "ERR", "propagated"
				return ex
			}
		}
		// a typed failure value made on this path: &SyntaxError{…} (possibly converted to error) is never nil
		{
			t := p.Vals[2]
			if cv, ok := t.(TConv); ok {
				t = cv.X
			}
			if ad, ok := t.(TAddr); ok {
				if lit, ok := ad.X.(TLit); ok {
					ex.Kind = "ERR"
					for _, el := range lit.Elts {
						if s, ok := isConstStringTerm(el); ok {
							ex.Note = s
						}
					}
					return ex
				}
			}
		}
		ex.Kind, ex.Note = "BADRET", "error result not provably non-nil"
	case !firstNil && thirdNil:
		cur, ok := p.Env[m.contV]
		if !ok {
			cur = TLoop{Obj: m.contV}
		}
		isCont := m.loopVar(p.Vals[0], m.contV) || sameTerm(p.Vals[0], cur)
		if isCont && m.loopVar(p.Vals[1], m.idxV) {
			ex.Kind = "OK"
			return ex
		}
		ex.Kind, ex.Note = "BADRET", "success return is not (container, i, nil)"
	default:
		ex.Kind, ex.Note = "BADRET", "mixed nil/non-nil pair"
	}
	return ex
}

// callStep interprets an effect call of an iteration path; false = outside the vocabulary.
func (m *Machine) callStep(st Step, a *absEval, env *Env, binds map[string]*AVal) bool {
	if st.Call == nil {
		return false
	}
	call := st.Call
	if call.Fun == nil {
		return false
	}
	full := call.Fun.FullName()
	pos := posOfNode(st.Node)
	if call.Fun.Pkg() == m.c.Types && call.Recv == nil && (call.Fun.Name() == "NewList" || call.Fun.Name() == "NewObject") && len(call.Args) == 0 {
		return true // allocation; the CREATE action is read off the container variable's final value
	}
	// builder methods
	if call.Recv != nil {
		if role := m.builderOf(call.Recv, a.roles); role != "" {
			switch full {
			case "(*strings.Builder).Reset":
				env.Acts = append(env.Acts, Action{Op: "RESET", Buf: role, Pos: pos})
				a.bufLen[role] = F
				return true
			case "(*strings.Builder).Grow":
				// capacity only: the content is what it was — provided the amount cannot be negative (Grow panics on that)
				return len(call.Args) == 1 && nonNegTerm(call.Args[0])
			case "(*strings.Builder).WriteRune", "(*strings.Builder).WriteByte":
				if len(call.Args) != 1 {
					return false
				}
				what := ""
				arg := call.Args[0]
				if cv, ok := arg.(TConv); ok {
					arg = cv.X
				}
				if m.isChar(arg) {
					what = "char"
				} else if r, ok := runeOf(arg); ok {
					what = string(r)
				} else {
					return false
				}
				env.Acts = append(env.Acts, Action{Op: "W", Buf: role, What: what, Pos: pos})
				a.bufLen[role] = T
				return true
			case "(*strings.Builder).WriteString":
				if len(call.Args) != 1 {
					return false
				}
				if pr, ok := call.Args[0].(TProj); ok && pr.K == 0 {
					if v := binds[key(pr.X)]; v != nil {
						env.Acts = append(env.Acts, Action{Op: "W", Buf: role, What: "val", Val: v, Pos: pos})
						a.bufLen[role] = U
						return true
					}
				}
				if m.isCurRuneBytes(call.Args[0]) {
					// the source bytes of the current character: json[i:][:size] / json[i:i+size] — the same text as WriteRune(char), since
					// the iteration has already rejected an invalid encoding (the only case in which they differ)
					env.Acts = append(env.Acts, Action{Op: "W", Buf: role, What: "char", Pos: pos})
					a.bufLen[role] = T
					return true
				}
				if s, ok := isConstStringTerm(call.Args[0]); ok {
					env.Acts = append(env.Acts, Action{Op: "W", Buf: role, What: s, Pos: pos})
					a.bufLen[role] = T
					return true
				}
				// a concatenation of constants and the current character ("\\" + string(char)): the writes of its parts, in order
				var parts []Term
				var flat func(t Term)
				flat = func(t Term) {
					if b, isB := t.(TBin); isB && b.Op == token.ADD {
						flat(b.X)
						flat(b.Y)
						return
					}
					parts = append(parts, t)
				}
				flat(call.Args[0])
				if len(parts) > 1 {
					var acts []Action
					for _, pt := range parts {
						if s, ok := isConstStringTerm(pt); ok {
							if s != "" {
								acts = append(acts, Action{Op: "W", Buf: role, What: s, Pos: pos})
							}
							continue
						}
						if cv, isCv := pt.(TConv); isCv && isStringType(cv.To) && m.isChar(cv.X) {
							acts = append(acts, Action{Op: "W", Buf: role, What: "char", Pos: pos})
							continue
						}
						if m.isCurRuneBytes(pt) {
							acts = append(acts, Action{Op: "W", Buf: role, What: "char", Pos: pos})
							continue
						}
						return false
					}
					if len(acts) > 0 {
						env.Acts = append(env.Acts, acts...)
						a.bufLen[role] = T
					}
					return true
				}
				return false
			}
			return false
		}
	}
	// nested machines
	if call.Fun.Pkg() == m.c.Types && (call.Fun.Name() == "parseObject" || call.Fun.Name() == "parseList") && call.Recv == nil {
		if len(call.Args) != 2 || !isParamTerm(call.Args[1], m.lineV) {
			return false
		}
		sl, ok := call.Args[0].(TSlice)
		if !ok || !isParamTerm(sl.X, m.jsonV) || !m.loopVar(sl.Lo, m.idxV) || sl.Hi != nil {
			return false
		}
		kind := "NESTED_OBJ"
		if call.Fun.Name() == "parseList" {
			kind = "NESTED_LIST"
		}
		v := &AVal{Kind: kind, Site: pos}
		binds[key(*call)] = v
		env.Acts = append(env.Acts, Action{Op: "NESTED", What: call.Fun.Name(), Val: v, Pos: pos})
		return true
	}
	// token consumers: literal consumer (any, error) / string decoder (string, error)
	if m.sx().decoder[call.Fun] {
		if len(call.Args) == 0 {
			return false
		}
		sig := call.Fun.Type().(*types.Signature)
		ti, _ := tokenParam(sig)
		if ti >= len(call.Args) {
			return false
		}
		role := m.builderStringT(call.Args[ti], a.roles)
		if role == "" {
			return false
		}
		kind := "FIELD"
		if b, ok := sig.Results().At(0).Type().(*types.Basic); ok && b.Kind() == types.String {
			kind = "STR"
		}
		okLine := true
		for ai, ar := range call.Args {
			if ai == ti {
				continue
			}
			if d, isD := ar.(TDeref); isD && isParamTerm(d.X, m.lineV) {
				continue
			}
			if intLike(ar) {
				okLine = false
			}
		}
		m.lineArgOK[pos] = okLine
		binds[key(*call)] = &AVal{Kind: kind, Buf: role, Dec: call.Fun.FullName(), Site: pos}
		env.Acts = append(env.Acts, Action{Op: "USE", Buf: role, What: call.Fun.FullName(), Pos: pos})
		return true
	}
	// events on the container
	if call.Recv != nil && (m.loopVar(call.Recv, m.contV) || sameTerm(call.Recv, TLoop{Obj: m.contV})) || m.isContTerm(call.Recv) {
		args := unpack(call.Args)
		valOf := func(t Term) *AVal {
			if pr, ok := t.(TProj); ok && pr.K == 0 {
				return binds[key(pr.X)]
			}
			return nil
		}
		switch call.Fun.Name() {
		case "Add":
			if len(args) != 1 {
				return false
			}
			v := valOf(args[0])
			if v == nil {
				return false
			}
			env.Acts = append(env.Acts, Action{Op: "EVENT", What: "Add", Val: v, Pos: pos})
			return true
		case "Set":
			if len(args) != 2 {
				return false
			}
			kb := m.builderStringT(args[0], a.roles)
			if lv, ok := args[0].(TLoop); ok && m.keyRegs[lv.Obj] {
				kb = "keyreg" // the register as it was at the start of the iteration
			}
			v := valOf(args[1])
			if v == nil || kb == "" {
				return false
			}
			env.Acts = append(env.Acts, Action{Op: "EVENT", What: "Set", Buf: kb, Val: v, Pos: pos})
			return true
		}
		return false
	}
	return false
}

func (m *Machine) isContTerm(t Term) bool {
	lv, ok := t.(TLoop)
	return ok && lv.Obj == m.contV
}

// nonNegTerm: sums and products of lengths, decoded widths and non-negative constants.
func nonNegTerm(t Term) bool {
	switch x := t.(type) {
	case TConst:
		k, ok := constInt(x)
		return ok && k >= 0
	case TBuiltin:
		return x.Name == "len" || x.Name == "cap"
	case TBin:
		return (x.Op == token.ADD || x.Op == token.MUL) && nonNegTerm(x.X) && nonNegTerm(x.Y)
	case TProj:
		if call, ok := x.X.(TCall); ok && call.Fun != nil && x.K == 1 && call.Fun.FullName() == "unicode/utf8.DecodeRuneInString" {
			return true
		}
	case TConv:
		return nonNegTerm(x.X)
	}
	return false
}

// tokenParam: the position of the one string parameter of a token consumer (`parseField(text, line)` or `parseField(line, text)`).
func tokenParam(sig *types.Signature) (int, bool) {
	idx, n := -1, 0
	for i := 0; i < sig.Params().Len(); i++ {
		if b, ok := sig.Params().At(i).Type().(*types.Basic); ok && b.Kind() == types.String {
			idx = i
			n++
		}
	}
	return idx, n == 1 && sig.Params().Len() >= 1
}
