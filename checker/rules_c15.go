package main

// E6 / C15 — async variants equal their sequential counterparts under every schedule.
// The four functions that spawn goroutines are required to be straight-line at statement level
// (declarations, Add, one range loop whose body is exactly one `go`, Wait, return), so that
// dominance and must-pass-through are decided by statement order; anything else is UNDECIDED.

import (
	"go/ast"
	"go/token"
	"go/types"
	"strconv"
	"strings"
)

func init() {
	register(&Property{
		ID: "C15",
		Explanation: "Protocol rules that hold for every interleaving: WaitGroup.Add(len of the receiver's spine) precedes the first spawn; exactly one goroutine per element (loop-shape rule, no early exit); the spawned body calls the user function exactly once " +
			"with the spawn-time (key|index, getVal()) passed as go-arguments, then Done() exactly once on the same WaitGroup; Wait() lies between the loop and every return; under go.mod go < 1.22 no spawned closure captures a variable that the parent " +
			"writes while goroutines run (loop variables); every shared write inside a spawned body is bracketed by Lock/Unlock of one mutex declared outside the loop; MapAsync stores f(k, x) under the same k; the parent does not touch the result between spawn and Wait. " +
			"Read-only operations are write-free on pre-existing memory (E3 PURE over every non-mutating method) and the package has no package-level state, hence any number of them commute and are race-free. Races inside user callbacks and panicking callbacks are outside.",
		Rules: []Rule{
			{ID: "C15.R1", Doc: "Add(len spine) before the loop; one `go` per element; spawned body: user function once, then Done once on the same group; Wait between loop and return", Run: c15Run},
			{ID: "C15.R2", Doc: "per-iteration values travel as go-arguments; no spawned closure captures a variable written by the parent while goroutines run", Run: func(c *Ctx) {}},
			{ID: "C15.R3", Doc: "lock set: every shared write in a spawned body lies between Lock and Unlock of one mutex declared outside the loop; parent leaves the result alone until Wait", Run: func(c *Ctx) {}},
			{ID: "C15.R4", Doc: "MapAsync pairing: result[k] = f(k, x) for the spawn-time k, x; result pre-sized to the receiver's length (list)", Run: func(c *Ctx) {}},
			{ID: "C15.R5", Doc: "PURE for every non-mutating method of both interfaces; no package-level state", Run: func(c *Ctx) {
				names := implNames(c, func(n string) bool { return !mutatorNames[n] })
				c.R.Floor("C15.R5", pureRule(c, "C15.R5", names), 110)
				globalsRule(c, "C15.R5")
			}},
		},
	})
}

func goVersionLess(v string, major, minor int) bool {
	parts := strings.Split(strings.TrimPrefix(v, "go"), ".")
	if len(parts) < 2 {
		return true
	}
	ma, _ := strconv.Atoi(parts[0])
	mi, _ := strconv.Atoi(parts[1])
	return ma < major || (ma == major && mi < minor)
}

func isSyncType(t types.Type, name string) bool {
	if p, ok := t.(*types.Pointer); ok {
		t = p.Elem()
	}
	n, ok := t.(*types.Named)
	return ok && n.Obj().Pkg() != nil && n.Obj().Pkg().Path() == "sync" && n.Obj().Name() == name
}

func c15Run(c *Ctx) {
	var targets []*ast.FuncDecl
	for _, name := range c.DeclNames() {
		fd := c.Decl(name)
		has := false
		ast.Inspect(fd.Body, func(n ast.Node) bool {
			if _, ok := n.(*ast.GoStmt); ok {
				has = true
			}
			return true
		})
		if has {
			targets = append(targets, fd)
		}
	}
	c.R.Floor("C15.R1", len(targets), 4)
	for _, fd := range targets {
		c15Func(c, fd)
	}
	// the async methods of the interfaces must be among them
	for _, ct := range c.Inv().Conts {
		for _, m := range []string{"ForEachAsync", "MapAsync"} {
			name := "(*" + ct.Named.Obj().Name() + ")." + m
			found := false
			for _, fd := range targets {
				if declName(fd) == name {
					found = true
				}
			}
			if !found {
				c.Ob("C15.R1", name, token.NoPos).Missing("%s no longer spawns goroutines or is missing", name)
			}
		}
	}
}

type stmtRole struct {
	role string
	stmt ast.Stmt
}

func c15Func(c *Ctx, fd *ast.FuncDecl) {
	name := declName(fd)
	skel := c.Ob("C15.R1", name+"/shape", fd.Pos())
	if c.recvCont(fd) == nil {
		skel.Undecided("goroutines are spawned outside a container method")
		return
	}
	ct := c.recvCont(fd)
	var wg, mu, step, result types.Object
	var stepLit *ast.FuncLit
	var loop *ast.RangeStmt
	var roles []stmtRole
	for _, s := range fd.Body.List {
		role := ""
		switch x := s.(type) {
		case *ast.DeclStmt:
			gd := x.Decl.(*ast.GenDecl)
			for _, sp := range gd.Specs {
				vs, ok := sp.(*ast.ValueSpec)
				if !ok || len(vs.Names) != 1 || len(vs.Values) != 0 {
					continue
				}
				t := c.typeOf(vs.Type)
				switch {
				case t != nil && isSyncType(t, "WaitGroup") && wg == nil:
					wg, role = c.Info.Defs[vs.Names[0]], "decl"
				case t != nil && isSyncType(t, "Mutex") && mu == nil:
					mu, role = c.Info.Defs[vs.Names[0]], "decl"
				}
			}
		case *ast.AssignStmt:
			if x.Tok == token.DEFINE && len(x.Lhs) == 1 && len(x.Rhs) == 1 {
				if fl, ok := unparen(x.Rhs[0]).(*ast.FuncLit); ok && step == nil {
					step, stepLit, role = c.obj(x.Lhs[0]), fl, "step"
				} else if call, ok := unparen(x.Rhs[0]).(*ast.CallExpr); ok && result == nil {
					if f := c.callee(call); f != nil && f.Pkg() == c.Types && (f.Name() == "NewListOf" || f.Name() == "NewObject" || f.Name() == "NewList") {
						result, role = c.obj(x.Lhs[0]), "result"
					}
				}
			}
		case *ast.ExprStmt:
			if call, ok := x.X.(*ast.CallExpr); ok {
				if sel, ok := unparen(call.Fun).(*ast.SelectorExpr); ok && wg != nil && c.obj(sel.X) == wg {
					switch f := c.callee(call); {
					case f != nil && f.Name() == "Add":
						role = "add"
					case f != nil && f.Name() == "Wait":
						role = "wait"
					}
				}
			}
		case *ast.RangeStmt:
			if loop == nil {
				loop, role = x, "loop"
			}
		case *ast.ReturnStmt:
			role = "return"
		}
		if role == "" {
			skel.Undecided("statement outside the async skeleton (declarations, step literal, Add, result, one range loop, Wait, return)")
			return
		}
		roles = append(roles, stmtRole{role, s})
	}
	idx := func(role string) (first, last, n int) {
		first, last = -1, -1
		for i, r := range roles {
			if r.role == role {
				if first < 0 {
					first = i
				}
				last = i
				n++
			}
		}
		return
	}
	_, _, nLoop := idx("loop")
	iLoop, _, _ := idx("loop")
	iAdd, _, nAdd := idx("add")
	iWait, _, nWait := idx("wait")
	iRet, _, nRet := idx("return")
	if wg == nil || nLoop != 1 {
		skel.Undecided("no WaitGroup declaration or not exactly one range loop")
		return
	}
	skel.Ok("straight-line statement list: %d statements; dominance = statement order", len(roles))
	// Add
	aob := c.Ob("C15.R1", name+"/add", fd.Pos())
	switch {
	case nAdd != 1:
		aob.Fail("expected exactly one wg.Add before the loop, found %d", nAdd)
	case iAdd > iLoop:
		aob.Fail("wg.Add comes after the spawning loop: Wait can return before the goroutines were counted")
	default:
		call := roles[iAdd].stmt.(*ast.ExprStmt).X.(*ast.CallExpr)
		aob.Check(len(call.Args) == 1 && c.isCountOfRecv(fd, call.Args[0]), "wg.Add(len of the receiver's spine) precedes the first spawn", "wg.Add's operand "+exprStr(call.Args[0])+" is not the number of elements that get a goroutine")
	}
	// Wait
	wob := c.Ob("C15.R1", name+"/wait", fd.Pos())
	switch {
	case nWait != 1:
		wob.Fail("expected exactly one wg.Wait() between the loop and the return, found %d: the call can return while callbacks are still running", nWait)
	case !(iLoop < iWait && iWait < iRet) || nRet != 1:
		wob.Fail("wg.Wait() does not lie between the spawning loop and the (single) return")
	default:
		wob.Ok("every path from the loop to the return passes wg.Wait()")
	}
	// loop: range over the receiver's spine, body = exactly one go statement
	lob := c.Ob("C15.R1", name+"/loop", loop.Pos())
	if !c.isRecvSpine(fd, loop.X) {
		lob.Fail("the spawning loop does not range over the receiver's own spine")
		return
	}
	if len(loop.Body.List) != 1 {
		lob.Fail("loop body is not exactly one go statement")
		return
	}
	gs, ok := loop.Body.List[0].(*ast.GoStmt)
	if !ok {
		lob.Fail("loop body is not a go statement")
		return
	}
	lob.Ok("one goroutine per element of the receiver's spine, no early exit")
	// resolve the spawned function literal
	var lit *ast.FuncLit
	if fl, ok := unparen(gs.Call.Fun).(*ast.FuncLit); ok {
		lit = fl
	} else if step != nil && c.obj(gs.Call.Fun) == step {
		lit = stepLit
		if writesVarAfterDef(c, fd, step) {
			lit = nil
		}
	}
	if lit == nil {
		c.Ob("C15.R1", name+"/spawned", gs.Pos()).Undecided("the spawned function is not a function literal (directly or through a single-assignment local)")
		return
	}
	// parameters of the literal and the go-arguments
	var ps []types.Object
	for _, f := range lit.Type.Params.List {
		for _, nm := range f.Names {
			ps = append(ps, c.Info.Defs[nm])
		}
	}
	args := gs.Call.Args
	if len(ps) != len(args) {
		c.Ob("C15.R1", name+"/spawned", gs.Pos()).Undecided("arity mismatch between go-arguments and the literal")
		return
	}
	var keyP, valP, grpP types.Object
	var keyObj, valObj types.Object
	if id, ok := loop.Key.(*ast.Ident); ok && id.Name != "_" {
		keyObj = c.Info.Defs[id]
	}
	if id, ok := loop.Value.(*ast.Ident); ok && id.Name != "_" {
		valObj = c.Info.Defs[id]
	}
	for i, a := range args {
		a = unparen(a)
		switch {
		case keyObj != nil && c.obj(a) == keyObj:
			keyP = ps[i]
		case valObj != nil && c.elemForm(a, valObj) == "val":
			valP = ps[i]
		default:
			if u, ok := a.(*ast.UnaryExpr); ok && u.Op == token.AND && c.obj(u.X) == wg {
				grpP = ps[i]
			}
		}
	}
	// group: either passed by pointer or captured directly
	groupIs := func(e ast.Expr) bool {
		o := c.obj(e)
		return o != nil && (o == grpP || o == wg)
	}
	// R2: captured variables
	r2 := c.Ob("C15.R2", name+"/captures", lit.Pos())
	old := goVersionLess(c.goVers, 1, 22)
	badCap := ""
	ast.Inspect(lit.Body, func(n ast.Node) bool {
		id, ok := n.(*ast.Ident)
		if !ok {
			return true
		}
		o := c.Info.Uses[id]
		v, isVar := o.(*types.Var)
		if !isVar || v.Pkg() != c.Types || v.IsField() {
			return true
		}
		if v.Pos() >= lit.Pos() && v.Pos() < lit.End() {
			return true // local to the literal
		}
		// captured from the parent
		if (v == keyObj || v == valObj) && old {
			badCap = "loop variable " + v.Name() + " is captured by the spawned closure (go.mod go " + c.goVers + " < 1.22: one variable shared by all iterations and written by the parent while goroutines run)"
		} else if v.Pos() > loop.Body.Pos() && v.Pos() < loop.Body.End() {
			// declared inside the loop body: per-iteration, fine
		} else if v != wg && v != mu && v != result && v != step {
			// any other captured variable must not be written by the parent from the loop on
			for _, r := range roles[iLoop:] {
				if writesVar(c, r.stmt, v) {
					badCap = "captured variable " + v.Name() + " is written by the parent while goroutines run"
				}
			}
		}
		return true
	})
	if keyP == nil || valP == nil {
		if badCap == "" {
			badCap = "the spawn-time key/index and getVal() of the element are not both passed as go-arguments"
		}
	}
	if badCap != "" {
		r2.Fail("%s", badCap)
	} else {
		r2.Ok("(key|index, element.getVal()) are evaluated at spawn time and passed as go-arguments; the closure captures only the WaitGroup, the mutex, the result and the user function")
	}
	// spawned body: straight-line
	sob := c.Ob("C15.R1", name+"/spawned-body", lit.Pos())
	var userFn types.Object
	if fd.Type.Params != nil {
		for _, f := range fd.Type.Params.List {
			for _, nm := range f.Names {
				if _, ok := c.typeOf(f.Type).Underlying().(*types.Signature); ok {
					userFn = c.Info.Defs[nm]
				}
			}
		}
	}
	nUser, nDone, nLock, nUnlock := 0, 0, 0, 0
	posUser, posDone, posLock, posUnlock := -1, -1, -1, -1
	var sharedWrites []int
	var sharedCall *ast.CallExpr
	deferDone := false
	for i, s := range lit.Body.List {
		var call *ast.CallExpr
		switch x := s.(type) {
		case *ast.ExprStmt:
			call, _ = x.X.(*ast.CallExpr)
		case *ast.DeferStmt:
			call = x.Call
			if sel, ok := unparen(call.Fun).(*ast.SelectorExpr); ok && groupIs(sel.X) && c.callee(call) != nil && c.callee(call).Name() == "Done" {
				deferDone = true
				nDone++
				posDone = len(lit.Body.List) // runs last
				continue
			}
		}
		if call == nil {
			sob.Undecided("spawned body contains a statement that is not a plain call")
			return
		}
		// count user-function calls anywhere inside this statement
		ast.Inspect(s, func(n ast.Node) bool {
			if ce, ok := n.(*ast.CallExpr); ok && userFn != nil && c.obj(ce.Fun) == userFn {
				nUser++
				posUser = i
				// arguments: (keyP, valP)
				okArgs := len(ce.Args) == 2 && c.obj(ce.Args[0]) == keyP && c.obj(ce.Args[1]) == valP && keyP != nil && valP != nil
				c.Ob("C15.R1", name+"/callback-args", ce.Pos()).Check(okArgs, "user function receives the spawn-time (key|index, value) of its own iteration", "user function is not called with the spawn-time (key|index, value) parameters of the spawned literal")
			}
			return true
		})
		if sel, ok := unparen(call.Fun).(*ast.SelectorExpr); ok {
			f := c.callee(call)
			switch {
			case f != nil && groupIs(sel.X) && f.Name() == "Done":
				nDone++
				posDone = i
			case f != nil && mu != nil && c.obj(sel.X) == mu && f.Name() == "Lock":
				nLock++
				posLock = i
			case f != nil && mu != nil && c.obj(sel.X) == mu && f.Name() == "Unlock":
				nUnlock++
				posUnlock = i
			case result != nil && c.obj(sel.X) == result:
				sharedWrites = append(sharedWrites, i)
				sharedCall = call
			case userFn != nil && c.obj(call.Fun) == userFn:
			default:
				if c.isSelf(fd, sel.X) && f != nil && mutatorNames[f.Name()] {
					sharedWrites = append(sharedWrites, i)
				}
			}
		}
	}
	switch {
	case nUser != 1:
		sob.Fail("the user function is called %d times per goroutine (expected exactly once)", nUser)
	case nDone != 1:
		sob.Fail("Done() is called %d times per goroutine on the spawning WaitGroup (expected exactly once)", nDone)
	case !deferDone && posDone < posUser:
		sob.Fail("Done() precedes the user function: Wait can return while a callback is still running")
	case !deferDone && posDone != len(lit.Body.List)-1:
		sob.Fail("Done() is not the last action of the goroutine")
	default:
		sob.Ok("user function exactly once, then Done() exactly once on the same WaitGroup")
	}
	// R3 lock set
	r3 := c.Ob("C15.R3", name+"/lock-set", lit.Pos())
	switch {
	case len(sharedWrites) == 0 && result == nil:
		r3.Ok("spawned body performs no write on shared library state")
	case len(sharedWrites) == 0:
		r3.Fail("the result container is never written by the goroutines")
	case mu == nil || nLock != 1 || nUnlock != 1:
		r3.Fail("shared write in the spawned body is not protected by exactly one Lock/Unlock pair of a mutex declared outside the loop: concurrent goroutines race on the result")
	default:
		good := true
		for _, w := range sharedWrites {
			if !(posLock < w && w < posUnlock) {
				good = false
			}
		}
		r3.Check(good, "every shared write lies between mutex.Lock() and mutex.Unlock() of the one mutex declared outside the loop", "a shared write lies outside the Lock/Unlock bracket")
	}
	// parent leaves result alone between loop and wait
	if result != nil {
		pob := c.Ob("C15.R3", name+"/parent-quiet", fd.Pos())
		quiet := true
		for _, r := range roles[iLoop:] {
			if r.role == "return" {
				continue
			}
			inspectNoLit(r.stmt, func(n ast.Node) bool {
				if id, ok := n.(*ast.Ident); ok && c.Info.Uses[id] == result && r.role != "loop" {
					quiet = false
				}
				return true
			})
		}
		pob.Check(quiet && iWait >= 0, "the parent does not touch the result between the first spawn and Wait", "the parent uses the result before Wait")
		// R4 pairing
		r4 := c.Ob("C15.R4", name+"/pairing", lit.Pos())
		good := sharedCall != nil && len(sharedWrites) == 1
		if good {
			f := c.callee(sharedCall)
			want := "Set"
			if ct.IsList {
				want = "Replace"
			}
			good = f != nil && f.Name() == want && len(sharedCall.Args) == 2 && c.obj(sharedCall.Args[0]) == keyP && keyP != nil
			if good {
				uc, ok := unparen(sharedCall.Args[1]).(*ast.CallExpr)
				good = ok && c.obj(uc.Fun) == userFn
			}
		}
		r4.Check(good, "result."+map[bool]string{true: "Replace", false: "Set"}[ct.IsList]+"(k, f(k, x)) with the spawn-time k: same pairing as Map", "the value is not stored under the spawn-time key/index of its own iteration")
		// result initialisation
		for _, r := range roles {
			if r.role != "result" {
				continue
			}
			call := unparen(r.stmt.(*ast.AssignStmt).Rhs[0]).(*ast.CallExpr)
			iob := c.Ob("C15.R4", name+"/result-init", call.Pos())
			if ct.IsList {
				good := c.callee(call).Name() == "NewListOf" && len(call.Args) == 2 && c.isNil(call.Args[0]) && c.isCountOfRecv(fd, call.Args[1])
				iob.Check(good, "result pre-sized to the receiver's length so that Replace(i, …) is in range for every index", "result list is not NewListOf(nil, len of the receiver)")
			} else {
				iob.Check(c.callee(call).Name() == "NewObject" && len(call.Args) == 0, "result starts as an empty object", "result object does not start empty")
			}
		}
		// returned value
		rets := returnsOf(fd.Body)
		c.Ob("C15.R4", name+"/returns-result", fd.Pos()).Check(len(rets) == 1 && len(rets[0].Results) == 1 && c.obj(rets[0].Results[0]) == result, "returns the result container", "does not return the result container")
	}
}
