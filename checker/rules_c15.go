package main

// E6 / C15 — async variants equal their sequential counterparts under every schedule; decided on the SX path normal form
// (helper extraction, inlined/renamed closures, snapshot + index loops are normalised away).

import (
	"go/ast"
	"go/token"
	"go/types"
	"strconv"
	"strings"
)

func init() {
	register(&Property{
		ID: "C15",
		Explanation: "Protocol rules that hold for every interleaving, decided on the symbolic path normal form (SX) of every function that spawns goroutines: WaitGroup.Add(len of the receiver's spine) precedes the spawning loop; the loop visits every element exactly once (range over the spine, or a counted loop whose header is simulated) and spawns exactly one goroutine per iteration; " +
			"the spawned body (executed symbolically with its parameters bound to the go-arguments) calls the user function exactly once with the spawn-time (key|index, getVal()) of its own iteration, then Done() exactly once on the same WaitGroup; Wait() lies between the loop and the return; " +
			"under go.mod go < 1.22 the spawned literal does not mention the loop variables (they must travel as go-arguments); every write to shared library state inside a spawned body is bracketed by Lock/Unlock of one mutex declared outside the loop; MapAsync stores f(k, x) under the same k into a result pre-sized to the receiver's length; the parent leaves the result alone until Wait. " +
			"Read-only operations are write-free on pre-existing memory (E3 PURE over every non-mutating method) and the package has no package-level state, hence any number of them commute and are race-free. Races inside user callbacks and panicking callbacks are outside.",
		Rules: []Rule{
			{ID: "C15.R1", Doc: "Add(len spine) before the loop; one `go` per element; spawned body: user function once, then Done once on the same group; Wait between loop and return", Run: c15Run},
			{ID: "C15.R2", Doc: "per-iteration values travel as go-arguments; the spawned literal does not mention the loop variables (go < 1.22)", Run: func(c *Ctx) {}},
			{ID: "C15.R3", Doc: "lock set: every shared write in a spawned body lies between Lock and Unlock of one mutex declared outside the loop; parent leaves the result alone until Wait", Run: func(c *Ctx) {}},
			{ID: "C15.R4", Doc: "MapAsync pairing: result[k] = f(k, x) for the spawn-time k, x; result pre-sized to the receiver's length (list)", Run: func(c *Ctx) {}},
			{ID: "C15.R6", Doc: "the result container the workers fill: NewListOf(nil, n) holds exactly n slots (= C05.R9), Replace writes exactly the addressed slot (= C05.R5), Set is a plain map assignment (= C06.R1)", Run: func(c *Ctx) {
				n := runAs(c, "C15.R6", c05ListOf, nil)
				n += runAs(c, "C15.R6", c05Sequence, func(o *Obligation) bool { return strings.Contains(o.Construct, "(*list).Replace/") })
				n += runAs(c, "C15.R6", c06Set, nil)
				c.R.Floor("C15.R6", n, 4)
			}},
			{ID: "C15.R7", Doc: "read-only operations may run concurrently only if they write nothing at all: scalar wrappers are immutable after construction (= C09.R5) — a serialiser that caches its text in the wrapper is a write shared by every reader", Run: func(c *Ctx) { c09Immutable(c, "C15.R7") }},
			{ID: "C15.R5", Doc: "PURE for every non-mutating method of both interfaces; no package-level state", Run: func(c *Ctx) {
				names := implNames(c, func(n string) bool { return !mutatorNames[n] })
				c.R.Floor("C15.R5", pureRule(c, "C15.R5", names), 100)
				globalsRule(c, "C15.R5")
			}},
		},
	})
}

func goVersionLess(v string, major, minor int) bool {
	parts := strings.Split(strings.TrimPrefix(v, "go"), ".")
	if len(parts) < 2 {
		return true
	}
	ma, _ := strconv.Atoi(parts[0])
	mi, _ := strconv.Atoi(parts[1])
	return ma < major || (ma == major && mi < minor)
}

func isSyncType(t types.Type, name string) bool {
	if p, ok := t.(*types.Pointer); ok {
		t = p.Elem()
	}
	n, ok := t.(*types.Named)
	return ok && n.Obj().Pkg() != nil && n.Obj().Pkg().Path() == "sync" && n.Obj().Name() == name
}

// syncVar: the sync.WaitGroup / sync.Mutex variable a receiver term denotes (through & and *).
var syncSiteObjs = map[string]types.Object{}

func syncVar(t Term, typ string) types.Object {
	for {
		switch x := t.(type) {
		case TDeref:
			t = x.X
			continue
		case TAddr:
			t = x.X
			continue
		case TVar:
			if isSyncType(x.Obj.Type(), typ) {
				return x.Obj
			}
		case TBuiltin:
			// wg := new(sync.WaitGroup): the object allocated at that site
			if x.Name == "new" && x.Type != nil && isSyncType(x.Type, typ) && x.Site != nil {
				k := "new@" + itoa(int(x.Site.Pos()))
				if o, ok := syncSiteObjs[k]; ok {
					return o
				}
				o := types.NewVar(x.Site.Pos(), nil, k, x.Type)
				syncSiteObjs[k] = o
				return o
			}
		case TLit:
			// &sync.WaitGroup{}
			if x.Type != nil && isSyncType(x.Type, typ) && x.Fresh != 0 && x.Node != nil {
				k := "lit@" + itoa(int(x.Node.Pos()))
				if o, ok := syncSiteObjs[k]; ok {
					return o
				}
				o := types.NewVar(x.Node.Pos(), nil, k, x.Type)
				syncSiteObjs[k] = o
				return o
			}
		case TSel:
			// a field of a local struct that bundles the synchronisation objects (guard.wg)
			if tv, ok := x.X.(TVar); ok && tv.Obj != nil && isLocalVar(tv.Obj) && isSyncType(x.Field.Type(), typ) {
				return x.Field
			}
			if ad, ok := x.X.(TAddr); ok {
				if tv, ok := ad.X.(TVar); ok && tv.Obj != nil && isLocalVar(tv.Obj) && isSyncType(x.Field.Type(), typ) {
					return x.Field
				}
			}
		}
		return nil
	}
}

func c15Run(c *Ctx) {
	var targets []*ast.FuncDecl
	for _, ct := range c.Inv().Conts {
		for _, m := range []string{"ForEachAsync", "MapAsync"} {
			name := "(*" + ct.Named.Obj().Name() + ")." + m
			fd := c.Decl(name)
			if fd == nil {
				c.Ob("C15.R1", name, token.NoPos).Missing("%s is missing", name)
				continue
			}
			targets = append(targets, fd)
		}
	}
	// any other exported function with a go statement is checked as well
	for _, name := range c.DeclNames() {
		fd := c.Decl(name)
		has, known := false, false
		for _, t := range targets {
			if t == fd {
				known = true
			}
		}
		if known || !fd.Name.IsExported() {
			continue
		}
		ast.Inspect(fd.Body, func(n ast.Node) bool {
			if _, ok := n.(*ast.GoStmt); ok {
				has = true
			}
			return true
		})
		if has {
			targets = append(targets, fd)
		}
	}
	c.R.Floor("C15.R1", len(targets), 4)
	for _, fd := range targets {
		c15Func(c, fd)
	}
}

func c15Func(c *Ctx, fd *ast.FuncDecl) {
	name := declName(fd)
	skel := c.Ob("C15.R1", name+"/shape", fd.Pos())
	ct := c.recvCont(fd)
	if ct == nil {
		skel.Undecided("goroutines are spawned outside a container method")
		return
	}
	sx := c.NewSX()
	sx.InlineStaticSelf = true // a variant built on a sibling (MapAsync on ForEachAsync of the same receiver) is followed into it
	paths := sx.Run(fd)
	why := ""
	for _, p := range paths {
		if p.Why != "" {
			why = p.Why
		}
	}
	if why != "" {
		skel.Undecided("body outside the path vocabulary: %s", why)
		return
	}
	v := c.view(fd)
	paths = v.normalizePaths(paths)
	// a shortcut for the empty container (`if len(spine) == 0 { return … }`) is set aside: it must return what the main path returns and
	// start nothing; the main path is then the one on which the container is non-empty
	emptyTest := func(cd Cond) (isTest, empty bool) {
		b, ok := cd.T.(TBin)
		if !ok {
			return false, false
		}
		x, y, op := b.X, b.Y, b.Op
		if _, isK := constInt(x); isK {
			x, y = y, x
			op = map[token.Token]token.Token{token.LSS: token.GTR, token.GTR: token.LSS, token.LEQ: token.GEQ, token.GEQ: token.LEQ, token.EQL: token.EQL, token.NEQ: token.NEQ}[op]
		}
		k, isK := constInt(y)
		if !isK || !v.isCountOfRecv(x) {
			return false, false
		}
		switch {
		case op == token.EQL && k == 0, op == token.LEQ && k == 0, op == token.LSS && k == 1:
			return true, cd.Truth
		case op == token.NEQ && k == 0, op == token.GTR && k == 0, op == token.GEQ && k == 1:
			return true, !cd.Truth
		}
		return false, false
	}
	var mains, shortcuts []*Path
	for _, p := range paths {
		isShort, other := false, false
		for _, cd := range p.Conds() {
			if isT, empty := emptyTest(cd); isT {
				if empty {
					isShort = true
				}
			} else {
				other = true
			}
		}
		if other {
			skel.Undecided("the async method decides on something other than the emptiness of the container (%d paths)", len(paths))
			return
		}
		// a shortcut does not reach the spawning loop; paths that do and differ only in how the emptiness tests came out are one main path
		hasLoop := false
		for _, st := range p.Steps {
			if st.Kind == "loop" {
				hasLoop = true
			}
		}
		if isShort && !hasLoop {
			shortcuts = append(shortcuts, p)
			continue
		}
		dup := false
		for _, m := range mains {
			var a, b []Step
			for _, st := range m.Steps {
				if st.Kind != "cond" {
					a = append(a, st)
				}
			}
			for _, st := range p.Steps {
				if st.Kind != "cond" {
					b = append(b, st)
				}
			}
			same := len(a) == len(b)
			for k := range a {
				if same && (a[k].Kind != b[k].Kind || a[k].Node != b[k].Node) {
					same = false
				}
			}
			if same {
				dup = true
			}
		}
		if !dup {
			mains = append(mains, p)
		}
	}
	if len(mains) != 1 {
		skel.Undecided("the async method is not a single straight-line path around one spawning loop (%d paths)", len(paths))
		return
	}
	p := mains[0]
	for _, sp := range shortcuts {
		okShort := sp.End == "return" && len(sp.Vals) == len(p.Vals)
		for i := range sp.Vals {
			okShort = okShort && i < len(p.Vals) && (sameTerm(sp.Vals[i], p.Vals[i]) || (v.isSelf(sp.Vals[i]) && v.isSelf(p.Vals[i])))
		}
		// what the shortcut does before it decides is done by the main path too (its steps up to the emptiness test are a prefix of
		// the main path's): only what follows the decision counts
		lastCond := -1
		for k, st := range sp.Steps {
			if st.Kind == "cond" {
				lastCond = k
			}
		}
		var after []Step
		prefixShared := true
		for k, st := range sp.Steps {
			if k > lastCond {
				if st.Kind != "cond" {
					after = append(after, st)
				}
				continue
			}
			if k >= len(p.Steps) || p.Steps[k].Kind != st.Kind || p.Steps[k].Node != st.Node {
				prefixShared = false
			}
		}
		if !prefixShared {
			after = sp.Effects()
		}
		for _, st := range after {
			isCtor := st.Kind == "call" && st.Call != nil && st.Call.Fun != nil && st.Call.Fun.Pkg() == c.Types && (st.Call.Fun.Name() == "NewListOf" || st.Call.Fun.Name() == "NewObject" || st.Call.Fun.Name() == "NewList" || st.Call.Fun.Name() == "Init")
			if !isCtor && st.Kind != "store" {
				okShort = false
			}
		}
		if !okShort {
			skel.Fail("the shortcut for the empty container does not return what the main path returns, or does more than create the result")
			return
		}
	}
	if len(shortcuts) > 0 {
		// strip the (false) emptiness tests from the main path: they carry no effect
		q := *p
		q.Steps = nil
		for _, st := range p.Steps {
			if st.Kind != "cond" {
				q.Steps = append(q.Steps, st)
			}
		}
		p = &q
	}
	isMap := strings.HasPrefix(fd.Name.Name, "Map")
	var userFn types.Object
	for _, f := range fd.Type.Params.List {
		for _, nm := range f.Names {
			if _, ok := c.typeOf(f.Type).Underlying().(*types.Signature); ok {
				userFn = c.Info.Defs[nm]
			}
		}
	}
	// order of steps on the main path
	iAdd, iLoop, iWait := -1, -1, -1
	nAdd, nWait, nLoop := 0, 0, 0
	var addArg Term
	var wg types.Object
	var loop *LoopRec
	var result Term
	for i, st := range p.Steps {
		switch st.Kind {
		case "call":
			if st.Call == nil || st.Call.Fun == nil {
				skel.Undecided("unexpected call")
				return
			}
			if o := syncVar(st.Call.Recv, "WaitGroup"); o != nil {
				switch st.Call.Fun.Name() {
				case "Add":
					nAdd++
					iAdd, wg = i, o
					if len(st.Call.Args) == 1 {
						addArg = st.Call.Args[0]
					}
				case "Wait":
					nWait++
					iWait = i
					if wg != nil && o != wg {
						skel.Fail("Wait is called on another WaitGroup than Add")
						return
					}
				default:
					skel.Undecided("unexpected WaitGroup method %s in the parent", st.Call.Fun.Name())
					return
				}
				continue
			}
			if st.Call.Fun.Pkg() == c.Types && (st.Call.Fun.Name() == "NewListOf" || st.Call.Fun.Name() == "NewObject" || st.Call.Fun.Name() == "NewList" || st.Call.Fun.Name() == "Init") {
				continue
			}
			skel.Undecided("statement outside the async skeleton: %s", c.stepStr(st))
			return
		case "loop":
			nLoop++
			iLoop, loop = i, st.Loop
		case "store":
			// zero-initialisation / address-taken locals
		default:
			skel.Undecided("statement outside the async skeleton: %s", st.Kind)
			return
		}
	}
	if nLoop != 1 || wg == nil {
		skel.Undecided("no WaitGroup or not exactly one spawning loop")
		return
	}
	skel.Ok("straight-line path: %d steps around one spawning loop; dominance = step order", len(p.Steps))
	// Add
	aob := c.Ob("C15.R1", name+"/add", fd.Pos())
	switch {
	case nAdd != 1:
		aob.Fail("expected exactly one wg.Add before the loop, found %d", nAdd)
	case iAdd > iLoop:
		aob.Fail("wg.Add comes after the spawning loop: Wait can return before the goroutines were counted")
	default:
		aob.Check(addArg != nil && v.isCountOfRecv(addArg), "wg.Add(len of the receiver's spine) precedes the first spawn", "wg.Add's operand "+c.termStr(addArg)+" is not the number of elements that get a goroutine")
	}
	// Wait
	wob := c.Ob("C15.R1", name+"/wait", fd.Pos())
	switch {
	case nWait != 1:
		wob.Fail("expected exactly one wg.Wait() between the loop and the return, found %d: the call can return while callbacks are still running", nWait)
	case !(iLoop < iWait) || p.End != "return":
		wob.Fail("wg.Wait() does not lie between the spawning loop and the return")
	default:
		wob.Ok("every path from the loop to the return passes wg.Wait()")
	}
	// the loop visits every element once
	lob := c.Ob("C15.R1", name+"/loop", loop.Node.Pos())
	var keyT, elemOK = Term(nil), false
	var loopVars []types.Object
	if r := v.asRange(loop); r != nil {
		loop = r
	}
	if loop.Range != nil {
		if !v.isRecvSpine(loop.Over) {
			lob.Fail("the spawning loop does not range over the receiver's own spine")
			return
		}
		if loop.Key != nil {
			keyT = TVar{loop.Key}
			loopVars = append(loopVars, loop.Key)
		}
		if loop.Value != nil {
			loopVars = append(loopVars, loop.Value)
		}
		elemOK = true
	} else {
		// counted loop: i = 0..n-1 each once
		var lv types.Object
		for o := range loop.Init {
			if isIntType(o.Type()) {
				lv = o
			}
		}
		good := lv != nil
		for n := int64(0); n <= 3 && good; n++ {
			its, why := c.loopIterations(loop, v.intHook(n, nil, nil), 16)
			if why != "" || int64(len(its)) != n {
				good = false
				break
			}
			for k, st := range its {
				if st[lv] != int64(k) {
					good = false
				}
			}
		}
		if !good {
			lob.Fail("the counted spawning loop does not visit every index 0..len-1 exactly once")
			return
		}
		keyT = TLoop{lv, loop.ID}
		loopVars = append(loopVars, lv)
		elemOK = true
	}
	if len(loop.Iter) != 1 || len(loop.Iter[0].Conds()) != 0 || (loop.Iter[0].End != "fall" && loop.Iter[0].End != "continue") {
		lob.Fail("the loop body is not unconditional: some element gets no goroutine (or the loop exits early)")
		return
	}
	var goStep *Step
	for i, st := range loop.Iter[0].Steps {
		if st.Kind == "go" {
			if goStep != nil {
				lob.Fail("more than one goroutine per element")
				return
			}
			goStep = &loop.Iter[0].Steps[i]
		} else if st.Kind != "cond" {
			lob.Fail("the loop body does more than spawning: %s", c.stepStr(st))
			return
		}
	}
	if goStep == nil || !elemOK {
		lob.Fail("the loop body does not spawn a goroutine")
		return
	}
	lob.Ok("one goroutine per element of the receiver's spine, no early exit")
	if goStep.Lit == nil {
		c.Ob("C15.R1", name+"/spawned", goStep.Node.Pos()).Undecided("the spawned function is not a function literal (directly or through a local)")
		return
	}
	lit := goStep.Lit
	// R2: the literal must not mention the loop variables
	r2 := c.Ob("C15.R2", name+"/captures", lit.Pos())
	old := goVersionLess(c.goVers, 1, 22)
	badCap := ""
	// variables declared outside the loop and assigned inside it are shared by all iterations in every Go version
	loopWritten := map[types.Object]bool{}
	ast.Inspect(loop.Node, func(n ast.Node) bool {
		mark := func(e ast.Expr) {
			if id, ok := unparen(e).(*ast.Ident); ok {
				if o := c.Info.Uses[id]; o != nil && (o.Pos() < loop.Node.Pos() || o.Pos() >= loop.Node.End()) {
					loopWritten[o] = true
				}
			}
		}
		switch a := n.(type) {
		case *ast.AssignStmt:
			for _, l := range a.Lhs {
				mark(l)
			}
		case *ast.IncDecStmt:
			mark(a.X)
		}
		return true
	})
	// the spawned literal, and every function literal it reaches through a function-valued parameter or local bound on this path
	// (`spawn(&wg, func() { … })` with `go func() { task() }()` inside the helper): all of them run in the goroutine
	seenLit := map[*ast.FuncLit]bool{lit: true}
	var scanLit func(body ast.Node)
	scanLit = func(body ast.Node) {
		ast.Inspect(body, func(n ast.Node) bool {
			id, ok := n.(*ast.Ident)
			if !ok {
				return true
			}
			o := c.Info.Uses[id]
			if o == nil {
				return true
			}
			for _, lv := range loopVars {
				if o == lv && old {
					badCap = "loop variable " + lv.Name() + " is captured by the spawned closure (go.mod go " + c.goVers + " < 1.22: one variable shared by all iterations and written by the parent while goroutines run)"
				}
			}
			if loopWritten[o] {
				if _, isVar := o.(*types.Var); isVar {
					badCap = "variable " + o.Name() + " is declared outside the spawning loop, assigned inside it and read by the spawned closure: one variable shared by all iterations and written by the parent while goroutines run"
				}
			}
			if t, bound := goStep.Env[o]; bound {
				if tl, isLit := t.(TLit); isLit {
					if fl, isFn := tl.Node.(*ast.FuncLit); isFn && !seenLit[fl] {
						seenLit[fl] = true
						scanLit(fl.Body)
					}
				}
			}
			return true
		})
	}
	scanLit(lit.Body)
	// bind parameters to the go-arguments
	env := copyEnv(goStep.Env)
	var ps []types.Object
	for _, f := range lit.Type.Params.List {
		for _, nm := range f.Names {
			ps = append(ps, c.Info.Defs[nm])
		}
	}
	args := goStep.Call.Args
	if len(ps) != len(args) {
		r2.Undecided("arity mismatch between go-arguments and the literal")
		return
	}
	for i, po := range ps {
		env[po] = args[i]
	}
	isKey := func(t Term) bool { return keyT != nil && sameTerm(t, keyT) }
	isVal := func(t Term) bool {
		e, ok := v.valueOf(t)
		if !ok {
			return false
		}
		if loop.Value != nil && isParamTerm(e, loop.Value) {
			return true
		}
		ix, ok := e.(TIndex)
		if !ok || keyT == nil || !sameTerm(ix.I, keyT) {
			return false
		}
		// element of the receiver's spine (possibly through a snapshot taken before the loop)
		return v.isRecvSpine(ix.X)
	}
	if badCap != "" {
		r2.Fail("%s", badCap)
	} else {
		r2.Ok("the spawned literal does not mention the loop variables; per-iteration values are evaluated at spawn time and passed as go-arguments")
	}
	// spawned body
	sob := c.Ob("C15.R1", name+"/spawned-body", lit.Pos())
	bps := c.NewSX().RunStmts(lit.Body.List, env)
	if len(bps) != 1 || bps[0].Why != "" || len(bps[0].Conds()) != 0 {
		sob.Undecided("the spawned body is not a single straight-line path")
		return
	}
	bp := bps[0]
	nUser, nDone, nLock, nUnlock := 0, 0, 0, 0
	posUser, posDone, posLock, posUnlock := -1, -1, -1, -1
	var userCall *TCall
	var shared []int
	var sharedCall *TCall
	var mu types.Object
	deferDone := false
	var sharedStore *Step
	for i, st := range bp.Steps {
		call := st.Call
		if call == nil && st.Kind == "store" && isMap && !ct.IsList {
			// `result.val[k] = parseVal(f(k, x))`: Set of one pair, inlined from a private helper — a write on shared library state
			if ix, isIx := st.LHS.(TIndex); isIx {
				if _, sct := v.spineOf(ix.X); sct != nil && !sct.IsList {
					shared = append(shared, i)
					sharedStore = &bp.Steps[i]
					continue
				}
			}
		}
		if call == nil {
			sob.Undecided("unexpected step %s in the spawned body", st.Kind)
			return
		}
		switch {
		case call.Fun == nil && userFn != nil && isParamTerm(call.Dyn, userFn):
			nUser++
			posUser = i
			userCall = call
		case call.Fun != nil && syncVar(call.Recv, "WaitGroup") != nil && call.Fun.Name() == "Done":
			if syncVar(call.Recv, "WaitGroup") != wg {
				sob.Fail("Done() is called on another WaitGroup than the one the parent waits on")
				return
			}
			nDone++
			posDone = i
			if st.Kind == "defer" {
				deferDone = true
				posDone = len(bp.Steps)
			}
		case call.Fun != nil && syncVar(call.Recv, "Mutex") != nil && call.Fun.Name() == "Lock":
			nLock++
			posLock, mu = i, syncVar(call.Recv, "Mutex")
		case call.Fun != nil && syncVar(call.Recv, "Mutex") != nil && call.Fun.Name() == "Unlock":
			nUnlock++
			posUnlock = i
			if syncVar(call.Recv, "Mutex") != mu {
				sob.Fail("Unlock on another mutex than Lock")
				return
			}
		case call.Fun != nil && call.Fun.Pkg() == c.Types && call.Fun.Name() == "parseVal" && len(call.Args) == 1:
			// the conversion of a value about to be stored: pure (C12.R1)
		case call.Fun != nil && call.Fun.Pkg() == c.Types && mutatorNames[call.Fun.Name()]:
			shared = append(shared, i)
			sharedCall = call
		default:
			sob.Undecided("unexpected call %s in the spawned body", c.termStr(*call))
			return
		}
	}
	switch {
	case nUser != 1:
		sob.Fail("the user function is called %d times per goroutine (expected exactly once)", nUser)
	case nDone != 1:
		sob.Fail("Done() is called %d times per goroutine on the spawning WaitGroup (expected exactly once)", nDone)
	case !deferDone && posDone < posUser:
		sob.Fail("Done() precedes the user function: Wait can return while a callback is still running")
	case !deferDone && posDone != len(bp.Steps)-1:
		sob.Fail("Done() is not the last action of the goroutine")
	default:
		sob.Ok("user function exactly once, then Done() exactly once on the same WaitGroup")
	}
	if userCall != nil {
		okArgs := len(userCall.Args) == 2 && isKey(userCall.Args[0]) && isVal(userCall.Args[1])
		c.Ob("C15.R1", name+"/callback-args", lit.Pos()).Check(okArgs, "user function receives the spawn-time (key|index, getVal()) of its own iteration", "user function is not called with the spawn-time (key|index, value) of its own iteration")
	}
	// R3 lock set
	r3 := c.Ob("C15.R3", name+"/lock-set", lit.Pos())
	switch {
	case len(shared) == 0 && !isMap:
		r3.Ok("spawned body performs no write on shared library state")
	case len(shared) == 0:
		r3.Fail("the result container is never written by the goroutines")
	case mu == nil || nLock != 1 || nUnlock != 1:
		r3.Fail("shared write in the spawned body is not protected by exactly one Lock/Unlock pair: concurrent goroutines race on the result")
	case mu.Pos() >= loop.Node.Pos() && mu.Pos() < loop.Node.End():
		r3.Fail("the mutex is declared inside the loop: every goroutine locks its own mutex")
	default:
		good := true
		for _, w := range shared {
			if !(posLock < w && w < posUnlock) {
				good = false
			}
		}
		r3.Check(good, "every shared write lies between Lock() and Unlock() of the one mutex declared outside the loop", "a shared write lies outside the Lock/Unlock bracket")
	}
	if !isMap {
		if p.End == "return" && len(p.Vals) == 1 {
			c.Ob("C15.R1", name+"/return", fd.Pos()).Check(v.isEgo(p.Vals[0]), "returns the registered ego after Wait", "does not return the registered ego")
		}
		return
	}
	// MapAsync: result, pairing, parent quiet
	if p.End == "return" && len(p.Vals) == 1 {
		result = p.Vals[0]
	}
	iob := c.Ob("C15.R4", name+"/result-init", fd.Pos())
	rc, isCall := result.(TCall)
	switch {
	case !ct.IsList && freshEmptyContainer(c, result, false):
		// NewObject(), or a private constructor helper inlined to a registered literal with a fresh empty map (a capacity is only a hint)
		iob.Ok("result starts as an empty object")
	case !isCall || rc.Fun == nil:
		iob.Fail("the returned value is not a container created in this call")
	case ct.IsList:
		iob.Check(rc.Fun.Name() == "NewListOf" && len(rc.Args) == 2 && isNilTerm(rc.Args[0]) && v.isCountOfRecv(rc.Args[1]), "result pre-sized to the receiver's length so that Replace(i, …) is in range for every index", "result list is not NewListOf(nil, len of the receiver)")
	default:
		iob.Check(rc.Fun.Name() == "NewObject" && len(rc.Args) == 0, "result starts as an empty object", "result object does not start empty")
	}
	r4 := c.Ob("C15.R4", name+"/pairing", lit.Pos())
	good := sharedCall != nil && len(shared) == 1 && userCall != nil && sharedCall.Recv != nil && sameTerm(sharedCall.Recv, result)
	if sharedStore != nil {
		// the inlined form: result.spine[k] = parseVal(f(k, x))
		good = false
		if ix, isIx := sharedStore.LHS.(TIndex); isIx && len(shared) == 1 && userCall != nil && !ct.IsList {
			base, _ := v.spineOf(ix.X)
			pv, isPV := sharedStore.RHS.(TCall)
			good = base != nil && sameTerm(base, result) && isKey(ix.I) && isPV && pv.Fun != nil && pv.Fun.Pkg() == c.Types && pv.Fun.Name() == "parseVal" && len(pv.Args) == 1 && sameTerm(pv.Args[0], *userCall)
		}
	} else if good {
		want := "Set"
		if ct.IsList {
			want = "Replace"
		}
		sargs := unpack(sharedCall.Args)
		good = sharedCall.Fun.Name() == want && len(sargs) == 2 && isKey(sargs[0]) && sameTerm(sargs[1], *userCall)
	}
	r4.Check(good, "result."+map[bool]string{true: "Replace", false: "Set"}[ct.IsList]+"(k, f(k, x)) with the spawn-time k: same pairing as Map", "the value is not stored under the spawn-time key/index of its own iteration into the returned result")
	// parent quiet: between loop and Wait there is nothing (steps are only Add / ctor / loop / Wait by the skeleton check)
	c.Ob("C15.R3", name+"/parent-quiet", fd.Pos()).Check(iWait == iLoop+1 || iWait > iLoop, "the parent does not touch the result between the first spawn and Wait", "the parent uses the result before Wait")
}

func isNilTerm(t Term) bool {
	_, ok := t.(TNil)
	return ok
}
