package main

// C13 — native conversions are faithful, recursive and never aliased with the container.

import (
	"go/ast"
	"go/token"
	"go/types"
)

func init() {
	register(&Property{
		ID: "C13",
		Explanation: "Shape rules on the recursive converter `native` (an Object arm and a List arm that every container type satisfies; each builds a fresh map/slice and stores native(x) of every visited value under the same key / in visiting order " +
			"through the total iterators decided by C14; the default arm returns the operand), on NativeDict/NativeSlice (= native(receiver)) and on Dict/Slice (fresh, one getVal() per entry under the same key / in order). Non-aliasing with native Go values follows by typing " +
			"(spines hold the unexported field interface; struct shapes pinned; From-constructors copy element-wise, C12.R2) and from FRESH origins (E3). Deep equality of contents is a value statement and is not decided.",
		Rules: []Rule{
			{ID: "C13.R1", Doc: "native: Object and List arms build fresh results holding native(x) of every visited value under the same key / in order; default returns the operand", Run: c13Native},
			{ID: "C13.R2", Doc: "NativeDict/NativeSlice return native(receiver); Dict/Slice are fresh one-level snapshots of getVal() per entry", Run: c13Snapshots},
			{ID: "C13.R3", Doc: "no aliasing by typing and origin: struct shapes, FRESH Go-typed results, element-wise From-constructors", Run: func(c *Ctx) {
				structShapeRule(c, "C13.R3")
				c13Fresh(c)
			}},
		},
	})
}

func c13Native(c *Ctx) {
	fd := c.NeedDecl("C13.R1", "native")
	if fd == nil {
		return
	}
	fobj := c.FuncObj(fd)
	ts := findTypeSwitch(fd.Body)
	if ts == nil {
		c.Ob("C13.R1", "native", fd.Pos()).Undecided("no type switch")
		return
	}
	bound := typeSwitchVar(c, ts)
	par := soleParam(c, fd)
	if op := typeSwitchOperand(ts); op == nil || c.obj(op) != par {
		c.Ob("C13.R1", "native/operand", ts.Pos()).Fail("type switch is not on the argument")
	}
	covered := map[*Cont]bool{}
	n := 0
	for _, cl := range ts.Body.List {
		cc := cl.(*ast.CaseClause)
		if cc.List == nil {
			n++
			r := (*ast.ReturnStmt)(nil)
			if len(cc.Body) == 1 {
				r, _ = cc.Body[0].(*ast.ReturnStmt)
			}
			c.Ob("C13.R1", "native/default", cc.Pos()).Check(r != nil && len(r.Results) == 1 && (isSwitchVar(c, r.Results[0], bound, cc) || c.obj(r.Results[0]) == par),
				"scalars are returned unchanged", "default arm does not return its operand")
			continue
		}
		if len(cc.List) != 1 {
			c.Ob("C13.R1", "native/arm", cc.Pos()).Undecided("multi-type arm")
			continue
		}
		T := c.typeOf(cc.List[0])
		ct := c.Inv().ContByIface(T)
		if ct == nil {
			c.Ob("C13.R1", "native/case "+shortType(T), cc.Pos()).Fail("arm for a non-container type")
			continue
		}
		covered[ct] = true
		n++
		ob := c.Ob("C13.R1", "native/case "+shortType(T), cc.Pos())
		if len(cc.Body) != 3 {
			ob.Fail("arm is not: fresh result; total iteration storing native(x); return result")
			continue
		}
		as, ok := cc.Body[0].(*ast.AssignStmt)
		es, ok2 := cc.Body[1].(*ast.ExprStmt)
		r, ok3 := cc.Body[2].(*ast.ReturnStmt)
		if !ok || !ok2 || !ok3 || len(as.Lhs) != 1 || len(as.Rhs) != 1 || len(r.Results) != 1 {
			ob.Fail("unexpected statement kinds in the arm")
			continue
		}
		result := c.obj(as.Lhs[0])
		mk, ok := unparen(as.Rhs[0]).(*ast.CallExpr)
		if !ok || !c.isBuiltin(mk, "make") {
			ob.Fail("the arm's result is not created by make (it could alias the container)")
			continue
		}
		resT := c.typeOf(mk.Args[0])
		it, ok := es.X.(*ast.CallExpr)
		if !ok || len(it.Args) != 1 {
			ob.Fail("second statement is not an iteration call")
			continue
		}
		isel, ok := unparen(it.Fun).(*ast.SelectorExpr)
		lit, isLit := unparen(it.Args[0]).(*ast.FuncLit)
		ical := c.callee(it)
		if !ok || !isLit || ical == nil || !isSwitchVar(c, isel.X, bound, cc) {
			ob.Fail("iteration is not a method of the operand with a function literal")
			continue
		}
		var ps []types.Object
		for _, f := range lit.Type.Params.List {
			for _, nm := range f.Names {
				ps = append(ps, c.Info.Defs[nm])
			}
		}
		isNative := func(e ast.Expr, arg types.Object) bool {
			call, ok := unparen(e).(*ast.CallExpr)
			return ok && len(call.Args) == 1 && c.callee(call) == fobj && c.obj(call.Args[0]) == arg
		}
		good := len(lit.Body.List) == 1 && c.obj(r.Results[0]) == result && result != nil
		if _, isMap := resT.Underlying().(*types.Map); isMap && !ct.IsList {
			// v.ForEach(func(key, val) { result[key] = native(val) })
			good = good && ical.Name() == "ForEach" && len(ps) == 2
			if good {
				st, ok := lit.Body.List[0].(*ast.AssignStmt)
				good = ok && st.Tok == token.ASSIGN && len(st.Lhs) == 1 && len(st.Rhs) == 1
				if good {
					ix, ok := unparen(st.Lhs[0]).(*ast.IndexExpr)
					good = ok && c.obj(ix.X) == result && c.obj(ix.Index) == ps[0] && isNative(st.Rhs[0], ps[1])
				}
			}
		} else if _, isSl := resT.Underlying().(*types.Slice); isSl && ct.IsList {
			// v.ForEachValue(func(h) { result = append(result, native(h)) })  or ForEach(func(i, h))
			good = good && (ical.Name() == "ForEachValue" && len(ps) == 1 || ical.Name() == "ForEach" && len(ps) == 2)
			if good {
				st, ok := lit.Body.List[0].(*ast.AssignStmt)
				good = ok && st.Tok == token.ASSIGN && len(st.Lhs) == 1 && len(st.Rhs) == 1 && c.obj(st.Lhs[0]) == result
				if good {
					ap, ok := unparen(st.Rhs[0]).(*ast.CallExpr)
					good = ok && c.isBuiltin(ap, "append") && len(ap.Args) == 2 && !ap.Ellipsis.IsValid() && c.obj(ap.Args[0]) == result && isNative(ap.Args[1], ps[len(ps)-1])
				}
			}
		} else {
			good = false
		}
		ob.Check(good, "fresh "+shortType(resT)+"; every visited value x is stored as native(x) under the same key / appended in visiting order (recursion through native itself, so no container survives at any depth)",
			"arm does not store native(x) of every visited value of the operand into a fresh result (a nested container would survive un-converted or be aliased)")
	}
	for _, ct := range c.Inv().Conts {
		c.Ob("C13.R1", "native/covers "+ct.Named.Obj().Name(), ts.Pos()).Check(covered[ct], "every "+ct.Named.Obj().Name()+" satisfies the "+shortType(ct.Iface)+" arm", "no arm for "+shortType(ct.Iface)+": such containers would be returned un-converted")
	}
	c.R.Floor("C13.R1", n, 3)
}

func c13Snapshots(c *Ctx) {
	n := 0
	nat := c.Decl("native")
	for _, spec := range []struct{ name string }{{"(*object).NativeDict"}, {"(*list).NativeSlice"}} {
		fd := c.NeedDecl("C13.R2", spec.name)
		if fd == nil || nat == nil {
			continue
		}
		n++
		ob := c.Ob("C13.R2", spec.name, fd.Pos())
		r := singleReturn(fd.Body)
		good := r != nil && len(r.Results) == 1
		if good {
			e := unparen(r.Results[0])
			if ta, ok := e.(*ast.TypeAssertExpr); ok {
				e = unparen(ta.X)
			}
			call, ok := e.(*ast.CallExpr)
			good = ok && len(call.Args) == 1 && c.callee(call) == c.FuncObj(nat) && c.isSelf(fd, call.Args[0])
		}
		ob.Check(good, "returns native(receiver)", "does not return native(receiver)")
	}
	// Dict
	if fd := c.NeedDecl("C13.R2", "(*object).Dict"); fd != nil {
		n++
		ob := c.Ob("C13.R2", "(*object).Dict", fd.Pos())
		sl := spineLoops(c, fd)
		good := len(sl) == 1 && len(allLoops(fd)) == 1 && len(fd.Body.List) == 3
		var result types.Object
		if good {
			as, ok := fd.Body.List[0].(*ast.AssignStmt)
			good = ok && len(as.Lhs) == 1 && len(as.Rhs) == 1
			if good {
				mk, ok := unparen(as.Rhs[0]).(*ast.CallExpr)
				good = ok && c.isBuiltin(mk, "make")
				result = c.obj(as.Lhs[0])
			}
		}
		if good {
			l := sl[0]
			good = loopHasEarlyExit(l.Stmt) == ""
			nf := c.loopNormalForm(l.Stmt.Body)
			good = good && len(nf.Undecided) == 0 && len(nf.Tests) == 0 && len(nf.Actions) == 1 && len(nf.Actions[0].Guard) == 0
			if good {
				st, ok := nf.Actions[0].Stmt.(*ast.AssignStmt)
				good = ok && st.Tok == token.ASSIGN && len(st.Lhs) == 1 && len(st.Rhs) == 1
				if good {
					ix, ok := unparen(st.Lhs[0]).(*ast.IndexExpr)
					good = ok && c.obj(ix.X) == result && l.Key != nil && c.obj(ix.Index) == l.Key && c.elemForm(st.Rhs[0], l.Value) == "val"
				}
			}
			r, ok := fd.Body.List[2].(*ast.ReturnStmt)
			good = good && ok && len(r.Results) == 1 && c.obj(r.Results[0]) == result
		}
		ob.Check(good, "fresh map; dict[key] = field.getVal() for every field under the same key (exactly what Get returns)", "Dict is not a fresh map holding getVal() of every field under its key")
	}
	// Slice is decided by C14 (Slice family, untyped: append(getVal())); re-stated here for the evidence
	if fd := c.NeedDecl("C13.R2", "(*list).Slice"); fd != nil {
		n++
		sl := spineLoops(c, fd)
		ob := c.Ob("C13.R2", "(*list).Slice", fd.Pos())
		good := len(sl) == 1
		if good {
			nf := c.loopNormalForm(sl[0].Stmt.Body)
			good = len(nf.Undecided) == 0 && len(nf.Actions) == 1 && len(nf.Actions[0].Guard) == 0 && loopHasEarlyExit(sl[0].Stmt) == ""
			if good {
				st, ok := nf.Actions[0].Stmt.(*ast.AssignStmt)
				good = ok && len(st.Rhs) == 1
				if good {
					ap, ok := unparen(st.Rhs[0]).(*ast.CallExpr)
					good = ok && c.isBuiltin(ap, "append") && len(ap.Args) == 2 && c.elemForm(ap.Args[1], sl[0].Value) == "val"
				}
			}
		}
		ob.Check(good, "appends getVal() of every element in index order", "Slice does not append getVal() of every element")
	}
	c.R.Floor("C13.R2", n, 4)
}

func c13Fresh(c *Ctx) {
	a := c.E3()
	for _, name := range []string{"(*object).Dict", "(*object).NativeDict", "(*list).Slice", "(*list).NativeSlice", "NewListFrom", "NewObjectFrom"} {
		fn := a.ByName(name)
		if fn == nil {
			c.Ob("C13.R3", "fresh/"+name, token.NoPos).Missing("function not found")
			continue
		}
		s := a.sum[fn]
		good := len(s.RetEach) > 0
		for _, o := range s.RetEach {
			if o&oROOTS != oFRESH {
				good = false
			}
		}
		c.Ob("C13.R3", "fresh/"+name, fn.Pos()).Check(good, "result has origin FRESH on every return: it shares no storage with the container or the argument", "result has origin "+s.Ret.String())
	}
}
