package main

// C13 — native conversions are faithful, recursive and never aliased with the container (SX path normal form).

import (
	"go/ast"
	"go/token"
	"go/types"
	"strings"
)

func init() {
	register(&Property{
		ID: "C13",
		Explanation: "Decided on the symbolic path normal form (SX). The recursive converter `native`: on the path where the operand is an Object (resp. List) — both container interfaces must have such a path — exactly one total iteration of the operand (ForEach / ForEachValue, whose totality is decided by C14) is performed with a function literal " +
			"that stores native(x) of the visited value under the same key into (resp. appends it to) a result created by make in that path, and that result is returned; on every other path the operand itself is returned. NativeDict/NativeSlice return native(receiver); " +
			"Dict is a fresh map holding getVal() of every field under its key (Slice: decided by C14). Non-aliasing with native Go values follows by typing (spines hold the unexported field interface; struct shapes pinned; From-constructors copy element-wise, C12.R2) and from FRESH origins (E3). " +
			"Deep equality of contents is a value statement and is not decided.",
		Rules: []Rule{
			{ID: "C13.R1", Doc: "native: Object and List paths build fresh results holding native(x) of every visited value under the same key / in order; every other path returns the operand", Run: c13Native},
			{ID: "C13.R2", Doc: "NativeDict/NativeSlice return native(receiver); Dict is a fresh one-level snapshot of getVal() per field", Run: c13Snapshots},
			{ID: "C13.R4", Doc: "Slice and the typed slices visit every element in order without filtering beyond their kind (= C14 on the Slice family)", Run: func(c *Ctx) {
				c.R.Floor("C13.R4", runAs(c, "C13.R4", c14Run, func(o *Obligation) bool { return strings.Contains(o.Construct, "Slice") }), 3)
			}},
			{ID: "C13.R6", Doc: "From-constructors store every entry of every flavour through the conversion (nil entries of []Object/[]List/map[string]Object/… become the nil kind, not a raw nil field that native() dereferences) (= C12.R2)", Run: func(c *Ctx) {
				c.R.Floor("C13.R6", runAs(c, "C13.R6", c12R2, nil), 14)
			}},
			{ID: "C13.R5", Doc: "what is stored is the value that was given: parseVal maps every Go type to the constructor of its kind through value-preserving conversions, and the constructors wrap their argument unchanged (= C12.R1)", Run: func(c *Ctx) { c.R.Floor("C13.R5", runAs(c, "C13.R5", c12R1, nil), 10) }},
			{ID: "C13.R7", Doc: "the visitors native() iterates with (ForEach, ForEachValue) visit every entry of every container, the empty one included, and do nothing else (= C14.R1 on the untyped visitors)", Run: func(c *Ctx) {
				c.R.Floor("C13.R7", runAs(c, "C13.R7", c14Run, func(o *Obligation) bool {
					return strings.Contains(o.Construct, ").ForEach/") || strings.Contains(o.Construct, ").ForEachValue/")
				}), 3)
			}},
			{ID: "C13.R3", Doc: "no aliasing by typing and origin: struct shapes, FRESH Go-typed results, element-wise From-constructors", Run: func(c *Ctx) {
				structShapeRule(c, "C13.R3")
				c13Fresh(c)
			}},
		},
	})
}

func litParams(c *Ctx, fl *ast.FuncLit) []types.Object {
	var ps []types.Object
	for _, f := range fl.Type.Params.List {
		for _, nm := range f.Names {
			ps = append(ps, c.Info.Defs[nm])
		}
	}
	return ps
}

// c13Arm: the path converts the container `operand` (of family ct): exactly one total iteration of the operand with a function literal that
// stores native(x) of the visited value under the same key into (appends it to) a result created by make on this path, which is returned.
func c13Arm(c *Ctx, fobj *types.Func, p *Path, operand Term, ct *Cont) (good bool, why string) {
	isNative := func(t Term, arg types.Object) bool {
		call, ok := t.(TCall)
		return ok && call.Fun == fobj && len(call.Args) == 1 && isParamTerm(call.Args[0], arg)
	}
	effs := p.Effects()
	if len(effs) != 1 || effs[0].Kind != "call" || effs[0].Call == nil || effs[0].Call.Fun == nil || p.End != "return" || len(p.Vals) != 1 {
		return false, "the arm is not: fresh result; one total iteration of the operand storing native(x); return result (a nested container would survive un-converted or be aliased)"
	}
	it := effs[0].Call
	matchesOperand := it.Recv != nil && (sameTerm(it.Recv, operand) || sameTerm(it.Recv, TProj{operand, 0}))
	if !matchesOperand || len(it.Args) != 1 {
		return false, "the iteration is not a method of the operand"
	}
	fl, cenv, _ := c.closureOf(it.Args[0], effs[0].Env)
	if fl == nil {
		return false, "the iteration is not given a function literal"
	}
	ps := litParams(c, fl)
	bp := c.NewSX().RunStmts(fl.Body.List, cenv)
	if len(bp) != 1 || bp[0].Why != "" || len(bp[0].Conds()) != 0 {
		return false, "the visitor is not a single unconditional statement"
	}
	// result variable: the local returned after the iteration (havoced by the callback, so a TLoop of that variable)
	var resObj types.Object
	if lv, ok := p.Vals[0].(TLoop); ok {
		resObj = lv.Obj
	}
	resInit := Term(nil)
	if resObj != nil {
		// value before the iteration: the make(...) bound in the visitor's captured environment
		resInit = bp[0].Env[resObj]
	}
	good = false
	if !ct.IsList {
		// v.ForEach(func(key, val) { result[key] = native(val) })
		if it.Fun.Name() == "ForEach" && len(ps) == 2 && len(bp[0].Effects()) == 1 {
			s := bp[0].Effects()[0]
			if ix, ok := s.LHS.(TIndex); ok && s.Kind == "store" && isParamTerm(ix.I, ps[0]) && isNative(s.RHS, ps[1]) {
				if mk, ok := ix.X.(TBuiltin); ok && mk.Name == "make" {
					if _, isMap := mk.Type.Underlying().(*types.Map); isMap {
						// the returned value is that map (maps are references: not havoced) or the same make term
						good = sameTerm(p.Vals[0], ix.X)
					}
				}
			}
		}
	} else {
		// v.ForEachValue(func(h) { result = append(result, native(h)) })
		if (it.Fun.Name() == "ForEachValue" && len(ps) == 1 || it.Fun.Name() == "ForEach" && len(ps) == 2) && len(bp[0].Effects()) == 0 && resObj != nil {
			if ap, ok := resInit.(TBuiltin); ok && ap.Name == "append" && len(ap.Args) == 2 && isNative(ap.Args[1], ps[len(ps)-1]) {
				if mk, ok := ap.Args[0].(TBuiltin); ok && mk.Name == "make" {
					if _, isSl := mk.Type.Underlying().(*types.Slice); isSl {
						good = true
					}
				}
			}
		}
	}
	if !good {
		return false, "arm does not store native(x) of every visited value of the operand into a fresh result (a nested container would survive un-converted or be aliased)"
	}
	return true, ""
}

func c13Native(c *Ctx) {
	fd := c.NeedDecl("C13.R1", "native")
	if fd == nil {
		return
	}
	fobj := c.FuncObj(fd)
	par := soleParam(c, fd)
	paths, why := c.runPaths(fd)
	if why != "" || par == nil {
		c.Ob("C13.R1", "native", fd.Pos()).Undecided("body outside the path vocabulary: %s", why)
		return
	}
	covered := map[*Cont]bool{}
	n := 0
	for i, p := range paths {
		// the container interface this path established for the operand
		var ct *Cont
		var operand Term
		bad := ""
		scalarArm := false
		for _, cd := range p.Conds() {
			op, T, isTest := kindTestOf(cd.T)
			if !isTest || !isParamTerm(op, par) {
				bad = "decision that is not a type test of the operand: " + c.termStr(cd.T)
				break
			}
			if cd.Truth {
				ct = c.Inv().ContByIface(T)
				if ct == nil {
					// an arm for a type no container can have (nil, or a concrete type that implements neither container interface) that
					// hands the operand back unchanged is the default arm taken early
					scalar := T == nil
					if T != nil {
						if _, isI := T.Underlying().(*types.Interface); !isI {
							scalar = true
							for _, k := range c.Inv().Conts {
								if ki, ok := k.Iface.Underlying().(*types.Interface); ok && (types.Implements(T, ki) || types.Implements(types.NewPointer(T), ki)) {
									scalar = false
								}
							}
						}
					}
					if scalar {
						scalarArm = true
						continue
					}
					bad = "arm for a non-container type " + shortType(T)
				}
				operand = TAssert{op, T}
			}
		}
		n++
		if bad == "" && ct == nil && scalarArm {
			r := Term(nil)
			if p.End == "return" && len(p.Vals) == 1 {
				r = p.Vals[0]
				if pr, ok := r.(TProj); ok && pr.K == 0 {
					r = pr.X
				}
				if as, ok := r.(TAssert); ok {
					r = as.X
				}
			}
			ob := c.Ob("C13.R1", "native/scalar arm#"+itoa(i+1), posOfNode(p.Node))
			ob.Check(r != nil && isParamTerm(r, par) && len(p.Effects()) == 0, "an arm for types no container has returns its operand unchanged", "an arm for scalar types does not return its operand unchanged")
			continue
		}
		if bad != "" {
			c.Ob("C13.R1", "native/path#"+itoa(i+1), posOfNode(p.Node)).Fail("%s", bad)
			continue
		}
		if ct == nil {
			ob := c.Ob("C13.R1", "native/default", posOfNode(p.Node))
			ob.Check(p.End == "return" && len(p.Vals) == 1 && (isParamTerm(p.Vals[0], par) || sameTerm(p.Vals[0], TVar{par})) && len(p.Effects()) == 0, "scalars are returned unchanged", "the default path does not return its operand unchanged")
			continue
		}
		covered[ct] = true
		ob := c.Ob("C13.R1", "native/case "+shortType(ct.Iface), posOfNode(p.Node))
		good, whyNot := c13Arm(c, fobj, p, operand, ct)
		if whyNot == "" {
			whyNot = "arm does not store native(x) of every visited value of the operand into a fresh result"
		}
		ob.Check(good, "fresh result; every visited value x is stored as native(x) under the same key / appended in visiting order (recursion through native itself, so no container survives at any depth)",
			whyNot)
	}
	for _, ct := range c.Inv().Conts {
		c.Ob("C13.R1", "native/covers "+ct.Named.Obj().Name(), fd.Pos()).Check(covered[ct], "every "+ct.Named.Obj().Name()+" satisfies the "+shortType(ct.Iface)+" arm", "no arm for "+shortType(ct.Iface)+": such containers would be returned un-converted")
	}
	c.R.Floor("C13.R1", n, 3)
}

func c13Snapshots(c *Ctx) {
	n := 0
	nat := c.Decl("native")
	for _, name := range []string{"(*object).NativeDict", "(*list).NativeSlice"} {
		fd := c.NeedDecl("C13.R2", name)
		if fd == nil || nat == nil {
			continue
		}
		n++
		ob := c.Ob("C13.R2", name, fd.Pos())
		paths, why := c.runPaths(fd)
		v := c.view(fd)
		// `switch v := native(ego).(type) { case []any: return v; default: panic(…) }` is `return native(ego).([]any)` (a failing
		// assertion panics, too): the panicking alternative under the negated test is dropped
		if why == "" && len(paths) == 2 {
			for i, p := range paths {
				o := paths[1-i]
				pc, oc := p.Conds(), o.Conds()
				if p.End == "panic" && o.End == "return" && len(pc) == 1 && len(oc) == 1 && len(p.Effects()) == 0 && !pc[0].Truth && oc[0].Truth {
					op1, T1, ok1 := kindTestOf(pc[0].T)
					op2, T2, ok2 := kindTestOf(oc[0].T)
					if ok1 && ok2 && T1 != nil && T2 != nil && types.Identical(T1, T2) && sameTerm(op1, op2) {
						q := clonePath(o)
						q.Steps = nil
						for _, st := range o.Steps {
							if st.Kind != "cond" {
								q.Steps = append(q.Steps, st)
							}
						}
						paths = []*Path{q}
						break
					}
				}
			}
		}
		good := why == "" && len(paths) == 1 && paths[0].End == "return" && len(paths[0].Vals) == 1 && len(paths[0].Effects()) == 0
		if good {
			t := paths[0].Vals[0]
			if pr, ok := t.(TProj); ok && pr.K == 0 {
				t = pr.X // v, ok := native(recv).([]any): the asserted value
			}
			if a, ok := t.(TAssert); ok {
				t = a.X
			}
			call, ok := t.(TCall)
			good = ok && call.Fun == c.FuncObj(nat) && len(call.Args) == 1 && v.isSelf(call.Args[0])
		}
		if !good && why == "" && len(paths) == 1 {
			// the conversion of the receiver spelled out here (a private helper shared with native, inlined): the same arm rule
			for _, ct := range c.Inv().Conts {
				if ct.IsList == (name == "(*list).NativeSlice") {
					pp := *paths[0]
					if len(pp.Vals) == 1 {
						if a, ok := pp.Vals[0].(TAssert); ok {
							pp.Vals = []Term{a.X}
						}
					}
					recv := Term(TVar{v.recv})
					if ok, _ := c13Arm(c, c.FuncObj(nat), &pp, recv, ct); ok {
						good = true
					}
				}
			}
		}
		ob.Check(good, "returns native(receiver) (or performs that conversion of the receiver itself)", "does not return native(receiver)")
	}
	if fd := c.NeedDecl("C13.R2", "(*object).Dict"); fd != nil {
		n++
		ob := c.Ob("C13.R2", "(*object).Dict", fd.Pos())
		// a snapshot filled through a sibling visitor of the same receiver, called statically (ego.ForEach(func…)), is followed into it
		paths, why := c.runPathsWith(fd, func(x *SX) { x.InlineStaticSelf = true })
		v := c.view(fd)
		msg := why
		if msg == "" {
			p, loop, w := singleLoopPath(paths)
			msg = w
			if msg == "" {
				mk, isMk := (TBuiltin{}), false
				if p.End == "return" && len(p.Vals) == 1 {
					mk, isMk = p.Vals[0].(TBuiltin)
				}
				if r := v.asRange(loop); r != nil {
					loop = r
				}
				switch {
				case !isMk || mk.Name != "make":
					msg = "the result is not a map created by make in this call"
				case loop.Range == nil || !v.isRecvSpine(loop.Over):
					msg = "the loop does not range over the receiver's spine"
				case len(loop.Iter) != 1 || len(loop.Iter[0].Conds()) != 0 || len(loop.Iter[0].Effects()) != 1:
					msg = "loop body is not one unconditional assignment"
				default:
					s := loop.Iter[0].Effects()[0]
					ix, ok := s.LHS.(TIndex)
					e, okv := v.valueOf(s.RHS)
					if s.Kind != "store" || !ok || !sameTerm(ix.X, p.Vals[0]) || loop.Key == nil || !isParamTerm(ix.I, loop.Key) || !okv || loop.Value == nil || !isParamTerm(e, loop.Value) {
						msg = "loop body is not dict[key] = field.getVal()"
					}
				}
			}
		}
		if msg == "" {
			ob.Ok("fresh map; dict[key] = field.getVal() for every field under the same key (exactly what Get returns)")
		} else {
			ob.Fail("Dict is not a fresh map holding getVal() of every field under its key: %s", msg)
		}
	}
	c.R.Floor("C13.R2", n, 3)
}

func c13Fresh(c *Ctx) {
	a := c.E3()
	for _, name := range []string{"(*object).Dict", "(*object).NativeDict", "(*list).Slice", "(*list).NativeSlice", "NewListFrom", "NewObjectFrom"} {
		fn := a.ByName(name)
		if fn == nil {
			c.Ob("C13.R3", "fresh/"+name, token.NoPos).Missing("function not found")
			continue
		}
		s := a.sum[fn]
		good := len(s.RetEach) > 0
		for _, o := range s.RetEach {
			if o&oROOTS != oFRESH {
				good = false
			}
		}
		c.Ob("C13.R3", "fresh/"+name, fn.Pos()).Check(good, "result has origin FRESH on every return: it shares no storage with the container or the argument", "result has origin "+s.Ret.String())
	}
}
