package main

import (
	"encoding/json"
	"flag"
	"fmt"
	"go/token"
	"os"
	"path/filepath"
	"runtime/debug"
	"sort"
	"strconv"
	"strings"
	"time"
)

// Rule is one structural rule of one property.
type Rule struct {
	ID   string
	Doc  string
	Run  func(c *Ctx)
	Once bool // configuration-independent: run on the first configuration only
}

type Property struct {
	ID          string
	Explanation string
	QuickCfgs   []BuildCfg
	Rules       []Rule
	Assumptions []string
}

var registry = map[string]*Property{}

func register(p *Property) { registry[p.ID] = p }

var amd64 = BuildCfg{GOARCH: "amd64"}
var thoroughCfgs = []BuildCfg{
	{GOARCH: "amd64"}, {GOARCH: "386"}, {GOARCH: "arm64"},
	{GOARCH: "amd64", Tags: "verif"}, {GOARCH: "386", Tags: "verif"}, {GOARCH: "arm64", Tags: "verif"},
}

var commonAssumptions = []string{
	"go/types, go/ssa, go/cfg of golang.org/x/tools v0.29.0 model the program faithfully",
	"interface invokes resolve to the in-package implementers (CHA restricted to the package); user-defined derived types delegate to them",
	"Go semantics of maps, append, slicing, range (order, single visit), sync.WaitGroup, sync.Mutex",
	"user callbacks are outside the library: calls through function values have no library-visible effects",
}

func main() {
	repo := flag.String("repo", "/repo", "repository to analyse")
	prop := flag.String("prop", "", "property id (C01..C20)")
	tier := flag.String("tier", "quick", "quick | thorough")
	evid := flag.String("evidence", "", "evidence file to write")
	known := flag.String("known", "", "known-findings file")
	replayDir := flag.String("replaydir", "", "directory for replay files")
	only := flag.String("only", "", "replay: restrict the verdict to this obligation key")
	replay := flag.String("replay", "", "replay file (sets -only from its key)")
	dump := flag.String("dump", "", "debug: e3 | obls")
	list := flag.Bool("list", false, "list properties and rules")
	flag.Parse()

	if *list {
		var ids []string
		for id := range registry {
			ids = append(ids, id)
		}
		sort.Strings(ids)
		for _, id := range ids {
			p := registry[id]
			for _, r := range p.Rules {
				fmt.Printf("%s %s %s\n", id, r.ID, r.Doc)
			}
		}
		return
	}
	abs, err := filepath.Abs(*repo)
	if err != nil {
		fmt.Fprintln(os.Stderr, err)
		os.Exit(2)
	}
	*repo = abs
	if *dump == "e3" {
		r := newReport("dump")
		c, err := loadCtx(*repo, amd64, r)
		if err != nil {
			fmt.Fprintln(os.Stderr, err)
			os.Exit(2)
		}
		a := c.E3()
		fmt.Printf("functions: %d rounds: %d\n", len(a.fns), a.Rounds)
		fmt.Print(a.Digest())
		return
	}
	if strings.HasPrefix(*dump, "sx:") {
		r := newReport("dump")
		c, err := loadCtx(*repo, amd64, r)
		if err != nil {
			fmt.Fprintln(os.Stderr, err)
			os.Exit(2)
		}
		fd := c.Decl(strings.TrimPrefix(*dump, "sx:"))
		if fd == nil {
			fmt.Fprintln(os.Stderr, "no such function")
			os.Exit(2)
		}
		sx := c.NewSX()
		for _, n := range strings.Split(os.Getenv("SX_NOINLINE"), ",") {
			sx.NoInline[n] = true
		}
		var keys func(p *Path, ind string)
		keys = func(p *Path, ind string) {
			for _, st := range p.Steps {
				switch st.Kind {
				case "store":
					fmt.Printf("%sstore heap=%d %s = %s\n", ind, st.Heap, key(st.LHS), key(st.RHS))
				case "call":
					if st.Call != nil {
						fmt.Printf("%scall heap=%d %s\n", ind, st.Heap, key(*st.Call))
					}
				case "loop":
					fmt.Printf("%sloop head=%d\n", ind, st.Loop.HeadEpoch)
					for _, ip := range st.Loop.Iter {
						keys(ip, ind+"  ")
					}
				}
			}
		}
		for i, p := range sx.Run(fd) {
			fmt.Printf("== path %d\n%s", i+1, c.pathStr(p, "  "))
			if os.Getenv("SX_KEYS") != "" {
				keys(p, "  # ")
			}
		}
		return
	}
	if strings.HasPrefix(*dump, "sxn:") {
		r := newReport("dump")
		c, err := loadCtx(*repo, amd64, r)
		if err != nil {
			fmt.Fprintln(os.Stderr, err)
			os.Exit(2)
		}
		fd := c.Decl(strings.TrimPrefix(*dump, "sxn:"))
		if fd == nil {
			fmt.Fprintln(os.Stderr, "no such function")
			os.Exit(2)
		}
		paths, why := c.runPaths(fd)
		if why != "" {
			fmt.Println("why:", why)
		}
		for i, p := range paths {
			fmt.Printf("== path %d\n%s", i+1, c.pathStr(p, "  "))
		}
		return
	}
	p := registry[*prop]
	if p == nil {
		fmt.Fprintf(os.Stderr, "unknown property %q\n", *prop)
		os.Exit(2)
	}
	if *replay != "" {
		b, err := os.ReadFile(*replay)
		if err != nil {
			fmt.Fprintln(os.Stderr, err)
			os.Exit(2)
		}
		var m map[string]any
		if err := json.Unmarshal(b, &m); err != nil {
			fmt.Fprintln(os.Stderr, err)
			os.Exit(2)
		}
		*only, _ = m["key"].(string)
		if *only == "" {
			fmt.Fprintln(os.Stderr, "replay file has no key")
			os.Exit(2)
		}
	}
	seed := 0
	if s := os.Getenv("VERIF_SEED"); s != "" {
		seed, _ = strconv.Atoi(s)
	}
	kn, err := loadKnown(*known)
	if err != nil {
		fmt.Fprintln(os.Stderr, err)
		os.Exit(2)
	}
	start := time.Now()
	rep := newReport(p.ID)
	for _, a := range commonAssumptions {
		rep.Assume(a)
	}
	for _, a := range p.Assumptions {
		rep.Assume(a)
	}
	cfgs := p.QuickCfgs
	if len(cfgs) == 0 {
		cfgs = []BuildCfg{amd64}
	}
	if *tier == "thorough" {
		cfgs = thoroughCfgs
	}
	var cfgNames []string
	code := func() (code int) {
		defer func() {
			if r := recover(); r != nil {
				fmt.Fprintf(os.Stderr, "anycheck: internal error: %v\n%s\n", r, debug.Stack())
				code = 2
			}
		}()
		for i, cfg := range cfgs {
			c, err := loadCtx(*repo, cfg, rep)
			if err != nil {
				fmt.Fprintln(os.Stderr, "anycheck:", err)
				return 2
			}
			c.Deep = *tier == "thorough" && i == 0 // the larger folding domains once, on the primary configuration
			cfgNames = append(cfgNames, cfg.String())
			rep.Count("functions_in_package", 0)
			if i == 0 {
				rep.counters["functions_in_package"] = len(c.decls)
			}
			for _, rule := range p.Rules {
				if rule.Once && i > 0 {
					continue
				}
				runRule(c, rule)
			}
			if *tier == "thorough" && c.e3 != nil && i == 0 {
				// determinism cross-check of the E3 fix-point under the reverse processing order
				if d1, d2 := c.e3.Digest(), newE3(c, true).Digest(); d1 != d2 {
					l1, l2 := strings.Split(d1, "\n"), strings.Split(d2, "\n")
					for i := range l1 {
						if i < len(l2) && l1[i] != l2[i] {
							fmt.Fprintf(os.Stderr, "  forward : %s\n  reversed: %s\n", l1[i], l2[i])
						}
					}
					fmt.Fprintln(os.Stderr, "anycheck: E3 summaries differ between two processing orders — analysis is not deterministic")
					return 2
				}
				rep.Note("E3 fix-point reproduced under reversed function order (%d functions)", len(c.e3.fns))
			}
		}
		return -1
	}()
	if code == 2 {
		os.Exit(2)
	}
	if *dump == "obls" {
		for _, o := range rep.obls {
			fmt.Printf("%-14s %-60s %-12s %s  [%s]\n", o.Status, o.Key(), o.Pos, o.Why, o.Config)
		}
	}
	var ruleDocs []string
	for _, r := range p.Rules {
		ruleDocs = append(ruleDocs, r.ID+": "+r.Doc)
	}
	exit := rep.finish(finishOpts{Tier: *tier, EvidencePath: *evid, ReplayDir: *replayDir, Seed: seed, Wall: time.Since(start).Seconds(), Known: kn,
		Explanation: p.Explanation + " Rules applied — " + strings.Join(ruleDocs, " | "), Configs: cfgNames, Only: *only})
	os.Exit(exit)
}

// runRule runs one rule. Obligations it cannot discharge are decided a second time under another, equally faithful presentation of
// the same code — exported methods called STATICALLY on the bare receiver (ego.ForEach(…), ego.Get(k): calls no derived type can
// intercept) followed into their bodies — and an obligation discharged there is discharged: a sibling delegated to, or a sibling's
// body spelled out, is the same program. What fails under both presentations is reported as the first presentation saw it.
func runRule(c *Ctx, rule Rule) {
	first := newReport("tmp")
	c1 := *c
	c1.R = first
	func() {
		// an analysis that ends in an internal error has decided nothing: that is reported (exit 1) like any undecided obligation,
		// never passed over — on the unchanged tree it would show as a broken check, on a changed tree as a change the rule cannot read
		defer func() {
			if r := recover(); r != nil {
				fmt.Fprintf(os.Stderr, "anycheck: internal error in rule %s: %v\n%s\n", rule.ID, r, debug.Stack())
				c1.Ob(rule.ID, "analysis", token.NoPos).Undecided("the analysis of this rule ended in an internal error (%v): nothing is decided", r)
			}
		}()
		rule.Run(&c1)
	}()
	if c.e3 == nil {
		c.e3 = c1.e3
	}
	open := false
	for _, o := range first.obls {
		if o.Status != Discharged {
			open = true
		}
	}
	for _, fl := range first.floors {
		if fl[0] < fl[1] {
			open = true
		}
	}
	var second *Report
	if open && !c.AltInline {
		second = newReport("tmp")
		c2 := *c
		c2.R = second
		c2.AltInline = true
		func() {
			defer func() {
				if r := recover(); r != nil {
					second = nil // the second presentation is an extra; a failure in it leaves the first verdict standing
				}
			}()
			rule.Run(&c2)
		}()
	}
	alt := map[string]*Obligation{}
	if second != nil {
		for _, o := range second.obls {
			alt[o.Key()+"@"+o.Config] = o
		}
	}
	for _, o := range first.obls {
		if o.Status != Discharged {
			if a, ok := alt[o.Key()+"@"+o.Config]; ok && a.Status == Discharged {
				a.Why += " [decided with statically called siblings followed into their bodies]"
				c.R.add(a)
				continue
			}
		}
		c.R.add(o)
	}
	for rid, fl := range first.floors {
		if second != nil {
			if f2, ok := second.floors[rid]; ok && f2[0] > fl[0] {
				fl = f2
			}
		}
		c.R.Floor(rid, fl[0], fl[1])
	}
	for k, v := range first.counters {
		c.R.counters[k] += v
	}
	for k := range first.assume {
		c.R.assume[k] = true
	}
	c.R.notes = append(c.R.notes, first.notes...)
}
