package main

// SX — symbolic path executor over the type-checked AST.
//
// The shape rules of the first build matched statement lists and broke on every behaviour-preserving rewrite
// (inverted ifs, early returns, switch instead of if-chains, hoisted/inlined locals, extracted helpers).
// SX gives them a normal form instead: a function body is executed symbolically, path by path; locals are
// replaced by the terms they hold (so naming, hoisting and inlining of locals disappear), structured control
// flow is reduced to a sequence of (condition, polarity) pairs plus effect steps, short-circuit operators are
// split into paths, tagged/tagless/type switches become condition chains, and calls of small in-package
// functions, methods on concrete receivers and function literals are inlined (so extracted helpers disappear).
// Rules are then predicates over the set of paths. Nothing is run: terms are never given run-time values here
// (finite folding of integer guards over break-points is a separate, explicit step in sxeval.go).

import (
	"fmt"
	"go/ast"
	"go/constant"
	"go/token"
	"go/types"
	"sort"
	"strings"
)

// ---------------------------------------------------------------- terms

type Term interface{ Key() string }

type (
	TConst struct {
		Val constant.Value
	}
	TNil  struct{}
	TVar  struct{ Obj types.Object } // free variable: parameter, receiver, package-level object, opaque local
	TLoop struct {                   // value of a variable that is assigned inside a loop, as seen at the loop head / after the loop
		Obj types.Object
		ID  int
	}
	TSel struct {
		X     Term
		Field *types.Var
		Epoch int
	}
	TCall struct { // opaque call
		Fun   *types.Func
		Name  string
		Recv  Term
		Args  []Term
		Site  *ast.CallExpr
		Epoch int
		Dyn   Term // called function value (callback) when Fun == nil
	}
	TBuiltin struct {
		Name  string
		Args  []Term
		Type  types.Type // for make/new
		Site  ast.Node
		Epoch int
	}
	TConv struct {
		To types.Type
		X  Term
	}
	TBin struct {
		Op   token.Token
		X, Y Term
	}
	TUn struct {
		Op token.Token
		X  Term
	}
	TIndex struct {
		X, I  Term
		Epoch int
	}
	TSlice struct {
		X, Lo, Hi, Max Term
		Epoch          int
	}
	TAssert struct {
		X  Term
		To types.Type
	}
	TProj struct {
		X Term
		K int
	}
	TLit struct { // composite or function literal
		Node  ast.Expr
		Elts  []Term
		Type  types.Type
		Fresh int
	}
	TAddr  struct{ X Term }
	TDeref struct {
		X     Term
		Epoch int
	}
	TTypeIs struct { // type-switch test x.(type) == T
		X  Term
		To types.Type // nil = nil case
	}
	TUnknown struct{ Why string }
	TFunc    struct { // a declared function used as a value, with its type arguments when it is an instance of a generic function
		Fun   *types.Func
		TArgs []types.Type
	}
)

func tkeys(ts []Term) string {
	var s []string
	for _, t := range ts {
		s = append(s, key(t))
	}
	return strings.Join(s, ",")
}

func key(t Term) string {
	if t == nil {
		return "_"
	}
	return t.Key()
}

func typeKey(t types.Type) string {
	if t == nil {
		return "nil"
	}
	return types.TypeString(t, func(p *types.Package) string { return p.Name() })
}

func (t TConst) Key() string { return "#" + t.Val.ExactString() }
func (t TNil) Key() string   { return "nil" }
func (t TVar) Key() string   { return fmt.Sprintf("$%s@%d", t.Obj.Name(), t.Obj.Pos()) }
func (t TLoop) Key() string  { return fmt.Sprintf("loop%d(%s@%d)", t.ID, t.Obj.Name(), t.Obj.Pos()) }
func (t TSel) Key() string   { return fmt.Sprintf("%s.%s!%d", key(t.X), t.Field.Name(), t.Epoch) }
func (t TBuiltin) Key() string {
	return fmt.Sprintf("%s<%s>(%s)!%d", t.Name, typeKey(t.Type), tkeys(t.Args), t.Epoch)
}
func (t TConv) Key() string  { return fmt.Sprintf("conv<%s>(%s)", typeKey(t.To), key(t.X)) }
func (t TBin) Key() string   { return fmt.Sprintf("(%s %s %s)", key(t.X), t.Op, key(t.Y)) }
func (t TUn) Key() string    { return fmt.Sprintf("(%s%s)", t.Op, key(t.X)) }
func (t TIndex) Key() string { return fmt.Sprintf("%s[%s]!%d", key(t.X), key(t.I), t.Epoch) }
func (t TSlice) Key() string {
	return fmt.Sprintf("%s[%s:%s:%s]!%d", key(t.X), key(t.Lo), key(t.Hi), key(t.Max), t.Epoch)
}
func (t TAssert) Key() string  { return fmt.Sprintf("%s.(%s)", key(t.X), typeKey(t.To)) }
func (t TProj) Key() string    { return fmt.Sprintf("%s#%d", key(t.X), t.K) }
func (t TAddr) Key() string    { return "&" + key(t.X) }
func (t TDeref) Key() string   { return fmt.Sprintf("*%s!%d", key(t.X), t.Epoch) }
func (t TTypeIs) Key() string  { return fmt.Sprintf("typeis(%s,%s)", key(t.X), typeKey(t.To)) }
func (t TUnknown) Key() string { return "?" + t.Why }
func (t TFunc) Key() string {
	k := "func:" + t.Fun.FullName()
	for _, a := range t.TArgs {
		k += "," + typeKey(a)
	}
	return k
}
func (t TLit) Key() string {
	return fmt.Sprintf("lit%d<%s>{%s}", t.Fresh, typeKey(t.Type), tkeys(t.Elts))
}
func (t TCall) Key() string {
	n := t.Name
	if t.Fun != nil {
		n = t.Fun.FullName()
	}
	return fmt.Sprintf("%s(%s|%s|%s)!%d", n, key(t.Recv), key(t.Dyn), tkeys(t.Args), t.Epoch)
}

func sameTerm(a, b Term) bool { return key(a) == key(b) }

// ---------------------------------------------------------------- paths

type Cond struct {
	T     Term
	Truth bool
	Node  ast.Node
}

type Step struct {
	Kind string // cond, store, call, go, defer, loop, incomplete
	Cond Cond
	LHS  Term // store: destination
	RHS  Term // store: value
	Call *TCall
	Blt  *TBuiltin
	Loop *LoopRec
	Node ast.Node
	Lit  *ast.FuncLit // go/defer of a literal
	Env  map[types.Object]Term
	Heap int // heap epoch after the step (stores, calls): loads stamped >= Heap see its effect
}

type LoopRec struct {
	ID        int
	Node      ast.Stmt
	Range     *ast.RangeStmt
	For       *ast.ForStmt
	Over      Term // ranged collection
	Key       types.Object
	Value     types.Object
	Iter      []*Path // paths through one iteration (ends: continue, break, fall, return, panic)
	CondT     Term    // for-loop condition term at the head (nil for range)
	Init      map[types.Object]Term
	Post      ast.Stmt
	PostStep  map[types.Object]int64 // a post statement synthesised by a normalisation (Post == nil): these counters advance by that much
	HeadEnv   map[types.Object]Term
	HeadEpoch int
	Quiet     bool // no iteration writes memory: the loop body sees the memory state of the loop's entry
	// Exhaust: `for { if G { return X }; … }` read as `for !G { … }; return X` — what the function returns when the loop runs out
	Exhaust *Path
}

type Path struct {
	Steps   []Step
	End     string // return, panic, fall, continue, break
	Vals    []Term
	Node    ast.Node
	Why     string // non-empty: path contains an unsupported construct
	Env     map[types.Object]Term
	Inlined []*types.Func // declared functions whose bodies were inlined on this path
}

func (p *Path) Conds() []Cond {
	var out []Cond
	for _, s := range p.Steps {
		if s.Kind == "cond" {
			out = append(out, s.Cond)
		}
	}
	return out
}

func (p *Path) StepsOf(kind string) []Step {
	var out []Step
	for _, s := range p.Steps {
		if s.Kind == kind {
			out = append(out, s)
		}
	}
	return out
}

// Effects: every step except conditions.
func (p *Path) Effects() []Step {
	var out []Step
	for _, s := range p.Steps {
		if s.Kind != "cond" {
			out = append(out, s)
		}
	}
	return out
}

type sxState struct {
	env   map[types.Object]Term
	steps []Step
	epoch int // advances at every step that may write memory or change the result of a call
	heap  int // the epoch of the last step that may have written memory the package's values live in (loads are stamped with it)
	stack []*types.Func
	why   string
	tsub  map[*types.TypeParam]types.Type // instantiation of type parameters of inlined generic helpers
	inl   []*types.Func                   // declared functions inlined on the way here
}

func (s *sxState) bump() {
	s.epoch++
	s.heap = s.epoch
}

func (s *sxState) clone() *sxState {
	n := &sxState{env: make(map[types.Object]Term, len(s.env)), epoch: s.epoch, heap: s.heap, why: s.why, tsub: s.tsub, inl: append([]*types.Func(nil), s.inl...)}
	for k, v := range s.env {
		n.env[k] = v
	}
	n.steps = append([]Step(nil), s.steps...)
	n.stack = append([]*types.Func(nil), s.stack...)
	return n
}

type outcome struct {
	kind string // "", return, panic, continue, break
	vals []Term
	node ast.Node
	st   *sxState
}

type SX struct {
	c         *Ctx
	MaxDepth  int
	NoInline  map[string]bool        // function names never inlined (kept as opaque calls)
	ForceStep func(*types.Func) bool // calls recorded as effect steps even when pure (ordering matters to the rule)
	// InlineStaticSelf: also inline exported methods of the container types when they are called on the bare receiver variable
	InlineStaticSelf bool
	inAccessor       bool
	KeepUnboxed      bool // the rule reads the wrapper tests themselves (TypeOf, Sort): no atom algebra
	addrTaken        map[types.Object]bool
	loopID           int
	loopLabel        map[ast.Stmt]string   // labels of labelled loops
	havocOnly        map[string]bool       // havocStruct: restrict to these fields (set by havocStructFields)
	fieldVars        map[string]*types.Var // scalar replacement: (struct made on this path, field) -> pseudo local
	fieldInits       map[*types.Var]Term   // its initial value
	instArgs         []types.Type          // type arguments of the generic function being inlined through a function value
	fresh            int
	budget           int
}

func (c *Ctx) NewSX() *SX {
	x := &SX{c: c, MaxDepth: 4, NoInline: map[string]bool{}, addrTaken: map[types.Object]bool{}, budget: 20000}
	// the package's own vocabulary stays opaque: the normaliser, the recursive converters, the parser machines and their literal consumer
	for _, n := range []string{"parseVal", "native", "parseList", "parseObject", "parseField"} {
		x.NoInline[n] = true
	}
	x.InlineStaticSelf = c.AltInline
	return x
}

// Run executes a declared function symbolically and returns its complete paths.
func (x *SX) Run(fd *ast.FuncDecl) []*Path {
	st := &sxState{env: map[types.Object]Term{}}
	if fo := x.c.FuncObj(fd); fo != nil {
		st.stack = []*types.Func{fo}
	}
	x.noteAddrTaken(fd.Body)
	var named []types.Object
	if fd.Type.Results != nil {
		for _, fl := range fd.Type.Results.List {
			for _, nm := range fl.Names {
				if o := x.c.Info.Defs[nm]; o != nil {
					st.env[o] = x.zero(o.Type())
					named = append(named, o)
				}
			}
		}
	}
	outs := x.block(fd.Body.List, st)
	for i := range outs {
		if (outs[i].kind == "return" || outs[i].kind == "") && len(outs[i].vals) == 0 && len(named) > 0 {
			for _, o := range named {
				outs[i].vals = append(outs[i].vals, x.namedResult(o, outs[i].st))
			}
			outs[i].kind = "return"
		}
	}
	return x.finish(outs)
}

// guardedForever: `for { if G { break }; body; i-- }` is `for ; !G; i-- { body }`. When every iteration path starts by deciding the same
// condition, and deciding it one way means leaving by break at once (nothing done, nothing assigned), that condition becomes the loop
// condition; a counter every continuing iteration advances by the same constant becomes the (synthesised) post statement.
func (x *SX) guardedForever(rec *LoopRec, hasPost bool) {
	if len(rec.Iter) < 2 {
		return
	}
	// with a written post statement (`for i := 0; ; i += size { if i >= n { break }; … }`) only the guard moves into the header:
	// leaving by the guard skips the post statement, as a false condition does
	var pre preStepRes
	if !hasPost {
		pre = x.preStep(rec)
	}
	defer func() {
		// only when the guard became the loop condition do the pre-steps read as post steps; otherwise the loop stays as written
		if rec.CondT != nil {
			for o, d := range pre.steps {
				if rec.PostStep == nil {
					rec.PostStep = map[types.Object]int64{}
				}
				rec.PostStep[o] = d
			}
		} else if len(pre.steps) > 0 {
			rec.Iter, rec.Init = pre.iter, pre.init
		}
	}()
	var G Term
	var leave *Path
	leaveTruth := false
	// a guard that returns (nothing done, nothing assigned) ends the loop like a break when no round breaks: nothing follows the
	// loop then, so "the loop ran out and the function returns X" is the same thing
	breaks := false
	for _, p := range rec.Iter {
		if strings.HasPrefix(p.End, "break") {
			breaks = true
		}
	}
	for _, p := range rec.Iter {
		if p.Why != "" || len(p.Steps) == 0 || p.Steps[0].Kind != "cond" {
			return
		}
		cd := p.Steps[0].Cond
		if G == nil {
			G = cd.T
		} else if !sameTerm(G, cd.T) {
			return
		}
		if len(p.Steps) == 1 && (p.End == "break" || (p.End == "return" && !breaks)) {
			unchanged := true
			for o, t := range p.Env {
				if h, ok := rec.HeadEnv[o]; ok && !sameTerm(h, t) {
					unchanged = false
				}
			}
			if unchanged {
				if leave != nil {
					return
				}
				leave, leaveTruth = p, cd.Truth
			}
		}
	}
	if leave == nil {
		return
	}
	var rest []*Path
	for _, p := range rec.Iter {
		if p == leave {
			continue
		}
		if p.Steps[0].Cond.Truth == leaveTruth {
			return // the guard also leads elsewhere
		}
		q := *p
		q.Steps = append([]Step(nil), p.Steps[1:]...)
		rest = append(rest, &q)
	}
	if leaveTruth {
		rec.CondT = simplify(TUn{token.NOT, G})
	} else {
		rec.CondT = G
	}
	rec.Iter = rest
	if leave.End == "return" {
		rec.Exhaust = leave
	}
	if !hasPost {
		x.synthPost(rec)
	}
}

// preStep: `for { i--; if i < 0 { break }; … i … }` — every iteration begins by moving a counter by the same constant and mentions it
// only after that. Seen from the counter's value after the move, the loop starts one step further and moves the counter at the END of
// each round: the iterations are rewritten to that view (the moved counter becomes the loop variable, its initial value is advanced once);
// guardedForever then finds the guard and the step is recorded as the synthesised post statement. The original iterations are kept for
// the case that no guard is found.
type preStepRes struct {
	steps map[types.Object]int64
	iter  []*Path
	init  map[types.Object]Term
}

func (x *SX) preStep(rec *LoopRec) preStepRes {
	res := preStepRes{steps: map[types.Object]int64{}, iter: rec.Iter, init: rec.Init}
	for o, init := range rec.Init {
		if !isIntType(o.Type()) {
			continue
		}
		var d int64
		ok := true
		for _, p := range rec.Iter {
			b, isB := p.Env[o].(TBin)
			if !isB || (b.Op != token.ADD && b.Op != token.SUB) {
				ok = false
				break
			}
			lv, isL := b.X.(TLoop)
			k, isK := constInt(b.Y)
			if !isL || lv.Obj != o || lv.ID != rec.ID || !isK || k == 0 {
				ok = false
				break
			}
			if b.Op == token.SUB {
				k = -k
			}
			if d != 0 && d != k {
				ok = false
				break
			}
			d = k
		}
		if !ok || d == 0 {
			continue
		}
		moved := func(t Term) bool {
			b, isB := t.(TBin)
			if !isB || (b.Op != token.ADD && b.Op != token.SUB) {
				return false
			}
			lv, isL := b.X.(TLoop)
			k, isK := constInt(b.Y)
			if b.Op == token.SUB {
				k = -k
			}
			return isL && lv.Obj == o && lv.ID == rec.ID && isK && k == d
		}
		bare := false
		f := func(t Term) (Term, bool) {
			if moved(t) {
				return TLoop{o, rec.ID}, true
			}
			if lv, isL := t.(TLoop); isL && lv.Obj == o && lv.ID == rec.ID {
				bare = true
			}
			return nil, false
		}
		var iters []*Path
		for _, p := range rec.Iter {
			iters = append(iters, mapPath(p, f))
		}
		if bare {
			continue // the counter is also read before it is moved
		}
		newInit := copyEnv(rec.Init)
		newInit[o] = simplify(TBin{Op: token.ADD, X: init, Y: TConst{constant.MakeInt64(d)}})
		rec.Iter, rec.Init = iters, newInit
		res.steps[o] = d
	}
	return res
}

// simplePost: the post statement only updates local variables named directly (i++, i += size, i, left = i+1, left-1).
func simplePost(s ast.Stmt) bool {
	switch v := s.(type) {
	case *ast.IncDecStmt:
		_, isID := unparen(v.X).(*ast.Ident)
		return isID
	case *ast.AssignStmt:
		for _, l := range v.Lhs {
			if _, isID := unparen(l).(*ast.Ident); !isID {
				return false
			}
		}
		return true
	}
	return false
}

// synthPost: a loop without a post statement whose continuing iterations all advance a counter by the same constant (`for i >= 0 { …;
// i-- }`) gets that advance as a synthesised post statement; the iterations then leave the counter alone.
func (x *SX) synthPost(rec *LoopRec) {
	rest := rec.Iter
	for o := range rec.Init {
		if !isIntType(o.Type()) {
			continue
		}
		var step int64
		ok, n := true, 0
		for _, p := range rest {
			if p.End != "fall" && p.End != "continue" {
				continue
			}
			n++
			b, isB := p.Env[o].(TBin)
			if !isB || (b.Op != token.ADD && b.Op != token.SUB) {
				ok = false
				break
			}
			lv, isL := b.X.(TLoop)
			k, isK := constInt(b.Y)
			if !isL || lv.Obj != o || lv.ID != rec.ID || !isK || k == 0 {
				ok = false
				break
			}
			if b.Op == token.SUB {
				k = -k
			}
			if step != 0 && step != k {
				ok = false
				break
			}
			step = k
		}
		if !ok || n == 0 || step == 0 {
			continue
		}
		if rec.PostStep == nil {
			rec.PostStep = map[types.Object]int64{}
		}
		rec.PostStep[o] = step
		for _, p := range rest {
			if p.End == "fall" || p.End == "continue" {
				p.Env = copyEnv(p.Env)
				p.Env[o] = TLoop{o, rec.ID}
			}
		}
	}
}

// resolveLabels: iteration paths ending in `break L` / `continue L` with L the label of this very loop end in break / continue;
// a labelled branch that leaves an outer loop from here is outside the vocabulary.
func (x *SX) resolveLabels(rec *LoopRec, loop ast.Stmt) {
	own := x.loopLabel[loop]
	for _, p := range rec.Iter {
		i := strings.Index(p.End, ":")
		if i < 0 {
			continue
		}
		kind, label := p.End[:i], p.End[i+1:]
		if own != "" && label == own {
			p.End = kind
			continue
		}
		if p.Why == "" {
			p.Why = kind + " " + label + " leaves an outer loop"
		}
		p.End = "break"
	}
}

// namedResult: the value a bare return hands back for the named result o — the variable's memory when its address was taken
// (json.Unmarshal(…, &result)), its current binding otherwise.
func (x *SX) namedResult(o types.Object, st *sxState) Term {
	if x.addrTaken[o] {
		return TDeref{X: TAddr{TVar{o}}, Epoch: st.heap}
	}
	return st.env[o]
}

// RunStmts executes a statement list (e.g. a loop body) with a given initial environment.
func (x *SX) RunStmts(stmts []ast.Stmt, env map[types.Object]Term) []*Path {
	st := &sxState{env: map[types.Object]Term{}}
	for k, v := range env {
		st.env[k] = v
	}
	if f := freshFloor(env); f > x.fresh {
		x.fresh = f // allocations made here are distinct from those the environment already names
	}
	for _, s := range stmts {
		x.noteAddrTaken(s)
	}
	return x.finish(x.block(stmts, st))
}

func (x *SX) finish(outs []outcome) []*Path {
	var paths []*Path
	for _, o := range outs {
		end := o.kind
		if end == "" {
			end = "fall"
		}
		paths = append(paths, &Path{Steps: o.st.steps, End: end, Vals: o.vals, Node: o.node, Why: o.st.why, Env: o.st.env, Inlined: o.st.inl})
	}
	return paths
}

// structObj describes a struct whose fields are kept like local variables (scalar replacement): one created by a literal on this
// path, or a zero-valued struct local (`var w writer`). Only struct types of this package that are neither containers nor wrappers —
// those are the heap the rules talk about.
type structObj struct {
	key string
	lit *TLit
}

func (x *SX) localStruct(base Term) (structObj, bool) {
	for {
		switch b := base.(type) {
		case TAddr:
			base = b.X
			continue
		case TDeref:
			base = b.X
			continue
		}
		break
	}
	var so structObj
	var typ types.Type
	switch b := base.(type) {
	case TLit:
		if b.Fresh == 0 || b.Type == nil {
			return so, false
		}
		bb := b
		so, typ = structObj{key: fmt.Sprintf("lit%d", b.Fresh), lit: &bb}, b.Type
	case TVar:
		if b.Obj == nil || !isLocalVar(b.Obj) {
			return so, false
		}
		so, typ = structObj{key: fmt.Sprintf("var%d", b.Obj.Pos())}, b.Obj.Type()
	case TBuiltin:
		// new(T): a zero-valued struct made on this path
		if b.Name != "new" || b.Epoch >= 0 || b.Type == nil {
			return so, false
		}
		so, typ = structObj{key: fmt.Sprintf("new%d", -b.Epoch)}, b.Type
	default:
		return so, false
	}
	if _, anon := typ.(*types.Struct); anon {
		return so, true // a local of an unnamed struct type (`var guard struct{ wg sync.WaitGroup; mu sync.Mutex }`): two locals bundled
	}
	n, ok := typ.(*types.Named)
	if !ok || n.Obj().Pkg() != x.c.Types || x.c.Inv().ContOf(n) != nil {
		return so, false
	}
	if _, isStruct := n.Underlying().(*types.Struct); !isStruct {
		return so, false
	}
	for _, w := range x.c.Inv().Wrappers {
		if w.Obj() == n.Obj() {
			return so, false // scalar wrappers are fields of spines
		}
	}
	return so, true
}

// fieldsAssignedBy: the fields of its receiver the method f assigns (`ego.f = …`, `ego.f++`), when the receiver is used for nothing
// but reading and assigning fields directly (`ego.m[k] = v` writes an element of what the field holds, not the field); nil = any field
// may be assigned (the receiver is handed on, a method is called on it, a field's address is taken, the declaration is not at hand).
func (x *SX) fieldsAssignedBy(f *types.Func) map[string]bool {
	fd := x.c.DeclOf(f)
	if fd == nil || fd.Body == nil || fd.Recv == nil || len(fd.Recv.List) != 1 || len(fd.Recv.List[0].Names) != 1 {
		return nil
	}
	recv := x.c.Info.Defs[fd.Recv.List[0].Names[0]]
	if recv == nil {
		return nil
	}
	out := map[string]bool{}
	all := false
	var stack []ast.Node
	ast.Inspect(fd.Body, func(n ast.Node) bool {
		if n == nil {
			stack = stack[:len(stack)-1]
			return true
		}
		stack = append(stack, n)
		id, ok := n.(*ast.Ident)
		if !ok || x.c.Info.Uses[id] != recv {
			return true
		}
		// the receiver must be the operand of a field selection …
		if len(stack) < 2 {
			all = true
			return true
		}
		sel, isSel := stack[len(stack)-2].(*ast.SelectorExpr)
		if !isSel || sel.X != ast.Expr(id) {
			all = true
			return true
		}
		if s := x.c.Info.Selections[sel]; s == nil || s.Kind() != types.FieldVal {
			all = true
			return true
		}
		// … which is read, or assigned as a whole
		if len(stack) >= 3 {
			switch p := stack[len(stack)-3].(type) {
			case *ast.AssignStmt:
				for _, l := range p.Lhs {
					if l == ast.Expr(sel) {
						out[sel.Sel.Name] = true
					}
				}
			case *ast.IncDecStmt:
				if p.X == ast.Expr(sel) {
					out[sel.Sel.Name] = true
				}
			case *ast.UnaryExpr:
				if p.Op == token.AND {
					all = true
				}
			case *ast.SelectorExpr:
				// ego.f.g: a field of a field, or a method on the field's value (a builder): the field itself may change
				out[sel.Sel.Name] = true
			case *ast.RangeStmt:
				if p.Key == ast.Expr(sel) || p.Value == ast.Expr(sel) {
					out[sel.Sel.Name] = true
				}
			}
		}
		return true
	})
	if all {
		return nil
	}
	return out
}

// havocStructFields: as havocStruct, for the named fields only (nil: all).
func (x *SX) havocStructFields(base Term, st *sxState, only map[string]bool) {
	if only == nil {
		x.havocStruct(base, st)
		return
	}
	x.havocOnly = only
	x.havocStruct(base, st)
	x.havocOnly = nil
}

// havocStruct: every field of the scalar-replaced struct base denotes gets an unknown value.
func (x *SX) havocStruct(base Term, st *sxState) {
	so, ok := x.localStruct(base)
	if !ok {
		return
	}
	b := base
	for {
		switch y := b.(type) {
		case TAddr:
			b = y.X
			continue
		case TDeref:
			b = y.X
			continue
		}
		break
	}
	var typ types.Type
	switch y := b.(type) {
	case TLit:
		typ = y.Type
	case TVar:
		typ = y.Obj.Type()
	case TBuiltin:
		typ = y.Type
	}
	if typ == nil {
		return
	}
	if p, isPtr := typ.(*types.Pointer); isPtr {
		typ = p.Elem()
	}
	stt, ok := typ.Underlying().(*types.Struct)
	if !ok {
		return
	}
	x.loopID++
	for i := 0; i < stt.NumFields(); i++ {
		if x.havocOnly != nil && !x.havocOnly[stt.Field(i).Name()] {
			continue
		}
		v := x.fieldVar(so, stt.Field(i))
		st.env[v] = TLoop{v, x.loopID}
	}
}

// fieldVar: the pseudo local standing for field f of the struct so; its initial value is remembered for loop heads.
func (x *SX) fieldVar(so structObj, f *types.Var) *types.Var {
	if x.fieldVars == nil {
		x.fieldVars = map[string]*types.Var{}
		x.fieldInits = map[*types.Var]Term{}
	}
	k := so.key + "." + f.Name()
	if v, ok := x.fieldVars[k]; ok {
		return v
	}
	// one pseudo local per (struct identity, field) for the whole package: a closure body executed by a second executor with the
	// environment of the first (a spawned literal, a callback) names the same variable
	shared := fieldVarCache[x.c.Types]
	if shared == nil {
		shared = map[string]*types.Var{}
		fieldVarCache[x.c.Types] = shared
	}
	gk := fmt.Sprintf("%s@%d", k, f.Pos())
	v, ok := shared[gk]
	if !ok {
		v = types.NewVar(f.Pos(), x.c.Types, "·"+f.Name()+"@"+so.key, f.Type())
		shared[gk] = v
	}
	x.fieldVars[k] = v
	x.fieldInits[v] = x.fieldInit(so, f)
	return v
}

var fieldVarCache = map[*types.Package]map[string]*types.Var{}

// freshFloor: the highest allocation number mentioned in the terms of an environment handed over from another executor.
func freshFloor(env map[types.Object]Term) int {
	max := 0
	for _, t := range env {
		if t == nil {
			continue
		}
		collectSubterms(t, func(u Term) {
			switch x := u.(type) {
			case TLit:
				if x.Fresh > max {
					max = x.Fresh
				}
			case TBuiltin:
				if -x.Epoch > max {
					max = -x.Epoch
				}
			}
		})
	}
	return max
}

// fieldInit: the value the literal gives field f (explicit element or the zero value).
func (x *SX) fieldInit(so structObj, f *types.Var) Term {
	if so.lit != nil {
		lit := *so.lit
		if cl, ok := lit.Node.(*ast.CompositeLit); ok {
			st, _ := lit.Type.Underlying().(*types.Struct)
			for i, el := range cl.Elts {
				if i >= len(lit.Elts) {
					break
				}
				if kv, ok := el.(*ast.KeyValueExpr); ok {
					if id, ok := kv.Key.(*ast.Ident); ok && id.Name == f.Name() {
						return lit.Elts[i]
					}
				} else if st != nil && i < st.NumFields() && st.Field(i) == f {
					return lit.Elts[i]
				}
			}
		}
	}
	return x.zero(f.Type())
}

func (x *SX) noteAddrTaken(n ast.Node) {
	ast.Inspect(n, func(m ast.Node) bool {
		if u, ok := m.(*ast.UnaryExpr); ok && u.Op == token.AND {
			if o := x.c.obj(u.X); o != nil {
				x.addrTaken[o] = true
			}
		}
		return true
	})
}

func (x *SX) unsupported(st *sxState, f string, a ...any) {
	if st.why == "" {
		st.why = fmt.Sprintf(f, a...)
	}
}

// ---------------------------------------------------------------- statements

func (x *SX) block(stmts []ast.Stmt, st *sxState) []outcome {
	cur := []outcome{{st: st}}
	for _, s := range stmts {
		var next []outcome
		for _, o := range cur {
			if o.kind != "" {
				next = append(next, o)
				continue
			}
			next = append(next, x.stmt(s, o.st)...)
		}
		cur = next
		x.budget -= len(cur)
		if x.budget < 0 {
			for i := range cur {
				x.unsupported(cur[i].st, "path budget exhausted")
			}
			return cur
		}
	}
	return cur
}

func isLocalVar(o types.Object) bool {
	v, ok := o.(*types.Var)
	return ok && !v.IsField() && v.Parent() != nil && v.Parent() != v.Pkg().Scope()
}

// assign binds a local or records a store.
func (x *SX) assign(lhs ast.Expr, val Term, st *sxState, node ast.Node) {
	lhs = unparen(lhs)
	if id, ok := lhs.(*ast.Ident); ok {
		if id.Name == "_" {
			return
		}
		o := x.c.obj(id)
		if o != nil && isLocalVar(o) {
			if x.addrTaken[o] {
				if _, scalar := x.localStruct(val); scalar {
					if _, isLit := val.(TLit); isLit {
						// a struct made on this path whose address is handed to a helper: the struct is its literal, its fields are
						// pseudo-locals, `&x` is the address of that literal (no memory cell of its own)
						st.env[o] = val
						return
					}
				}
				st.bump()
				st.steps = append(st.steps, Step{Kind: "store", LHS: TVar{o}, RHS: val, Node: node, Heap: st.heap})
				st.env[o] = val // best knowledge; reads go through readVar
				return
			}
			st.env[o] = val
			return
		}
		if o != nil {
			st.bump()
			st.steps = append(st.steps, Step{Kind: "store", LHS: TVar{o}, RHS: val, Node: node, Heap: st.heap})
			return
		}
	}
	if se, ok := unparen(lhs).(*ast.SelectorExpr); ok {
		if sel := x.c.Info.Selections[se]; sel != nil && sel.Kind() == types.FieldVal && len(sel.Index()) == 1 {
			if so, ok := x.localStruct(x.eval(se.X, st)); ok {
				st.env[x.fieldVar(so, sel.Obj().(*types.Var))] = val // a field of a struct made on this path: kept like a local
				return
			}
		}
	}
	dst := x.lvalue(lhs, st)
	st.bump()
	st.steps = append(st.steps, Step{Kind: "store", LHS: dst, RHS: val, Node: node, Heap: st.heap})
}

// lvalue evaluates an assignable expression to a term WITHOUT epoch (an address-like key).
// loadThrough: *t evaluated now (as the StarExpr case of eval does).
func (x *SX) loadThrough(t Term, st *sxState) Term {
	if a, ok := t.(TAddr); ok {
		if tv, ok := a.X.(TVar); ok && !x.addrTaken[tv.Obj] {
			if cur, ok := st.env[tv.Obj]; ok {
				return cur
			}
		}
		switch loc := a.X.(type) {
		case TIndex:
			loc.Epoch = st.heap
			return loc
		case TSel:
			loc.Epoch = st.heap
			return loc
		}
	}
	return TDeref{X: t, Epoch: st.heap}
}

func (x *SX) lvalue(e ast.Expr, st *sxState) Term {
	e = unparen(e)
	switch v := e.(type) {
	case *ast.SelectorExpr:
		if sel := x.c.Info.Selections[v]; sel != nil && sel.Kind() == types.FieldVal {
			return TSel{X: x.eval(v.X, st), Field: sel.Obj().(*types.Var), Epoch: -1}
		}
	case *ast.IndexExpr:
		return TIndex{X: x.eval(v.X, st), I: x.eval(v.Index, st), Epoch: -1}
	case *ast.StarExpr:
		t := x.eval(v.X, st)
		if a, ok := t.(TAddr); ok {
			// *&loc = …: a store into that location
			switch loc := a.X.(type) {
			case TIndex:
				loc.Epoch = -1
				return loc
			case TSel:
				loc.Epoch = -1
				return loc
			}
		}
		return TDeref{X: t, Epoch: -1}
	}
	return x.eval(e, st)
}

func (x *SX) stmt(s ast.Stmt, st *sxState) []outcome {
	c := x.c
	switch v := s.(type) {
	case *ast.EmptyStmt:
		return []outcome{{st: st}}
	case *ast.BlockStmt:
		return x.block(v.List, st)
	case *ast.LabeledStmt:
		switch v.Stmt.(type) {
		case *ast.ForStmt, *ast.RangeStmt:
			// a labelled loop: `break L` / `continue L` from inside a switch of its body are its own break / continue
			if x.loopLabel == nil {
				x.loopLabel = map[ast.Stmt]string{}
			}
			x.loopLabel[v.Stmt] = v.Label.Name
		default:
			x.unsupported(st, "labelled statement")
		}
		return x.stmt(v.Stmt, st)
	case *ast.DeclStmt:
		gd, ok := v.Decl.(*ast.GenDecl)
		if !ok {
			return []outcome{{st: st}}
		}
		outs := []outcome{{st: st}}
		for _, sp := range gd.Specs {
			vs, ok := sp.(*ast.ValueSpec)
			if !ok {
				continue
			}
			for i, nm := range vs.Names {
				o := c.Info.Defs[nm]
				if o == nil {
					continue
				}
				var next []outcome
				for _, oc := range outs {
					if i < len(vs.Values) && len(vs.Values) == len(vs.Names) {
						for _, ev := range x.evalFork(vs.Values[i], oc.st) {
							if ev.kind != "" {
								next = append(next, ev.outcome)
								continue
							}
							ev.st.env[o] = ev.val
							next = append(next, outcome{st: ev.st})
						}
					} else {
						// a zero-valued struct local (sync.Mutex, strings.Builder, …) is an object with identity: it stays a variable
						if _, isStruct := o.Type().Underlying().(*types.Struct); !isStruct {
							oc.st.env[o] = x.zero(o.Type())
						}
						next = append(next, oc)
					}
				}
				outs = next
			}
		}
		return outs
	case *ast.ExprStmt:
		var outs []outcome
		for _, ev := range x.evalFork(v.X, st) {
			if ev.kind != "" {
				outs = append(outs, ev.outcome)
				continue
			}
			outs = append(outs, outcome{st: ev.st})
		}
		return outs
	case *ast.IncDecStmt:
		one := TConst{constant.MakeInt64(1)}
		op := token.ADD
		if v.Tok == token.DEC {
			op = token.SUB
		}
		cur := x.eval(v.X, st)
		x.assign(v.X, simplify(TBin{op, cur, one}), st, v)
		return []outcome{{st: st}}
	case *ast.AssignStmt:
		return x.assignStmt(v, st)
	case *ast.GoStmt:
		step := Step{Kind: "go", Node: v, Env: copyEnv(st.env)}
		step.Call = x.callTerm(v.Call, st)
		if fl, ok := unparen(v.Call.Fun).(*ast.FuncLit); ok {
			step.Lit = fl
		} else if t, ok := x.eval(v.Call.Fun, st).(TLit); ok {
			if fl, ok := t.Node.(*ast.FuncLit); ok {
				step.Lit = fl
			}
		} else {
			// a declared private function of this package started directly (`go worker(&wg, k, x, f)`): its declaration is the spawned body
			var f *types.Func
			if tf, ok := x.eval(v.Call.Fun, st).(TFunc); ok {
				f = tf.Fun
			} else {
				f = c.callee(v.Call)
			}
			if f != nil && f.Pkg() == c.Types && !f.Exported() {
				if sig, _ := f.Type().(*types.Signature); sig != nil && sig.Recv() == nil {
					if fd := c.DeclOf(f); fd != nil && fd.Body != nil {
						step.Lit = &ast.FuncLit{Type: fd.Type, Body: fd.Body}
					}
				} else if sig != nil {
					// a private method of a struct made on this path started directly (`go pool.step(k, x)`): its declaration with the
					// receiver bound to that struct is the spawned body
					if _, isI := sig.Recv().Type().Underlying().(*types.Interface); !isI {
						if se, isSel := unparen(v.Call.Fun).(*ast.SelectorExpr); isSel {
							recv := x.eval(se.X, st)
							fd := c.DeclOf(f)
							if _, scalar := x.localStruct(recv); scalar && fd != nil && fd.Body != nil && fd.Recv != nil && len(fd.Recv.List) == 1 && len(fd.Recv.List[0].Names) == 1 {
								step.Lit = &ast.FuncLit{Type: fd.Type, Body: fd.Body}
								step.Env[c.Info.Defs[fd.Recv.List[0].Names[0]]] = recv
							}
						}
					}
				}
			}
		}
		st.bump()
		st.steps = append(st.steps, step)
		return []outcome{{st: st}}
	case *ast.DeferStmt:
		step := Step{Kind: "defer", Node: v}
		step.Call = x.callTerm(v.Call, st)
		st.steps = append(st.steps, step)
		return []outcome{{st: st}}
	case *ast.ReturnStmt:
		outs := []outcome{{st: st}}
		vals := make([][]Term, 1)
		if len(v.Results) == 1 {
			// possibly a tuple-returning call
			var res []outcome
			for _, ev := range x.evalFork(v.Results[0], st) {
				if ev.kind != "" {
					res = append(res, ev.outcome)
					continue
				}
				res = append(res, outcome{kind: "return", vals: x.explode(ev.val, v.Results[0]), node: v, st: ev.st})
			}
			return res
		}
		for _, r := range v.Results {
			var next []outcome
			var nvals [][]Term
			for i, oc := range outs {
				if oc.kind != "" {
					// an earlier result expression already left (a panic inside an inlined call): nothing further is evaluated
					next = append(next, oc)
					nvals = append(nvals, nil)
					continue
				}
				for _, ev := range x.evalFork(r, oc.st) {
					if ev.kind != "" {
						next = append(next, ev.outcome)
						nvals = append(nvals, nil)
						continue
					}
					next = append(next, outcome{st: ev.st})
					nvals = append(nvals, append(append([]Term(nil), vals[i]...), ev.val))
				}
			}
			outs, vals = next, nvals
		}
		var res []outcome
		for i, oc := range outs {
			if oc.kind != "" {
				res = append(res, oc)
				continue
			}
			res = append(res, outcome{kind: "return", vals: vals[i], node: v, st: oc.st})
		}
		return res
	case *ast.BranchStmt:
		if v.Label != nil && (v.Tok == token.BREAK || v.Tok == token.CONTINUE) {
			return []outcome{{kind: v.Tok.String() + ":" + v.Label.Name, node: v, st: st}}
		}
		if v.Label != nil || v.Tok == token.GOTO || v.Tok == token.FALLTHROUGH {
			x.unsupported(st, "%s with label / goto / fallthrough", v.Tok)
			return []outcome{{kind: "break", node: v, st: st}}
		}
		if v.Tok == token.BREAK {
			return []outcome{{kind: "break", node: v, st: st}}
		}
		return []outcome{{kind: "continue", node: v, st: st}}
	case *ast.IfStmt:
		outs := []outcome{{st: st}}
		if v.Init != nil {
			outs = x.stmt(v.Init, st)
		}
		var res []outcome
		for _, oc := range outs {
			if oc.kind != "" {
				res = append(res, oc)
				continue
			}
			for _, br := range x.branch(v.Cond, oc.st) {
				if br.kind != "" {
					res = append(res, br.outcome)
					continue
				}
				if br.truth {
					res = append(res, x.block(v.Body.List, br.st)...)
				} else if v.Else != nil {
					res = append(res, x.stmt(v.Else, br.st)...)
				} else {
					res = append(res, outcome{st: br.st})
				}
			}
		}
		return res
	case *ast.SwitchStmt:
		return x.switchStmt(v, st)
	case *ast.TypeSwitchStmt:
		return x.typeSwitch(v, st)
	case *ast.ForStmt:
		return x.forStmt(v, st)
	case *ast.RangeStmt:
		return x.rangeStmt(v, st)
	case *ast.SelectStmt, *ast.SendStmt:
		x.unsupported(st, "channel operation")
		return []outcome{{st: st}}
	}
	x.unsupported(st, "statement %T", s)
	return []outcome{{st: st}}
}

func copyEnv(e map[types.Object]Term) map[types.Object]Term {
	n := make(map[types.Object]Term, len(e))
	for k, v := range e {
		n[k] = v
	}
	return n
}

// explode turns a tuple-valued term into its components.
func (x *SX) explode(t Term, e ast.Expr) []Term {
	if tup, ok := x.c.typeOf(e).(*types.Tuple); ok && tup.Len() > 1 {
		if tt, ok := t.(tTuple); ok {
			return tt.Elts
		}
		var out []Term
		for i := 0; i < tup.Len(); i++ {
			out = append(out, TProj{t, i})
		}
		return out
	}
	return []Term{t}
}

// tTuple: result tuple of an inlined call.
type tTuple struct{ Elts []Term }

func (t tTuple) Key() string { return "tuple(" + tkeys(t.Elts) + ")" }

func (x *SX) assignStmt(v *ast.AssignStmt, st *sxState) []outcome {
	c := x.c
	// compound assignment
	if v.Tok != token.ASSIGN && v.Tok != token.DEFINE {
		op := map[token.Token]token.Token{token.ADD_ASSIGN: token.ADD, token.SUB_ASSIGN: token.SUB, token.MUL_ASSIGN: token.MUL, token.QUO_ASSIGN: token.QUO,
			token.REM_ASSIGN: token.REM, token.AND_ASSIGN: token.AND, token.OR_ASSIGN: token.OR, token.XOR_ASSIGN: token.XOR, token.SHL_ASSIGN: token.SHL, token.SHR_ASSIGN: token.SHR}[v.Tok]
		var outs []outcome
		for _, ev := range x.evalFork(v.Rhs[0], st) {
			if ev.kind != "" {
				outs = append(outs, ev.outcome)
				continue
			}
			cur := x.eval(v.Lhs[0], ev.st)
			x.assign(v.Lhs[0], simplify(TBin{op, cur, ev.val}), ev.st, v)
			outs = append(outs, outcome{st: ev.st})
		}
		return outs
	}
	if len(v.Rhs) == 1 && len(v.Lhs) > 1 {
		// tuple: call, type assertion, map index, channel receive
		var outs []outcome
		rhs := unparen(v.Rhs[0])
		for _, ev := range x.evalForkTuple(rhs, st, len(v.Lhs)) {
			if ev.kind != "" {
				outs = append(outs, ev.outcome)
				continue
			}
			parts := ev.parts
			for i, l := range v.Lhs {
				if i < len(parts) {
					x.assign(l, parts[i], ev.st, v)
				}
			}
			outs = append(outs, outcome{st: ev.st})
		}
		_ = c
		return outs
	}
	// parallel assignment: evaluate all RHS first
	outs := []outcome{{st: st}}
	vals := [][]Term{nil}
	for _, r := range v.Rhs {
		var next []outcome
		var nvals [][]Term
		for i, oc := range outs {
			if oc.kind != "" {
				next = append(next, oc)
				nvals = append(nvals, nil)
				continue
			}
			for _, ev := range x.evalFork(r, oc.st) {
				if ev.kind != "" {
					next = append(next, ev.outcome)
					nvals = append(nvals, nil)
					continue
				}
				next = append(next, outcome{st: ev.st})
				nvals = append(nvals, append(append([]Term(nil), vals[i]...), ev.val))
			}
		}
		outs, vals = next, nvals
	}
	var res []outcome
	for i, oc := range outs {
		if oc.kind != "" {
			res = append(res, oc)
			continue
		}
		// destinations evaluated before any assignment takes effect (Go semantics for index operands)
		for j, l := range v.Lhs {
			if j < len(vals[i]) {
				x.assign(l, vals[i][j], oc.st, v)
			}
		}
		res = append(res, outcome{st: oc.st})
	}
	return res
}

func (x *SX) zero(t types.Type) Term {
	switch u := t.Underlying().(type) {
	case *types.Basic:
		switch {
		case u.Info()&types.IsBoolean != 0:
			return TConst{constant.MakeBool(false)}
		case u.Info()&types.IsInteger != 0:
			return TConst{constant.MakeInt64(0)}
		case u.Info()&types.IsFloat != 0:
			return TConst{constant.MakeFloat64(0)}
		case u.Info()&types.IsString != 0:
			return TConst{constant.MakeString("")}
		}
	case *types.Pointer, *types.Interface, *types.Slice, *types.Map, *types.Signature, *types.Chan:
		return TNil{}
	}
	x.fresh++
	return TLit{Type: t, Fresh: x.fresh}
}

// ---------------------------------------------------------------- control flow

type branchOut struct {
	outcome
	truth bool
}

// branch forks on a boolean expression; short-circuit operators are split so that every recorded condition is an atom.
func (x *SX) branch(e ast.Expr, st *sxState) []branchOut {
	e = unparen(e)
	switch v := e.(type) {
	case *ast.UnaryExpr:
		if v.Op == token.NOT {
			outs := x.branch(v.X, st)
			for i := range outs {
				if outs[i].kind == "" {
					outs[i].truth = !outs[i].truth
				}
			}
			return outs
		}
	case *ast.BinaryExpr:
		if v.Op == token.LAND || v.Op == token.LOR {
			var res []branchOut
			for _, l := range x.branch(v.X, st) {
				if l.kind != "" {
					res = append(res, l)
					continue
				}
				short := (v.Op == token.LAND && !l.truth) || (v.Op == token.LOR && l.truth)
				if short {
					res = append(res, l)
					continue
				}
				res = append(res, x.branch(v.Y, l.st)...)
			}
			return res
		}
	}
	var res []branchOut
	for _, ev := range x.evalFork(e, st) {
		if ev.kind != "" {
			res = append(res, branchOut{outcome: ev.outcome})
			continue
		}
		t := simplify(ev.val)
		if k, ok := t.(TConst); ok && k.Val.Kind() == constant.Bool {
			res = append(res, branchOut{outcome: outcome{st: ev.st}, truth: constant.BoolVal(k.Val)})
			continue
		}
		// a boolean term that is itself a short-circuit combination (from an inlined helper or a local): split it
		res = append(res, x.branchTerm(t, ev.st, e)...)
	}
	return res
}

func (x *SX) branchTerm(t Term, st *sxState, node ast.Node) []branchOut {
	switch v := t.(type) {
	case TUn:
		if v.Op == token.NOT {
			outs := x.branchTerm(v.X, st, node)
			for i := range outs {
				outs[i].truth = !outs[i].truth
			}
			return outs
		}
	case TBin:
		if v.Op == token.LAND || v.Op == token.LOR {
			var res []branchOut
			for _, l := range x.branchTerm(v.X, st, node) {
				short := (v.Op == token.LAND && !l.truth) || (v.Op == token.LOR && l.truth)
				if short {
					res = append(res, l)
					continue
				}
				res = append(res, x.branchTerm(v.Y, l.st, node)...)
			}
			return res
		}
	case TConst:
		if v.Val.Kind() == constant.Bool {
			return []branchOut{{outcome: outcome{st: st}, truth: constant.BoolVal(v.Val)}}
		}
	}
	// already decided on this path?
	for _, s := range st.steps {
		if s.Kind == "cond" && sameTerm(s.Cond.T, t) {
			return []branchOut{{outcome: outcome{st: st}, truth: s.Cond.Truth}}
		}
	}
	tt, ff := st, st.clone()
	tt.steps = append(tt.steps, Step{Kind: "cond", Cond: Cond{t, true, node}, Node: node})
	ff.steps = append(ff.steps, Step{Kind: "cond", Cond: Cond{t, false, node}, Node: node})
	return []branchOut{{outcome: outcome{st: tt}, truth: true}, {outcome: outcome{st: ff}, truth: false}}
}

func (x *SX) switchStmt(v *ast.SwitchStmt, st *sxState) []outcome {
	outs := []outcome{{st: st}}
	if v.Init != nil {
		outs = x.stmt(v.Init, st)
	}
	var res []outcome
	for _, oc := range outs {
		if oc.kind != "" {
			res = append(res, oc)
			continue
		}
		if v.Tag == nil {
			res = append(res, x.switchClauses(v.Body.List, 0, nil, v, oc.st)...)
			continue
		}
		// the tag may be an inlined helper with several outcomes (switch kindOf(item) { … }): one switch per outcome
		for _, ev := range x.evalFork(v.Tag, oc.st) {
			if ev.kind != "" {
				res = append(res, ev.outcome)
				continue
			}
			res = append(res, x.switchClauses(v.Body.List, 0, ev.val, v, ev.st)...)
		}
	}
	// break inside a switch leaves the switch only
	for i := range res {
		if res[i].kind == "break" {
			res[i].kind = ""
		}
	}
	return res
}

// switchClauses tries clause k (in source order, default last).
func (x *SX) switchClauses(clauses []ast.Stmt, k int, tag Term, sw *ast.SwitchStmt, st *sxState) []outcome {
	// order: non-default clauses in order, then default
	var ordered []*ast.CaseClause
	var def *ast.CaseClause
	for _, cl := range clauses {
		cc := cl.(*ast.CaseClause)
		if cc.List == nil {
			def = cc
		} else {
			ordered = append(ordered, cc)
		}
	}
	var rec func(i int, st *sxState) []outcome
	rec = func(i int, st *sxState) []outcome {
		if i == len(ordered) {
			if def != nil {
				return x.block(def.Body, st)
			}
			return []outcome{{st: st}}
		}
		cc := ordered[i]
		// the clause matches if any of its expressions matches (tested left to right)
		var res []outcome
		var tryExpr func(j int, st *sxState)
		tryExpr = func(j int, st *sxState) {
			if j == len(cc.List) {
				res = append(res, rec(i+1, st)...)
				return
			}
			var brs []branchOut
			if tag != nil {
				rhs := x.eval(cc.List[j], st)
				brs = x.branchTerm(simplify(TBin{token.EQL, tag, rhs}), st, cc.List[j])
			} else {
				brs = x.branch(cc.List[j], st)
			}
			for _, br := range brs {
				if br.kind != "" {
					res = append(res, br.outcome)
					continue
				}
				if br.truth {
					res = append(res, x.block(cc.Body, br.st)...)
				} else {
					tryExpr(j+1, br.st)
				}
			}
		}
		tryExpr(0, st)
		return res
	}
	return rec(0, st)
}

func (x *SX) typeSwitch(v *ast.TypeSwitchStmt, st *sxState) []outcome {
	c := x.c
	outs := []outcome{{st: st}}
	if v.Init != nil {
		outs = x.stmt(v.Init, st)
	}
	operandExpr := typeSwitchOperand(v)
	var ordered []*ast.CaseClause
	var def *ast.CaseClause
	for _, cl := range v.Body.List {
		cc := cl.(*ast.CaseClause)
		if cc.List == nil {
			def = cc
		} else {
			ordered = append(ordered, cc)
		}
	}
	var res []outcome
	for _, oc := range outs {
		if oc.kind != "" {
			res = append(res, oc)
			continue
		}
		operand := x.eval(operandExpr, oc.st)
		var rec func(i int, st *sxState)
		rec = func(i int, st *sxState) {
			if i == len(ordered) {
				if def != nil {
					if imp := c.Info.Implicits[def]; imp != nil {
						st.env[imp] = operand
					}
					res = append(res, x.block(def.Body, st)...)
				} else {
					res = append(res, outcome{st: st})
				}
				return
			}
			cc := ordered[i]
			var tryType func(j int, st *sxState)
			tryType = func(j int, st *sxState) {
				if j == len(cc.List) {
					rec(i+1, st)
					return
				}
				var T types.Type
				if !c.isNil(cc.List[j]) {
					T = st.subst(c.typeOf(cc.List[j]))
				}
				for _, br := range x.branchTerm(TTypeIs{operand, T}, st, cc.List[j]) {
					if br.truth {
						if imp := c.Info.Implicits[cc]; imp != nil {
							if len(cc.List) == 1 && T != nil {
								br.st.env[imp] = TAssert{operand, T}
							} else {
								br.st.env[imp] = operand
							}
						}
						res = append(res, x.block(cc.Body, br.st)...)
					} else {
						tryType(j+1, br.st)
					}
				}
			}
			tryType(0, st)
		}
		rec(0, oc.st)
	}
	for i := range res {
		if res[i].kind == "break" {
			res[i].kind = ""
		}
	}
	return res
}

// assignedIn lists the local variables assigned (or inc/dec'd) in n, outside function literals that are not executed inline.
func (x *SX) assignedIn(n ast.Node) []types.Object {
	set := map[types.Object]bool{}
	ast.Inspect(n, func(m ast.Node) bool {
		switch v := m.(type) {
		case *ast.AssignStmt:
			for _, l := range v.Lhs {
				if o := x.c.obj(l); o != nil && isLocalVar(o) {
					set[o] = true
				}
			}
		case *ast.IncDecStmt:
			if o := x.c.obj(v.X); o != nil && isLocalVar(o) {
				set[o] = true
			}
		case *ast.RangeStmt:
			for _, e := range []ast.Expr{v.Key, v.Value} {
				if e != nil {
					if o := x.c.obj(e); o != nil && isLocalVar(o) {
						set[o] = true
					}
				}
			}
		}
		return true
	})
	var out []types.Object
	for o := range set {
		out = append(out, o)
	}
	sort.Slice(out, func(i, j int) bool { return out[i].Pos() < out[j].Pos() })
	return out
}

// structsAssignedIn: local variables a field of which is assigned in n (`guard.present = true`, `w.count++`).
func (x *SX) structsAssignedIn(n ast.Node) []types.Object {
	set := map[types.Object]bool{}
	root := func(e ast.Expr) {
		for {
			switch v := unparen(e).(type) {
			case *ast.SelectorExpr:
				if o := x.c.obj(v.X); o != nil && isLocalVar(o) {
					set[o] = true
					return
				}
				e = v.X
				continue
			case *ast.StarExpr:
				e = v.X
				continue
			}
			return
		}
	}
	ast.Inspect(n, func(m ast.Node) bool {
		switch v := m.(type) {
		case *ast.AssignStmt:
			for _, l := range v.Lhs {
				if _, isSel := unparen(l).(*ast.SelectorExpr); isSel {
					root(l)
				}
			}
		case *ast.IncDecStmt:
			if _, isSel := unparen(v.X).(*ast.SelectorExpr); isSel {
				root(v.X)
			}
		}
		return true
	})
	var out []types.Object
	for o := range set {
		out = append(out, o)
	}
	sort.Slice(out, func(i, j int) bool { return out[i].Pos() < out[j].Pos() })
	return out
}

func (x *SX) havoc(n ast.Node, st *sxState, id int, declaredInside func(types.Object) bool) {
	for _, o := range x.assignedIn(n) {
		if declaredInside(o) {
			continue
		}
		st.env[o] = TLoop{o, id}
	}
}

func (x *SX) forStmt(v *ast.ForStmt, st *sxState) []outcome {
	outs := []outcome{{st: st}}
	if v.Init != nil {
		outs = x.stmt(v.Init, st)
	}
	var res []outcome
	for _, oc := range outs {
		if oc.kind != "" {
			res = append(res, oc)
			continue
		}
		x.loopID++
		id := x.loopID
		var extra []types.Object
		o1, rec := x.forOnce(v, oc, id, 1, extra)
		for k := 0; k < 4; k++ {
			// variables assigned by code that is not syntactically in the loop (an inlined function value that captures them) are loop-carried too
			more := missedCarried(rec, oc.st.env, x.fieldInits)
			if len(more) == 0 {
				break
			}
			extra = append(extra, more...)
			o1, rec = x.forOnce(v, oc, id, 1, extra)
		}
		if len(missedCarried(rec, oc.st.env, x.fieldInits)) > 0 {
			x.unsupported(oc.st, "loop-carried variables could not be determined")
		}
		if loopQuiet(rec) {
			// nothing in the loop writes memory: loads inside it see the state at its entry (no new memory epoch)
			o1, rec = x.forOnce(v, oc, id, 0, extra)
			rec.Quiet = true
		}
		res = append(res, o1...)
	}
	return res
}

// loopQuiet: no iteration path stores to memory, calls an effectful function, starts a goroutine or defers.
func loopQuiet(rec *LoopRec) bool {
	for _, p := range rec.Iter {
		if p.Why != "" {
			return false
		}
		for _, s := range p.Steps {
			switch {
			case s.Kind == "cond":
			case s.Kind == "loop" && s.Loop != nil && s.Loop.Quiet:
			default:
				return false
			}
		}
	}
	return true
}

// missedCarried: variables bound before the loop whose value at the end of some iteration differs from the value the iteration
// started with although the loop head did not treat them as loop-carried.
func missedCarried(rec *LoopRec, before map[types.Object]Term, fieldInits map[*types.Var]Term) []types.Object {
	set := map[types.Object]bool{}
	for _, p := range rec.Iter {
		if p.End != "fall" && p.End != "continue" {
			continue
		}
		for o, t := range p.Env {
			h, had := rec.HeadEnv[o]
			if fv, isVar := o.(*types.Var); isVar && fieldInits != nil {
				if init, isField := fieldInits[fv]; isField {
					// a field of a struct made on this path, first written inside the loop: carried from its initial value
					if !had {
						if !sameTerm(init, t) {
							set[o] = true
						}
						continue
					}
					if lv, ok := h.(TLoop); ok && lv.ID == rec.ID && lv.Obj == o {
						continue
					}
					if !sameTerm(h, t) {
						set[o] = true
					}
					continue
				}
			}
			if !had {
				continue
			}
			if _, outer := before[o]; !outer {
				continue
			}
			if lv, ok := h.(TLoop); ok && lv.ID == rec.ID && lv.Obj == o {
				continue // already carried
			}
			if !sameTerm(h, t) {
				set[o] = true
			}
		}
	}
	var out []types.Object
	for o := range set {
		out = append(out, o)
	}
	sort.Slice(out, func(i, j int) bool { return out[i].Pos() < out[j].Pos() })
	return out
}

func (x *SX) forOnce(v *ast.ForStmt, oc outcome, id int, bump int, extra []types.Object) ([]outcome, *LoopRec) {
	var res []outcome
	rec := &LoopRec{ID: id, Node: v, For: v, Post: v.Post, Init: map[types.Object]Term{}, HeadEpoch: oc.st.epoch + bump}
	inside := func(o types.Object) bool { return o.Pos() >= v.Body.Pos() && o.Pos() < v.Body.End() }
	// remember initial values of the loop-carried variables
	carried := x.assignedIn(v.Body)
	if v.Post != nil {
		carried = append(carried, x.assignedIn(v.Post)...)
	}
	carried = append(carried, extra...)
	for _, o := range carried {
		if t, ok := oc.st.env[o]; ok && !inside(o) {
			rec.Init[o] = t
		} else if fv, isVar := o.(*types.Var); isVar {
			if init, isField := x.fieldInits[fv]; isField {
				rec.Init[o] = init
			}
		}
	}
	head := oc.st.clone()
	x.havoc(v.Body, head, id, inside)
	if v.Post != nil {
		x.havoc(v.Post, head, id, inside)
	}
	for _, o := range extra {
		head.env[o] = TLoop{o, id}
	}
	rec.HeadEnv = copyEnv(head.env)
	iter := &sxState{env: copyEnv(head.env), epoch: head.epoch + bump, heap: head.heap, stack: head.stack, tsub: head.tsub}
	if bump > 0 {
		iter.heap = iter.epoch
	}
	if v.Cond != nil {
		rec.CondT = simplify(x.eval(v.Cond, iter))
	}
	bodyOuts := x.block(v.Body.List, iter)
	postInlined := false
	if v.Post != nil && !simplePost(v.Post) {
		// a post statement that is not a plain update of local counters (`cur.advance()`, `it.pos += it.size`): it is executed at the
		// end of every round that goes on — `for c; p { b }` is `for c { b; p }` with `continue` running p as well
		own := x.loopLabel[v]
		var next []outcome
		for _, o := range bodyOuts {
			if o.kind == "" || o.kind == "continue" || (own != "" && o.kind == "continue:"+own) {
				for _, po := range x.stmt(v.Post, o.st) {
					if po.kind == "" {
						po.kind = o.kind
					}
					next = append(next, po)
				}
				continue
			}
			next = append(next, o)
		}
		bodyOuts, postInlined = next, true
		rec.Post = nil
	}
	rec.Iter = x.finish(bodyOuts)
	x.resolveLabels(rec, v)
	if v.Cond == nil {
		x.guardedForever(rec, v.Post != nil && !postInlined)
	} else if v.Post == nil || postInlined {
		x.synthPost(rec)
	}
	after := head
	after.epoch += 1000 * bump // whatever the loop did, later loads are distinct from earlier ones
	if bump > 0 {
		after.heap = after.epoch
	}
	after.steps = append(after.steps, Step{Kind: "loop", Loop: rec, Node: v})
	// returns / panics from inside the loop leave the function: surface them as separate outcomes
	for _, p := range rec.Iter {
		if p.End == "return" || p.End == "panic" {
			es := after.clone()
			es.steps = append(es.steps[:len(es.steps)-1], Step{Kind: "loop", Loop: rec, Node: v})
			es.steps = append(es.steps, p.Steps...)
			for o, t := range p.Env {
				es.env[o] = t // what the leaving iteration assigned stays assigned (a caller of an inlined function goes on with it)
			}
			if p.Why != "" && es.why == "" {
				es.why = p.Why
			}
			res = append(res, outcome{kind: p.End, vals: p.Vals, node: p.Node, st: es})
		} else if p.Why != "" && after.why == "" {
			after.why = p.Why
		}
	}
	if rec.Exhaust != nil {
		res = append(res, outcome{kind: "return", vals: rec.Exhaust.Vals, node: rec.Exhaust.Node, st: after})
	} else {
		res = append(res, outcome{st: after})
	}
	return res, rec
}

func (x *SX) rangeStmt(v *ast.RangeStmt, st *sxState) []outcome {
	var res []outcome
	for _, ev := range x.evalFork(v.X, st) {
		if ev.kind != "" {
			res = append(res, ev.outcome)
			continue
		}
		if lit, ok := ev.val.(TLit); ok && x.dispatchTable(lit, v) {
			res = append(res, x.unrollRange(v, lit, ev.st)...)
			continue
		}
		x.loopID++
		id := x.loopID
		var extra []types.Object
		o1, rec := x.rangeOnce(v, ev, id, 1, extra)
		for k := 0; k < 4; k++ {
			more := missedCarried(rec, ev.st.env, x.fieldInits)
			if len(more) == 0 {
				break
			}
			extra = append(extra, more...)
			o1, rec = x.rangeOnce(v, ev, id, 1, extra)
		}
		if len(missedCarried(rec, ev.st.env, x.fieldInits)) > 0 {
			x.unsupported(ev.st, "loop-carried variables could not be determined")
		}
		if loopQuiet(rec) {
			o1, rec = x.rangeOnce(v, ev, id, 0, extra)
			rec.Quiet = true
		}
		res = append(res, o1...)
	}
	return res
}

// dispatchTable: the ranged value is a literal array/slice of at most 8 function values written out element by element (a table of
// alternatives tried in order). Such a loop is unrolled: each round runs the body with the element bound to that literal.
func (x *SX) dispatchTable(lit TLit, v *ast.RangeStmt) bool {
	if lit.Node == nil && lit.Fresh > 0 && lit.Type != nil && len(lit.Elts) <= 8 && x.loopLabel[v] == "" {
		// the pack of a variadic parameter of an inlined helper (`item(chunks ...string)` called with three strings): its elements are
		// the arguments written at the call; the range over it is unrolled too (zero arguments: no round)
		if _, isSlice := lit.Type.Underlying().(*types.Slice); isSlice {
			for _, e := range []ast.Expr{v.Key, v.Value} {
				if e != nil {
					if _, isID := e.(*ast.Ident); !isID {
						return false
					}
				}
			}
			return true
		}
	}
	cl, ok := lit.Node.(*ast.CompositeLit)
	if !ok || lit.Type == nil || len(lit.Elts) == 0 || len(lit.Elts) > 8 || len(lit.Elts) != len(cl.Elts) || x.loopLabel[v] != "" {
		return false
	}
	var elem types.Type
	switch t := lit.Type.Underlying().(type) {
	case *types.Array:
		elem = t.Elem()
	case *types.Slice:
		elem = t.Elem()
	default:
		return false
	}
	if _, isFn := elem.Underlying().(*types.Signature); !isFn {
		return false
	}
	for _, el := range cl.Elts {
		if _, kv := el.(*ast.KeyValueExpr); kv {
			return false
		}
	}
	for _, e := range []ast.Expr{v.Key, v.Value} {
		if e != nil {
			if _, isID := e.(*ast.Ident); !isID {
				return false
			}
		}
	}
	return true
}

func (x *SX) unrollRange(v *ast.RangeStmt, lit TLit, st *sxState) []outcome {
	cur := []outcome{{st: st}}
	bind := func(e ast.Expr, t Term, st *sxState) {
		if id, ok := e.(*ast.Ident); ok && id.Name != "_" {
			if o := x.c.obj(id); o != nil {
				st.env[o] = t
			}
		}
	}
	for i, el := range lit.Elts {
		var next []outcome
		for _, o := range cur {
			if o.kind != "" {
				next = append(next, o)
				continue
			}
			bind(v.Key, TConst{constant.MakeInt64(int64(i))}, o.st)
			bind(v.Value, el, o.st)
			for _, bo := range x.block(v.Body.List, o.st) {
				switch bo.kind {
				case "continue":
					bo.kind = ""
				case "break":
					bo.kind = "left-unrolled"
				}
				next = append(next, bo)
			}
		}
		cur = next
	}
	for i := range cur {
		if cur[i].kind == "left-unrolled" {
			cur[i].kind = ""
		}
	}
	return cur
}

func (x *SX) rangeOnce(v *ast.RangeStmt, ev evalOut, id int, bump int, extra []types.Object) ([]outcome, *LoopRec) {
	var res []outcome
	rec := &LoopRec{ID: id, Node: v, Range: v, Over: ev.val, Init: map[types.Object]Term{}, HeadEpoch: ev.st.epoch + bump}
	inside := func(o types.Object) bool { return o.Pos() >= v.Pos() && o.Pos() < v.End() }
	for _, o := range append(x.assignedIn(v.Body), extra...) {
		if t, ok := ev.st.env[o]; ok && !inside(o) {
			rec.Init[o] = t
		} else if fv, isVar := o.(*types.Var); isVar {
			if init, isField := x.fieldInits[fv]; isField {
				rec.Init[o] = init
			}
		}
	}
	head := ev.st.clone()
	x.havoc(v.Body, head, id, inside)
	for _, o := range extra {
		head.env[o] = TLoop{o, id}
	}
	if id, ok := v.Key.(*ast.Ident); ok && id.Name != "_" {
		rec.Key = x.c.obj(id)
	}
	if id, ok := v.Value.(*ast.Ident); ok && id.Name != "_" {
		rec.Value = x.c.obj(id)
	}
	rec.HeadEnv = copyEnv(head.env)
	iter := &sxState{env: copyEnv(head.env), epoch: head.epoch + bump, heap: head.heap, stack: head.stack, tsub: head.tsub}
	if bump > 0 {
		iter.heap = iter.epoch
	}
	if rec.Key != nil {
		iter.env[rec.Key] = TVar{rec.Key}
	}
	if rec.Value != nil {
		iter.env[rec.Value] = TVar{rec.Value}
	}
	rec.Iter = x.finish(x.block(v.Body.List, iter))
	x.resolveLabels(rec, v)
	after := head
	after.epoch += 1000 * bump
	if bump > 0 {
		after.heap = after.epoch
	}
	after.steps = append(after.steps, Step{Kind: "loop", Loop: rec, Node: v})
	for _, p := range rec.Iter {
		if p.End == "return" || p.End == "panic" {
			es := after.clone()
			es.steps = append(es.steps, p.Steps...)
			for o, t := range p.Env {
				es.env[o] = t // what the leaving iteration assigned stays assigned (a caller of an inlined function goes on with it)
			}
			if p.Why != "" && es.why == "" {
				es.why = p.Why
			}
			res = append(res, outcome{kind: p.End, vals: p.Vals, node: p.Node, st: es})
		} else if p.Why != "" && after.why == "" {
			after.why = p.Why
		}
	}
	res = append(res, outcome{st: after})
	return res, rec
}

// ---------------------------------------------------------------- expressions

type evalOut struct {
	outcome
	val   Term
	parts []Term
}

func (x *SX) eval(e ast.Expr, st *sxState) Term {
	outs := x.evalFork(e, st)
	if len(outs) == 1 && outs[0].kind == "" {
		*st = *outs[0].st
		return outs[0].val
	}
	// an expression that forks (inlined helper with several paths) in a context that cannot fork: keep it opaque
	x.unsupported(st, "expression with several outcomes in a non-forking context: %s", exprStr(e))
	return TUnknown{"fork:" + exprStr(e)}
}

// evalFork evaluates an expression; inlined calls may fork or panic.
func (x *SX) evalFork(e ast.Expr, st *sxState) []evalOut {
	c := x.c
	e = unparen(e)
	one := func(t Term) []evalOut { return []evalOut{{outcome: outcome{st: st}, val: t}} }
	if tv, ok := c.Info.Types[e]; ok && tv.Value != nil {
		return one(TConst{tv.Value})
	}
	if c.isNil(e) {
		return one(TNil{})
	}
	switch v := e.(type) {
	case *ast.Ident:
		o := c.obj(v)
		if o == nil {
			return one(TUnknown{"ident " + v.Name})
		}
		if isLocalVar(o) && !x.addrTaken[o] {
			if t, ok := st.env[o]; ok {
				return one(t)
			}
		}
		if x.addrTaken[o] {
			if cur, bound := st.env[o]; bound && isLocalVar(o) {
				if lit, isLit := cur.(TLit); isLit {
					if _, scalar := x.localStruct(lit); scalar {
						return one(lit) // a struct made on this path: it is its literal, wherever its address went (see assign)
					}
				}
			}
			return one(TDeref{X: TAddr{TVar{o}}, Epoch: st.heap})
		}
		if f, ok := o.(*types.Func); ok {
			tf := TFunc{Fun: f}
			if inst, ok := c.Info.Instances[v]; ok && inst.TypeArgs != nil {
				for i := 0; i < inst.TypeArgs.Len(); i++ {
					tf.TArgs = append(tf.TArgs, st.subst(inst.TypeArgs.At(i)))
				}
			}
			return one(tf)
		}
		return one(TVar{o})
	case *ast.BasicLit:
		return one(TUnknown{"literal"})
	case *ast.FuncLit:
		x.fresh++
		return one(TLit{Node: v, Type: c.typeOf(v), Fresh: x.fresh})
	case *ast.CompositeLit:
		x.fresh++
		lit := TLit{Node: v, Type: c.typeOf(v), Fresh: x.fresh}
		cur := []evalOut{{outcome: outcome{st: st}}}
		for _, el := range v.Elts {
			val := el
			if kv, ok := el.(*ast.KeyValueExpr); ok {
				val = kv.Value
			}
			var next []evalOut
			for _, co := range cur {
				if co.kind != "" {
					next = append(next, co)
					continue
				}
				for _, ev := range x.evalFork(val, co.st) {
					if ev.kind == "" {
						ev.parts = append(append([]Term(nil), co.parts...), ev.val)
					}
					next = append(next, ev)
				}
			}
			cur = next
		}
		for i := range cur {
			if cur[i].kind == "" {
				l := lit
				l.Elts = cur[i].parts
				cur[i].val, cur[i].parts = l, nil
			}
		}
		return cur
	case *ast.SelectorExpr:
		if sel := c.Info.Selections[v]; sel != nil {
			switch sel.Kind() {
			case types.FieldVal:
				return x.map1(v.X, st, func(t Term, st *sxState) Term {
					f := sel.Obj().(*types.Var)
					if so, ok := x.localStruct(t); ok && len(sel.Index()) == 1 {
						fv := x.fieldVar(so, f)
						if _, isStruct := f.Type().Underlying().(*types.Struct); isStruct {
							return TDeref{X: TAddr{TVar{fv}}, Epoch: st.heap} // an embedded value with methods (a strings.Builder): identified by its address
						}
						if cur, ok := st.env[fv]; ok {
							return cur
						}
						return x.fieldInits[fv]
					}
					return TSel{X: t, Field: f, Epoch: st.heap}
				})
			case types.MethodVal:
				return x.map1(v.X, st, func(t Term, st *sxState) Term {
					return TCall{Fun: sel.Obj().(*types.Func), Name: "methodvalue", Recv: t, Epoch: -1}
				})
			}
		}
		if o := c.obj(v.Sel); o != nil {
			if f, ok := o.(*types.Func); ok {
				return one(TFunc{Fun: f}) // a function of another package used as a value
			}
			return one(TVar{o}) // package-qualified identifier
		}
	case *ast.StarExpr:
		return x.map1(v.X, st, func(t Term, st *sxState) Term {
			if a, ok := t.(TAddr); ok {
				if tv, ok := a.X.(TVar); ok && !x.addrTaken[tv.Obj] {
					if cur, ok := st.env[tv.Obj]; ok {
						return cur
					}
				}
			}
			// *&loc: a load of that location now (the element or field the pointer was taken of)
			if a, ok := t.(TAddr); ok {
				switch loc := a.X.(type) {
				case TIndex:
					loc.Epoch = st.heap
					return loc
				case TSel:
					loc.Epoch = st.heap
					return loc
				}
			}
			return TDeref{X: t, Epoch: st.heap}
		})
	case *ast.UnaryExpr:
		if v.Op == token.AND {
			if id, ok := unparen(v.X).(*ast.Ident); ok {
				if o := c.obj(id); o != nil {
					if cur, bound := st.env[o]; bound && isLocalVar(o) {
						if lit, isLit := cur.(TLit); isLit {
							if _, scalar := x.localStruct(lit); scalar {
								return one(TAddr{lit})
							}
						}
					}
					return one(TAddr{TVar{o}})
				}
			}
			if cl, ok := unparen(v.X).(*ast.CompositeLit); ok {
				outs := x.evalFork(cl, st)
				for i := range outs {
					if outs[i].kind == "" {
						outs[i].val = TAddr{outs[i].val}
					}
				}
				return outs
			}
			if se, ok := unparen(v.X).(*ast.SelectorExpr); ok {
				if sel := c.Info.Selections[se]; sel != nil && sel.Kind() == types.FieldVal && len(sel.Index()) == 1 {
					f := sel.Obj().(*types.Var)
					if _, isStruct := f.Type().Underlying().(*types.Struct); isStruct {
						// &w.field of a struct made on this path: the address of the pseudo local the field is kept in
						outs := x.evalFork(se.X, st)
						if len(outs) == 1 && outs[0].kind == "" {
							if so, ok := x.localStruct(outs[0].val); ok {
								return []evalOut{{outcome: outcome{st: outs[0].st}, val: TAddr{TVar{x.fieldVar(so, f)}}}}
							}
						}
					}
				}
			}
			return one(TAddr{x.lvalue(v.X, st)})
		}
		return x.map1(v.X, st, func(t Term, st *sxState) Term { return simplify(TUn{v.Op, t}) })
	case *ast.BinaryExpr:
		if v.Op == token.LAND || v.Op == token.LOR {
			// value context: keep as a term when the right side has no side effects / forks; evaluation order is preserved in the term
			var res []evalOut
			for _, l := range x.evalFork(v.X, st) {
				if l.kind != "" {
					res = append(res, l)
					continue
				}
				rs := x.evalFork(v.Y, l.st.clone())
				if len(rs) == 1 && rs[0].kind == "" && len(rs[0].st.steps) == len(l.st.steps) {
					res = append(res, evalOut{outcome: outcome{st: l.st}, val: simplify(TBin{v.Op, l.val, rs[0].val})})
					continue
				}
				// the right operand has effects (or forks): decide the left operand on separate paths; the right one is evaluated only where
				// the operator does not short-circuit
				for _, bo := range x.branchTerm(l.val, l.st, v) {
					if bo.kind != "" {
						res = append(res, evalOut{outcome: bo.outcome})
						continue
					}
					if (v.Op == token.LAND && !bo.truth) || (v.Op == token.LOR && bo.truth) {
						res = append(res, evalOut{outcome: outcome{st: bo.st}, val: TConst{constant.MakeBool(bo.truth)}})
						continue
					}
					res = append(res, x.evalFork(v.Y, bo.st)...)
				}
			}
			return res
		}
		return x.map2(v.X, v.Y, st, func(a, b Term, st *sxState) Term { return simplify(TBin{v.Op, a, b}) })
	case *ast.IndexExpr:
		if _, isSig := c.typeOf(v.X).(*types.Signature); isSig {
			return x.evalFork(v.X, st) // generic instantiation
		}
		return x.map2(v.X, v.Index, st, func(a, b Term, st *sxState) Term { return TIndex{X: a, I: b, Epoch: st.heap} })
	case *ast.SliceExpr:
		var res []evalOut
		for _, b := range x.evalFork(v.X, st) {
			if b.kind != "" {
				res = append(res, b)
				continue
			}
			t := TSlice{X: b.val, Epoch: b.st.heap}
			if v.Low != nil {
				t.Lo = x.eval(v.Low, b.st)
			}
			if v.High != nil {
				t.Hi = x.eval(v.High, b.st)
			}
			if v.Max != nil {
				t.Max = x.eval(v.Max, b.st)
			}
			res = append(res, evalOut{outcome: outcome{st: b.st}, val: t})
		}
		return res
	case *ast.TypeAssertExpr:
		if v.Type == nil {
			return x.evalFork(v.X, st)
		}
		T := st.subst(c.typeOf(v.Type))
		return x.map1(v.X, st, func(t Term, st *sxState) Term { return TAssert{x.ifaceOperand(t), T} })
	case *ast.CallExpr:
		return x.call(v, st, 1)
	case *ast.KeyValueExpr:
		return x.evalFork(v.Value, st)
	}
	return one(TUnknown{fmt.Sprintf("%T", e)})
}

// evalForkTuple evaluates the right-hand side of a multi-value assignment.
func (x *SX) evalForkTuple(e ast.Expr, st *sxState, n int) []evalOut {
	c := x.c
	switch v := e.(type) {
	case *ast.TypeAssertExpr:
		T := st.subst(c.typeOf(v.Type))
		outs := x.evalFork(v.X, st)
		for i := range outs {
			if outs[i].kind == "" {
				a := TAssert{x.ifaceOperand(outs[i].val), T}
				outs[i].parts = []Term{TProj{a, 0}, TProj{a, 1}}
			}
		}
		return outs
	case *ast.IndexExpr:
		outs := x.evalFork(v, st)
		for i := range outs {
			if outs[i].kind == "" {
				outs[i].parts = []Term{TProj{outs[i].val, 0}, TProj{outs[i].val, 1}}
			}
		}
		return outs
	case *ast.CallExpr:
		outs := x.call(v, st, n)
		for i := range outs {
			if outs[i].kind != "" {
				continue
			}
			if tt, ok := outs[i].val.(tTuple); ok {
				outs[i].parts = tt.Elts
			} else {
				for k := 0; k < n; k++ {
					outs[i].parts = append(outs[i].parts, TProj{outs[i].val, k})
				}
			}
		}
		return outs
	}
	x.unsupported(st, "multi-value expression %T", e)
	return []evalOut{{outcome: outcome{st: st}, val: TUnknown{"tuple"}}}
}

func (x *SX) map1(e ast.Expr, st *sxState, f func(Term, *sxState) Term) []evalOut {
	outs := x.evalFork(e, st)
	for i := range outs {
		if outs[i].kind == "" {
			outs[i].val = f(outs[i].val, outs[i].st)
		}
	}
	return outs
}

func (x *SX) map2(a, b ast.Expr, st *sxState, f func(Term, Term, *sxState) Term) []evalOut {
	var res []evalOut
	for _, l := range x.evalFork(a, st) {
		if l.kind != "" {
			res = append(res, l)
			continue
		}
		for _, r := range x.evalFork(b, l.st) {
			if r.kind != "" {
				res = append(res, r)
				continue
			}
			res = append(res, evalOut{outcome: outcome{st: r.st}, val: f(l.val, r.val, r.st)})
		}
	}
	return res
}

// evalArgs evaluates call arguments left to right, forking as needed.
func (x *SX) evalArgs(args []ast.Expr, st *sxState) []evalOut {
	cur := []evalOut{{outcome: outcome{st: st}}}
	for _, a := range args {
		var next []evalOut
		for _, co := range cur {
			if co.kind != "" {
				next = append(next, co)
				continue
			}
			for _, ev := range x.evalFork(a, co.st) {
				if ev.kind == "" {
					ev.parts = append(append([]Term(nil), co.parts...), ev.val)
				}
				next = append(next, ev)
			}
		}
		cur = next
	}
	return cur
}

// callTerm builds the opaque term of a call without inlining (used for go/defer).
func (x *SX) callTerm(call *ast.CallExpr, st *sxState) *TCall {
	t := &TCall{Site: call, Epoch: st.epoch}
	t.Fun = x.c.callee(call)
	if t.Fun != nil {
		t.Name = t.Fun.Name()
	}
	if sel, ok := unparen(call.Fun).(*ast.SelectorExpr); ok {
		if s := x.c.Info.Selections[sel]; s != nil {
			t.Recv = x.eval(sel.X, st)
		}
	}
	if t.Fun == nil {
		t.Dyn = x.eval(call.Fun, st)
	}
	for _, a := range call.Args {
		t.Args = append(t.Args, x.eval(a, st))
	}
	return t
}

func (x *SX) call(call *ast.CallExpr, st *sxState, nres int) []evalOut {
	c := x.c
	// conversion
	if tv, ok := c.Info.Types[call.Fun]; ok && tv.IsType() && len(call.Args) == 1 {
		// a conversion between slice / map / pointer / function types with the same underlying type (fieldSlice(ego.val), []field(s))
		// hands on the very same value: same backing array, same map
		local := true // not for foreign named types: sort.IntSlice(s) picks the methods sort.Sort will call
		if nt, isNamed := tv.Type.(*types.Named); isNamed && nt.Obj().Pkg() != x.c.Types {
			local = false
		}
		if at := x.c.typeOf(call.Args[0]); local && at != nil && tv.Type != nil && types.Identical(at.Underlying(), tv.Type.Underlying()) {
			switch at.Underlying().(type) {
			case *types.Slice, *types.Map, *types.Pointer, *types.Signature, *types.Chan:
				return x.evalFork(call.Args[0], st)
			}
		}
		if _, toI := tv.Type.Underlying().(*types.Interface); toI {
			if at := c.typeOf(call.Args[0]); at != nil {
				if _, fromI := at.Underlying().(*types.Interface); fromI {
					// interface to interface (`field(v)` with v an Object, `any(x)` with x a List): the same dynamic value, a nil stays nil
					return x.evalFork(call.Args[0], st)
				}
			}
		}
		return x.map1(call.Args[0], st, func(t Term, st *sxState) Term { return simplify(TConv{tv.Type, t}) })
	}
	// builtin
	if id, ok := unparen(call.Fun).(*ast.Ident); ok {
		if b, ok := c.Info.Uses[id].(*types.Builtin); ok {
			if b.Name() == "panic" {
				var res []evalOut
				for _, ev := range x.evalArgs(call.Args, st) {
					if ev.kind != "" {
						res = append(res, ev)
						continue
					}
					res = append(res, evalOut{outcome: outcome{kind: "panic", vals: ev.parts, node: call, st: ev.st}})
				}
				return res
			}
			var res []evalOut
			args := call.Args
			var typ types.Type
			if (b.Name() == "make" || b.Name() == "new") && len(args) > 0 {
				typ = c.typeOf(args[0])
				args = args[1:]
			}
			for _, ev := range x.evalArgs(args, st) {
				if ev.kind != "" {
					res = append(res, ev)
					continue
				}
				t := TBuiltin{Name: b.Name(), Args: ev.parts, Type: typ, Site: call, Epoch: ev.st.epoch}
				switch b.Name() {
				case "make", "new":
					x.fresh++
					t.Epoch = -x.fresh // every allocation is distinct
				case "delete", "copy", "clear", "close", "print", "println":
					ev.st.bump()
					tt := t
					ev.st.steps = append(ev.st.steps, Step{Kind: "call", Blt: &tt, Node: call, Heap: ev.st.heap})
				case "append":
					// value-returning, but may write into spare capacity: recorded as a term; rules look at the term
				}
				res = append(res, evalOut{outcome: outcome{st: ev.st}, val: simplify(t)})
			}
			return res
		}
	}
	fun := c.callee(call)
	// receiver
	var recvExpr ast.Expr
	if sel, ok := unparen(call.Fun).(*ast.SelectorExpr); ok {
		if s := c.Info.Selections[sel]; s != nil && s.Kind() == types.MethodVal {
			recvExpr = sel.X
		}
	}
	var res []evalOut
	recvOuts := []evalOut{{outcome: outcome{st: st}}}
	if recvExpr != nil {
		recvOuts = x.evalFork(recvExpr, st)
	}
	for _, ro := range recvOuts {
		if ro.kind != "" {
			res = append(res, ro)
			continue
		}
		recv := ro.val
		if fun != nil && recvExpr != nil && fun.Pkg() == c.Types {
			// a pointer-receiver method of this package called on an addressable value (`ego.val.push(f)` with `func (s *fields)
			// push`): the receiver is the address of that location, as the compiler takes it
			if sig, ok := fun.Type().(*types.Signature); ok && sig.Recv() != nil {
				if _, mPtr := sig.Recv().Type().(*types.Pointer); mPtr {
					if rt := c.typeOf(recvExpr); rt != nil {
						_, xPtr := rt.Underlying().(*types.Pointer)
						_, xIface := rt.Underlying().(*types.Interface)
						if !xPtr && !xIface {
							recv = TAddr{x.lvalue(recvExpr, ro.st)}
						}
					}
				} else if rt := c.typeOf(recvExpr); rt != nil {
					// a value-receiver method called through a pointer (`line.current()` with line *lineCounter): the receiver is
					// the value the pointer points to now
					if _, xPtr := rt.Underlying().(*types.Pointer); xPtr {
						recv = x.loadThrough(recv, ro.st)
					}
				}
			}
		}
		for _, ao := range x.evalArgs(call.Args, ro.st) {
			if ao.kind != "" {
				res = append(res, ao)
				continue
			}
			args := ao.parts
			// function literal value? a declared function handed around as a value?
			var lit *ast.FuncLit
			fun := fun
			var targs []types.Type
			if fun == nil {
				switch t := x.eval(call.Fun, ao.st).(type) {
				case TLit:
					lit, _ = t.Node.(*ast.FuncLit)
				case TFunc:
					fun, targs = t.Fun, t.TArgs
				case TCall:
					// a method value bound earlier (f := recv.Method; f(args)): the call of that method on that receiver
					if t.Name == "methodvalue" && t.Fun != nil && t.Recv != nil && t.Epoch == -1 && len(t.Args) == 0 {
						fun, recv = t.Fun, t.Recv
					}
				}
			}
			if lit != nil && len(ao.st.stack) <= x.MaxDepth+2 {
				res = append(res, x.inline(lit.Type, lit.Body, nil, nil, args, call, ao.st, nil)...)
				continue
			}
			if fd := x.inlinable(fun, recv, ao.st); fd != nil {
				var recvObj types.Object
				if fd.Recv != nil && len(fd.Recv.List) == 1 && len(fd.Recv.List[0].Names) == 1 {
					recvObj = c.Info.Defs[fd.Recv.List[0].Names[0]]
				}
				// an accessor behind defensive guards (`if ego.val == nil { return 0 }; return len(ego.val)`) is the one expression it
				// returns (accessorTerm proves the guarded returns agree with it): its decisions are not the caller's
				if len(args) == 0 && recvObj != nil && recv != nil && !x.inAccessor {
					x.inAccessor = true
					at := c.accessorTerm(fd)
					x.inAccessor = false
					if at != nil && guardedAccessor[fd] {
						heap := ao.st.heap
						t := mapBU(at, func(u Term) Term {
							switch y := u.(type) {
							case TVar:
								if y.Obj == recvObj {
									return recv
								}
							case TSel:
								y.Epoch = heap
								return y
							case TIndex:
								y.Epoch = heap
								return y
							case TSlice:
								y.Epoch = heap
								return y
							case TDeref:
								y.Epoch = heap
								return y
							case TBuiltin:
								if y.Epoch >= 0 {
									y.Epoch = heap
								}
								return y
							}
							return u
						})
						res = append(res, evalOut{outcome: outcome{st: ao.st}, val: t})
						continue
					}
				}
				x.instArgs = targs
				res = append(res, x.inline(fd.Type, fd.Body, recvObj, recv, args, call, ao.st, fun)...)
				continue
			}
			t := TCall{Fun: fun, Recv: recv, Args: args, Site: call, Epoch: ao.st.epoch}
			if fun != nil {
				t.Name = fun.Name()
			} else {
				t.Dyn = x.eval(call.Fun, ao.st)
			}
			hasFuncArg := false
			for _, a := range args {
				if l, ok := a.(TLit); ok {
					if _, isFn := l.Node.(*ast.FuncLit); isFn {
						hasFuncArg = true
					}
				}
			}
			if sigT, ok := x.c.typeOf(call.Fun).(*types.Signature); ok {
				for i := 0; i < sigT.Params().Len(); i++ {
					if _, isFn := sigT.Params().At(i).Type().Underlying().(*types.Signature); isFn {
						hasFuncArg = true
					}
				}
			}
			if hasFuncArg || !x.pureCall(fun) || (x.ForceStep != nil && fun != nil && x.ForceStep(fun)) {
				if x.confinedCall(call, fun, hasFuncArg) {
					ao.st.epoch++ // may change what later calls on the same std object return, but writes no memory loads can see
				} else {
					ao.st.bump()
				}
				tt := t
				stp := Step{Kind: "call", Call: &tt, Node: call, Heap: ao.st.heap}
				if hasFuncArg {
					stp.Env = copyEnv(ao.st.env) // environment the literal captures, before the callee may run it
				}
				ao.st.steps = append(ao.st.steps, stp)
			}
			// a bound method of a struct made on this path handed to an opaque callee may run and assign the struct's fields: those
			// are unknown afterwards
			for _, a := range args {
				if mv, ok := a.(TCall); ok && mv.Name == "methodvalue" && mv.Epoch == -1 && mv.Recv != nil {
					x.havocStructFields(mv.Recv, ao.st, x.fieldsAssignedBy(mv.Fun))
				}
				// the address of such a struct handed to a callee that is not followed: the callee may write its fields
				if ad, ok := a.(TAddr); ok && !x.pureCall(fun) {
					if lit, isLit := ad.X.(TLit); isLit {
						x.havocStruct(lit, ao.st)
					}
				}
			}
			// a function literal handed to an opaque callee may run and assign the locals it captures: those are unknown afterwards
			for _, a := range args {
				if l, ok := a.(TLit); ok {
					if fl, isFn := l.Node.(*ast.FuncLit); isFn {
						x.loopID++
						for _, o := range x.assignedIn(fl.Body) {
							if o.Pos() < fl.Pos() || o.Pos() >= fl.End() {
								ao.st.env[o] = TLoop{o, x.loopID}
							}
						}
						// fields of a captured struct made on this path (guard.present = true): unknown afterwards as well
						for _, o := range x.structsAssignedIn(fl.Body) {
							if o.Pos() < fl.Pos() || o.Pos() >= fl.End() {
								if cur, bound := ao.st.env[o]; bound {
									x.havocStruct(cur, ao.st)
								} else {
									x.havocStruct(TVar{o}, ao.st)
								}
							}
						}
					}
				}
			}
			res = append(res, evalOut{outcome: outcome{st: ao.st}, val: t})
		}
	}
	return res
}

// confinedCall: a call of a standard-library function or method whose receiver and arguments are all of basic type or (pointers to)
// struct types of the standard library, and that is handed no function value: whatever it writes is inside standard-library objects
// (a strings.Builder, a bytes.Buffer, a sync.WaitGroup), which no load of a field, element or pointer in this package can observe.
func (x *SX) confinedCall(call *ast.CallExpr, fun *types.Func, hasFuncArg bool) bool {
	if fun == nil || hasFuncArg || fun.Pkg() == nil || fun.Pkg() == x.c.Types || strings.Contains(fun.Pkg().Path(), ".") {
		return false
	}
	stdStruct := func(t types.Type) bool {
		n, ok := t.(*types.Named)
		if !ok || n.Obj().Pkg() == nil || n.Obj().Pkg() == x.c.Types || strings.Contains(n.Obj().Pkg().Path(), ".") {
			return false
		}
		_, isStruct := n.Underlying().(*types.Struct)
		return isStruct
	}
	okType := func(t types.Type) bool {
		if t == nil {
			return false
		}
		if p, ok := t.(*types.Pointer); ok {
			return stdStruct(p.Elem())
		}
		if b, ok := t.Underlying().(*types.Basic); ok {
			return b.Kind() != types.UnsafePointer
		}
		return stdStruct(t)
	}
	if sel, ok := unparen(call.Fun).(*ast.SelectorExpr); ok {
		if s := x.c.Info.Selections[sel]; s != nil && !okType(x.c.typeOf(sel.X)) {
			return false
		}
	}
	for _, a := range call.Args {
		if !okType(x.c.typeOf(a)) {
			return false
		}
	}
	return true
}

// pureCall: calls that are known not to write memory (so they neither advance the epoch nor appear as effect steps).
func (x *SX) pureCall(f *types.Func) bool {
	if f == nil {
		return false
	}
	if f.Pkg() == nil {
		// error.Error(): the standard library's error texts are computed without writing; an error type of this package must be
		// effect-free according to E3
		if f.Name() == "Error" {
			a := x.c.E3()
			for _, fn := range a.methods["Error"] {
				if len(a.eff[fn]) != 0 {
					return false
				}
			}
			return true
		}
		return false
	}
	switch f.Pkg().Path() {
	case "strings", "strconv", "unicode", "unicode/utf8", "math", "math/bits", "fmt", "errors", "bytes":
		if sig := f.Type().(*types.Signature); sig.Recv() != nil {
			// methods of strings.Builder / bytes.Buffer write their receiver
			n := f.Name()
			return n == "String" || n == "Len" || n == "Bytes" || n == "Cap"
		}
		return f.Name() != "Fprintf" && f.Name() != "Fprint" && f.Name() != "Fprintln"
	}
	if f.Pkg() == x.c.Types {
		// in-package: pure according to E3 (no write effect at all)
		if x.c.e3 != nil || true {
			a := x.c.E3()
			for _, fn := range a.fns {
				if fn.Object() == f {
					return len(a.eff[fn]) == 0
				}
			}
			if f.Origin() != f {
				// a method of an instantiated generic type (`(*self[List]).Ego`): pure if every instance of its origin is
				n, pure := 0, true
				for _, fn := range a.fns {
					if o, ok := fn.Object().(*types.Func); ok && o.Origin() == f.Origin() {
						n++
						if len(a.eff[fn]) != 0 {
							pure = false
						}
					}
				}
				if n > 0 {
					return pure
				}
			}
			// interface method: pure if every implementation is
			if sig := f.Type().(*types.Signature); sig.Recv() != nil {
				if _, isI := sig.Recv().Type().Underlying().(*types.Interface); isI {
					n, pure := 0, true
					for _, fn := range a.methods[f.Name()] {
						n++
						if len(a.eff[fn]) != 0 {
							pure = false
						}
					}
					return n > 0 && pure
				}
			}
		}
	}
	return false
}

// inlinable returns the declaration to inline for a call, or nil to keep the call opaque.
func (x *SX) inlinable(f *types.Func, recv Term, st *sxState) *ast.FuncDecl {
	if f == nil || f.Pkg() != x.c.Types || x.NoInline[f.Name()] {
		return nil
	}
	sig := f.Type().(*types.Signature)
	if sig.Recv() != nil {
		if _, isI := sig.Recv().Type().Underlying().(*types.Interface); isI {
			return nil // dynamic dispatch
		}
	}
	if f.Exported() && sig.Recv() == nil && !pinnedFuncs[f.Name()] {
		// an exported function added to the package later (ParseBytes, MustParseList): a helper like any other for the functions of
		// the pinned API that are re-expressed through it
	} else if f.Exported() {
		// the public API is the vocabulary rules are phrased in; only private helpers are inlined — unless the rule asks for exported
		// methods called statically on the bare receiver (no dynamic dispatch through Ego()) to be followed too
		rv, bare := recv.(TVar)
		if !x.InlineStaticSelf || !bare || rv.Obj == nil {
			return nil
		}
		if p, ok := rv.Obj.Type().(*types.Pointer); !ok || x.c.Inv().ContOf(namedOf(p.Elem())) == nil {
			return nil
		}
	}
	if _, isCtor := x.c.wrapperCtor(f); isCtor {
		return nil // wrapper constructors are vocabulary (producers of fields)
	}
	if x.isFieldMethod(f) {
		return nil // methods of the field interface are vocabulary too (getVal, copy, serialize, isEqual)
	}
	if len(st.stack) > x.MaxDepth {
		return nil
	}
	for _, s := range st.stack {
		if s == f {
			return nil // recursion
		}
	}
	fd := x.c.DeclOf(f)
	if fd == nil || fd.Body == nil {
		return nil
	}
	if countNodes(fd.Body) > 400 {
		return nil
	}
	return fd
}

func (x *SX) isFieldMethod(f *types.Func) bool {
	fi := x.c.Inv().Field
	if fi == nil {
		return false
	}
	it := fi.Underlying().(*types.Interface)
	for i := 0; i < it.NumMethods(); i++ {
		if it.Method(i).Name() == f.Name() {
			return true
		}
	}
	return false
}

func countNodes(n ast.Node) int {
	k := 0
	ast.Inspect(n, func(m ast.Node) bool {
		if m != nil {
			k++
		}
		return true
	})
	return k
}

// subst replaces a type parameter of an inlined generic helper by its instantiation.
func (s *sxState) subst(t types.Type) types.Type {
	if s.tsub == nil || t == nil {
		return t
	}
	switch x := t.(type) {
	case *types.TypeParam:
		if r, ok := s.tsub[x]; ok {
			return r
		}
	case *types.Pointer: // *W
		if e := s.subst(x.Elem()); e != x.Elem() {
			return types.NewPointer(e)
		}
	case *types.Slice: // []T
		if e := s.subst(x.Elem()); e != x.Elem() {
			return types.NewSlice(e)
		}
	case *types.Map: // map[K]V
		k, e := s.subst(x.Key()), s.subst(x.Elem())
		if k != x.Key() || e != x.Elem() {
			return types.NewMap(k, e)
		}
	}
	return t
}

// inline executes a callee body in the caller's state.
func (x *SX) inline(ft *ast.FuncType, body *ast.BlockStmt, recvObj types.Object, recv Term, args []Term, call *ast.CallExpr, st *sxState, f *types.Func) []evalOut {
	c := x.c
	x.noteAddrTaken(body)
	if recvObj != nil {
		st.env[recvObj] = recv
	}
	instArgs := x.instArgs
	x.instArgs = nil
	if f != nil && f.Origin() != nil && f.Origin() != f {
		// a method of an instantiated generic type: the receiver's type parameters are the type arguments of the receiver's type
		if osig, ok := f.Origin().Type().(*types.Signature); ok && osig.RecvTypeParams().Len() > 0 {
			if isig, ok := f.Type().(*types.Signature); ok && isig.Recv() != nil {
				rt := isig.Recv().Type()
				if p, isPtr := rt.(*types.Pointer); isPtr {
					rt = p.Elem()
				}
				if nt, isNamed := rt.(*types.Named); isNamed && nt.TypeArgs().Len() == osig.RecvTypeParams().Len() {
					ns := map[*types.TypeParam]types.Type{}
					for k, v := range st.tsub {
						ns[k] = v
					}
					for i := 0; i < nt.TypeArgs().Len(); i++ {
						ns[osig.RecvTypeParams().At(i)] = st.subst(nt.TypeArgs().At(i))
					}
					st.tsub = ns
				}
			}
		}
	}
	if f != nil {
		if sig, ok := f.Type().(*types.Signature); ok && sig.TypeParams().Len() > 0 {
			var id *ast.Ident
			switch fe := unparen(call.Fun).(type) {
			case *ast.Ident:
				id = fe
			case *ast.IndexExpr:
				id, _ = unparen(fe.X).(*ast.Ident)
			case *ast.IndexListExpr:
				id, _ = unparen(fe.X).(*ast.Ident)
			}
			if instArgs != nil {
				// called through a function value: the instance was fixed where the value was formed
				ns := map[*types.TypeParam]types.Type{}
				for k, v := range st.tsub {
					ns[k] = v
				}
				for i := 0; i < sig.TypeParams().Len() && i < len(instArgs); i++ {
					ns[sig.TypeParams().At(i)] = instArgs[i]
				}
				st.tsub = ns
				id = nil
			}
			if id != nil {
				if inst, ok := c.Info.Instances[id]; ok && inst.TypeArgs != nil {
					ns := map[*types.TypeParam]types.Type{}
					for k, v := range st.tsub {
						ns[k] = v
					}
					for i := 0; i < sig.TypeParams().Len() && i < inst.TypeArgs.Len(); i++ {
						ns[sig.TypeParams().At(i)] = st.subst(inst.TypeArgs.At(i))
					}
					st.tsub = ns
				}
			}
		}
	}
	i := 0
	if ft.Params != nil {
		for _, fl := range ft.Params.List {
			_, variadic := fl.Type.(*ast.Ellipsis)
			for _, nm := range fl.Names {
				o := c.Info.Defs[nm]
				switch {
				case variadic && !call.Ellipsis.IsValid():
					x.fresh++
					var rest []Term
					if i < len(args) {
						rest = args[i:]
					}
					st.env[o] = TLit{Type: o.Type(), Elts: rest, Fresh: x.fresh}
					i = len(args)
				case i < len(args):
					st.env[o] = args[i]
					i++
				}
			}
		}
	}
	// named results start at zero
	var named []types.Object
	if ft.Results != nil {
		for _, fl := range ft.Results.List {
			for _, nm := range fl.Names {
				o := c.Info.Defs[nm]
				st.env[o] = x.zero(o.Type())
				named = append(named, o)
			}
		}
	}
	if f != nil {
		st.stack = append(st.stack, f)
		st.inl = append(st.inl, f)
	} else {
		st.stack = append(st.stack, nil)
	}
	depth := len(st.stack)
	var res []evalOut
	for _, o := range x.block(body.List, st) {
		if len(o.st.stack) >= depth {
			o.st.stack = o.st.stack[:depth-1]
		}
		switch o.kind {
		case "panic":
			res = append(res, evalOut{outcome: o})
		case "return", "":
			vals := o.vals
			if len(vals) == 0 && len(named) > 0 {
				for _, n := range named {
					vals = append(vals, x.namedResult(n, o.st))
				}
			}
			var val Term
			switch len(vals) {
			case 0:
				val = TUnknown{"void"}
			case 1:
				val = vals[0]
			default:
				val = tTuple{vals}
			}
			res = append(res, evalOut{outcome: outcome{st: o.st}, val: val})
		default:
			x.unsupported(o.st, "break/continue escaping an inlined function")
			res = append(res, evalOut{outcome: outcome{st: o.st}, val: TUnknown{"escape"}})
		}
	}
	return res
}

// ---------------------------------------------------------------- simplification

func constInt(t Term) (int64, bool) {
	k, ok := t.(TConst)
	if !ok || k.Val.Kind() != constant.Int {
		return 0, false
	}
	return constant.Int64Val(k.Val)
}

// simplify: constant folding, double negation, canonical orientation of comparisons.
func simplify(t Term) Term {
	switch v := t.(type) {
	case TUn:
		if v.Op == token.NOT {
			if in, ok := v.X.(TUn); ok && in.Op == token.NOT {
				return in.X
			}
			if b, ok := v.X.(TBin); ok {
				neg := map[token.Token]token.Token{token.EQL: token.NEQ, token.NEQ: token.EQL, token.LSS: token.GEQ, token.GEQ: token.LSS, token.GTR: token.LEQ, token.LEQ: token.GTR}
				if n, ok := neg[b.Op]; ok {
					return simplify(TBin{n, b.X, b.Y})
				}
			}
			if k, ok := v.X.(TConst); ok && k.Val.Kind() == constant.Bool {
				return TConst{constant.MakeBool(!constant.BoolVal(k.Val))}
			}
		}
		if k, ok := v.X.(TConst); ok && (v.Op == token.SUB || v.Op == token.ADD) && (k.Val.Kind() == constant.Int || k.Val.Kind() == constant.Float) {
			return TConst{constant.UnaryOp(v.Op, k.Val, 0)}
		}
	case TBin:
		a, aok := v.X.(TConst)
		b, bok := v.Y.(TConst)
		// short-circuit operators with a constant left operand: false && x is false (x is not evaluated), true && x is x, …
		if aok && a.Val.Kind() == constant.Bool && (v.Op == token.LAND || v.Op == token.LOR) {
			if constant.BoolVal(a.Val) == (v.Op == token.LOR) {
				return a
			}
			return v.Y
		}
		if aok && bok {
			switch v.Op {
			case token.ADD, token.SUB, token.MUL, token.REM, token.AND, token.OR, token.XOR:
				if a.Val.Kind() == b.Val.Kind() && (a.Val.Kind() == constant.Int || a.Val.Kind() == constant.Float || (a.Val.Kind() == constant.String && v.Op == token.ADD)) {
					return TConst{constant.BinaryOp(a.Val, v.Op, b.Val)}
				}
			case token.EQL, token.NEQ, token.LSS, token.LEQ, token.GTR, token.GEQ:
				if a.Val.Kind() == b.Val.Kind() && a.Val.Kind() != constant.Unknown {
					return TConst{constant.MakeBool(constant.Compare(a.Val, v.Op, b.Val))}
				}
			}
		}
		// x + 0, 0 + x, x - 0 over integers are x (an offset parameter bound to 0 at an inline site)
		if v.Op == token.ADD || v.Op == token.SUB {
			isZero := func(k TConst, ok bool) bool {
				return ok && k.Val.Kind() == constant.Int && constant.Sign(k.Val) == 0
			}
			if isZero(b, bok) && intLike(v.X) {
				return v.X
			}
			if v.Op == token.ADD && isZero(a, aok) && intLike(v.Y) {
				return v.Y
			}
		}
		// x == true, x != false are x; x == false, x != true are !x
		if v.Op == token.EQL || v.Op == token.NEQ {
			for _, pair := range [][2]Term{{v.X, v.Y}, {v.Y, v.X}} {
				if k, ok := pair[1].(TConst); ok && k.Val.Kind() == constant.Bool {
					if _, both := pair[0].(TConst); both {
						break
					}
					if constant.BoolVal(k.Val) == (v.Op == token.EQL) {
						return pair[0]
					}
					return simplify(TUn{token.NOT, pair[0]})
				}
			}
		}
		// nil comparisons that are decided: nil == nil; a freshly constructed error is never nil
		if v.Op == token.EQL || v.Op == token.NEQ {
			_, xn := v.X.(TNil)
			_, yn := v.Y.(TNil)
			nonNil := func(t Term) bool {
				if _, isAddr := t.(TAddr); isAddr {
					return true // &T{…}, &x: an address is never nil (a typed failure value made on this path)
				}
				c, ok := t.(TCall)
				return ok && c.Fun != nil && (c.Fun.FullName() == "fmt.Errorf" || c.Fun.FullName() == "errors.New")
			}
			switch {
			case xn && yn:
				return TConst{constant.MakeBool(v.Op == token.EQL)}
			case (xn && nonNil(v.Y)) || (yn && nonNil(v.X)):
				return TConst{constant.MakeBool(v.Op == token.NEQ)}
			}
		}
		// orientation: a > b  ==>  b < a ; a >= b ==> b <= a ; symmetric ops sorted by key
		switch v.Op {
		case token.GTR:
			return TBin{token.LSS, v.Y, v.X}
		case token.GEQ:
			return TBin{token.LEQ, v.Y, v.X}
		case token.EQL, token.NEQ:
			if key(v.X) > key(v.Y) {
				return TBin{v.Op, v.Y, v.X}
			}
		}
	case TConv:
		// conversion of a constant
		if k, ok := v.X.(TConst); ok {
			if b, ok := v.To.Underlying().(*types.Basic); ok {
				switch {
				case b.Info()&types.IsInteger != 0 && k.Val.Kind() == constant.Int:
					return k
				case b.Info()&types.IsFloat != 0 && (k.Val.Kind() == constant.Int || k.Val.Kind() == constant.Float):
					return TConst{constant.ToFloat(k.Val)}
				}
			}
		}
	}
	return t
}

func namedOf(t types.Type) *types.Named {
	n, _ := t.(*types.Named)
	return n
}

// ifaceOperand: any(v).(T) with v already of an interface type asserts on the same dynamic value as v.(T).
func (x *SX) ifaceOperand(t Term) Term {
	for {
		cv, ok := t.(TConv)
		if !ok || cv.To == nil {
			return t
		}
		if _, isI := cv.To.Underlying().(*types.Interface); !isI {
			return t
		}
		inner := x.c.termType(cv.X)
		if inner == nil {
			return t
		}
		if _, isI := inner.Underlying().(*types.Interface); !isI {
			return t
		}
		t = cv.X
	}
}
