package main

// C03, C04, C20 — the parser: transition-table obligations, per-level inclusion in RFC 8259,
// wrappers, panic/determinism closure, line counter.

import (
	"fmt"
	"go/ast"
	"go/constant"
	"go/token"
	"go/types"
	"os"
	"sort"
	"strconv"
	"strings"
)

type machinePair struct {
	list, object *Machine
}

var machineCache = map[*Ctx]*machinePair{}

func (c *Ctx) machines() *machinePair {
	if mp, ok := machineCache[c]; ok {
		return mp
	}
	mp := &machinePair{newMachine(c, "parseList"), newMachine(c, "parseObject")}
	machineCache[c] = mp
	return mp
}

func (mp *machinePair) each() []*Machine { return []*Machine{mp.list, mp.object} }

func (m *Machine) isListMachine() bool {
	if m.contV == nil {
		return m.name == "parseList"
	}
	ct := m.c.Inv().ContByIface(m.contV.Type())
	return ct != nil && ct.IsList
}

// machineReady reports the extraction status as an obligation; false means the rules cannot run.
func machineReady(c *Ctx, rule string, m *Machine) bool {
	ob := c.Ob(rule, m.name+"/machine", posOf(m.fn))
	if m.fn == nil {
		ob.Missing("parser machine %s not found", m.name)
		return false
	}
	if m.why != "" {
		ob.Undecided("parser machine not recognised: %s", m.why)
		return false
	}
	ob.Ok("state machine recognised: state=%s, %d states, buffers=%d, container=%s, index=%s advanced by %s", m.stateV.Name(), len(m.states), len(m.builders), m.contV.Name(), m.idxV.Name(), m.sizeV.Name())
	return true
}

type tableRow struct {
	State  string
	InVal  Tri
	ValLen Tri
	Class  *Class
	Exits  []Exit
}

var tableCache = map[*Machine][]tableRow{}

// table enumerates the transition function over all (state, inVal, val-buffer-nonempty, class) combinations.
func (m *Machine) table() []tableRow {
	if t, ok := tableCache[m]; ok {
		return t
	}
	var rows []tableRow
	for _, st := range m.states {
		for _, iv := range []Tri{F, T} {
			for _, vl := range []Tri{F, T} {
				for ci := range classes {
					cl := &classes[ci]
					ex := m.Step(st, iv, map[string]Tri{"val": vl, "key": U}, cl)
					rows = append(rows, tableRow{st, iv, vl, cl, ex})
				}
			}
		}
	}
	tableCache[m] = rows
	return rows
}

func (m *Machine) undecidedOb(c *Ctx, rule string) bool {
	m.table()
	if len(m.undecided) == 0 {
		return false
	}
	sort.Strings(m.undecided)
	uniq := []string{}
	for i, u := range m.undecided {
		if i == 0 || u != m.undecided[i-1] {
			uniq = append(uniq, u)
		}
	}
	if len(uniq) > 4 {
		uniq = append(uniq[:4], fmt.Sprintf("… and %d more", len(uniq)-4))
	}
	c.Ob(rule, m.name+"/vocabulary", m.undecPos).Undecided("the machine contains constructs outside the closed statement vocabulary, so its transition table cannot be extracted: %s", strings.Join(uniq, "; "))
	return true
}

func closerClass(isList bool) string {
	if isList {
		return "RBRACK"
	}
	return "RBRACE"
}

// ---------------------------------------------------------------- C03

func init() {
	register(&Property{
		ID:        "C03",
		QuickCfgs: []BuildCfg{{GOARCH: "amd64"}, {GOARCH: "386"}},
		Explanation: "Typestate analysis of a model re-extracted from the source on every run: an abstract interpreter over the loop body of parseList/parseObject computes the transition function state x character class x flags -> (state', buffer ops, events, exit) " +
			"for a 13-class alphabet; its product with the specification automaton of one JSON nesting level (RFC 8259: ws, strings with escapes, literal characters, nested containers as macro symbols with the inductive hypothesis for the recursive call) is explored exhaustively. " +
			"On every specification-allowed symbol: no error exit, success exit exactly at the closer, exactly one Add/Set event per value with the buffer equal to the raw token text, Set under the decoded key of the same pair, one recursive call and one resumption per nested value. " +
			"String decoder class, literal cascade (per GOARCH) and U+FFFD acceptance as in C01; wrappers start at the first root bracket. Numeric agreement of ParseInt/ParseFloat and byte-identity of decoded strings are trusted (DESIGN.md §7); stack depth is outside.",
		Rules: []Rule{
			{ID: "C03.R1", Doc: "per-level inclusion of RFC 8259 in both machines (product exploration): accepts every valid token sequence, right events in order, raw-token buffers, resumption after nested values, success only at the closer", Run: c03Inclusion},
			{ID: "C03.R2", Doc: "string decoder at the 3 decode sites accepts all RFC 8259 escapes and its error is handled", Run: func(c *Ctx) { decoderRule(c, "C03.R2") }},
			{ID: "C03.R3", Doc: "literal cascade null < int(platform size) < float(64, every configuration) < bool", Run: func(c *Ctx) { cascadeRule(c, "C03.R3") }},
			{ID: "C03.R4", Doc: "a raw, correctly encoded U+FFFD (and every valid rune) passes the UTF-8 guard", Run: func(c *Ctx) { utf8GuardRule(c, "C03.R4", false, true) }},
			{ID: "C03.R5", Doc: "wrappers start at strings.Index(json, root bracket), pass json[start:], return the machine's (root, err)", Run: func(c *Ctx) { wrapperRule(c, "C03.R5") }},
			{ID: "C03.R7", Doc: "the events of the machines are applied by Add (appends parseVal(v) at the end, in order) and Set (plain map assignment of parseVal(v)) (= C05.R5 for Add, C06.R1)", Run: func(c *Ctx) {
				n := runAs(c, "C03.R7", c05Sequence, func(o *Obligation) bool { return strings.Contains(o.Construct, "(*list).Add/") })
				n += runAs(c, "C03.R7", c06Set, nil)
				c.R.Floor("C03.R7", n, 3)
			}},
			{ID: "C03.R6", Doc: "duplicate keys: Set events are applied in document order by plain map assignment (last wins)", Run: func(c *Ctx) { c06Set(cWithRule(c)) }},
		},
	})
}

// cWithRule exists to re-use c06Set unchanged (its obligations keep their C06.R1 ids inside C03's evidence).
func cWithRule(c *Ctx) *Ctx { return c }

func c03Inclusion(c *Ctx) { inclusionRule(c, "C03.R1") }

func inclusionRule(c *Ctx, R string) {
	for _, m := range c.machines().each() {
		if !machineReady(c, R, m) {
			continue
		}
		if m.undecidedOb(c, R) {
			continue
		}
		res := m.inclusion(m.isListMachine())
		if len(m.undecided) > 0 && m.undecidedOb(c, R) {
			continue
		}
		bad := map[string]bool{}
		for _, v := range res.Viol {
			bad[v.Key] = true
			c.Ob(R, m.name+"/inclusion/"+v.Key, v.Pos).Fail("%s", v.Msg)
		}
		seen := map[string]bool{}
		for _, t := range res.Visited {
			// "spec/impl --class(kind)--> exit"
			key := t[:strings.Index(t, "--> ")]
			key = strings.TrimSpace(strings.ReplaceAll(strings.ReplaceAll(key, " --", ":"), "/", ":"))
			if seen[key] || bad[key] {
				continue
			}
			seen[key] = true
			c.Ob(R, m.name+"/inclusion/"+key, m.loop.Pos()).Ok("product transition %s conforms (no error exit, buffers = raw token, events/line delta as specified)", t)
		}
		// the exploration must have covered the specification automaton: every one of its states appears in a visited product
		// state (their number is a constant of the specification; how many machine states pair with them is the machine's business —
		// a machine with merged states has a smaller product)
		specStates := map[string]bool{}
		for _, t := range res.Visited {
			if i := strings.Index(t, "/"); i > 0 {
				specStates[t[:i]] = true
			}
		}
		floor := 12
		if m.isListMachine() {
			floor = 8
		}
		c.R.Floor(R+"/"+m.name+"-spec-states", len(specStates), floor)
		c.R.Count("specification states covered "+m.name, len(specStates))
		c.R.Count("product states "+m.name, res.States)
		c.R.Count("product transitions "+m.name, res.Trans)
	}
}

// wrapperFold folds the paths of ParseList / ParseObject over all short inputs (alphabet: the two root brackets, newline, a letter)
// and reports, per input, the machine call (concrete suffix, concrete start line) or the error return.
type wrapperObs struct {
	called   bool
	suffix   string
	line     int64
	lineOK   bool
	errOnly  bool
	passThru bool
	why      string
}

func wrapperFold(c *Ctx, fd *ast.FuncDecl, machine string, s string) (wrapperObs, string) {
	paths, why := c.runPaths(fd)
	if why != "" {
		return wrapperObs{}, "body outside the path vocabulary: " + why
	}
	jsonP := soleParam(c, fd)
	return wrapperFoldPaths(c, paths, func(t Term) bool { return isParamTerm(t, jsonP) }, machine, s)
}

// wrapperFoldPaths: the fold over given paths; isInput says which term is the text being parsed.
func wrapperFoldPaths(c *Ctx, paths []*Path, isInput func(Term) bool, machine string, s string) (wrapperObs, string) {
	var res *wrapperObs
	for _, p := range paths {
		loopVals := map[string]sval{}
		mem := map[string]sval{} // folded values of addressed locals (the start line), when their stores fold
		hook := func(t Term) (sval, bool) {
			if isInput(t) {
				return sval{K: 's', S: s}, true
			}
			if lv, ok := t.(TLoop); ok {
				if v, ok := loopVals[key(lv)]; ok {
					return v, true
				}
			}
			if d, ok := t.(TDeref); ok {
				if a, ok := d.X.(TAddr); ok {
					if v, ok := mem[key(a.X)]; ok {
						return v, true
					}
				}
			}
			return sval{}, false
		}
		feasible := true
		var obs wrapperObs
		stores := map[string]Term{}
		var call *TCall
		for si, st := range p.Steps {
			switch st.Kind {
			case "cond":
				e := &strEnv{hook: hook}
				v, ok := e.val(st.Cond.T)
				if e.panic != "" {
					return wrapperObs{}, "input " + strconv.Quote(s) + ": " + e.panic
				}
				if !ok || v.K != 'b' {
					return wrapperObs{}, "condition cannot be folded: " + e.fail
				}
				if v.B != st.Cond.Truth {
					feasible = false
				}
			case "store":
				stores[key(st.LHS)] = st.RHS
				if _, isVar := st.LHS.(TVar); isVar {
					e := &strEnv{hook: hook}
					if v, ok := e.val(st.RHS); ok && e.panic == "" {
						mem[key(st.LHS)] = v
					} else {
						delete(mem, key(st.LHS))
					}
				}
			case "call":
				if st.Call != nil && st.Call.Fun != nil && st.Call.Fun.Name() == machine && st.Call.Fun.Pkg() == c.Types {
					if call != nil {
						obs.why = "the machine is called twice"
					}
					call = st.Call
				} else if st.Call != nil && st.Call.Fun != nil && st.Call.Fun.Pkg() == c.Types {
					obs.why = "unexpected call of " + st.Call.Fun.Name()
				}
			case "loop":
				var ex loopExit
				fin, why := c.foldLoopExit(st.Loop, hook, 32, mem, &ex)
				if why != "" {
					obs.why = "loop in the wrapper cannot be folded: " + why
				}
				for o, v := range fin {
					loopVals[key(TLoop{o, st.Loop.ID})] = v
				}
				// this path is the one taken only when the loop was left the way the path says: from inside by that very round, or not
				// from inside at all
				if why == "" && inLoopExitPrefix(p, si) != ex.Idx {
					feasible = false
				}
			}
			if !feasible {
				break
			}
		}
		if !feasible {
			continue
		}
		if res != nil {
			return wrapperObs{}, "two feasible paths for input " + strconv.Quote(s)
		}
		if call != nil && len(call.Args) == 2 {
			obs.called = true
			e := &strEnv{hook: hook}
			if v, ok := e.val(call.Args[0]); ok && v.K == 's' && e.panic == "" {
				obs.suffix = v.S
			} else {
				obs.why = "the machine's input cannot be folded"
			}
			if ad, ok := call.Args[1].(TAddr); ok {
				if v, ok := mem[key(ad.X)]; ok && v.K == 'i' {
					obs.line, obs.lineOK = v.I, true // the addressed local as the stores (also inside a counting loop) left it
				} else if rhs, ok := stores[key(ad.X)]; ok {
					e2 := &strEnv{hook: hook}
					if v, ok := e2.val(rhs); ok && v.K == 'i' {
						obs.line, obs.lineOK = v.I, true
					}
				}
			}
			if p.End == "return" && len(p.Vals) == 2 {
				p0, ok0 := p.Vals[0].(TProj)
				p2, ok2 := p.Vals[1].(TProj)
				obs.passThru = ok0 && ok2 && p0.K == 0 && p2.K == 2 && key(p0.X) == key(*call) && key(p2.X) == key(*call)
			}
		} else if p.End == "return" && len(p.Vals) == 2 {
			_, n0 := p.Vals[0].(TNil)
			_, n1 := p.Vals[1].(TNil)
			obs.errOnly = n0 && !n1
		}
		cp := obs
		res = &cp
	}
	if res == nil {
		return wrapperObs{}, "no feasible path for input " + strconv.Quote(s)
	}
	return *res, ""
}

// wrapperRule: ParseList / ParseObject start at the first root bracket, hand json[start:] on, pass the machine's pair through.
func wrapperRule(c *Ctx, rule string) {
	n := 0
	for _, spec := range []struct{ name, machine, bracket string }{{"ParseList", "parseList", "["}, {"ParseObject", "parseObject", "{"}} {
		fd := c.NeedDecl(rule, spec.name)
		if fd == nil {
			continue
		}
		n++
		ob := c.Ob(rule, spec.name, fd.Pos())
		bad, undec, cases := "", "", 0
		// the alphabet: the two root brackets, a line break, a letter — and the characters the wrapper's own code (with the helpers it
		// inlines) compares the text with or searches it for, so that a pre-pass keyed on other characters (comment markers, a byte
		// order mark) cannot hide behind inputs that never contain them
		alphabet, depth := "[{\na", c.depth(4, 6)
		if extra := c.constCharsOf(fd, alphabet, 4); extra != "" {
			alphabet += extra
			depth = c.depth(4, 5)
		}
		for _, s := range shortStrings(alphabet, depth) {
			obs, why := wrapperFold(c, fd, spec.machine, s)
			if why != "" {
				undec = why
				break
			}
			cases++
			idx := strings.Index(s, spec.bracket)
			switch {
			case obs.why != "":
				undec = obs.why
			case idx < 0 && (obs.called || !obs.errOnly):
				bad = "input " + strconv.Quote(s) + " has no root bracket but is not rejected with (nil, error)"
			case idx >= 0 && !obs.called:
				bad = "input " + strconv.Quote(s) + ": the machine is not called"
			case idx >= 0 && obs.suffix != s[idx:]:
				bad = "input " + strconv.Quote(s) + ": the machine is handed " + strconv.Quote(obs.suffix) + ", not the text from the first root bracket " + strconv.Quote(s[idx:])
			case idx >= 0 && !obs.passThru:
				bad = "the machine's (root, err) pair is not returned unchanged"
			}
			if bad != "" || undec != "" {
				break
			}
		}
		switch {
		case undec != "":
			ob.Undecided("%s", undec)
		case bad != "":
			ob.Fail("%s", bad)
		default:
			ob.Ok("for all %d inputs of length <= "+itoa(depth)+" over %q: no root bracket => (nil, error); otherwise the machine gets exactly the text from the first %q and its (root, err) is returned unchanged", cases, alphabet, spec.bracket)
		}
	}
	c.R.Floor(rule, n, 2)
}

// ---------------------------------------------------------------- C04

func init() {
	register(&Property{
		ID: "C04",
		Explanation: "Transition-table obligations over ALL (state, character class, flags) combinations of both machines (invalid documents included; two pseudo-classes stand for what DecodeRuneInString returns on ill-formed / empty input): " +
			"every exit is ERR(nil, 0, non-nil) or OK(container, i, nil); OK only on the level's own closer and only after the container was created; ill-formed UTF-8 leads to ERR from every state; the loop advances by the decoded size and recursion happens only on a strictly shorter suffix; " +
			"the statement after the loop is an ERR return, and by C03.R1 no proper prefix cut at a token boundary succeeds. The call-graph closure of ParseList/ParseObject/ParseFile contains no reachable explicit panic with unsafe arguments, no unguarded index/slice, " +
			"no map iteration, goroutine, package-level state, time or randomness. ParseFile = os.ReadFile + ParseObject on the unmodified bytes. Stack exhaustion on pathological nesting is outside.",
		Rules: []Rule{
			{ID: "C04.R1", Doc: "exclusivity: every return of the machines is (nil, _, non-nil error) or (container, i, nil); the container is created in the initial state, which is never re-entered; OK exits lie in other states; wrappers pass the pair through", Run: c04Table},
			{ID: "C04.R2", Doc: "termination: i += size with size from DecodeRuneInString(json[i:]) of the same iteration, size 0 rejected, only unlabelled continue, nested calls only outside the initial state (strictly shorter suffix), i += pos once", Run: func(c *Ctx) {}},
			{ID: "C04.R3", Doc: "end of input: the statement after the loop is an ERR return; OK exits exist only on the level's own closer", Run: func(c *Ctx) {}},
			{ID: "C04.R4", Doc: "ill-formed UTF-8 ((RuneError,1), (RuneError,0)) is rejected from every state and flag combination; the decode-and-guard pair dominates the loop body", Run: func(c *Ctx) { utf8GuardRule(c, "C04.R4", true, false) }},
			{ID: "C04.R5", Doc: "no panic: explicit panics reachable only with statically safe arguments; every index/slice of the input in the parse closure is within bounds", Run: func(c *Ctx) {
				c04Panics(c)
				c04StringAccess(c)
			}},
			{ID: "C04.R9", Doc: "token consumers are total: the helpers of the parser core that receive token text (parseField, the string decoder, …) raise no index/slice out of range on any short token (folded over all strings over `-+0.1e\"a` up to length 3)", Run: c04ConsumersTotal},
			{ID: "C04.R11", Doc: "the container mutators the machines call cannot panic on what they are handed: Set panics exactly for an odd count or a non-string key, Add converts and appends (= C06.R1, C05.R5 for Add)", Run: func(c *Ctx) {
				n := runAs(c, "C04.R11", c06Set, nil)
				n += runAs(c, "C04.R11", c05Sequence, func(o *Obligation) bool { return strings.Contains(o.Construct, "(*list).Add/") })
				c.R.Floor("C04.R11", n, 3)
			}},
			{ID: "C04.R10", Doc: "the string decoder the machines call is the trusted JSON decoder applied once to the re-quoted token with its error propagated (= C03.R2): a hand-written decoder would have to be proved total on every token, which the folding of C04.R9 (straight-line index expressions only) does not do", Run: func(c *Ctx) { decoderRule(c, "C04.R10") }},
			{ID: "C04.R6", Doc: "determinism: no map range, go statement, select, package-level state, time or randomness in the parse closure", Run: c04Determinism},
			{ID: "C04.R7", Doc: "ParseFile = os.ReadFile(path); error => (nil, err); otherwise ParseObject(string(data)) unchanged", Run: c04ParseFile},
			{ID: "C04.R8", Doc: "wrappers ParseList/ParseObject", Run: func(c *Ctx) { wrapperRule(c, "C04.R8") }},
		},
	})
}

func c04Table(c *Ctx) {
	for _, m := range c.machines().each() {
		if !machineReady(c, "C04.R1", m) {
			continue
		}
		if m.undecidedOb(c, "C04.R1") {
			continue
		}
		isList := m.isListMachine()
		init := m.initialState()
		rows := m.table()
		type agg struct {
			bad   []string
			pos   token.Pos
			count int
		}
		newAgg := func() *agg { return &agg{} }
		exits, created, reenter, okCloser, utf, nested, resume := newAgg(), newAgg(), newAgg(), newAgg(), newAgg(), newAgg(), newAgg()
		add := func(a *agg, pos token.Pos, f string, x ...any) {
			a.bad = append(a.bad, fmt.Sprintf(f, x...))
			if !a.pos.IsValid() {
				a.pos = pos
			}
		}
		for _, r := range rows {
			for _, ex := range r.Exits {
				where := fmt.Sprintf("state=%s class=%s inVal=%v valNonEmpty=%v", r.State, r.Class.Name, r.InVal, r.ValLen)
				exits.count++
				if ex.Kind == "BADRET" {
					add(exits, ex.Pos, "%s: return is neither (nil, 0, non-nil error) nor (container, i, nil): %s", where, ex.Note)
				}
				// pseudo-classes: must end in ERR everywhere
				if r.Class.Name == "BADUTF8" || r.Class.Name == "EMPTY" {
					utf.count++
					if ex.Kind != "ERR" {
						add(utf, ex.Pos, "%s: ill-formed UTF-8 is not rejected in this state (exit %s)", where, ex.Kind)
					}
					continue
				}
				hasCreate, hasNested, nIadd := false, false, 0
				for _, a := range ex.Env.Acts {
					switch a.Op {
					case "CREATE":
						hasCreate = true
					case "NESTED":
						hasNested = true
					case "IADD":
						nIadd++
					}
				}
				if r.State == init {
					created.count++
					if !hasCreate || ex.Env.State == init || (ex.Kind != "FALL" && ex.Kind != "CONTINUE") {
						add(created, ex.Pos, "%s: the initial state does not unconditionally create the container and move to another state (exit %s, next %s)", where, ex.Kind, ex.Env.State)
					}
					if hasNested {
						add(nested, ex.Pos, "%s: recursive call from the initial state (the suffix is not strictly shorter: unbounded recursion)", where)
					}
				} else {
					reenter.count++
					if hasCreate {
						add(created, ex.Pos, "%s: the container is re-created outside the initial state (earlier elements are lost)", where)
					}
					if ex.Env.State == init && (ex.Kind == "FALL" || ex.Kind == "CONTINUE") {
						add(reenter, ex.Pos, "%s: transition re-enters the initial state", where)
					}
				}
				if ex.Kind == "OK" {
					okCloser.count++
					if r.Class.Name != closerClass(isList) {
						add(okCloser, ex.Pos, "%s: success return on a character that is not this level's closer", where)
					}
					if r.State == init {
						add(okCloser, ex.Pos, "%s: success return from the initial state (container may be nil)", where)
					}
				}
				if hasNested {
					nested.count++
					// on the success path of the nested call (ErrNil known T is not tracked; CONTINUE exit = success path) exactly one resumption
					if ex.Kind == "CONTINUE" || ex.Kind == "FALL" {
						resume.count++
						if nIadd != 1 {
							add(resume, ex.Pos, "%s: after a nested value the index is advanced %d times by the callee's offset (expected once)", where, nIadd)
						}
					}
				} else if nIadd != 0 {
					add(resume, ex.Pos, "%s: index advanced by a nested offset without a nested call", where)
				}
			}
		}
		report := func(rule, key string, a *agg, okMsg string) {
			ob := c.Ob(rule, m.name+"/"+key, a.pos)
			if !a.pos.IsValid() {
				ob = c.Ob(rule, m.name+"/"+key, m.loop.Pos())
			}
			if len(a.bad) == 0 {
				ob.Ok("%s (%d table entries)", okMsg, a.count)
			} else {
				more := ""
				if len(a.bad) > 1 {
					more = fmt.Sprintf(" (+%d more)", len(a.bad)-1)
				}
				ob.Fail("%s%s", a.bad[0], more)
			}
		}
		report("C04.R1", "exits", exits, "every exit of the transition table is ERR(nil,0,non-nil) or OK(container,i,nil)")
		report("C04.R1", "creation", created, "the container is created exactly in the initial state, which always moves on")
		report("C04.R1", "no-reentry", reenter, "no transition re-enters the initial state")
		report("C04.R3", "ok-only-at-closer", okCloser, "success exits exist only on the level's own closer and never in the initial state")
		report("C04.R4", "ill-formed-utf8", utf, "(RuneError,1) and (RuneError,0) lead to an ERR exit from every state and flag combination")
		report("C04.R2", "recursion", nested, "recursive calls happen only outside the initial state, i.e. at i >= 1 on a strictly shorter suffix")
		report("C04.R2", "resumption", resume, "i += pos exactly once on the success path of each nested call")
		c.R.Count("table entries "+m.name, len(rows))
		c.R.Floor("C04.R1/"+m.name+"-table", len(rows), len(m.states)*4*len(classes))
		// loop header and tail (SX)
		sm := m.sx()
		hob := c.Ob("C04.R2", m.name+"/advance", m.loop.Pos())
		good := sm.loop != nil && sm.loop.CondT != nil
		if good {
			// i < len(json)
			b, ok := sm.loop.CondT.(TBin)
			good = ok && b.Op == token.LSS && m.loopVar(b.X, m.idxV)
			if good {
				ln, ok := b.Y.(TBuiltin)
				good = ok && ln.Name == "len" && len(ln.Args) == 1 && isParamTerm(ln.Args[0], m.jsonV)
			}
		}
		// post: i += size, where size is the decoded size of the rune at json[i:] on every iteration path that continues
		if good && !m.synthAdv {
			as, ok := sm.loop.Post.(*ast.AssignStmt)
			good = ok && as.Tok == token.ADD_ASSIGN && len(as.Lhs) == 1 && c.obj(as.Lhs[0]) == m.idxV && c.obj(as.Rhs[0]) == m.sizeV
		}
		if good {
			for _, ip := range sm.iter {
				if ip.End != "fall" && ip.End != "continue" {
					continue
				}
				sz, ok := ip.Env[m.sizeV]
				pr, isP := sz.(TProj)
				if !ok || !isP || pr.K != 1 || !m.isDecode(pr.X) {
					good = false
					break
				}
				d := pr.X.(TCall)
				sl, isS := (TSlice{}), false
				if len(d.Args) == 1 {
					sl, isS = d.Args[0].(TSlice)
				}
				if !isS || !isParamTerm(sl.X, m.jsonV) || !m.loopVar(sl.Lo, m.idxV) || sl.Hi != nil {
					good = false
					break
				}
			}
		}
		hob.Check(good, "for i < len(json); i += size with (char, size) = DecodeRuneInString(json[i:]) on every continuing iteration path; size 0 is rejected by the guard (table); i otherwise only grows by a nested offset (table)",
			"loop does not advance by exactly the decoded size of the current rune")
		tob := c.Ob("C04.R3", m.name+"/end-of-input", m.fn.End())
		okTail := sm.after != nil && sm.after.End == "return" && len(sm.after.Vals) == 3
		if okTail {
			_, n0 := sm.after.Vals[0].(TNil)
			_, n2 := sm.after.Vals[2].(TNil)
			okTail = n0 && !n2
			for _, st := range sm.after.Steps {
				if st.Kind != "loop" && st.Kind != "cond" {
					if st.Kind == "call" && st.Call != nil && st.Call.Fun != nil && st.Call.Fun.Pkg() != c.Types {
						continue
					}
					okTail = false
				}
			}
		}
		tob.Check(okTail, "running out of input is an error: leaving the loop normally returns (nil, 0, error)", "leaving the loop normally does not return an error: a truncated document is accepted")
	}
}

// parseClosure lists the functions reachable from the three entry points inside the package.
func parseClosure(c *Ctx) []*ast.FuncDecl {
	a := c.E3()
	seen := map[string]bool{}
	var order []string
	// parseVal's map/slice arms are not taken on the parse path: C04.R5 shows that every value handed to Add/Set there has a
	// dynamic type among {Object, List, string, nil, int, float64, bool}; the constructors those arms call are therefore not followed.
	skip := map[string]bool{}
	if pv := c.Decl("parseVal"); pv != nil {
		// decided on parseVal's type-case paths (private helpers it is split into are inlined): the package functions called on the
		// map/slice arms
		x := c.NewSX()
		delete(x.NoInline, "parseVal")
		x.budget = 200000
		if cps, why := c.typeCasePaths(pv, x, soleParam(c, pv)); why == "" {
			for _, cp := range cps {
				if cp.None || cp.IsNil || cp.T == nil {
					continue
				}
				switch cp.T.Underlying().(type) {
				case *types.Map, *types.Slice:
					note := func(t Term) {
						collectSubterms(t, func(u Term) {
							if call, ok := u.(TCall); ok && call.Fun != nil && call.Fun.Pkg() == c.Types {
								skip[call.Fun.Name()] = true
							}
						})
					}
					for _, st := range cp.Path.Steps {
						if st.Call != nil {
							note(*st.Call)
						}
						note(st.RHS)
					}
					for _, t := range cp.Path.Vals {
						note(t)
					}
					for _, f := range cp.Path.Inlined {
						if f.Name() != "parseVal" {
							skip[f.Name()] = true // a private helper of that arm, inlined here
						}
					}
				}
			}
		}
	}
	var visit func(name string)
	visit = func(name string) {
		base := name
		if i := strings.Index(base, "["); i > 0 {
			base = base[:i] // an instance of a generic helper goes by the helper's name
		}
		if seen[name] || skip[name] || skip[base] {
			return
		}
		seen[name] = true
		order = append(order, name)
		if fn := a.ByName(name); fn != nil {
			for _, cal := range a.calleeNames(fn) {
				visit(cal)
			}
		}
	}
	for _, e := range []string{"ParseList", "ParseObject", "ParseFile"} {
		visit(e)
	}
	sort.Strings(order)
	var out []*ast.FuncDecl
	have := map[*ast.FuncDecl]bool{}
	for _, n := range order {
		if i := strings.Index(n, "["); i > 0 {
			n = n[:i] // an instance of a generic helper: its declaration
		}
		if fd := c.Decl(n); fd != nil && !have[fd] {
			have[fd] = true
			out = append(out, fd)
		}
	}
	return out
}

// parserCore: the functions that belong to the parser proper (not the container methods they call).
func parserCore(c *Ctx) []*ast.FuncDecl {
	var out []*ast.FuncDecl
	// what is reached from the entry points without going through parseVal (the normaliser and whatever private helpers it is split
	// into panic by design on unsupported Go types; which values reach it from the parser is decided at the Add/Set call sites)
	a := c.E3()
	reach := map[string]bool{}
	var visit func(name string)
	visit = func(name string) {
		if reach[name] || name == "parseVal" {
			return
		}
		reach[name] = true
		if i := strings.Index(name, "["); i > 0 {
			reach[name[:i]] = true
		}
		for _, ct := range c.Inv().Conts {
			if strings.HasPrefix(name, "(*"+ct.Named.Obj().Name()+").") {
				return // a container method (Add, Set): what the parser hands it is decided at the call site; its helpers are not the parser's
			}
		}
		if fn := a.ByName(name); fn != nil {
			for _, cal := range a.calleeNames(fn) {
				visit(cal)
			}
		}
	}
	for _, e := range []string{"ParseList", "ParseObject", "ParseFile"} {
		visit(e)
	}
	// methods of private helper types (a scanner, a cursor) belong to the parser like its plain helpers; methods of the containers and
	// of the scalar wrappers do not
	helperMethod := func(fd *ast.FuncDecl) bool {
		if fd.Recv == nil || len(fd.Recv.List) != 1 {
			return false
		}
		t := c.typeOf(fd.Recv.List[0].Type)
		if p, ok := t.(*types.Pointer); ok {
			t = p.Elem()
		}
		nt, ok := t.(*types.Named)
		if !ok || nt.Obj().Pkg() != c.Types || nt.Obj().Exported() || c.Inv().ContOf(nt) != nil {
			return false
		}
		for _, w := range c.Inv().Wrappers {
			if w.Obj() == nt.Obj() {
				return false
			}
		}
		return true
	}
	for _, fd := range parseClosure(c) {
		if fd.Recv == nil || helperMethod(fd) {
			n := fd.Name.Name
			if n == "parseVal" || (fd.Recv == nil && (strings.HasPrefix(n, "New") || strings.HasPrefix(n, "new"))) || !reach[declName(fd)] {
				continue
			}
			out = append(out, fd)
		}
	}
	return out
}

func c04Panics(c *Ctx) {
	a := c.E3()
	core := parserCore(c)
	c.R.Floor("C04.R5", len(core), 3)
	// parseField's possible result types
	var fieldKinds []string
	if pf := c.Decl("parseField"); pf != nil {
		for _, r := range returnsOf(pf.Body) {
			if len(r.Results) == 2 && c.isNil(r.Results[1]) {
				if c.isNil(r.Results[0]) {
					fieldKinds = append(fieldKinds, "nil")
				} else if t := c.typeOf(r.Results[0]); t != nil {
					fieldKinds = append(fieldKinds, shortType(t))
				}
			}
		}
	}
	pvCases := map[string]bool{"nil": true}
	if pv := c.Decl("parseVal"); pv != nil {
		// the Go types parseVal accepts: the type cases on its paths (helpers it is split into are inlined)
		x := c.NewSX()
		delete(x.NoInline, "parseVal")
		x.budget = 200000
		if cps, why := c.typeCasePaths(pv, x, soleParam(c, pv)); why == "" {
			for _, cp := range cps {
				if !cp.None && !cp.IsNil && cp.T != nil && cp.Path.End != "panic" {
					pvCases[shortType(cp.T)] = true
				}
			}
		}
	}
	for _, fd := range core {
		name := declName(fd)
		n := 0
		ast.Inspect(fd.Body, func(node ast.Node) bool {
			switch x := node.(type) {
			case *ast.CallExpr:
				if c.isBuiltin(x, "panic") {
					n++
					c.Ob("C04.R5", name+"/explicit-panic#"+itoa(n), x.Pos()).Fail("explicit panic on the parse path: some input makes Parse* panic instead of returning an error")
					return true
				}
				f := c.callee(x)
				if f == nil || f.Pkg() != c.Types {
					return true
				}
				// resolve the implementation(s)
				mayPanic := false
				for _, fn := range a.fns {
					if fn.Name() == f.Name() {
						if s := a.sum[fn]; s != nil && s.MayPanic {
							mayPanic = true
						}
					}
				}
				if !mayPanic {
					return true
				}
				n++
				ob := c.Ob("C04.R5", name+"/call "+f.Name()+"#"+itoa(n), x.Pos())
				inCore := false
				for _, g := range core {
					if c.FuncObj(g) == f {
						inCore = true
					}
				}
				switch {
				case inCore:
					ob.OkTrivial("call within the parser core: the callee carries the same obligations")
					return true
				}
				switch f.Name() {
				case "parseList", "parseObject", "ParseList", "ParseObject":
					ob.OkTrivial("recursive/entry call: same obligations")
				case "NewList", "NewObject":
					ob.Check(len(x.Args) == 0, "constructor without arguments: its Add()/Set() see no values, no panic", "constructor called with arguments on the parse path")
				case "Add":
					good := len(x.Args) == 1 && !x.Ellipsis.IsValid()
					why := ""
					if good {
						good, why = c.argKindsSafe(x.Args[0], fieldKinds, pvCases)
					}
					if good {
						ob.Ok("Add(%s): dynamic type within parseVal's cases (%s)", exprStr(x.Args[0]), why)
					} else {
						ob.Fail("Add receives a value whose dynamic type parseVal may reject (panic `incompatible type`): %s", why)
					}
				case "Set":
					good := len(x.Args) == 2 && !x.Ellipsis.IsValid()
					why := "Set needs an even argument count with a string key"
					if good {
						kt := c.typeOf(x.Args[0])
						good = kt != nil && types.Identical(kt, types.Typ[types.String])
					}
					if good {
						good, why = c.argKindsSafe(x.Args[1], fieldKinds, pvCases)
					}
					if good {
						ob.Ok("Set(string key, %s): two arguments, key of static type string, value within parseVal's cases", exprStr(x.Args[1]))
					} else {
						ob.Fail("Set may panic on the parse path: %s", why)
					}
				default:
					ob.Fail("call of %s, which can panic, on the parse path", f.Name())
				}
			case *ast.TypeAssertExpr:
				if x.Type != nil && !isCommaOk(fd, x) {
					n++
					c.Ob("C04.R5", name+"/assertion#"+itoa(n), x.Pos()).Fail("single-result type assertion on the parse path can panic")
				}
			case *ast.BinaryExpr:
				if x.Op == token.QUO || x.Op == token.REM {
					if _, isConst := c.constInt(x.Y); !isConst {
						n++
						c.Ob("C04.R5", name+"/division#"+itoa(n), x.Pos()).Undecided("division by a non-constant on the parse path")
					}
				}
			}
			return true
		})
	}
}

// c04StringAccess: every index/slice of the input string in the parse closure is within bounds:
// (a) the wrappers (with their inlined helpers) are folded over all short inputs and must not raise a run-time panic;
// (b) in the machines the only access to the input is json[i:] with the loop index i < len(json).
func c04StringAccess(c *Ctx) {
	for _, spec := range []struct{ name, machine string }{{"ParseList", "parseList"}, {"ParseObject", "parseObject"}} {
		fd := c.Decl(spec.name)
		if fd == nil {
			continue
		}
		ob := c.Ob("C04.R5", spec.name+"/input-access", fd.Pos())
		bad, undec, n := "", "", 0
		for _, s := range shortStrings("[{\na", c.depth(4, 6)) {
			obs, why := wrapperFold(c, fd, spec.machine, s)
			n++
			if strings.Contains(why, "out of range") || strings.Contains(obs.why, "out of range") {
				bad = "input " + strconv.Quote(s) + ": " + why + obs.why
				break
			}
			if why != "" {
				undec = why
				break
			}
			if obs.why != "" {
				undec = obs.why
				break
			}
		}
		switch {
		case bad != "":
			ob.Fail("an index/slice of the input goes out of range: %s", bad)
		case undec != "":
			ob.Undecided("%s", undec)
		default:
			ob.Ok("no index or slice of the input goes out of range on any of the %d inputs of length <= "+itoa(c.depth(4, 6))+" (helpers inlined)", n)
		}
	}
	for _, m := range c.machines().each() {
		if m.fn == nil || m.why != "" {
			continue
		}
		sm := m.sx()
		if sm.why != "" {
			continue
		}
		ob := c.Ob("C04.R5", m.name+"/input-access", m.fn.Pos())
		bad := ""
		n := 0
		visit := func(t Term) {
			collectSubterms(t, func(s Term) {
				switch x := s.(type) {
				case TSlice:
					if isParamTerm(x.X, m.jsonV) {
						n++
						if m.isCurRuneBytes(s) {
							// json[i:i+size] with size the width utf8.DecodeRuneInString(json[i:]) reported: never more than len(json[i:])
						} else if !m.loopVar(x.Lo, m.idxV) || x.Hi != nil || x.Max != nil {
							bad = "slice " + c.termStr(s) + " of the input is not json[i:] with the loop index i < len(json): it can go out of range on short input"
						}
					}
					if inner, ok := x.X.(TSlice); ok && isParamTerm(inner.X, m.jsonV) && !m.isCurRuneBytes(s) {
						bad = "re-slicing " + c.termStr(s) + " of the rest of the input is not decided: it can go out of range on short input"
					}
				case TIndex:
					if isParamTerm(x.X, m.jsonV) {
						n++
						if !m.loopVar(x.I, m.idxV) {
							bad = "index " + c.termStr(s) + " of the input is not guarded by the loop condition"
						}
					}
					// json[i:][k]: the rest of the input is non-empty inside the loop (i < len(json)), so only its first byte is surely there
					if inner, ok := x.X.(TSlice); ok && isParamTerm(inner.X, m.jsonV) {
						n++
						if k, isK := constInt(x.I); !isK || k != 0 {
							bad = "index " + c.termStr(s) + " into the rest of the input can go out of range on short input"
						}
					}
				}
			})
		}
		for _, ip := range sm.iter {
			for _, st := range ip.Steps {
				visit(st.Cond.T)
				visit(st.LHS)
				visit(st.RHS)
				if st.Call != nil {
					visit(*st.Call)
				}
			}
			for _, v := range ip.Vals {
				visit(v)
			}
		}
		if bad != "" {
			ob.Fail("%s", bad)
		} else {
			ob.Ok("the input is accessed only as json[i:] with the loop index i < len(json) (%d term occurrences on the iteration paths)", n)
		}
	}
}

func isCommaOk(fd *ast.FuncDecl, ta *ast.TypeAssertExpr) bool {
	ok := false
	ast.Inspect(fd.Body, func(n ast.Node) bool {
		if as, isAs := n.(*ast.AssignStmt); isAs && len(as.Lhs) == 2 && len(as.Rhs) == 1 && unparen(as.Rhs[0]) == ast.Expr(ta) {
			ok = true
		}
		if vs, isVs := n.(*ast.ValueSpec); isVs && len(vs.Names) == 2 && len(vs.Values) == 1 && unparen(vs.Values[0]) == ast.Expr(ta) {
			ok = true
		}
		return true
	})
	return ok
}

// argKindsSafe: the static type of the expression, or (for `any`) its known producers, lie within parseVal's case types.
func (c *Ctx) argKindsSafe(e ast.Expr, fieldKinds []string, pvCases map[string]bool) (bool, string) {
	t := c.typeOf(e)
	if t == nil {
		return false, "untyped argument"
	}
	if !isEmptyIface(t) {
		if pvCases[shortType(t)] {
			return true, "static type " + shortType(t)
		}
		return false, "static type " + shortType(t) + " is not a case of parseVal"
	}
	// interface{}: every definition of the variable is the first result of a producer of this package whose returns all hand back
	// values of a type parseVal accepts (parseField's literals; helpers returning nested containers)
	return c.anyVarKindsSafe(c.obj(e), pvCases, 0)
}

func (c *Ctx) anyVarKindsSafe(o types.Object, pvCases map[string]bool, depth int) (bool, string) {
	if o == nil || depth > 3 {
		return false, "value of type any that is not the result of parseField"
	}
	var kinds []string
	found, bad := 0, ""
	for _, fd := range c.decls {
		if fd.Body == nil {
			continue
		}
		ast.Inspect(fd.Body, func(n ast.Node) bool {
			as, isAs := n.(*ast.AssignStmt)
			if !isAs {
				return true
			}
			for i, l := range as.Lhs {
				if c.obj(l) != o {
					continue
				}
				found++
				if len(as.Rhs) != 1 || i != 0 {
					bad = "value of type any assigned from something other than the first result of a producer call"
					continue
				}
				call, isCall := unparen(as.Rhs[0]).(*ast.CallExpr)
				if !isCall || c.callee(call) == nil || c.callee(call).Pkg() != c.Types {
					bad = "value of type any that is not the result of parseField"
					continue
				}
				ks, why := c.producerKinds(c.callee(call), pvCases, depth)
				if why != "" {
					bad = why
				}
				kinds = append(kinds, ks...)
			}
			return true
		})
	}
	if found == 0 || bad != "" {
		if bad == "" {
			bad = "value of type any that is not the result of parseField"
		}
		return false, bad
	}
	set := map[string]bool{}
	for _, k := range kinds {
		set[k] = true
		if !pvCases[k] {
			return false, "a producer may return a " + k + ", which parseVal rejects"
		}
	}
	return true, "producers yield " + strings.Join(keysOf(set), "|")
}

// producerKinds: the static types of the first result on every returning path of f (a function of this package returning (any, …)),
// read off its SX paths, so result variables, single-exit style and helpers do not matter.
func (c *Ctx) producerKinds(f *types.Func, pvCases map[string]bool, depth int) ([]string, string) {
	fd := c.DeclOf(f)
	if fd == nil || fd.Body == nil {
		return nil, "producer " + f.Name() + " has no body"
	}
	var kinds []string
	var kindOf func(t Term, d int) string
	kindOf = func(t Term, d int) string {
		if _, isNil := t.(TNil); isNil {
			kinds = append(kinds, "nil")
			return ""
		}
		if cv, ok := t.(TConv); ok && cv.To != nil && isEmptyIface(cv.To) {
			return kindOf(cv.X, d)
		}
		if tt := c.termType(t); tt != nil && !isEmptyIface(tt) {
			if _, isTuple := tt.(*types.Tuple); !isTuple {
				kinds = append(kinds, shortType(tt))
				return ""
			}
		}
		// a value of type any handed on from another producer of this package
		var call *TCall
		switch x := t.(type) {
		case TProj:
			if cl, ok := x.X.(TCall); ok && x.K == 0 {
				call = &cl
			}
		case TCall:
			call = &x
		}
		if call != nil && call.Fun != nil && call.Fun.Pkg() == c.Types && d < 3 {
			ks, why := c.producerKinds(call.Fun, pvCases, d+1)
			if why != "" {
				return why
			}
			kinds = append(kinds, ks...)
			return ""
		}
		return "producer " + f.Name() + " returns a value of type any of unknown origin: " + c.termStr(t)
	}
	x := c.NewSX()
	for _, p := range x.Run(fd) {
		if p.Why != "" {
			return nil, "producer " + f.Name() + " outside the path vocabulary: " + p.Why
		}
		if p.End != "return" {
			continue
		}
		if len(p.Vals) == 0 {
			return nil, "producer " + f.Name() + " returns nothing"
		}
		if why := kindOf(p.Vals[0], depth); why != "" {
			return nil, why
		}
	}
	return kinds, ""
}

func c04Determinism(c *Ctx) {
	core := parseClosure(c)
	c.R.Floor("C04.R6", len(core), 3)
	// what ParseList / ParseObject reach: there the outcome must be a function of the text alone. Reading the file is ParseFile's
	// business — in its own body or in a private reader it shares with other file-based entry points, not reachable from the text parsers
	fromText := map[string]bool{}
	{
		a := c.E3()
		var visit func(name string)
		visit = func(name string) {
			if fromText[name] {
				return
			}
			fromText[name] = true
			if fn := a.ByName(name); fn != nil {
				for _, cal := range a.calleeNames(fn) {
					visit(cal)
				}
			}
		}
		visit("ParseList")
		visit("ParseObject")
	}
	for _, fd := range core {
		name := declName(fd)
		why := ""
		ast.Inspect(fd.Body, func(n ast.Node) bool {
			switch x := n.(type) {
			case *ast.GoStmt:
				why = "go statement"
			case *ast.SelectStmt:
				why = "select statement"
			case *ast.RangeStmt:
				if t := c.typeOf(x.X); t != nil {
					if _, ok := t.Underlying().(*types.Map); ok {
						why = "range over a map (iteration order is random)"
					}
				}
			case *ast.CallExpr:
				if f := c.callee(x); f != nil && f.Pkg() != nil {
					switch f.Pkg().Path() {
					case "time", "math/rand", "math/rand/v2", "crypto/rand", "runtime":
						why = "call into " + f.Pkg().Path()
					case "os":
						if !(!fromText[name] && f.Name() == "ReadFile") {
							why = "call of os." + f.Name()
						}
					}
				}
			case *ast.Ident:
				if v, ok := c.Info.Uses[x].(*types.Var); ok && v.Pkg() == c.Types && v.Parent() == c.Types.Scope() {
					why = "use of package-level variable " + v.Name()
				}
			}
			return true
		})
		ob := c.Ob("C04.R6", name, fd.Pos())
		if why == "" {
			ob.Ok("no map iteration, goroutine, select, package-level state, clock or randomness: the outcome is a function of the input bytes")
		} else {
			ob.Fail("%s on the parse path: the same input need not give the same outcome", why)
		}
	}
	globalsRule(c, "C04.R6")
}

func c04ParseFile(c *Ctx) {
	fd := c.NeedDecl("C04.R7", "ParseFile")
	if fd == nil {
		return
	}
	ob := c.Ob("C04.R7", "ParseFile", fd.Pos())
	path := soleParam(c, fd)
	x := c.NewSX()
	x.NoInline["ParseObject"] = true
	paths := x.Run(fd)
	good := len(paths) > 0
	nOK, nErr := 0, 0
	for _, p := range paths {
		if p.Why != "" || p.End != "return" || len(p.Vals) != 2 {
			good = false
			break
		}
		// the only effect: one os.ReadFile(path) (the hand-over to ParseObject is the returned call)
		var read *TCall
		for _, st := range p.Effects() {
			switch {
			case st.Kind == "call" && st.Call != nil && st.Call.Fun != nil && st.Call.Fun.FullName() == "os.ReadFile" && read == nil && len(st.Call.Args) == 1 && isParamTerm(st.Call.Args[0], path):
				read = st.Call
			case st.Kind == "call" && st.Call != nil && st.Call.Fun != nil && st.Call.Fun.Name() == "ParseObject" && st.Call.Fun.Pkg() == c.Types:
			default:
				good = false
			}
		}
		if read == nil || !good {
			good = false
			break
		}
		data, rerr := Term(TProj{*read, 0}), Term(TProj{*read, 1})
		// the decision on this path: the read error is nil or not; nothing else is decided
		failed, decided := false, false
		for _, cd := range p.Conds() {
			b, ok := cd.T.(TBin)
			var other Term
			if ok && sameTerm(b.X, rerr) {
				other = b.Y
			} else if ok && sameTerm(b.Y, rerr) {
				other = b.X
			}
			if _, isNil := other.(TNil); !ok || !isNil || (b.Op != token.NEQ && b.Op != token.EQL) {
				good = false
				break
			}
			failed, decided = (b.Op == token.NEQ) == cd.Truth, true
		}
		if !decided || !good {
			good = false
			break
		}
		if failed {
			_, nilRes := p.Vals[0].(TNil)
			good = nilRes && sameTerm(p.Vals[1], rerr)
			nErr++
		} else {
			want := func(k int) bool {
				pr, ok := p.Vals[k].(TProj)
				if !ok || pr.K != k {
					return false
				}
				call, ok := pr.X.(TCall)
				if !ok || call.Fun == nil || call.Fun.Name() != "ParseObject" || call.Fun.Pkg() != c.Types || len(call.Args) != 1 {
					return false
				}
				cv, ok := call.Args[0].(TConv)
				return ok && isStringType(cv.To) && sameTerm(cv.X, data)
			}
			good = want(0) && want(1)
			nOK++
		}
		if !good {
			break
		}
	}
	good = good && nOK >= 1 && nErr >= 1
	if !good {
		// ParseObject's body spelled out after the read: the same paths as ParseObject's own, with its parameter = string(data)
		why := c04ParseFileInlined(c, fd, path)
		if os.Getenv("ANYCHECK_DEBUG") != "" {
			fmt.Fprintln(os.Stderr, "c04ParseFileInlined:", why)
		}
		if why == "" {
			ob.Ok("data, err := os.ReadFile(path); err => (nil, err); then exactly the paths of ParseObject with its argument = string(data) (ParseObject's body inlined) — the file's bytes unmodified")
			return
		}
		why = c04ParseFileFolded(c, fd, path)
		if os.Getenv("ANYCHECK_DEBUG") != "" {
			fmt.Fprintln(os.Stderr, "c04ParseFileFolded:", why)
		}
		if why == "" {
			ob.Ok("data, err := os.ReadFile(path); err => (nil, err); then code that, folded over all short inputs with string(data) as the text, hands the machine the same suffix and start line as ParseObject and passes its result through the same way — the file's bytes unmodified")
			return
		}
	}
	ob.Check(good, "data, err := os.ReadFile(path); err => (nil, err); return ParseObject(string(data)) — the file's bytes unmodified", "ParseFile is not os.ReadFile followed by ParseObject on the unmodified bytes (text before the root bracket and line numbers would differ)")
}

// pathSignature: a path as text, with memory epochs erased and function-local variables named by their order of appearance, so that
// two functions with the same body (up to the names and identities of their locals) give the same signatures.
func (c *Ctx) pathSignature(p *Path, sub func(Term) (Term, bool), first types.Object, more ...types.Object) string {
	names := map[types.Object]string{}
	if first != nil {
		names[first] = "L0"
	}
	for i, o := range more {
		if o != nil {
			names[o] = "P" + itoa(i)
		}
	}
	next := 1
	canon := func(t Term) Term {
		if sub != nil {
			t = mapTerm(t, sub)
		}
		return mapBU(t, func(u Term) Term {
			switch x := u.(type) {
			case TVar:
				if x.Obj != nil && isLocalVar(x.Obj) {
					if _, seen := names[x.Obj]; !seen {
						names[x.Obj] = "L" + itoa(next)
						next++
					}
					return TUnknown{names[x.Obj]}
				}
			case TSel:
				x.Epoch = 0
				return x
			case TProj:
				if ix, isIx := x.X.(TIndex); isIx && x.K == 0 {
					return ix // v, ok := m[k]: v is m[k]
				}
			case TIndex:
				x.Epoch = 0
				return x
			case TSlice:
				x.Epoch = 0
				return x
			case TCall:
				x.Epoch = 0
				return x
			case TBuiltin:
				if x.Epoch > 0 {
					x.Epoch = 0
				}
				return x
			case TDeref:
				x.Epoch = 0
				return x
			}
			return u
		})
	}
	var sb strings.Builder
	for _, st := range p.Steps {
		switch st.Kind {
		case "cond":
			ct, truth := st.Cond.T, st.Cond.Truth
			if b, ok := ct.(TBin); ok && b.Op == token.LEQ && intLike(b.X) && intLike(b.Y) {
				// over integers `x <= y` is `!(y < x)`: one spelling for a bounds test and its negation
				ct, truth = TBin{token.LSS, b.Y, b.X}, !truth
			}
			sb.WriteString("if[" + boolStr(truth) + "] " + key(canon(ct)) + "; ")
		case "store":
			sb.WriteString("store " + key(canon(st.LHS)) + " = " + key(canon(st.RHS)) + "; ")
		case "call":
			if st.Call != nil {
				sb.WriteString("call " + key(canon(*st.Call)) + "; ")
			} else if st.Blt != nil {
				sb.WriteString("call " + key(canon(*st.Blt)) + "; ")
			}
		default:
			sb.WriteString(st.Kind + "; ")
		}
	}
	sb.WriteString("=> " + p.End)
	for _, t := range p.Vals {
		sb.WriteString(" " + key(canon(t)))
	}
	return sb.String()
}

// c04ParseFileInlined: "" when ParseFile is os.ReadFile(path), (nil, err) on failure, and otherwise path for path what ParseObject does
// with string(data).
func c04ParseFileInlined(c *Ctx, fd *ast.FuncDecl, path types.Object) string {
	po := c.Decl("ParseObject")
	if po == nil {
		return "ParseObject not found"
	}
	jsonPar := soleParam(c, po)
	if jsonPar == nil {
		return "ParseObject does not take one parameter"
	}
	want := map[string]int{}
	for _, p := range c.NewSX().Run(po) {
		if p.Why != "" {
			return p.Why
		}
		want[c.pathSignature(p, nil, jsonPar)]++ // the parameter is L0
	}
	nErr := 0
	for _, p := range c.NewSX().Run(fd) {
		if p.Why != "" {
			return p.Why
		}
		// prefix: the read and the decision on its error
		if len(p.Steps) < 2 || p.Steps[0].Kind != "call" || p.Steps[0].Call == nil || p.Steps[0].Call.Fun == nil || p.Steps[0].Call.Fun.FullName() != "os.ReadFile" ||
			len(p.Steps[0].Call.Args) != 1 || !isParamTerm(p.Steps[0].Call.Args[0], path) || p.Steps[1].Kind != "cond" {
			return "ParseFile does not start with os.ReadFile(path) and the test of its error"
		}
		read := *p.Steps[0].Call
		data, rerr := Term(TProj{read, 0}), Term(TProj{read, 1})
		b, ok := p.Steps[1].Cond.T.(TBin)
		if !ok || (b.Op != token.EQL && b.Op != token.NEQ) {
			return "the first decision is not on the read error"
		}
		var other Term
		if sameTerm(b.X, rerr) {
			other = b.Y
		} else if sameTerm(b.Y, rerr) {
			other = b.X
		}
		if _, isNil := other.(TNil); !isNil {
			return "the first decision is not on the read error"
		}
		failed := (b.Op == token.NEQ) == p.Steps[1].Cond.Truth
		if failed {
			_, nilRes := p.Vals[0].(TNil)
			if len(p.Steps) != 2 || p.End != "return" || len(p.Vals) != 2 || !nilRes || !sameTerm(p.Vals[1], rerr) {
				return "a failed read does not return (nil, err) at once"
			}
			nErr++
			continue
		}
		rest := *p
		rest.Steps = p.Steps[2:]
		text := Term(TConv{To: types.Typ[types.String], X: data})
		sig := c.pathSignature(&rest, func(t Term) (Term, bool) {
			if cv, ok := t.(TConv); ok && isStringType(cv.To) && sameTerm(cv.X, data) {
				return TUnknown{"L0"}, true // string(data) plays the part of ParseObject's parameter
			}
			return nil, false
		}, nil)
		_ = text
		if want[sig] == 0 {
			return "a path after the read is not a path of ParseObject: " + sig
		}
		want[sig]--
	}
	for sig, n := range want {
		if n != 0 {
			return "a path of ParseObject has no counterpart in ParseFile: " + sig
		}
	}
	if nErr == 0 {
		return "no path for a failed read"
	}
	return ""
}

// c04ParseFileFolded: the code after the read is not ParseObject's text, but does what ParseObject does: folded over all short inputs
// (the alphabet and depth of the wrapper rule) both hand the machine the same suffix and the same start line, pass its result through
// the same way, or both return only an error.
func c04ParseFileFolded(c *Ctx, fd *ast.FuncDecl, path types.Object) string {
	po := c.Decl("ParseObject")
	if po == nil {
		return "ParseObject not found"
	}
	paths, why := c.runPaths(fd)
	if why != "" {
		return why
	}
	var rest []*Path
	var data Term
	nErr := 0
	for _, p := range paths {
		if len(p.Steps) < 2 || p.Steps[0].Kind != "call" || p.Steps[0].Call == nil || p.Steps[0].Call.Fun == nil || p.Steps[0].Call.Fun.FullName() != "os.ReadFile" ||
			len(p.Steps[0].Call.Args) != 1 || !isParamTerm(p.Steps[0].Call.Args[0], path) || p.Steps[1].Kind != "cond" {
			return "ParseFile does not start with os.ReadFile(path) and the test of its error"
		}
		read := *p.Steps[0].Call
		rerr := Term(TProj{read, 1})
		data = TProj{read, 0}
		b, ok := p.Steps[1].Cond.T.(TBin)
		if !ok || (b.Op != token.EQL && b.Op != token.NEQ) {
			return "the first decision is not on the read error"
		}
		var other Term
		if sameTerm(b.X, rerr) {
			other = b.Y
		} else if sameTerm(b.Y, rerr) {
			other = b.X
		}
		if _, isNil := other.(TNil); !isNil {
			return "the first decision is not on the read error"
		}
		if (b.Op == token.NEQ) == p.Steps[1].Cond.Truth {
			_, nilRes := p.Vals[0].(TNil)
			if len(p.Steps) != 2 || p.End != "return" || len(p.Vals) != 2 || !nilRes || !sameTerm(p.Vals[1], rerr) {
				return "a failed read does not return (nil, err) at once"
			}
			nErr++
			continue
		}
		q := *p
		q.Steps = p.Steps[2:]
		rest = append(rest, &q)
	}
	if nErr == 0 || len(rest) == 0 {
		return "no path for a failed read / a successful one"
	}
	isInput := func(t Term) bool {
		cv, ok := t.(TConv)
		return ok && isStringType(cv.To) && sameTerm(eraseEpochs(cv.X), eraseEpochs(data))
	}
	// the bytes read may be used as the text only: any other mention (a slice of them, a write into them) is not the unmodified file
	for _, p := range rest {
		bad := false
		chk := func(t Term) {
			if t == nil {
				return
			}
			var walk func(t Term, underConv bool)
			walk = func(t Term, underConv bool) {
				if isInput(t) {
					return
				}
				if sameTerm(eraseEpochs(t), eraseEpochs(data)) {
					bad = true
					return
				}
				mapKids(t, func(k Term) Term { walk(k, false); return k })
			}
			walk(t, false)
		}
		for _, st := range p.Steps {
			chk(st.Cond.T)
			chk(st.LHS)
			chk(st.RHS)
			if st.Call != nil {
				chk(*st.Call)
			}
			if st.Blt != nil {
				chk(*st.Blt)
			}
			if st.Kind == "loop" {
				return "a loop after the read"
			}
		}
		for _, t := range p.Vals {
			chk(t)
		}
		if bad {
			return "the bytes read are used other than as string(data)"
		}
	}
	cases := 0
	for _, s := range shortStrings("[{\na", c.depth(4, 6)) {
		want, why := wrapperFold(c, po, "parseObject", s)
		if why != "" || want.why != "" {
			return "ParseObject cannot be folded: " + why + want.why
		}
		got, why := wrapperFoldPaths(c, rest, isInput, "parseObject", s)
		if why != "" || got.why != "" {
			return "the code after the read cannot be folded: " + why + got.why
		}
		if got != want {
			return "input " + strconv.Quote(s) + ": ParseObject and the code after the read differ"
		}
		cases++
	}
	if cases == 0 {
		return "nothing folded"
	}
	return ""
}

// ---------------------------------------------------------------- C20

func init() {
	register(&Property{
		ID: "C20",
		Explanation: "The line counter: in both machines a single `if char == '\\n' { *line++ }` sits at loop-body level right after the decode guard (so it is executed once per decoded rune, before the state switch); the extracted transition table confirms a delta of [class = NL] " +
			"for every (state, class, flags) entry; nothing else writes *line or rebinds line; the 4 nested calls pass the identical pointer and the nested region is skipped by i += pos (no second count); the seeds are strings.Count(json[:start], \"\\n\") + 1 with the bracket offset that is passed on; " +
			"every `line %d` in an error format takes *line (machines) or the line parameter of a helper whose call sites pass *line; ParseFile hands the file's bytes on unmodified. The arithmetic of strings.Count is trusted.",
		Rules: []Rule{
			{ID: "C20.R1", Doc: "one increment per newline: statement position, uniqueness, and table delta = [class = NL] for all entries", Run: c20Counter},
			{ID: "C20.R2", Doc: "nested calls pass the identical line pointer; nested region not re-counted (i += pos)", Run: func(c *Ctx) {}},
			{ID: "C20.R3", Doc: "seeds: startLine = strings.Count(json[:start], \"\\n\") + 1 for the start passed on; &startLine handed to the machine; ParseFile passes the bytes unmodified", Run: c20Seeds},
			{ID: "C20.R5", Doc: "no error is raised on a line break itself (the counter moves before the state switch: such a message would cite the following line)", Run: func(c *Ctx) {}},
			{ID: "C20.R4", Doc: "every `line %d` in an error format receives *line (or a helper's line parameter fed with *line at the delimiter)", Run: c20Formats},
		},
	})
}

func c20Counter(c *Ctx) {
	for _, m := range c.machines().each() {
		if !machineReady(c, "C20.R1", m) {
			continue
		}
		if m.undecidedOb(c, "C20.R1") {
			continue
		}
		// single writer: outside the main loop nothing writes *line; inside, the table decides the delta
		sm := m.sx()
		n := 0
		check := func(steps []Step) {
			for _, st := range steps {
				if st.Kind == "store" {
					if d, ok := st.LHS.(TDeref); ok && isParamTerm(d.X, m.lineV) {
						n++
					}
				}
			}
		}
		check(sm.prelude)
		if sm.after != nil {
			check(sm.after.Steps[len(sm.prelude):])
		}
		c.Ob("C20.R1", m.name+"/single-writer", m.fn.Pos()).Check(n == 0 && !writesVar(c, m.fn.Body, m.lineV), "outside the per-rune step nothing writes *line, and `line` is never rebound", itoa(n)+" write(s) to the line counter outside the per-rune step (or line is rebound)")
		// table delta
		bad, cnt := "", 0
		var bpos token.Pos
		for _, r := range m.table() {
			if r.Class.Name == "BADUTF8" || r.Class.Name == "EMPTY" {
				continue
			}
			for _, ex := range r.Exits {
				lines := 0
				for _, a := range ex.Env.Acts {
					if a.Op == "LINE" {
						lines++
					}
				}
				want := 0
				if r.Class.Name == "NL" {
					want = 1
				}
				cnt++
				if lines != want && bad == "" {
					bad = fmt.Sprintf("state=%s class=%s: line counter moves by %d, expected %d", r.State, r.Class.Name, lines, want)
					bpos = ex.Pos
				}
			}
		}
		// R5: the counter moves before the state is examined, so an error raised on the line break itself would cite the line after it
		nlErr, nlRows := "", 0
		var nlPos token.Pos
		for _, r := range m.table() {
			if r.Class.Name != "NL" {
				continue
			}
			nlRows++
			for _, ex := range r.Exits {
				if ex.Kind == "ERR" && ex.Note != "propagated" && nlErr == "" {
					nlErr = fmt.Sprintf("state=%s: an error is raised while the machine looks at a line break; the counter has already moved, so the message cites the line after the break, not the line of the character at which the error was detected", r.State)
					nlPos = ex.Pos
				}
			}
		}
		if nlErr == "" {
			c.Ob("C20.R5", m.name+"/no-error-on-line-break", m.loop.Pos()).Ok("no error exit in the %d (state, flags) entries for the line-break class: every cited line is that of a character behind which the counter has not moved", nlRows)
		} else {
			c.Ob("C20.R5", m.name+"/no-error-on-line-break", nlPos).Fail("%s", nlErr)
		}
		tob := c.Ob("C20.R1", m.name+"/table-delta", bpos)
		if bad == "" {
			c.Ob("C20.R1", m.name+"/table-delta", m.loop.Pos()).Ok("line delta = [class = NL] on all %d exits of the transition table", cnt)
		} else {
			tob.Fail("%s", bad)
		}
		// R2: nested calls (recognised by E5 only when they receive the identical `line` pointer and json[i:]; anything else is UNDECIDED above)
		sites := map[token.Pos]bool{}
		for _, r := range m.table() {
			for _, ex := range r.Exits {
				for _, a := range ex.Env.Acts {
					if a.Op == "NESTED" {
						sites[a.Pos] = true
					}
				}
			}
		}
		k := 0
		var ps []token.Pos
		for p := range sites {
			ps = append(ps, p)
		}
		sort.Slice(ps, func(i, j int) bool { return ps[i] < ps[j] })
		for _, p := range ps {
			k++
			c.Ob("C20.R2", m.name+"/nested-call#"+itoa(k), p).Ok("nested machine receives the identical line pointer and json[i:]; its region is skipped by i += pos exactly once (C04.R2)")
		}
		c.R.Floor("C20.R2/"+m.name, k, 2)
		// R4 (part): consumers receive *line
		var ks []token.Pos
		for p := range m.lineArgOK {
			ks = append(ks, p)
		}
		sort.Slice(ks, func(i, j int) bool { return ks[i] < ks[j] })
		for i, p := range ks {
			c.Ob("C20.R4", m.name+"/consumer-line-arg#"+itoa(i+1), p).Check(m.lineArgOK[p], "helper is given *line, evaluated at the delimiter that ends the token", "a helper that formats a line number is not given *line")
		}
	}
}

func c20Seeds(c *Ctx) {
	n := 0
	for _, spec := range []struct{ name, machine, bracket string }{{"ParseList", "parseList", "["}, {"ParseObject", "parseObject", "{"}} {
		fd := c.NeedDecl("C20.R3", spec.name)
		if fd == nil {
			continue
		}
		n++
		ob := c.Ob("C20.R3", spec.name+"/seed", fd.Pos())
		bad, undec, cases := "", "", 0
		for _, s := range shortStrings("[{\na", c.depth(4, 6)) {
			idx := strings.Index(s, spec.bracket)
			if idx < 0 {
				continue
			}
			obs, why := wrapperFold(c, fd, spec.machine, s)
			if why != "" {
				undec = why
				break
			}
			if obs.why != "" {
				undec = obs.why
				break
			}
			cases++
			want := int64(1 + strings.Count(s[:idx], "\n"))
			if !obs.called || !obs.lineOK {
				undec = "input " + strconv.Quote(s) + ": the start line handed to the machine cannot be folded (it must be a variable assigned before the call and passed by address)"
				break
			}
			if obs.line != want {
				bad = "input " + strconv.Quote(s) + ": the machine's line counter starts at " + itoa(int(obs.line)) + ", the root bracket is on line " + itoa(int(want))
				break
			}
		}
		switch {
		case undec != "":
			ob.Undecided("%s", undec)
		case bad != "":
			ob.Fail("the machine's line counter is not seeded with 1 + the number of newlines before the root bracket: %s", bad)
		default:
			ob.Ok("for all %d inputs with a root bracket (length <= "+itoa(c.depth(4, 6))+" over {'[', '{', newline, letter}) the counter handed to the machine by address starts at 1 + newlines before the bracket", cases)
		}
	}
	c.R.Floor("C20.R3", n, 2)
	c04ParseFileAs(c, "C20.R3")
}

func c04ParseFileAs(c *Ctx, rule string) {
	// same decision as C04.R7, reported under the given rule id
	r := newReport("tmp")
	c2 := *c
	c2.R = r
	c04ParseFile(&c2)
	for _, o := range r.obls {
		o.Rule = rule
		c.R.add(o)
	}
}

// c20Formats: on every path of the parser core that returns a constructed error, every integer that flows into the message is the
// line counter: *line read after the iteration's increment (machines), or the helper's line parameter (token consumers, whose call
// sites pass *line — see consumer-line-arg).
func c20Formats(c *Ctx) {
	stringerArg = func(t Term) bool {
		tt := c.termType(t)
		if tt == nil {
			return false
		}
		for _, name := range []string{"String", "Error"} {
			if obj, _, _ := types.LookupFieldOrMethod(tt, true, c.Types, name); obj != nil {
				if f, ok := obj.(*types.Func); ok {
					if sig, ok := f.Type().(*types.Signature); ok && sig.Params().Len() == 0 && sig.Results().Len() == 1 && isStringType(sig.Results().At(0).Type()) {
						return true
					}
				}
			}
		}
		return false
	}
	defer func() { stringerArg = nil }()
	n := 0
	for _, fd := range parserCore(c) {
		name := declName(fd)
		var linePtr, lineInt types.Object
		if fd.Type.Params != nil {
			for _, f := range fd.Type.Params.List {
				t := c.typeOf(f.Type)
				for _, nm := range f.Names {
					if p, ok := t.(*types.Pointer); ok && types.Identical(p.Elem().Underlying(), types.Typ[types.Int]) {
						linePtr = c.Info.Defs[nm] // *int, or a pointer to a named counter type
					} else if types.Identical(t.Underlying(), types.Typ[types.Int]) {
						lineInt = c.Info.Defs[nm]
					}
				}
			}
		}
		if linePtr == nil && lineInt == nil {
			continue
		}
		x := c.NewSX()
		x.budget = 200000
		paths := x.Run(fd)
		var all []*Path
		var collect func(ps []*Path)
		collect = func(ps []*Path) {
			for _, p := range ps {
				all = append(all, p)
				for _, st := range p.Steps {
					if st.Kind == "loop" {
						collect(st.Loop.Iter)
					}
				}
			}
		}
		collect(paths)
		seen := map[string]bool{}
		for _, p := range all {
			if p.End != "return" || len(p.Vals) == 0 {
				continue
			}
			errT := p.Vals[len(p.Vals)-1]
			var fargs []Term
			call, ok := errT.(TCall)
			if ok && call.Fun != nil && (call.Fun.FullName() == "fmt.Errorf" || call.Fun.FullName() == "errors.New") {
				fargs = unpack(call.Args)
				if call.Fun.FullName() == "fmt.Errorf" {
					fargs = numericArgs(fargs)
				}
			} else {
				// a typed failure value, &SyntaxError{Line: …, Msg: …}: every field may be printed by its Error() method — every
				// integer among them (and in the messages they were formatted from) must be the line counter
				t := errT
				if cv, isCv := t.(TConv); isCv {
					t = cv.X
				}
				ad, isAd := t.(TAddr)
				lit, isLit := ad.X.(TLit)
				if !isAd || !isLit || lit.Type == nil {
					debugf("c20Formats %s: returned %s\n", name, c.termStr(errT))
					continue
				}
				if _, isStruct := lit.Type.Underlying().(*types.Struct); !isStruct || !types.Implements(types.NewPointer(lit.Type), types.Universe.Lookup("error").Type().Underlying().(*types.Interface)) {
					continue
				}
				for _, el := range lit.Elts {
					if k, isK := constInt(el); isK && k == 0 {
						continue // Line: 0 — "cites no line"
					}
					fargs = append(fargs, el)
				}
			}
			// integers flowing into the message
			var ints []Term
			for _, a := range fargs {
				collectInts(a, &ints)
			}
			if len(ints) == 0 {
				debugf("c20Formats %s: no integers in %s\n", name, c.termStr(errT))
				continue
			}
			k := c.Pos(posOfNode(p.Node))
			if seen[k] {
				continue
			}
			seen[k] = true
			n++
			ob := c.Ob("C20.R4", name+"/error#"+itoa(n), posOfNode(p.Node))
			// epoch of the line increment on this path (if any)
			incEpoch := -1
			ep := 0
			for _, st := range p.Steps {
				if st.Kind == "store" || st.Kind == "call" {
					ep++
				}
				if st.Kind == "store" {
					if d, ok := st.LHS.(TDeref); ok && linePtr != nil && isParamTerm(d.X, linePtr) {
						incEpoch = ep
					}
				}
			}
			_ = incEpoch
			good := true
			for _, it := range ints {
				for {
					cv, isConv := it.(TConv)
					if !isConv || !isIntType(cv.To) {
						break
					}
					it = cv.X // int(*line) of a named counter type
				}
				switch v := it.(type) {
				case TDeref:
					if linePtr == nil || !isParamTerm(v.X, linePtr) {
						good = false
					}
				case TVar:
					if lineInt == nil || v.Obj != lineInt {
						good = false
					}
				default:
					good = false
				}
			}
			if good {
				ob.Ok("the only integer in the error message is the line counter (%s)", map[bool]string{true: "*line", false: "the helper's line parameter"}[linePtr != nil])
			} else {
				ob.Fail("an error message cites an integer that is not the line counter: %s", c.termStr(errT))
			}
		}
	}
	c.R.Floor("C20.R4", n, 3)
}

// intValued: the term evidently denotes an integer (a variable, a dereferenced counter, a constant, a length, a call returning an
// integer, a conversion to an integer type, arithmetic on those).
func intValued(t Term) bool {
	switch x := t.(type) {
	case TDeref:
		return true
	case TVar:
		return isIntType(x.Obj.Type())
	case TLoop:
		return isIntType(x.Obj.Type())
	case TConst:
		return x.Val.Kind() == constant.Int
	case TConv:
		return isIntType(x.To)
	case TBuiltin:
		return x.Name == "len" || x.Name == "cap"
	case TCall:
		if x.Fun != nil {
			if sig, ok := x.Fun.Type().(*types.Signature); ok && sig.Results().Len() == 1 {
				return isIntType(sig.Results().At(0).Type())
			}
		}
	case TBin:
		switch x.Op {
		case token.ADD, token.SUB, token.MUL, token.QUO, token.REM:
			return intValued(x.X) && intValued(x.Y)
		}
	}
	return false
}

// collectInts gathers the integer-typed leaves that are formatted into a message: arguments of Errorf/Sprintf and of Itoa/FormatInt.
// numericArgs: the arguments of a formatting call that can print as numbers: with a constant format, those under the character
// verbs %c, %q and %U are left out (an integer there prints as a character, not as a number).
// stringerArg: set by the rule that uses numericArgs — the argument's static type has a String() or Error() method.
var stringerArg func(Term) bool

func numericArgs(args []Term) []Term {
	if len(args) == 0 {
		return args
	}
	format, ok := isConstStringTerm(args[0])
	if !ok {
		return args
	}
	var out []Term
	rest := args[1:]
	for i := 0; i < len(format); i++ {
		if format[i] != '%' {
			continue
		}
		i++
		for i < len(format) && strings.ContainsRune("+-# 0123456789.", rune(format[i])) {
			i++
		}
		if i >= len(format) {
			break
		}
		if format[i] == '%' {
			continue
		}
		if format[i] == '*' || format[i] == '[' {
			return args // width from an argument / explicit indexes: not analysed, every argument counts
		}
		if len(rest) == 0 {
			break
		}
		switch {
		case strings.ContainsRune("cqU", rune(format[i])):
		case strings.ContainsRune("sv", rune(format[i])) && stringerArg != nil && stringerArg(rest[0]):
			// an enumeration with a String() method under %s / %v prints its name, not a number
		default:
			out = append(out, rest[0])
		}
		rest = rest[1:]
	}
	return append(out, rest...)
}

func collectInts(t Term, out *[]Term) {
	switch x := t.(type) {
	case TDeref:
		*out = append(*out, x)
	case TVar:
		if isIntType(x.Obj.Type()) {
			*out = append(*out, x)
		}
	case TLoop:
		if isIntType(x.Obj.Type()) {
			*out = append(*out, x)
		}
	case TConv:
		if b, ok := x.To.Underlying().(*types.Basic); ok && b.Info()&types.IsString != 0 {
			return // string(char): a character, not a number
		}
		collectInts(x.X, out)
	case TBin:
		// arithmetic on integers (`line - strings.Count(str, "\n")`, `line + 1`) is a number of its own, not the operands: it is handed
		// on whole (and is then not the line counter); `+` on text is concatenation and is looked into
		if x.Op != token.ADD || intValued(x.X) || intValued(x.Y) {
			if intValued(x.X) || intValued(x.Y) {
				*out = append(*out, x)
				return
			}
		}
		collectInts(x.X, out)
		collectInts(x.Y, out)
	case TCall:
		if x.Fun != nil {
			switch x.Fun.FullName() {
			case "fmt.Sprintf":
				for _, a := range numericArgs(unpack(x.Args)) {
					collectInts(a, out)
				}
			case "strconv.Itoa", "strconv.FormatInt", "fmt.Sprint":
				for _, a := range unpack(x.Args) {
					collectInts(a, out)
				}
			}
		}
	case TLit:
		for _, e := range x.Elts {
			collectInts(e, out)
		}
	}
}

// c04ConsumersTotal folds every helper of the parser core that takes token text (a string parameter; not the machines and their wrappers,
// whose input access is decided by C04.R5) over all short tokens: on every path, conditions are evaluated in order (a condition that
// cannot be folded — the result of a library call — leaves both outcomes open) and every index/slice of a string that is reached must be
// within bounds.
func c04ConsumersTotal(c *Ctx) {
	n := 0
	machines := map[string]bool{"parseList": true, "parseObject": true, "ParseList": true, "ParseObject": true, "ParseFile": true}
	for _, fd := range parserCore(c) {
		name := declName(fd)
		if machines[name] {
			continue
		}
		par := soleStringParam(c, fd)
		if par == nil {
			continue
		}
		// token consumers only: func(token string, …) (T, error) — the functions the machines call as opaque consumers. Other helpers are
		// inlined into the machines and their accesses to the rest of the input are decided there (C04.R5 input-access).
		sig, _ := c.FuncObj(fd).Type().(*types.Signature)
		if sig == nil || sig.Results().Len() != 2 || !types.Identical(sig.Results().At(1).Type(), types.Universe.Lookup("error").Type()) || sig.Params().Len() == 0 || !hasTokenParam(sig) {
			continue
		}
		n++
		ob := c.Ob("C04.R9", name+"/total", fd.Pos())
		paths := c.NewSX().Run(fd)
		bad, undec := "", ""
		for _, p := range paths {
			if p.Why != "" {
				undec = p.Why
			}
		}
		inputs := shortStrings("-+0.1e\"a", c.depth(3, 4))
		for _, in := range inputs {
			if bad != "" || undec != "" {
				break
			}
			hook := func(t Term) (sval, bool) {
				if isParamTerm(t, par) {
					return sval{K: 's', S: in}, true
				}
				return sval{}, false
			}
			for _, p := range paths {
				feasible := true
				check := func(t Term) {
					collectSubterms(t, func(u Term) {
						switch u.(type) {
						case TIndex, TSlice:
							se := &strEnv{hook: hook}
							_, ok := se.val(u)
							if se.panic != "" && bad == "" {
								bad = "token " + strconv.Quote(in) + ": " + c.termStr(u) + ": " + se.panic
							}
							if !ok && se.panic == "" && undec == "" {
								// an index or slice of a text whose bounds cannot be folded (an offset reported by a library call): not shown in range
								var base Term
								var bounds []Term
								switch y := u.(type) {
								case TIndex:
									base, bounds = y.X, []Term{y.I}
								case TSlice:
									base, bounds = y.X, []Term{y.Lo, y.Hi}
								}
								// … a number loaded from memory (a field of an error value a decoder filled in): nothing in the helper bounds it.
								// Bounds over another parameter or a loop variable are decided where the helper is inlined / by the loop rules.
								loaded := false
								for _, b := range bounds {
									collectSubterms(b, func(w Term) {
										switch w.(type) {
										case TSel, TDeref:
											loaded = true
										}
									})
								}
								if tt := c.termType(base); loaded && tt != nil && isStringType(tt) {
									undec = "token " + strconv.Quote(in) + ": " + c.termStr(u) + ": the bounds cannot be folded (" + se.fail + "), so the access is not shown to stay within the text"
								}
							}
						}
					})
				}
				for _, st := range p.Steps {
					if !feasible || bad != "" {
						break
					}
					if st.Kind == "cond" {
						// sub-terms of the condition are evaluated left to right with short-circuiting by SX's path split: each atom is its own step
						check(st.Cond.T)
						se := &strEnv{hook: hook}
						v, ok := se.val(st.Cond.T)
						if ok && se.panic == "" && v.K == 'b' && v.B != st.Cond.Truth {
							feasible = false
						}
						continue
					}
					check(st.LHS)
					check(st.RHS)
					if st.Call != nil {
						check(*st.Call)
					}
				}
				if feasible && bad == "" {
					for _, v := range p.Vals {
						check(v)
					}
				}
			}
		}
		switch {
		case undec != "":
			ob.Undecided("helper outside the path vocabulary: %s", undec)
		case bad != "":
			ob.Fail("a token makes the parser panic instead of returning an error: %s", bad)
		default:
			ob.Ok("no index or slice of a string goes out of range on any of the %d tokens of length <= "+itoa(c.depth(3, 4)), len(inputs))
		}
	}
	c.R.Floor("C04.R9", n, 2)
}

// constCharsOf: the ASCII characters (outside `base`) that occur in the constants of fd's normalised paths — bytes compared with, strings
// searched for — at most max of them, in code order of first appearance.
func (c *Ctx) constCharsOf(fd *ast.FuncDecl, base string, max int) string {
	paths, why := c.runPaths(fd)
	if why != "" {
		return ""
	}
	out := ""
	add := func(r rune) {
		if r < 0x20 && r != '\n' || r > 0x7e || strings.ContainsRune(base, r) || strings.ContainsRune(out, r) || len(out) >= max {
			return
		}
		out += string(r)
	}
	var walkT func(t Term)
	walkT = func(t Term) {
		collectSubterms(t, func(u Term) {
			switch x := u.(type) {
			case TConst:
				if s, ok := isConstStringTerm(x); ok {
					if len(s) <= 3 { // search keys, not messages
						for _, r := range s {
							add(r)
						}
					}
				}
			case TBin:
				// a byte or rune compared with a character constant
				switch x.Op {
				case token.EQL, token.NEQ, token.LSS, token.LEQ, token.GTR, token.GEQ:
					for _, pair := range [][2]Term{{x.X, x.Y}, {x.Y, x.X}} {
						if k, ok := constInt(pair[1]); ok && k >= 0x21 && k <= 0x7e {
							if tt := c.termType(pair[0]); tt != nil {
								if b, isB := tt.Underlying().(*types.Basic); isB && (b.Kind() == types.Uint8 || b.Kind() == types.Int32) {
									add(rune(k))
								}
							}
						}
					}
				}
			}
		})
	}
	var walkP func(p *Path)
	walkP = func(p *Path) {
		for _, s := range p.Steps {
			walkT(s.Cond.T)
			walkT(s.LHS)
			walkT(s.RHS)
			if s.Call != nil {
				walkT(*s.Call)
			}
			if s.Blt != nil {
				walkT(*s.Blt)
			}
			if s.Loop != nil {
				walkT(s.Loop.CondT)
				for _, ip := range s.Loop.Iter {
					walkP(ip)
				}
			}
		}
		for _, t := range p.Vals {
			walkT(t)
		}
	}
	for _, p := range paths {
		walkP(p)
	}
	return out
}

func hasTokenParam(sig *types.Signature) bool {
	_, ok := tokenParam(sig)
	return ok
}
