package main

// Kind arms: a type switch (or a chain of comma-ok tests) on a stored element that handles some concrete kinds by hand and leaves the
// rest to the interface (`case *atString: return &atString{val: v.val} … default: return parseVal(value.copy())`).
//
// The hand-written arm for a concrete type W is redundant exactly when it does what the default arm does for a W. That is decided by
// partial evaluation, not by search: the default paths are specialised to "the operand is a W" — every interface call on the operand is
// replaced by the body of W's own method (its paths, re-executed from the declaration, receiver bound to the asserted operand);
// parseVal applied to a value of a known static type is replaced by the arm of parseVal's own switch that such a value takes; calls of
// small allocation helpers (the wrapper constructors) are replaced by their bodies — and the result is compared, path for path, with the
// arm. When every arm agrees, the switch says nothing the default does not say, and the paths are presented as the default alone.
// Nothing is assumed about what the arms "should" contain; an arm that differs in any term keeps the switch in place and the rules see it.

import (
	"fmt"
	"go/ast"
	"go/constant"
	"go/token"
	"go/types"
	"os"
	"sort"
	"strings"
)

type armNorm struct {
	c      *Ctx
	mcache map[*types.Func][]*Path
	loops  map[*LoopRec]*LoopRec // a loop shared by several paths stays one loop
	merged map[*LoopRec]bool     // rewritten loops whose rounds were presented as the default alone
	next   int                   // allocation identities for inlined bodies (each inlining allocates anew)
}

// renew gives the allocations of an inlined body identities of their own.
func (a *armNorm) renew(t Term) Term {
	m := map[int]int{}
	var f func(t Term) (Term, bool)
	f = func(t Term) (Term, bool) {
		if x, ok := t.(TLit); ok && x.Fresh != 0 {
			n, seen := m[x.Fresh]
			if !seen {
				a.next++
				n = 1000000 + a.next
				m[x.Fresh] = n
			}
			y := x
			y.Fresh = n
			y.Elts = make([]Term, len(x.Elts))
			for i, e := range x.Elts {
				y.Elts[i] = mapTerm(e, f)
			}
			return y, true
		}
		return nil, false
	}
	return mapTerm(t, f)
}

func (c *Ctx) kindArmNorm(paths []*Path) []*Path {
	if c.Inv().Field == nil {
		return paths
	}
	a := &armNorm{c: c, mcache: map[*types.Func][]*Path{}, loops: map[*LoopRec]*LoopRec{}, merged: map[*LoopRec]bool{}}
	return a.list(paths)
}

// list normalises one list of alternative paths (a function's paths or the paths of one loop round), loops first.
func (a *armNorm) list(paths []*Path) []*Path {
	out := make([]*Path, len(paths))
	for i, p := range paths {
		out[i] = a.inner(p)
	}
	for round := 0; round < 4; round++ {
		r, ok := a.once(out)
		if !ok {
			break
		}
		out = r
	}
	return out
}

func (a *armNorm) inner(p *Path) *Path {
	var q *Path
	for k, s := range p.Steps {
		if s.Kind != "loop" || s.Loop == nil {
			continue
		}
		if done, ok := a.loops[s.Loop]; ok {
			if done != s.Loop {
				if q == nil {
					q = clonePath(p)
					q.Steps = append([]Step(nil), p.Steps...)
				}
				ns := s
				ns.Loop = done
				q.Steps[k] = ns
			}
			continue
		}
		iter := a.list(s.Loop.Iter)
		same := len(iter) == len(s.Loop.Iter)
		if same {
			for i := range iter {
				if iter[i] != s.Loop.Iter[i] {
					same = false
				}
			}
		}
		if same {
			a.loops[s.Loop] = s.Loop
			continue
		}
		if q == nil {
			q = clonePath(p)
			q.Steps = append([]Step(nil), p.Steps...)
		}
		l := *s.Loop
		l.Iter = iter
		ns := s
		ns.Loop = &l
		a.loops[s.Loop] = &l
		a.merged[&l] = true
		q.Steps[k] = ns
	}
	if q == nil {
		return p
	}
	return q
}

// implType: T is *N for a named struct type of this package whose pointer implements the field interface.
func (a *armNorm) implType(T types.Type) *types.Named {
	p, ok := T.(*types.Pointer)
	if !ok {
		return nil
	}
	n, ok := p.Elem().(*types.Named)
	if !ok {
		return nil
	}
	for _, im := range a.c.Inv().Impls {
		if im.Obj() == n.Obj() {
			return n
		}
	}
	return nil
}

func (a *armNorm) once(paths []*Path) ([]*Path, bool) {
	c := a.c
	field := c.Inv().Field
	// the operand: the first field-typed term some path tests for a concrete implementer
	var X Term
	for _, p := range paths {
		for _, cd := range p.Conds() {
			op, T, ok := kindTestOf(cd.T)
			if !ok || T == nil || a.implType(T) == nil {
				continue
			}
			if t := c.termType(op); t != nil && types.Identical(t, field) {
				X = op
				break
			}
		}
		if X != nil {
			break
		}
	}
	if X == nil {
		return nil, false
	}
	isTest := func(cd Cond) (types.Type, bool) {
		op, T, ok := kindTestOf(cd.T)
		if !ok || T == nil || a.implType(T) == nil || !sameTerm(op, X) {
			return nil, false
		}
		return T, true
	}
	// tests that follow a loop on a path are the decisions of the round that left the loop, repeated at the function level: they have
	// to stay in step with the loop's own rounds (normalised as a list of their own), so this level is left alone
	// — unless those rounds were themselves presented as the default alone, in which case the repeated decisions go the same way
	for _, p := range paths {
		var last *LoopRec
		for _, st := range p.Steps {
			if st.Kind == "loop" {
				last = st.Loop
			}
			if st.Kind == "cond" && last != nil && !a.merged[last] {
				if _, ok := isTest(st.Cond); ok {
					return nil, false
				}
			}
		}
	}
	arms := map[string][]*Path{}
	armT := map[string]types.Type{}
	var defaults, others []*Path
	for _, p := range paths {
		if p.Why != "" {
			return nil, false
		}
		var hit types.Type
		tested := false
		for _, cd := range p.Conds() {
			if T, ok := isTest(cd); ok {
				tested = true
				if cd.Truth {
					if hit != nil {
						return nil, false
					}
					hit = T
				}
			}
		}
		switch {
		case hit != nil:
			k := typeKey(hit)
			arms[k] = append(arms[k], p)
			armT[k] = hit
		case tested:
			defaults = append(defaults, p)
		default:
			others = append(others, p) // an alternative decided before the switch is reached (the loop ran out): left as it is
		}
	}
	if len(arms) == 0 || len(defaults) == 0 {
		return nil, false
	}
	strip := func(p *Path) *Path {
		q := *p
		q.Steps = nil
		for _, s := range p.Steps {
			if s.Kind == "cond" {
				if _, ok := isTest(s.Cond); ok {
					continue
				}
			}
			q.Steps = append(q.Steps, s)
		}
		return &q
	}
	var stripped []*Path
	for _, d := range defaults {
		stripped = append(stripped, strip(d))
	}
	var keys []string
	for k := range arms {
		keys = append(keys, k)
	}
	sort.Strings(keys)
	for _, k := range keys {
		W := armT[k]
		var want []string
		for _, d := range stripped {
			sp, ok := a.specialise(d, X, W)
			if !ok {
				return nil, false
			}
			for _, s0 := range sp {
				if s0 = a.foldStatic(s0); s0 == nil {
					continue
				}
				for _, s := range pruneDecisions(splitConds(s0)) {
					want = append(want, a.sig(s, X, W))
				}
			}
		}
		var got []string
		for _, p := range arms[k] {
			sp, ok := a.specialise(strip(p), X, W) // the arm may itself call the interface or the helpers
			if !ok {
				return nil, false
			}
			for _, s0 := range sp {
				if s0 = a.foldStatic(s0); s0 == nil {
					continue
				}
				for _, s := range pruneDecisions(splitConds(s0)) {
					got = append(got, a.sig(s, X, W))
				}
			}
		}
		sort.Strings(want)
		sort.Strings(got)
		if strings.Join(want, "\n") != strings.Join(got, "\n") {
			if debugOn() {
				debugf("kindArmNorm: arm %s differs from the default specialised to it\n  arm:     %s\n  default: %s\n", k, strings.Join(got, "\n           "), strings.Join(want, "\n           "))
			}
			return nil, false
		}
	}
	return append(stripped, others...), true
}

// sig: a path as text, with the asserted operand in one spelling, allocations numbered by appearance and memory epochs erased.
func (a *armNorm) sig(p *Path, X Term, W types.Type) string {
	fresh := map[int]int{}
	var canon func(t Term) (Term, bool)
	canon = func(t Term) (Term, bool) {
		switch x := t.(type) {
		case TProj:
			if as, ok := x.X.(TAssert); ok && x.K == 0 && sameTerm(as.X, X) {
				return as, true
			}
		case TLit:
			if x.Fresh != 0 {
				n, ok := fresh[x.Fresh]
				if !ok {
					n = len(fresh) + 1
					fresh[x.Fresh] = n
				}
				y := x
				y.Fresh = n
				y.Elts = make([]Term, len(x.Elts))
				for i, e := range x.Elts {
					y.Elts[i] = mapTerm(e, canon)
				}
				return y, true
			}
		}
		return nil, false
	}
	// substitution may have disturbed the canonical orientation of symmetric comparisons: simplify again, bottom-up
	p = mapPath(p, func(t Term) (Term, bool) {
		return mapBU(t, func(u Term) Term {
			if x, ok := u.(TProj); ok && x.K == 0 {
				if as, ok := x.X.(TAssert); ok && sameTerm(as.X, X) {
					return as
				}
			}
			return simplify(u)
		}), true
	})
	return a.c.pathSignature(p, canon, nil)
}

var debugFlag = os.Getenv("ANYCHECK_DEBUG") != ""

func debugf(f string, args ...interface{}) {
	if debugFlag {
		fmt.Fprintf(os.Stderr, f, args...)
	}
}

func debugOn() bool { return debugFlag }

// methodPaths: the paths of T's own method named like the interface method m, with its receiver and parameters.
func (a *armNorm) methodPaths(W types.Type, m *types.Func) ([]*Path, *ast.FuncDecl) {
	obj, _, _ := types.LookupFieldOrMethod(W, true, a.c.Types, m.Name())
	fn, ok := obj.(*types.Func)
	if !ok {
		return nil, nil
	}
	fd := a.c.DeclOf(fn)
	if fd == nil || fd.Body == nil {
		return nil, nil
	}
	if ps, ok := a.mcache[fn]; ok {
		return ps, fd
	}
	ps := a.c.NewSX().Run(fd)
	a.mcache[fn] = ps
	return ps, fd
}

func paramObjs(c *Ctx, fd *ast.FuncDecl) []types.Object {
	var out []types.Object
	if fd.Type.Params == nil {
		return nil
	}
	for _, f := range fd.Type.Params.List {
		for _, nm := range f.Names {
			out = append(out, c.Info.Defs[nm])
		}
	}
	return out
}

// pureSmall: paths made of decisions, opaque calls (a method that hands its work to a sibling: `return ego.clone()`) and a returned value.
func pureSmall(ps []*Path) bool {
	if len(ps) == 0 || len(ps) > 8 {
		return false
	}
	for _, p := range ps {
		if p.Why != "" || p.End != "return" || len(p.Vals) != 1 {
			return false
		}
		for _, s := range p.Effects() {
			if s.Kind != "call" || s.Call == nil || s.Call.Fun == nil {
				return false
			}
		}
	}
	return true
}

// specialise: the paths p becomes when its operand X is known to be a W.
func (a *armNorm) specialise(p *Path, X Term, W types.Type) ([]*Path, bool) {
	c := a.c
	asserted := Term(TAssert{X, W})
	// an interface call whose implementation for W is too large to spell out is the static call of that implementation
	p = mapPath(p, func(t Term) (Term, bool) {
		call, ok := t.(TCall)
		if !ok || call.Fun == nil || call.Recv == nil || !a.isFieldMethod(call.Fun) || !sameTerm(call.Recv, X) {
			return nil, false
		}
		if ps, _ := a.methodPaths(W, call.Fun); pureSmall(ps) {
			return nil, false
		}
		obj, _, _ := types.LookupFieldOrMethod(W, true, c.Types, call.Fun.Name())
		fn, isFn := obj.(*types.Func)
		if !isFn {
			return nil, false
		}
		y := call
		y.Fun, y.Name, y.Recv = fn, fn.Name(), asserted
		return y, true
	})
	work := []*Path{p}
	var done []*Path
	for guard := 0; len(work) > 0; guard++ {
		if guard > 64 {
			return nil, false
		}
		cur := work[0]
		work = work[1:]
		// the first call to inline: an interface call on the operand, parseVal of a statically typed value, or a small pure helper
		var target *TCall
		find := func(t Term) {
			if target != nil {
				return
			}
			collectSubterms(t, func(u Term) {
				if target != nil {
					return
				}
				call, ok := u.(TCall)
				if !ok || call.Fun == nil {
					return
				}
				if a.inlinable(call, X, W) {
					cc := call
					target = &cc
				}
			})
		}
		at := -1
		for i, s := range cur.Steps {
			switch s.Kind {
			case "cond":
				find(s.Cond.T)
			case "store":
				find(s.LHS)
				find(s.RHS)
			case "call":
				if s.Call != nil {
					find(*s.Call)
				}
				if s.Blt != nil {
					find(*s.Blt)
				}
			}
			if target != nil {
				at = i
				break
			}
		}
		if target == nil {
			for _, t := range cur.Vals {
				find(t)
			}
			if target != nil {
				at = len(cur.Steps)
			}
		}
		if target == nil {
			done = append(done, cur)
			continue
		}
		bodies, ok := a.bodyOf(*target, X, W, asserted)
		if !ok {
			return nil, false
		}
		tk := keyNoEpochs(*target)
		for _, b := range bodies {
			q := *cur
			q.Steps = nil
			repl := func(t Term) (Term, bool) {
				if call, ok := t.(TCall); ok && call.Fun == target.Fun && keyNoEpochs(call) == tk {
					return b.val, true
				}
				return nil, false
			}
			for i, s := range cur.Steps {
				if i == at {
					q.Steps = append(q.Steps, b.conds...)
				}
				// the effect step that performed the call itself goes away with it
				if s.Kind == "call" && s.Call != nil && s.Call.Fun == target.Fun && keyNoEpochs(*s.Call) == tk {
					continue
				}
				one := mapPath(&Path{Steps: []Step{s}}, repl)
				ns := one.Steps[0]
				ns.Loop = s.Loop
				q.Steps = append(q.Steps, ns)
			}
			if at == len(cur.Steps) {
				q.Steps = append(q.Steps, b.conds...)
			}
			tail := mapPath(&Path{Vals: cur.Vals}, repl)
			q.Vals = tail.Vals
			work = append(work, &q)
		}
	}
	_ = c
	return done, true
}

type armBody struct {
	conds []Step
	val   Term
}

func (a *armNorm) isFieldMethod(f *types.Func) bool {
	fi := a.c.Inv().Field.Underlying().(*types.Interface)
	for i := 0; i < fi.NumMethods(); i++ {
		if fi.Method(i) == f {
			return true
		}
	}
	return false
}

func (a *armNorm) inlinable(call TCall, X Term, W types.Type) bool {
	c := a.c
	switch {
	case call.Recv != nil && a.isFieldMethod(call.Fun):
		r := call.Recv
		if pr, ok := r.(TProj); ok && pr.K == 0 {
			r = pr.X
		}
		if as, ok := r.(TAssert); ok && sameTerm(as.X, X) {
			r = as.X
		}
		if !sameTerm(r, X) {
			return false
		}
		ps, _ := a.methodPaths(W, call.Fun)
		return pureSmall(ps)
	case call.Recv == nil && call.Fun.Pkg() == c.Types && call.Fun.Name() == "parseVal" && len(call.Args) == 1:
		_, ok := a.parseValArm(call.Args[0])
		return ok
	case call.Recv == nil && call.Fun.Pkg() == c.Types && len(call.Args) <= 2:
		// a small allocation helper (newString): one path, no effects, returns a fresh literal's address
		fd := c.DeclOf(call.Fun)
		if fd == nil || fd.Body == nil {
			return false
		}
		ps, ok := a.mcache[call.Fun]
		if !ok {
			ps = c.NewSX().Run(fd)
			a.mcache[call.Fun] = ps
		}
		if len(ps) != 1 || !pureSmall(ps) || len(ps[0].Effects()) != 0 {
			return false
		}
		ad, ok := ps[0].Vals[0].(TAddr)
		if !ok {
			return false
		}
		_, isLit := ad.X.(TLit)
		return isLit && len(ps[0].Conds()) == 0
	}
	return false
}

// staticArgType: the static type of a value handed to parseVal (through the boxing conversion).
func (a *armNorm) staticArgType(t Term) (Term, types.Type) {
	for {
		cv, ok := t.(TConv)
		if !ok || !isEmptyIface(cv.To) {
			break
		}
		t = cv.X
	}
	tt := a.c.termType(t)
	if tt == nil {
		return t, nil
	}
	if _, isI := tt.Underlying().(*types.Interface); isI {
		return t, nil // only a concrete static type decides the switch
	}
	return t, tt
}

// parseValArm: the result of parseVal(arg) when arg's static type is concrete: the one path of parseVal's switch such a value takes.
func (a *armNorm) parseValArm(arg Term) (Term, bool) {
	c := a.c
	e, T := a.staticArgType(arg)
	_, isNil := e.(TNil) // the untyped nil takes the nil arm
	if T == nil && !isNil {
		return nil, false
	}
	fd := c.Decl("parseVal")
	if fd == nil {
		return nil, false
	}
	fn := c.FuncObj(fd)
	ps, ok := a.mcache[fn]
	if !ok {
		ps = c.NewSX().Run(fd)
		a.mcache[fn] = ps
	}
	par := soleParam(c, fd)
	matches := func(Ti types.Type) bool {
		if isNil {
			return Ti == nil
		}
		if Ti == nil {
			return false // a typed value is not the nil interface
		}
		if it, ok := Ti.Underlying().(*types.Interface); ok {
			return types.Implements(T, it)
		}
		return types.Identical(T, Ti)
	}
	var sel *Path
	for _, p := range ps {
		if p.Why != "" {
			return nil, false
		}
		okPath := true
		for _, cd := range p.Conds() {
			ti, isT := cd.T.(TTypeIs)
			if !isT || !isParamTerm(ti.X, par) {
				okPath = false
				break
			}
			if matches(ti.To) != cd.Truth {
				okPath = false
				break
			}
		}
		if okPath {
			if sel != nil {
				return nil, false
			}
			sel = p
		}
	}
	if sel == nil || sel.End != "return" || len(sel.Vals) != 1 || len(sel.Effects()) != 0 {
		return nil, false
	}
	r := mapTerm(sel.Vals[0], func(t Term) (Term, bool) {
		switch x := t.(type) {
		case TProj:
			if as, ok := x.X.(TAssert); ok && x.K == 0 && isParamTerm(as.X, par) {
				return e, true
			}
		case TAssert:
			if isParamTerm(x.X, par) {
				return e, true
			}
		case TVar:
			if x.Obj == par {
				return e, true
			}
		}
		return nil, false
	})
	return r, true
}

func (a *armNorm) bodyOf(call TCall, X Term, W types.Type, asserted Term) ([]armBody, bool) {
	c := a.c
	switch {
	case call.Recv != nil && a.isFieldMethod(call.Fun):
		ps, fd := a.methodPaths(W, call.Fun)
		if !pureSmall(ps) {
			return nil, false
		}
		recv := c.recvObj(fd)
		params := paramObjs(c, fd)
		if len(params) != len(call.Args) {
			return nil, false
		}
		sub := func(t Term) (Term, bool) {
			if v, ok := t.(TVar); ok {
				if recv != nil && v.Obj == recv {
					return asserted, true
				}
				for i, po := range params {
					if v.Obj == po {
						return call.Args[i], true
					}
				}
			}
			return nil, false
		}
		var out []armBody
		for _, p := range ps {
			q := mapPath(p, sub)
			out = append(out, armBody{q.Steps, a.renew(q.Vals[0])})
		}
		return out, true
	case call.Fun.Name() == "parseVal" && call.Recv == nil:
		r, ok := a.parseValArm(call.Args[0])
		if !ok {
			return nil, false
		}
		return []armBody{{nil, a.renew(r)}}, true
	default:
		fd := c.DeclOf(call.Fun)
		ps := a.mcache[call.Fun]
		if fd == nil || len(ps) != 1 {
			return nil, false
		}
		params := paramObjs(c, fd)
		if len(params) != len(call.Args) {
			return nil, false
		}
		q := mapPath(ps[0], func(t Term) (Term, bool) {
			if v, ok := t.(TVar); ok {
				for i, po := range params {
					if v.Obj == po {
						return call.Args[i], true
					}
				}
			}
			return nil, false
		})
		return []armBody{{nil, a.renew(q.Vals[0])}}, true
	}
}

// keyNoEpochs: the key of a term with every memory epoch erased.
func keyNoEpochs(t Term) string { return key(eraseEpochs(t)) }

var armsRedundantCache = map[*ast.FuncDecl]bool{}

// armsRedundant: every test of a stored element for a concrete container type in fd disappears under kindArmNorm — each such arm was
// shown to do what the default arm's interface calls do for that type.
func (c *Ctx) armsRedundant(fd *ast.FuncDecl) bool {
	if r, ok := armsRedundantCache[fd]; ok {
		return r
	}
	armsRedundantCache[fd] = false
	raw := c.NewSX().Run(fd)
	for _, p := range raw {
		if p.Why != "" {
			return false
		}
	}
	field := c.Inv().Field
	var has func(ps []*Path) bool
	has = func(ps []*Path) bool {
		for _, p := range ps {
			for _, s := range p.Steps {
				if s.Kind == "cond" {
					op, T, ok := kindTestOf(s.Cond.T)
					if ok && T != nil {
						if pt, isP := T.(*types.Pointer); isP {
							if n, isN := pt.Elem().(*types.Named); isN && c.Inv().ContOf(n) != nil {
								if t := c.termType(op); t != nil && types.Identical(t, field) {
									return true
								}
							}
						}
					}
				}
				if s.Kind == "loop" && s.Loop != nil && has(s.Loop.Iter) {
					return true
				}
			}
		}
		return false
	}
	if !has(raw) {
		return false // the test is not visible on the paths: nothing was proved
	}
	r := !has(c.kindArmNorm(raw))
	armsRedundantCache[fd] = r
	return r
}

// splitConds: a decision on `A && B` / `A || B` / `!A` spelled as the short-circuit decisions a branch statement makes of it, so that a
// boolean handed through a return and tested by the caller reads like the same test written in place.
func splitConds(p *Path) []*Path {
	for i, s := range p.Steps {
		if s.Kind != "cond" {
			continue
		}
		mk := func(conds ...Cond) *Path {
			q := *p
			q.Steps = append([]Step(nil), p.Steps[:i]...)
			for _, cd := range conds {
				ns := s
				ns.Cond = cd
				q.Steps = append(q.Steps, ns)
			}
			q.Steps = append(q.Steps, p.Steps[i+1:]...)
			return &q
		}
		var parts []*Path
		switch x := s.Cond.T.(type) {
		case TUn:
			if x.Op.String() == "!" {
				parts = []*Path{mk(Cond{T: x.X, Truth: !s.Cond.Truth, Node: s.Cond.Node})}
			}
		case TBin:
			and := x.Op.String() == "&&"
			or := x.Op.String() == "||"
			if !and && !or {
				break
			}
			a, b := x.X, x.Y
			n := s.Cond.Node
			switch {
			case and && s.Cond.Truth:
				parts = []*Path{mk(Cond{a, true, n}, Cond{b, true, n})}
			case and:
				parts = []*Path{mk(Cond{a, false, n}), mk(Cond{a, true, n}, Cond{b, false, n})}
			case or && !s.Cond.Truth:
				parts = []*Path{mk(Cond{a, false, n}, Cond{b, false, n})}
			default:
				parts = []*Path{mk(Cond{a, true, n}), mk(Cond{a, false, n}, Cond{b, true, n})}
			}
		}
		if parts != nil {
			var out []*Path
			for _, q := range parts {
				out = append(out, splitConds(q)...)
			}
			return out
		}
	}
	return []*Path{p}
}

// foldStatic: assertions on values whose static type is concrete are decided (`v.val.(string)` with v.val a bool fails, with v.val a
// string it yields v.val); decisions that became constants are dropped, and a path that contradicts one is infeasible (nil).
func (a *armNorm) foldStatic(p *Path) *Path {
	c := a.c
	unbox := func(t Term) Term {
		for {
			cv, ok := t.(TConv)
			if !ok || !isEmptyIface(cv.To) {
				return t
			}
			t = cv.X
		}
	}
	var f func(u Term) (Term, bool)
	f = func(u Term) (Term, bool) {
		var as TAssert
		k := -1
		switch x := u.(type) {
		case TProj:
			if y, ok := x.X.(TAssert); ok {
				as, k = y, x.K
			}
		case TAssert:
			as, k = x, 0
		case TTypeIs:
			if x.To != nil {
				as, k = TAssert{x.X, x.To}, 1
			}
		}
		if k < 0 {
			return nil, false
		}
		e := unbox(mapTerm(as.X, f))
		if _, isNil := e.(TNil); isNil && k == 1 {
			return TConst{constant.MakeBool(false)}, true // the nil interface holds no type
		}
		S := c.termType(e)
		if S == nil {
			return nil, false
		}
		if _, isI := S.Underlying().(*types.Interface); isI {
			return nil, false
		}
		if _, isI := as.To.Underlying().(*types.Interface); isI {
			return nil, false
		}
		same := types.Identical(S, as.To)
		if k == 1 {
			return TConst{constant.MakeBool(same)}, true
		}
		if same {
			return e, true
		}
		return nil, false
	}
	q := mapPath(p, f)
	// any(x) == y with x of a concrete comparable basic type K and y an interface value: equal exactly when y holds a K equal to x
	ifaceEq := func(u Term) Term {
		b, ok := u.(TBin)
		if !ok || (b.Op != token.EQL && b.Op != token.NEQ) {
			return u
		}
		for _, pair := range [][2]Term{{b.X, b.Y}, {b.Y, b.X}} {
			e, y := unbox(pair[0]), unbox(pair[1])
			K, Y := c.termType(e), c.termType(y)
			if K == nil || Y == nil {
				continue
			}
			if _, isB := K.Underlying().(*types.Basic); !isB {
				continue
			}
			if _, isI := Y.Underlying().(*types.Interface); !isI {
				continue
			}
			as := TAssert{y, K}
			r := Term(TBin{token.LAND, TProj{as, 1}, TBin{token.EQL, e, TProj{as, 0}}})
			if b.Op == token.NEQ {
				r = TUn{token.NOT, r}
			}
			return r
		}
		return u
	}
	q = mapPath(q, func(t Term) (Term, bool) { return mapBU(t, ifaceEq), true })
	q = mapPath(q, func(t Term) (Term, bool) { return mapBU(t, simplify), true })
	var steps []Step
	for _, s := range q.Steps {
		if s.Kind == "cond" {
			if isConstBoolTerm(s.Cond.T, s.Cond.Truth) {
				continue
			}
			if isConstBoolTerm(s.Cond.T, !s.Cond.Truth) {
				return nil
			}
		}
		steps = append(steps, s)
	}
	q.Steps = steps
	return q
}
