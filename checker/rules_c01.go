package main

// C01 (round trip: encoder/decoder agreement), C16 (FormatString), and the parser-side clauses they share with C03:
// string decoder class, literal cascade, UTF-8 guard.

import (
	"go/ast"
	"go/token"
	"go/types"
	"math"
	"sort"
	"strconv"
	"strings"
)

// stringDecoderClass analyses a function used to decode the raw content of a JSON string literal.
func (c *Ctx) stringDecoderClass(fn *types.Func) (class, why string) {
	switch fn.FullName() {
	case "strconv.Unquote", "strconv.UnquoteChar":
		return "go-syntax", ""
	case "encoding/json.Unmarshal":
		return "json", ""
	}
	fd := c.DeclOf(fn)
	if fd == nil {
		return "", "not a known decoder and not a function of this package"
	}
	par := soleStringParam(c, fd)
	if par == nil {
		return "", "helper has no string parameter"
	}
	x := c.NewSX()
	x.ForceStep = func(f *types.Func) bool { return f.FullName() == "strconv.Unquote" }
	paths := x.Run(fd)
	for _, p := range paths {
		if p.Why != "" {
			return "", "helper outside the path vocabulary: " + p.Why
		}
	}
	paths = c.view(fd).flagNorm(paths)
	okRet, errRet := false, false
	for _, p := range paths {
		if p.Why != "" {
			return "", "helper outside the path vocabulary: " + p.Why
		}
		if p.End == "panic" {
			continue
		}
		if p.End != "return" || len(p.Vals) != 2 {
			return "", "helper does not return (string, error)"
		}
		// a fast path that hands the raw text back undecoded: right exactly when the scan that led here confined every byte to what
		// a JSON decoder reads as itself (no escape, no quote, no control character, nothing beyond ASCII that would need validating)
		if _, nilErr := p.Vals[1].(TNil); nilErr && isParamTerm(p.Vals[0], par) {
			if w := c.verbatimGuard(p, par, jsonSafeByte, "returns the raw text undecoded, which is right only for bytes a JSON decoder reads as themselves,"); w != "" {
				return "", w
			}
			continue
		}
		// exactly one decoder application, to `"` + raw + `"`; before it only the filling of a byte buffer made here (stores, copy)
		var dec *TCall
		var pre []Step
		var post []Step // assignments to locals after the decoder ran (a named result cleared on the failure path)
		for _, st := range p.Effects() {
			isDec := st.Kind == "call" && st.Call != nil && st.Call.Fun != nil && (st.Call.Fun.FullName() == "encoding/json.Unmarshal" || st.Call.Fun.FullName() == "strconv.Unquote")
			if dec == nil && !isDec {
				if st.Kind == "loop" && st.Loop != nil && scanOnly(st.Loop) {
					continue // the scan that decided against the fast path: no effect
				}
				pre = append(pre, st) // the quoted literal being assembled in a local buffer or builder: executed per probe below
				continue
			}
			if dec != nil && st.Kind == "store" {
				if tv, isVar := st.LHS.(TVar); isVar && tv.Obj != nil && isLocalVar(tv.Obj) {
					post = append(post, st)
					continue
				}
			}
			if st.Kind != "call" || st.Call == nil || st.Call.Fun == nil {
				return "", "helper has effects besides the decoder call"
			}
			switch st.Call.Fun.FullName() {
			case "encoding/json.Unmarshal", "strconv.Unquote":
				if dec != nil {
					return "", "helper applies more than one decoder"
				}
				dec = st.Call
			default:
				return "", "helper calls " + st.Call.Fun.FullName()
			}
		}
		if dec == nil || len(dec.Args) == 0 {
			return "", "helper does not apply exactly one known decoder to `\"` + raw + `\"`"
		}
		src := dec.Args[0]
		if cv, ok := src.(TConv); ok {
			src = cv.X
		}
		for _, probe := range []string{"", "a", "x\\y"} {
			se := &strEnv{hook: func(t Term) (sval, bool) {
				if isParamTerm(t, par) {
					return sval{K: 's', S: probe}, true
				}
				return sval{}, false
			}}
			for _, st := range pre {
				if !se.execStep(st) || se.panic != "" {
					return "", "helper has effects besides the decoder call"
				}
			}
			if sv, ok := se.val(src); !ok || sv.K != 's' || sv.S != `"`+probe+`"` {
				return "", "helper does not apply exactly one known decoder to `\"` + raw + `\"`"
			}
		}
		if dec.Fun.FullName() == "strconv.Unquote" {
			return "go-syntax", ""
		}
		if len(dec.Args) != 2 {
			return "", "json.Unmarshal without a destination"
		}
		dst, isAddr := dec.Args[1].(TAddr)
		if !isAddr {
			return "", "json.Unmarshal destination is not the address of a string variable"
		}
		if dv, ok := dst.X.(TVar); !ok || !isStringType(dv.Obj.Type()) {
			return "", "json.Unmarshal destination is not a string variable"
		}
		// which way did the decoder's error go on this path?
		failed, decided := false, false
		for _, cd := range p.Conds() {
			b, ok := cd.T.(TBin)
			if !ok || (b.Op != token.NEQ && b.Op != token.EQL) {
				continue
			}
			var other Term
			if sameTerm(b.X, *dec) {
				other = b.Y
			} else if sameTerm(b.Y, *dec) {
				other = b.X
			}
			if _, isNil := other.(TNil); isNil {
				failed, decided = (b.Op == token.NEQ) == cd.Truth, true
			}
		}
		if !decided {
			return "", "the decoder's error is not tested"
		}
		_, nilErr := p.Vals[1].(TNil)
		if !failed {
			d, ok := p.Vals[0].(TDeref)
			if len(post) != 0 {
				return "", "the decoded string is reassigned before it is returned"
			}
			if !nilErr || !ok || !sameTerm(d.X, dst) {
				return "", "success path does not return the decoded string with a nil error"
			}
			okRet = true
		} else {
			if nilErr {
				return "", "a decoder failure is returned as success"
			}
			errRet = true
		}
	}
	if !okRet || !errRet {
		return "", "helper lacks a success or a failure return"
	}
	return "json", ""
}

func soleStringParam(c *Ctx, fd *ast.FuncDecl) types.Object {
	if fd.Type.Params == nil {
		return nil
	}
	for _, f := range fd.Type.Params.List {
		for _, nm := range f.Names {
			if o := c.Info.Defs[nm]; o != nil && isStringType(o.Type()) {
				return o
			}
		}
	}
	return nil
}

// decodeSites: calls inside the two parser machines whose first argument is <builder>.String() and whose callee returns (string, error).
type decodeSite struct {
	fn   string
	call *ast.CallExpr
	cal  *types.Func
	errV types.Object
	stmt *ast.AssignStmt
}

func (c *Ctx) decodeSites() []decodeSite {
	var out []decodeSite
	// (a) on the machines' symbolic iteration paths: calls of a token consumer returning (string, error) whose first argument is the
	// content of one of the machine's token buffers (however many temporaries it passes through)
	for _, m := range c.machines().each() {
		if m.fn == nil || m.why != "" {
			continue
		}
		sm := m.sx()
		if sm.why != "" {
			continue
		}
		roles := m.builderRoles()
		var sites []*ast.CallExpr
		seen := map[token.Pos]bool{} // per machine: a call inside a helper shared by both machines is a decode site of each
		for _, ip := range sm.iter {
			for _, st := range ip.Steps {
				if st.Kind != "call" || st.Call == nil || st.Call.Fun == nil || !sm.decoder[st.Call.Fun] || len(st.Call.Args) == 0 || st.Call.Site == nil {
					continue
				}
				sig := st.Call.Fun.Type().(*types.Signature)
				if b, ok := sig.Results().At(0).Type().(*types.Basic); !ok || b.Kind() != types.String {
					continue
				}
				ti, _ := tokenParam(sig)
				if ti < 0 || ti >= len(st.Call.Args) || m.builderStringT(st.Call.Args[ti], roles) == "" {
					continue
				}
				if !seen[st.Call.Site.Pos()] {
					seen[st.Call.Site.Pos()] = true
					sites = append(sites, st.Call.Site)
				}
			}
		}
		sort.Slice(sites, func(i, j int) bool { return sites[i].Pos() < sites[j].Pos() })
		for _, site := range sites {
			ds := decodeSite{fn: m.name, call: site, cal: c.callee(site)}
			find := func(body *ast.BlockStmt) {
				ast.Inspect(body, func(n ast.Node) bool {
					if as, ok := n.(*ast.AssignStmt); ok && len(as.Rhs) == 1 && len(as.Lhs) == 2 && unparen(as.Rhs[0]) == ast.Expr(site) {
						ds.stmt, ds.errV = as, c.obj(as.Lhs[1])
					}
					return true
				})
			}
			find(m.fn.Body)
			if ds.stmt == nil {
				// the call sits in a helper the executor inlined (`stringStep(&val, char, *line)`): its statement is in that helper
				for _, fd := range c.decls {
					if fd.Body != nil && fd.Body.Pos() <= site.Pos() && site.Pos() < fd.Body.End() {
						find(fd.Body)
					}
				}
			}
			if ds.cal != nil && ds.stmt != nil {
				out = append(out, ds)
			}
		}
	}
	if len(out) > 0 {
		return out
	}
	// (b) syntactically (machines the path executor does not follow)
	for _, name := range []string{"parseList", "parseObject"} {
		fd := c.Decl(name)
		if fd == nil {
			continue
		}
		ast.Inspect(fd.Body, func(n ast.Node) bool {
			as, ok := n.(*ast.AssignStmt)
			if !ok || len(as.Rhs) != 1 || len(as.Lhs) != 2 {
				return true
			}
			call, ok := unparen(as.Rhs[0]).(*ast.CallExpr)
			if !ok || len(call.Args) == 0 {
				return true
			}
			f := c.callee(call)
			if f == nil {
				return true
			}
			sig := f.Type().(*types.Signature)
			if sig.Results().Len() != 2 {
				return true
			}
			if b, ok := sig.Results().At(0).Type().(*types.Basic); !ok || b.Kind() != types.String {
				return true
			}
			// first argument mentions <builder>.String()
			mentions := false
			ast.Inspect(call.Args[0], func(m ast.Node) bool {
				if bc, ok := m.(*ast.CallExpr); ok && c.calleeFull(bc) == "(*strings.Builder).String" {
					mentions = true
				}
				if bc, ok := m.(*ast.CallExpr); ok && len(bc.Args) == 1 {
					// string(buf) of a []byte token buffer
					if tv, isConv := c.Info.Types[bc.Fun]; isConv && tv.IsType() && isStringType(tv.Type) && isByteSlice(c.typeOf(bc.Args[0])) {
						mentions = true
					}
				}
				return true
			})
			if !mentions {
				return true
			}
			out = append(out, decodeSite{name, call, f, c.obj(as.Lhs[1]), as})
			return true
		})
	}
	return out
}

func decoderRule(c *Ctx, rule string) {
	sites := c.decodeSites()
	c.R.Floor(rule, len(sites), 1)
	for i, s := range sites {
		ob := c.Ob(rule, s.fn+"/string-decoder#"+itoa(i+1), s.call.Pos())
		cls, why := c.stringDecoderClass(s.cal)
		switch cls {
		case "json":
			if id, ok := s.stmt.Lhs[1].(*ast.Ident); ok && id.Name == "_" {
				ob.Fail("the decoder's error is discarded and the value used: an invalid escape silently becomes an empty string")
			} else {
				ob.Ok("raw string text is decoded by %s, classified `accepts all RFC 8259 escapes` (encoding/json), error handled by the machine", s.cal.Name())
			}
		case "go-syntax":
			ob.Fail("string literals are decoded with %s, which implements Go escape syntax: it rejects \\/ and surrogate pairs (\\uD83D\\uDE00) that RFC 8259 allows", s.cal.FullName())
		default:
			ob.Undecided("string decoder %s is not an approved JSON string decoder: %s", s.cal.Name(), why)
		}
	}
}

// cascadeRule (SX): parseField tries "null", then an integer parser of the platform int size converted with int(…), then a 64-bit float
// parser, then bool — read off the ordered decisions of its paths, whatever their syntactic arrangement.
func cascadeRule(c *Ctx, rule string) {
	fd := c.NeedDecl(rule, "parseField")
	if fd == nil {
		return
	}
	x := c.NewSX()
	delete(x.NoInline, "parseField")
	paths := x.Run(fd)
	for _, p := range paths {
		if p.Why != "" {
			c.Ob(rule, "parseField", fd.Pos()).Undecided("body outside the path vocabulary: %s", p.Why)
			return
		}
	}
	paths = nilByConds(paths) // `return value, err` under `err == nil` returns (value, nil)
	field := tokenParamObj(c, fd)
	// stage of a decision term
	stageOf := func(t Term) (string, *TCall) {
		b, ok := t.(TBin)
		if !ok || (b.Op != token.EQL && b.Op != token.NEQ) {
			return "", nil
		}
		for _, pair := range [][2]Term{{b.X, b.Y}, {b.Y, b.X}} {
			l, r := pair[0], pair[1]
			if s, ok := isConstStringTerm(l); ok && s == "null" && isParamTerm(r, field) {
				return "null", nil
			}
			if _, isNil := l.(TNil); isNil {
				if pr, ok := r.(TProj); ok && pr.K == 1 {
					if call, ok := pr.X.(TCall); ok && call.Fun != nil && len(call.Args) >= 1 && isParamTerm(call.Args[0], field) {
						switch call.Fun.FullName() {
						case "strconv.ParseInt", "strconv.Atoi":
							return "int", &call
						case "strconv.ParseFloat":
							return "float", &call
						case "strconv.ParseBool":
							return "bool", &call
						}
					}
				}
			}
		}
		return "", nil
	}
	success := func(cd Cond) bool { // does this decision mean "stage succeeded"?
		b := cd.T.(TBin)
		return cd.Truth == (b.Op == token.EQL)
	}
	var order []string
	seen := map[string]bool{}
	for _, p := range paths {
		conds := p.Conds()
		var stages []string
		okPath := true
		for _, cd := range conds {
			st, _ := stageOf(cd.T)
			if st == "" {
				// not the plain sequence of attempts (a keyword switch, a digit-loop fast path): folded over the corpus instead
				ob := c.Ob(rule, "parseField/decision", posOfNode(cd.Node))
				n, bad, undec := cascadeFold(c, fd)
				switch {
				case bad != "":
					ob.Fail("parseField does not read literals as the cascade null < int < float < bool does: %s", bad)
				case undec != "":
					ob.Undecided("decision outside the cascade vocabulary: %s; folding over the literal corpus: %s", c.termStr(cd.T), undec)
				default:
					ob.Ok("folded over %d literals (keywords, integers around the platform limits, prefixes, underscores, signs, float spellings, non-finite names, garbage): every one is read as the reference cascade reads it (exact on the corpus only)", n)
				}
				okPath = false
				break
			}
			stages = append(stages, st)
		}
		if !okPath {
			return
		}
		if len(stages) > len(order) {
			order = stages
		}
		// classify the path by its last decision
		if len(conds) == 0 {
			continue
		}
		last := conds[len(conds)-1]
		st, call := stageOf(last.T)
		if !success(last) {
			// the all-failed path: error
			good := p.End == "return" && len(p.Vals) == 2
			if good {
				_, n0 := p.Vals[0].(TNil)
				_, n1 := p.Vals[1].(TNil)
				good = n0 && !n1
			}
			c.Ob(rule, "parseField/failure", posOfNode(p.Node)).Check(good, "anything else is an error", "when every stage fails parseField does not return (nil, error)")
			continue
		}
		if seen[st] {
			c.Ob(rule, "parseField/"+st+"-stage", posOfNode(p.Node)).Fail("stage %s succeeds on two different paths", st)
			continue
		}
		seen[st] = true
		ob := c.Ob(rule, "parseField/"+st+"-stage", posOfNode(p.Node))
		retOK := p.End == "return" && len(p.Vals) == 2
		if retOK {
			_, n1 := p.Vals[1].(TNil)
			retOK = n1
		}
		if !retOK {
			ob.Fail("a successful %s stage does not return (value, nil)", st)
			continue
		}
		val := p.Vals[0]
		switch st {
		case "null":
			_, isNil := val.(TNil)
			ob.Check(isNil, "`null` yields (nil, nil)", "the null literal does not yield (nil, nil)")
		case "int":
			want := c.intSize() * 8
			bits := int64(-1)
			if call.Fun.FullName() == "strconv.Atoi" {
				bits = want
			} else if len(call.Args) == 3 {
				if k, ok := constInt(simplify(call.Args[2])); ok {
					bits = k
				}
			}
			cv, isConv := val.(TConv)
			conv := isConv && types.Identical(cv.To, types.Typ[types.Int]) && sameTerm(cv.X, TProj{*call, 0})
			if call.Fun.FullName() == "strconv.Atoi" {
				conv = sameTerm(val, TProj{*call, 0})
			}
			switch {
			case bits != want && bits != 0:
				ob.Fail("integer stage parses with bit size %d, the platform int has %d bits in this configuration: an in-range int falls through to the float stage or a too-large one is truncated", bits, want)
			case !conv:
				ob.Fail("integer stage does not return int(parsed)")
			default:
				ob.Ok("ParseInt(field, base, %d) — the platform int size in this configuration — returned as int(…)", bits)
			}
		case "float":
			bits := int64(-1)
			if len(call.Args) == 2 {
				if k, ok := constInt(simplify(call.Args[1])); ok {
					bits = k
				}
			}
			switch {
			case bits != 64:
				ob.Fail("float stage parses with bit size %d in this configuration: the value is rounded to float32 precision before it is returned as float64 (0.1 becomes 0.10000000149011612)", bits)
			case !sameTerm(val, TProj{*call, 0}):
				ob.Fail("float stage does not return the parsed float64")
			default:
				ob.Ok("ParseFloat(field, 64): correctly rounded float64 in this configuration")
			}
		case "bool":
			ob.Check(sameTerm(val, TProj{*call, 0}), "ParseBool result returned", "bool stage does not return the parsed bool")
		}
	}
	ob := c.Ob(rule, "parseField/order", fd.Pos())
	want := []string{"null", "int", "float", "bool"}
	good := len(order) == 4
	for i := range want {
		if !good || order[i] != want[i] {
			good = false
		}
	}
	if good && len(seen) == 4 {
		ob.Ok("stages are decided in the order null < int < float < bool: an integer spelling is claimed by the int stage before the float stage can see it")
	} else {
		ob.Fail("literal cascade is %v, expected %v (the int stage must come strictly before the float stage, or ints come back as floats)", order, want)
	}
}

// utf8GuardRule, decided on the extracted transition table: ill-formed input ((RuneError,1), (RuneError,0)) must lead to an ERR exit
// from every state and flag combination (needReject); a correctly encoded U+FFFD must be treated exactly like any other
// non-ASCII rune — same exit kinds and same next states for every (state, flags) — (needAccept).
func utf8GuardRule(c *Ctx, rule string, needReject, needAccept bool) {
	n := 0
	for _, m := range c.machines().each() {
		if !machineReady(c, rule, m) {
			continue
		}
		if m.undecidedOb(c, rule) {
			continue
		}
		n++
		type keyT struct {
			st     string
			iv, vl Tri
		}
		byClass := map[string]map[keyT]string{}
		rejectBad, cnt := "", 0
		for _, r := range m.table() {
			k := keyT{r.State, r.InVal, r.ValLen}
			sig := ""
			var kinds []string
			for _, ex := range r.Exits {
				kinds = append(kinds, ex.Kind+">"+ex.Env.State)
			}
			sortStrings(kinds)
			for _, s := range kinds {
				sig += s + ";"
			}
			if byClass[r.Class.Name] == nil {
				byClass[r.Class.Name] = map[keyT]string{}
			}
			byClass[r.Class.Name][k] = sig
			if r.Class.Name == "BADUTF8" || r.Class.Name == "EMPTY" {
				for _, ex := range r.Exits {
					cnt++
					if ex.Kind != "ERR" && rejectBad == "" {
						rejectBad = "state=" + r.State + " class=" + r.Class.Name + ": ill-formed UTF-8 is not rejected (exit " + ex.Kind + ")"
					}
				}
			}
		}
		if needReject {
			ob := c.Ob(rule, m.name+"/utf8-reject", m.loop.Pos())
			if rejectBad == "" {
				ob.Ok("(RuneError,1) and (RuneError,0) lead to an ERR exit from every state and flag combination (%d table exits)", cnt)
			} else {
				ob.Fail("%s", rejectBad)
			}
		}
		if needAccept {
			ob := c.Ob(rule, m.name+"/utf8-accept", m.loop.Pos())
			bad := ""
			for k, sig := range byClass["OTHER"] {
				if got := byClass["FFFD"][k]; got != sig && bad == "" {
					// OTHER has Space=U, so it may have extra whitespace exits; FFFD (not a space) must match one of them: compare against the non-space behaviour
					if !subsetSig(got, sig) {
						bad = "state=" + k.st + ": a correctly encoded U+FFFD is treated differently from other non-ASCII runes (" + got + " vs " + sig + "): it is rejected although it is valid UTF-8"
					}
				}
			}
			if bad == "" {
				ob.Ok("a correctly encoded U+FFFD (RuneError, size 3) takes exactly the transitions of any other non-ASCII rune in all %d (state, flags) entries", len(byClass["OTHER"]))
			} else {
				ob.Fail("%s", bad)
			}
		}
	}
	c.R.Floor(rule, n, 2)
}

// subsetSig: every exit of a occurs in b (signatures are ';'-joined sorted lists).
func subsetSig(a, b string) bool {
	have := map[string]bool{}
	for _, x := range splitSemi(b) {
		have[x] = true
	}
	for _, x := range splitSemi(a) {
		if !have[x] {
			return false
		}
	}
	return a != ""
}

func splitSemi(s string) []string {
	var out []string
	cur := ""
	for _, r := range s {
		if r == ';' {
			if cur != "" {
				out = append(out, cur)
			}
			cur = ""
		} else {
			cur += string(r)
		}
	}
	return out
}

func encoderPairing(c *Ctx, rule string) {
	// value encoder: from the string wrapper's serialize; key encoder: KEY token of object.serialize; decoders: the 3 sites
	var encs []*types.Func
	for _, w := range c.Inv().Wrappers {
		if c.wrapperKind(w) != "string" {
			continue
		}
		fd := c.Decl("(*" + w.Obj().Name() + ").serialize")
		if fd == nil {
			continue
		}
		// value encoder: the function applied to the wrapper's payload on every returning path
		paths := c.view(fd).normalizePaths(c.serSX().Run(fd))
		for _, p := range paths {
			if p.Why == "" && p.End == "return" && len(p.Vals) == 1 {
				if call, ok := p.Vals[0].(TCall); ok && call.Fun != nil {
					encs = append(encs, call.Fun)
				}
			}
		}
	}
	if obj := c.Inv().Object(); obj != nil {
		if fd := c.Decl("(*" + obj.Named.Obj().Name() + ").serialize"); fd != nil {
			// key encoder: the encoder of the KEY token in the folded emission for one field
			{
				toks, _ := c.emitted(fd, c.serSX().Run(fd), 1)
				for _, t := range toks {
					if t.Kind == "KEY" && t.Enc != nil {
						encs = append(encs, t.Enc)
					}
				}
			}
		}
	}
	ob := c.Ob(rule, "string-encoder/decoder-pairing", token.NoPos)
	if len(encs) < 2 {
		ob.Missing("value and key encoders not found (%d)", len(encs))
		return
	}
	encClass := ""
	for _, e := range encs {
		cls, _ := c.stringHelperClass(e)
		if cls == "" {
			cls = "unknown"
		}
		if encClass == "" {
			encClass = cls
		} else if encClass != cls {
			ob.Fail("values and keys are quoted by encoders of different classes (%s vs %s)", encClass, cls)
			return
		}
	}
	sites := c.decodeSites()
	if len(sites) < 3 {
		ob.Missing("fewer than 3 string decode sites in the parser")
		return
	}
	for _, s := range sites {
		dcls, _ := c.stringDecoderClass(s.cal)
		compatible := (encClass == "json" && dcls == "json") || (encClass == "go-syntax" && dcls == "go-syntax")
		if !compatible {
			ob.Fail("encoder class %q (values and keys) is not paired with decoder class %q at %s: what String() writes is not what the parser reads", encClass, dcls, c.Pos(s.call.Pos()))
			return
		}
	}
	ob.Ok("string values and object keys are written by a %s encoder and read back at all %d decode sites by a %s decoder — a pair marked mutually inverse on valid UTF-8 in the trusted table", encClass, len(sites), encClass)
}

func init() {
	register(&Property{
		ID:        "C01",
		QuickCfgs: []BuildCfg{{GOARCH: "amd64"}, {GOARCH: "386"}},
		Explanation: "Round-trip equality of run-time trees is not statically decidable; decided is that encoder and decoder agree token class by token class: every byte of String() comes from JSON punctuation, a child or an approved encoder (emitter discipline, shared with C02); " +
			"the string encoder for values and keys and the decoder at the 3 decode sites are a pair marked inverse in the trusted table; float text is always float-marked ('.' or exponent) and int text is plain decimal, so kinds survive; " +
			"the literal cascade is null < int(platform size, int(…)) < float(64 in EVERY build configuration: amd64 and 386 are both loaded in the quick tier) < bool; the UTF-8 guard, folded over everything DecodeRuneInString can return, rejects no correctly encoded U+FFFD. " +
			"That FormatFloat(-1)/ParseFloat(64), Itoa/ParseInt and the json string codec are mutually inverse is trusted (DESIGN.md §7); isEqual's kind strictness is decided by C07.",
		Rules: []Rule{
			{ID: "C01.R1", Doc: "emitter discipline and shape of all 7 serialisers (= C02.R1–R4)", Run: func(c *Ctx) {
				serRule = asC01
				defer func() { serRule = func(id string) string { return id } }()
				c02Scalars(c)
				for _, ct := range c.Inv().Conts {
					c02Container(c, ct)
				}
				c02String(c)
			}},
			{ID: "C01.R2", Doc: "string encoder (values and keys) and string decoder (3 sites) are a compatible pair of the trusted table", Run: func(c *Ctx) {
				encoderPairing(c, "C01.R2")
				decoderRule(c, "C01.R2")
			}},
			{ID: "C01.R3", Doc: "kind marking: every float text contains '.' or an exponent and is a valid JSON number; int text is plain decimal", Run: func(c *Ctx) {
				serRule = func(id string) string {
					if id == "C02.R1" {
						return "C01.R1"
					}
					return id
				}
				defer func() { serRule = func(id string) string { return id } }()
				c01FloatMarking(c)
			}},
			{ID: "C01.R4", Doc: "literal cascade: null, int (platform size, int(…)), float (bit size 64 in every configuration), bool — int strictly before float", Run: func(c *Ctx) { cascadeRule(c, "C01.R4") }},
			{ID: "C01.R5", Doc: "UTF-8 guard rejects no correctly encoded U+FFFD (and no valid rune)", Run: func(c *Ctx) { utf8GuardRule(c, "C01.R5", false, true) }},
			{ID: "C01.R7", Doc: "the values the parser hands to Add/Set are stored unchanged: parseVal's table and the wrapper constructors (= C12.R1)", Run: func(c *Ctx) { c.R.Floor("C01.R7", runAs(c, "C01.R7", c12R1, nil), 10) }},
			{ID: "C01.R6", Doc: "the parser machines accept every token sequence the serialiser can emit: per-level inclusion of RFC 8259 (= C03.R1)", Run: func(c *Ctx) { inclusionRule(c, "C01.R6") }},
			{ID: "C01.R8", Doc: "the text String() produced reaches the machine unchanged: ParseList/ParseObject hand on exactly the text from the first root bracket and return the machine's result (= C03.R5)", Run: func(c *Ctx) { wrapperRule(c, "C01.R8") }},
		},
	})
	register(&Property{
		ID: "C16",
		Explanation: "FormatString of both containers: the panic guard, folded over the break-points of `indent`, equals `indent < 0 || indent > 10`; the re-indenter is json.Indent(dst, []byte(self.String()), \"\", strings.Repeat(\" \", indent)) on a fresh buffer whose content is returned; " +
			"String() is JSON by the emitter discipline of C02 (so the discarded json.Indent error cannot be non-nil); the methods are write-free. json.Indent's layout contract is trusted.",
		Rules: []Rule{
			{ID: "C16.R1", Doc: "panics exactly outside 0..10 (guard folded over break-points)", Run: c16Guard},
			{ID: "C16.R2", Doc: "json.Indent(fresh dst, []byte(self.String()), \"\", strings.Repeat(\" \", indent)); returns dst.String()", Run: func(c *Ctx) {}},
			{ID: "C16.R3", Doc: "String() is JSON: emitter discipline of C02.R1–R4 and float marking", Run: func(c *Ctx) {
				serRule = asC16
				defer func() { serRule = func(id string) string { return id } }()
				c02Scalars(c)
				c01FloatMarking(c)
				for _, ct := range c.Inv().Conts {
					c02Container(c, ct)
				}
				c02String(c)
			}},
			{ID: "C16.R4", Doc: "PURE", Run: func(c *Ctx) {
				c.R.Floor("C16.R4", pureRule(c, "C16.R4", []string{"(*list).FormatString", "(*object).FormatString", "(*list).String", "(*object).String"}), 4)
			}},
		},
	})
}

func c16Guard(c *Ctx) {
	n := 0
	for _, ct := range c.Inv().Conts {
		name := "(*" + ct.Named.Obj().Name() + ").FormatString"
		fd := c.NeedDecl("C16.R1", name)
		if fd == nil {
			continue
		}
		n++
		ob := c.Ob("C16.R1", name+"/guard", fd.Pos())
		cases, bad, undec := c.panicDomain(fd, 1, func(_ int64, p []int64) bool { return p[0] < 0 || p[0] > 10 })
		switch {
		case undec != "":
			ob.Undecided("guard cannot be folded: %s", undec)
		case bad != "":
			ob.Fail("panic guard differs from the documented domain 0..10: %s", bad)
		default:
			ob.Ok("panics exactly for indent < 0 or indent > 10 (paths folded over %d break-point combinations)", cases)
		}
		// R2: on every non-panicking path: json.Indent(fresh buffer, []byte(self.String()), "", strings.Repeat(" ", indent)); return buffer.String()
		ob2 := c.Ob("C16.R2", name+"/indent-call", fd.Pos())
		paths, why := c.runPaths(fd)
		v := c.view(fd)
		indent := soleParam(c, fd)
		msg := why
		nOK := 0
		for _, p := range paths {
			if msg != "" || p.End == "panic" {
				continue
			}
			nOK++
			var ind *TCall
			var pre []Step // effects before the call: accepted when they only build the indentation unit in buffers local to the path
			for _, s := range p.Effects() {
				if s.Kind == "call" && s.Call != nil && s.Call.Fun != nil && s.Call.Fun.FullName() == "encoding/json.Indent" && ind == nil {
					ind = s.Call
					continue
				}
				if ind == nil {
					pre = append(pre, s)
					continue
				}
				msg = "unexpected effect " + c.stepStr(s)
			}
			if msg != "" {
				break
			}
			if ind == nil && len(p.Effects()) == 0 && p.End == "return" && len(p.Vals) == 1 {
				// a fast path for the empty container: the path decided self.String() == "[]" (or "{}") and returns that very text.
				// json.Indent leaves the text of an empty array / object as it is, whatever the indentation unit (trusted table, DESIGN §7)
				short := false
				for _, cd := range p.Conds() {
					b, isB := cd.T.(TBin)
					if !isB || b.Op != token.EQL || !cd.Truth {
						continue
					}
					for _, pair := range [][2]Term{{b.X, b.Y}, {b.Y, b.X}} {
						// len(self.String()) == 2: the text of a container (C16.R3: brackets around the entries) that is two bytes long
						// is the pair of brackets
						if k, isK := constInt(pair[1]); isK && k == 2 {
							if bl, ok := pair[0].(TBuiltin); ok && bl.Name == "len" && len(bl.Args) == 1 {
								nm, args, isSelf := v.selfCall(bl.Args[0])
								if isSelf && (nm == "String" || nm == "serialize") && len(args) == 0 && sameTerm(eraseEpochs(p.Vals[0]), eraseEpochs(bl.Args[0])) {
									short = true
								}
							}
						}
						lit, isLit := isConstStringTerm(pair[1])
						nm, args, isSelf := v.selfCall(pair[0])
						if isLit && (lit == "[]" || lit == "{}") && isSelf && (nm == "String" || nm == "serialize") && len(args) == 0 {
							if rs, isC := isConstStringTerm(p.Vals[0]); (isC && rs == lit) || sameTerm(eraseEpochs(p.Vals[0]), eraseEpochs(pair[0])) {
								short = true
							}
						}
					}
				}
				if short {
					continue
				}
			}
			if ind == nil || len(ind.Args) != 4 {
				msg = "the text is not re-indented by json.Indent"
				break
			}
			buf := ind.Args[0]
			fresh := false
			switch b := buf.(type) {
			case TBuiltin:
				fresh = b.Name == "new" && b.Type != nil && b.Type.String() == "bytes.Buffer"
			case TAddr:
				fresh = true
				_ = b
			case TCall:
				fresh = b.Fun != nil && b.Fun.FullName() == "bytes.NewBuffer"
			}
			if !fresh {
				msg = "the destination is not a fresh bytes.Buffer"
				break
			}
			src, ok := ind.Args[1].(TConv)
			good := ok
			if good {
				// self.String(), or String's own body self.serialize() spelled out (String ≡ serialize of the ego: C16.R3 / C02.R4)
				nm, args, ok := v.selfCall(src.X)
				good = ok && (nm == "String" || nm == "serialize") && len(args) == 0
			}
			if !good {
				msg = "the source is not []byte(self.String()) of the same receiver"
				break
			}
			if pre, ok := isConstStringTerm(ind.Args[2]); !ok || pre != "" {
				msg = "the prefix is not empty"
				break
			}
			// the indentation unit: folded for every admissible indent (0..10) it must be exactly that many spaces
			good = true
			preBad := ""
			for k := int64(0); k <= 10 && good; k++ {
				se := &strEnv{hook: func(t Term) (sval, bool) {
					if isParamTerm(t, indent) {
						return sval{K: 'i', I: k}, true
					}
					return sval{}, false
				}}
				se.ctx = c
				for _, s := range pre {
					if !se.execStep(s) || se.panic != "" {
						preBad = "unexpected effect " + c.stepStr(s)
						break
					}
				}
				if preBad != "" {
					break
				}
				sv, ok := se.val(ind.Args[3])
				good = ok && se.panic == "" && sv.K == 's' && sv.S == strings.Repeat(" ", int(k))
			}
			if preBad != "" {
				msg = preBad
				break
			}
			if !good {
				msg = "the indentation unit is not `indent` spaces for every indent in 0..10"
				break
			}
			ret, ok := (TCall{}), false
			if p.End == "return" && len(p.Vals) == 1 {
				ret, ok = c.normByteStrings(p.Vals[0]).(TCall) // string(buffer.Bytes()) reads as buffer.String()
			}
			if !ok || ret.Fun == nil || ret.Fun.FullName() != "(*bytes.Buffer).String" || ret.Recv == nil || !sameBuffer(ret.Recv, buf) {
				msg = "the result is not the destination buffer's content"
				break
			}
		}
		if msg == "" && nOK == 0 {
			msg = "no non-panicking path"
		}
		if msg == "" {
			ob2.Ok("json.Indent(fresh buffer, []byte(self.String()), \"\", strings.Repeat(\" \", indent)) and the buffer's content is returned: same tokens as String(), canonical layout")
		} else {
			ob2.Fail("FormatString is not json.Indent over String() of the same receiver with an empty prefix and `indent` spaces per level: %s", msg)
		}
	}
	c.R.Floor("C16.R1", n, 2)
}

// sameBuffer: two terms denote the same buffer object (ignoring memory epochs of pointer dereferences).
func sameBuffer(a, b Term) bool {
	strip := func(t Term) Term {
		if d, ok := t.(TDeref); ok {
			return d.X
		}
		return t
	}
	ka, kb := key(strip(a)), key(strip(b))
	if ka == kb {
		return true
	}
	// &buffer vs buffer (value receiver of a local): compare the underlying variable
	sa, sb := strip(a), strip(b)
	if x, ok := sa.(TAddr); ok {
		sa = x.X
	}
	if x, ok := sb.(TAddr); ok {
		sb = x.X
	}
	return key(sa) == key(sb)
}

// cascadeCorpus: literals that separate the readings of a JSON primitive: keywords and near-keywords, integers around the platform
// limits, base prefixes, underscores and signs that ParseInt(…, 0, …) accepts or rejects, floats in every spelling ParseFloat knows,
// non-finite names, and garbage.
var cascadeCorpus = []string{
	"null", "nul", "nulll", "Null", "true", "false", "True", "False", "TRUE", "FALSE", "t", "f", "T", "F", "tru", "falsee", "",
	"0", "-0", "+0", "1", "-1", "+1", "7", "9", "10", "42", "-42", "100", "123456789", "-123456789", "1234567890", "2147483647", "2147483648",
	"-2147483648", "-2147483649", "4294967295", "4294967296", "999999999999999999", "1000000000000000000", "9223372036854775807",
	"9223372036854775808", "-9223372036854775808", "-9223372036854775809", "18446744073709551615", "123456789012345678901234567890",
	"00", "-00", "01", "007", "017", "08", "09", "0x1f", "0X1F", "0x", "0b101", "0B11", "0o17", "0O7", "1_000", "1__0", "_1", "1_", "0_1", "0x_1f",
	"-+1", "--1", "+-1", "++1", "1-", "1+", "-", "+",
	"1.0", "-1.5", ".5", "5.", "0.1", "100.0", "1e5", "1E5", "1e+5", "1e-5", "1e0", "-1e300", "1e999", "-1e999", "1.5e3", "0x1p-2", "0X1P4", "1_0.5",
	"1.2.3", "1e", "1e+", ".", "e", "e5", "1.e5", "0.0", "-0.0", "00.5", "1.0e", "Inf", "-Inf", "+Inf", "inf", "INF", "NaN", "nan", "Infinity", "-infinity", "infinit",
	"abc", "1a", "a1", "1 ", " 1", "1,2", "1-1", "0x1g", "１", "٣", "1\x00", "\xff",
}

// cascadeFold: parseField folded over the corpus, literal by literal, against the reference reading — "null" is nil; otherwise the first
// of ParseInt(s, 0, platform int size) as int, ParseFloat(s, 64) as float64, ParseBool(s) as bool that succeeds; otherwise an error.
// Used when the cascade is not written as the plain sequence of attempts (a keyword switch, a digit-loop fast path): exact on the
// corpus, and only there. Returns the number of literals folded, a mismatch, or the reason the body cannot be folded.
func cascadeFold(c *Ctx, fd *ast.FuncDecl) (n int, bad, undec string) {
	paths, why := c.runPathsWith(fd, func(x *SX) { delete(x.NoInline, "parseField") })
	if why != "" {
		return 0, "", "body outside the path vocabulary: " + why
	}
	field := tokenParamObj(c, fd)
	bits := int(c.intSize()) * 8
	for _, s := range cascadeCorpus {
		// reference
		wantKind, wantI, wantF, wantB := "err", int64(0), 0.0, false
		if s == "null" {
			wantKind = "nil"
		} else if v, err := strconv.ParseInt(s, 0, bits); err == nil {
			wantKind, wantI = "int", v
		} else if v, err := strconv.ParseFloat(s, 64); err == nil {
			wantKind, wantF = "float64", v
		} else if v, err := strconv.ParseBool(s); err == nil {
			wantKind, wantB = "bool", v
		}
		var got *Path
		var gotEnv *strEnv
		for _, p := range paths {
			loopVals := map[string]sval{}
			hook := func(t Term) (sval, bool) {
				if isParamTerm(t, field) {
					return sval{K: 's', S: s}, true
				}
				if lv, ok := t.(TLoop); ok {
					if v, ok := loopVals[key(lv)]; ok {
						return v, true
					}
				}
				return sval{}, false
			}
			feasible := true
			for si, st := range p.Steps {
				switch st.Kind {
				case "cond":
					e := &strEnv{hook: hook, ctx: c}
					v, ok := e.val(st.Cond.T)
					if e.panic != "" {
						return n, "literal " + strconv.Quote(s) + ": run-time panic (" + e.panic + ")", ""
					}
					if !ok || v.K != 'b' {
						return n, "", "literal " + strconv.Quote(s) + ": decision cannot be folded: " + c.termStr(st.Cond.T) + " (" + e.fail + ")"
					}
					feasible = v.B == st.Cond.Truth
				case "loop":
					var ex loopExit
					fin, why := c.foldLoopExit(st.Loop, hook, 64, nil, &ex)
					if why == "index out of range" || why == "slice bounds out of range" {
						return n, "literal " + strconv.Quote(s) + ": run-time panic (" + why + ")", ""
					}
					if why != "" {
						return n, "", "literal " + strconv.Quote(s) + ": loop cannot be folded: " + why
					}
					for o, v := range fin {
						loopVals[key(TLoop{o, st.Loop.ID})] = v
					}
					if inLoopExitPrefix(p, si) != ex.Idx {
						feasible = false
					}
				default:
					return n, "", "parseField has an effect (" + st.Kind + ")"
				}
				if !feasible {
					break
				}
			}
			if !feasible {
				continue
			}
			if got != nil {
				return n, "", "literal " + strconv.Quote(s) + ": two feasible paths"
			}
			got, gotEnv = p, &strEnv{hook: hook, ctx: c}
		}
		if got == nil {
			return n, "", "literal " + strconv.Quote(s) + ": no feasible path"
		}
		if got.End == "panic" {
			return n, "literal " + strconv.Quote(s) + " makes parseField panic", ""
		}
		if got.End != "return" || len(got.Vals) != 2 {
			return n, "", "parseField does not return (value, error)"
		}
		ev, ok := gotEnv.val(got.Vals[1])
		if !ok || ev.K != 'e' {
			return n, "", "literal " + strconv.Quote(s) + ": the error result cannot be folded: " + c.termStr(got.Vals[1])
		}
		gotKind := "err"
		var gv sval
		if ev.B {
			if _, isNil := got.Vals[0].(TNil); isNil {
				gotKind = "nil"
			} else {
				v, ok := gotEnv.val(got.Vals[0])
				if !ok {
					return n, "", "literal " + strconv.Quote(s) + ": the value cannot be folded: " + c.termStr(got.Vals[0]) + " (" + gotEnv.fail + ")"
				}
				gv = v
				tt := c.termType(got.Vals[0])
				if tt == nil {
					return n, "", "literal " + strconv.Quote(s) + ": the Go type of the value is not evident: " + c.termStr(got.Vals[0])
				}
				gotKind = tt.String()
			}
		} else if _, isNil := got.Vals[0].(TNil); !isNil {
			return n, "literal " + strconv.Quote(s) + ": an error is returned together with a value", ""
		}
		same := gotKind == wantKind
		if same {
			switch wantKind {
			case "int":
				same = gv.K == 'i' && gv.I == wantI
			case "float64":
				same = gv.K == 'f' && (math.Float64bits(gv.F) == math.Float64bits(wantF))
			case "bool":
				same = gv.K == 'b' && gv.B == wantB
			}
		}
		if !same {
			return n, "literal " + strconv.Quote(s) + " is read as " + gotKind + ", the reference cascade (null, int of the platform size, float64, bool, error) reads it as " + wantKind, ""
		}
		n++
	}
	return n, "", ""
}

// tokenParamObj: the string parameter of a token consumer (the first parameter when there is no single string parameter).
func tokenParamObj(c *Ctx, fd *ast.FuncDecl) types.Object {
	var first, str types.Object
	n := 0
	for _, f := range fd.Type.Params.List {
		for _, nm := range f.Names {
			o := c.Info.Defs[nm]
			if first == nil {
				first = o
			}
			if o != nil && isStringType(o.Type()) {
				str = o
				n++
			}
		}
	}
	if n == 1 {
		return str
	}
	return first
}
