package main

// Finite folding of SX terms over concrete short strings (tree-form paths): strings, bytes, ints, booleans, error nil-ness.
// The string functions are interpreted by the standard library itself (the trusted table of DESIGN.md §7).

import (
	"go/ast"
	"go/constant"
	"go/token"
	"go/types"
	"strconv"
	"strings"
)

type sval struct {
	K   byte // 's' string, 'i' int/byte/rune, 'f' float64, 'b' bool, 'e' error (B = is nil), 't' tuple
	S   string
	I   int64
	F   float64
	B   bool
	Tup []sval
}

// wrapInt: v as a value of the integer type t (two's complement wrap-around of the sized types; int/uint by the platform size when a
// context is at hand, 64 bits otherwise).
func (e *strEnv) wrapInt(v int64, t types.Type) int64 {
	if t == nil {
		return v
	}
	b, ok := t.Underlying().(*types.Basic)
	if !ok {
		return v
	}
	bits := 64
	if e.ctx != nil {
		bits = int(e.ctx.intSize()) * 8
	}
	switch b.Kind() {
	case types.Uint8:
		return int64(uint8(v))
	case types.Uint16:
		return int64(uint16(v))
	case types.Uint32:
		return int64(uint32(v))
	case types.Int8:
		return int64(int8(v))
	case types.Int16:
		return int64(int16(v))
	case types.Int32:
		return int64(int32(v))
	case types.Int:
		if bits == 32 {
			return int64(int32(v))
		}
	case types.Uint, types.Uintptr:
		if bits == 32 {
			return int64(uint32(v))
		}
	}
	return v
}

type strEnv struct {
	hook  func(t Term) (sval, bool)
	fail  string
	panic string            // run-time panic the expression would raise (index out of range)
	bufs  map[string][]byte // byte buffers made on the path (by the key of their make term; local builders by bufKey), as execStep left them
	loops map[string]sval   // values the executed loops left in their variables (by the key of the TLoop term)
	ctx   *Ctx              // needed by execLoop for the post statement of counted loops
	execd bool              // execStep has been applying the effects of the path: a local builder without writes is empty
}

// isTextBuilder: strings.Builder or bytes.Buffer.
func isTextBuilder(t types.Type) bool {
	if t == nil {
		return false
	}
	if p, ok := t.(*types.Pointer); ok {
		t = p.Elem()
	}
	s := t.String()
	return s == "strings.Builder" || s == "bytes.Buffer"
}

// localBuilder: t denotes a builder local to the path (a variable, its zero literal or new(T)); returns its buffer key.
func (e *strEnv) localBuilder(t Term) (string, bool) {
	b := t
	for {
		switch x := b.(type) {
		case TDeref:
			b = x.X
			continue
		case TAddr:
			b = x.X
			continue
		}
		break
	}
	switch x := b.(type) {
	case TVar:
		if x.Obj != nil && isLocalVar(x.Obj) && isTextBuilder(x.Obj.Type()) {
			return key(b), true
		}
	case TLit:
		if isTextBuilder(x.Type) && x.Fresh != 0 {
			return key(b), true
		}
	case TBuiltin:
		if x.Name == "new" && isTextBuilder(x.Type) {
			return key(b), true
		}
	}
	return "", false
}

// isByteSlice: []byte.
func isByteSlice(t types.Type) bool {
	if t == nil {
		return false
	}
	sl, ok := t.Underlying().(*types.Slice)
	if !ok {
		return false
	}
	b, ok := sl.Elem().Underlying().(*types.Basic)
	return ok && b.Kind() == types.Uint8
}

// bufRef resolves a destination term to a byte buffer made on the path and an offset into it: make(…), make(…)[lo:].
func (e *strEnv) bufRef(t Term) (string, int, bool) {
	switch x := t.(type) {
	case TBuiltin:
		if x.Name == "make" && isByteSlice(x.Type) {
			if _, ok := e.val(x); !ok { // registers the buffer
				return "", 0, false
			}
			return key(x), 0, true
		}
	case TSlice:
		k, off, ok := e.bufRef(x.X)
		if !ok {
			return "", 0, false
		}
		lo := int64(0)
		if x.Lo != nil {
			v, ok := e.val(x.Lo)
			if !ok || v.K != 'i' {
				return "", 0, false
			}
			lo = v.I
		}
		if lo < 0 || off+int(lo) > len(e.bufs[k]) {
			e.panic = "slice bounds out of range"
			return "", 0, false
		}
		return k, off + int(lo), true
	}
	return "", 0, false
}

// execStep applies a store into / a copy into a byte buffer made on the path. Reports false for any other effect.
func (e *strEnv) execStep(st Step) bool {
	e.execd = true
	switch {
	case st.Kind == "store":
		ix, ok := st.LHS.(TIndex)
		if !ok {
			tv, isVar := st.LHS.(TVar)
			if isVar && tv.Obj != nil && isTextBuilder(tv.Obj.Type()) {
				if e.bufs == nil {
					e.bufs = map[string][]byte{}
				}
				e.bufs[key(tv)] = []byte{} // an empty builder
			}
			return isVar // zero-initialisation of an addressed local
		}
		k, off, ok := e.bufRef(ix.X)
		if !ok {
			return false
		}
		i, ok1 := e.val(ix.I)
		b, ok2 := e.val(st.RHS)
		if !ok1 || !ok2 || i.K != 'i' || b.K != 'i' {
			return false
		}
		if i.I < 0 || off+int(i.I) >= len(e.bufs[k]) {
			e.panic = "index out of range"
			return true
		}
		e.bufs[k][off+int(i.I)] = byte(b.I)
		return true
	case st.Kind == "call" && st.Blt != nil && st.Blt.Name == "copy" && len(st.Blt.Args) == 2:
		k, off, ok := e.bufRef(st.Blt.Args[0])
		if !ok {
			return false
		}
		src, ok := e.val(st.Blt.Args[1])
		if !ok || src.K != 's' {
			return false
		}
		copy(e.bufs[k][off:], src.S)
		return true
	case st.Kind == "call" && st.Call != nil && st.Call.Fun != nil && st.Call.Recv != nil:
		// writes into a builder local to the path
		k, ok := e.localBuilder(st.Call.Recv)
		if !ok {
			return false
		}
		if e.bufs == nil {
			e.bufs = map[string][]byte{}
		}
		switch st.Call.Fun.FullName() {
		case "(*strings.Builder).WriteByte", "(*bytes.Buffer).WriteByte", "(*strings.Builder).WriteRune", "(*bytes.Buffer).WriteRune":
			if len(st.Call.Args) != 1 {
				return false
			}
			v, ok := e.val(st.Call.Args[0])
			if !ok || v.K != 'i' {
				return false
			}
			if strings.HasSuffix(st.Call.Fun.Name(), "Byte") {
				e.bufs[k] = append(e.bufs[k], byte(v.I))
			} else {
				e.bufs[k] = append(e.bufs[k], string(rune(v.I))...)
			}
			return true
		case "(*strings.Builder).WriteString", "(*bytes.Buffer).WriteString":
			if len(st.Call.Args) != 1 {
				return false
			}
			v, ok := e.val(st.Call.Args[0])
			if !ok || v.K != 's' {
				return false
			}
			e.bufs[k] = append(e.bufs[k], v.S...)
			return true
		case "(*strings.Builder).Grow", "(*bytes.Buffer).Grow":
			return true
		case "(*strings.Builder).Reset", "(*bytes.Buffer).Reset":
			e.bufs[k] = []byte{}
			return true
		}
	case st.Kind == "loop" && st.Loop != nil:
		return e.execLoop(st.Loop, 64)
	}
	return false
}

// execLoop runs a loop whose effects are stores into / writes to buffers local to the path, concretely: per iteration the feasible
// path is selected by folding its conditions, its effects are applied, the loop-carried variables updated. The values the loop
// leaves in its variables are remembered for the terms after it.
func (e *strEnv) execLoop(l *LoopRec, limit int) bool {
	outer := e.hook
	defer func() { e.hook = outer }()
	state := map[types.Object]sval{}
	for o, t := range l.Init {
		sub := &strEnv{hook: outer, bufs: e.bufs, loops: e.loops}
		if v, ok := sub.val(t); ok {
			state[o] = v
		}
	}
	var keyVal *sval
	e.hook = func(t Term) (sval, bool) {
		switch x := t.(type) {
		case TLoop:
			if x.ID == l.ID {
				if v, ok := state[x.Obj]; ok {
					return v, true
				}
			}
		case TVar:
			if l.Key != nil && x.Obj == l.Key && keyVal != nil {
				return *keyVal, true
			}
		}
		if outer != nil {
			return outer(t)
		}
		return sval{}, false
	}
	count := int64(-1)
	if l.Range != nil {
		if l.Value != nil {
			return false
		}
		if k, off, ok := e.bufRef(l.Over); ok {
			count = int64(len(e.bufs[k]) - off)
		} else if v, ok := e.val(l.Over); ok && v.K == 'i' {
			count = v.I
		} else {
			return false
		}
	} else if l.For == nil || l.CondT == nil {
		return false
	}
	for it := int64(0); ; it++ {
		if it > int64(limit) {
			return false
		}
		if count >= 0 {
			if it >= count {
				break
			}
			kv := sval{K: 'i', I: it}
			keyVal = &kv
		} else {
			cv, ok := e.val(l.CondT)
			if !ok || cv.K != 'b' || e.panic != "" {
				return false
			}
			if !cv.B {
				break
			}
		}
		var sel *Path
		for _, ip := range l.Iter {
			if ip.Why != "" {
				return false
			}
			feasible := true
			for _, cd := range ip.Conds() {
				cv, ok := e.val(cd.T)
				if !ok || cv.K != 'b' {
					return false
				}
				if cv.B != cd.Truth {
					feasible = false
					break
				}
			}
			if feasible {
				if sel != nil {
					return false
				}
				sel = ip
			}
		}
		if sel == nil || (sel.End != "fall" && sel.End != "continue" && sel.End != "break") {
			return false
		}
		for _, st := range sel.Steps {
			if st.Kind == "cond" {
				continue
			}
			if !e.execStep(st) || e.panic != "" {
				return false
			}
		}
		next := map[types.Object]sval{}
		for o := range state {
			if t, ok := sel.Env[o]; ok {
				v, ok := e.val(t)
				if !ok {
					return false
				}
				next[o] = v
			} else {
				next[o] = state[o]
			}
		}
		state = next
		if sel.End == "break" {
			break
		}
		if count < 0 && (l.Post != nil || l.PostStep != nil) {
			if e.ctx == nil {
				return false
			}
			ints := map[types.Object]int64{}
			for o, v := range state {
				if v.K == 'i' {
					ints[o] = v.I
				}
			}
			sim := &loopSim{c: e.ctx, l: l, state: ints}
			if !sim.post() {
				return false
			}
			for o, v := range sim.state {
				state[o] = sval{K: 'i', I: v}
			}
		}
	}
	if e.loops == nil {
		e.loops = map[string]sval{}
	}
	for o, v := range state {
		e.loops[key(TLoop{o, l.ID})] = v
	}
	return true
}

func (e *strEnv) bad(w string) (sval, bool) {
	if e.fail == "" {
		e.fail = w
	}
	return sval{}, false
}

func (e *strEnv) val(t Term) (sval, bool) {
	if e.hook != nil {
		if v, ok := e.hook(t); ok {
			return v, true
		}
	}
	if lv, ok := t.(TLoop); ok && e.loops != nil {
		if v, ok := e.loops[key(lv)]; ok {
			return v, true
		}
	}
	if call, ok := t.(TCall); ok && call.Fun != nil && call.Recv != nil && len(call.Args) == 0 && (call.Fun.Name() == "String" || call.Fun.FullName() == "(*bytes.Buffer).Bytes") && (e.bufs != nil || e.execd) {
		if k, ok := e.localBuilder(call.Recv); ok {
			if b, ok := e.bufs[k]; ok {
				return sval{K: 's', S: string(b)}, true
			}
			if e.execd {
				return sval{K: 's', S: ""}, true
			}
		}
	}
	switch x := t.(type) {
	case TConst:
		switch x.Val.Kind() {
		case constant.String:
			return sval{K: 's', S: constant.StringVal(x.Val)}, true
		case constant.Int:
			i, _ := constant.Int64Val(x.Val)
			return sval{K: 'i', I: i}, true
		case constant.Bool:
			return sval{K: 'b', B: constant.BoolVal(x.Val)}, true
		case constant.Float:
			f, _ := constant.Float64Val(x.Val)
			return sval{K: 'f', F: f}, true
		}
	case TNil:
		return sval{K: 'e', B: true}, true
	case TConv:
		v, ok := e.val(x.X)
		if !ok {
			return sval{}, false
		}
		if b, isB := x.To.Underlying().(*types.Basic); isB {
			switch {
			case b.Info()&types.IsInteger != 0 && v.K == 'i':
				v.I = e.wrapInt(v.I, x.To)
				return v, true
			case b.Info()&types.IsFloat != 0 && v.K == 'i':
				return sval{K: 'f', F: float64(v.I)}, true
			case b.Info()&types.IsFloat != 0 && v.K == 'f':
				return v, true
			case b.Info()&types.IsString != 0 && v.K == 'i':
				return sval{K: 's', S: string(rune(v.I))}, true
			case b.Info()&types.IsString != 0 && v.K == 's':
				return v, true
			}
		}
	case TProj:
		v, ok := e.val(x.X)
		if !ok {
			return sval{}, false
		}
		if v.K == 't' && x.K < len(v.Tup) {
			return v.Tup[x.K], true
		}
	case tTuple:
		var out sval
		out.K = 't'
		for _, el := range x.Elts {
			v, ok := e.val(el)
			if !ok {
				return sval{}, false
			}
			out.Tup = append(out.Tup, v)
		}
		return out, true
	case TBuiltin:
		if x.Name == "len" && len(x.Args) == 1 {
			v, ok := e.val(x.Args[0])
			if ok && v.K == 's' {
				return sval{K: 'i', I: int64(len(v.S))}, true
			}
			return sval{}, false
		}
		if x.Name == "make" && isByteSlice(x.Type) && len(x.Args) >= 1 {
			// a byte buffer made on the path: its current content (bytes are folded as a string)
			if e.bufs == nil {
				e.bufs = map[string][]byte{}
			}
			if b, ok := e.bufs[key(x)]; ok {
				return sval{K: 's', S: string(b)}, true
			}
			n, ok := e.val(x.Args[0])
			if !ok || n.K != 'i' || n.I < 0 || n.I > 64 {
				return sval{}, false
			}
			e.bufs[key(x)] = make([]byte, n.I)
			return sval{K: 's', S: string(e.bufs[key(x)])}, true
		}
		if x.Name == "append" && len(x.Args) >= 1 {
			// append on byte slices, functionally: bytes one by one, or a string/byte slice spread
			dst, ok := e.val(x.Args[0])
			if !ok || dst.K != 's' {
				return sval{}, false
			}
			out := dst.S
			spread := false
			if ce, isCall := x.Site.(*ast.CallExpr); isCall && ce.Ellipsis.IsValid() {
				spread = true
			}
			for _, a := range x.Args[1:] {
				v, ok := e.val(a)
				if !ok {
					return sval{}, false
				}
				switch {
				case spread && v.K == 's':
					out += v.S
				case !spread && v.K == 'i':
					out += string([]byte{byte(v.I)})
				default:
					return sval{}, false
				}
			}
			return sval{K: 's', S: out}, true
		}
	case TIndex:
		s, ok1 := e.val(x.X)
		i, ok2 := e.val(x.I)
		if ok1 && ok2 && s.K == 's' && i.K == 'i' {
			if i.I < 0 || i.I >= int64(len(s.S)) {
				e.panic = "index out of range"
				return sval{K: 'i'}, true
			}
			return sval{K: 'i', I: int64(s.S[i.I])}, true
		}
		return sval{}, false
	case TSlice:
		s, ok := e.val(x.X)
		if !ok || s.K != 's' {
			return sval{}, false
		}
		lo, hi := int64(0), int64(len(s.S))
		if x.Lo != nil {
			v, ok := e.val(x.Lo)
			if !ok || v.K != 'i' {
				return sval{}, false
			}
			lo = v.I
		}
		if x.Hi != nil {
			v, ok := e.val(x.Hi)
			if !ok || v.K != 'i' {
				return sval{}, false
			}
			hi = v.I
		}
		if lo < 0 || hi > int64(len(s.S)) || lo > hi {
			e.panic = "slice bounds out of range"
			return sval{K: 's'}, true
		}
		return sval{K: 's', S: s.S[lo:hi]}, true
	case TUn:
		v, ok := e.val(x.X)
		if !ok {
			return sval{}, false
		}
		switch {
		case x.Op == token.NOT && v.K == 'b':
			return sval{K: 'b', B: !v.B}, true
		case x.Op == token.SUB && v.K == 'i':
			return sval{K: 'i', I: -v.I}, true
		}
	case TBin:
		if x.Op == token.LAND || x.Op == token.LOR {
			a, ok := e.val(x.X)
			if !ok || a.K != 'b' {
				return sval{}, false
			}
			if (x.Op == token.LAND && !a.B) || (x.Op == token.LOR && a.B) {
				return a, true
			}
			return e.val(x.Y)
		}
		a, ok1 := e.val(x.X)
		b, ok2 := e.val(x.Y)
		if !ok1 || !ok2 {
			return sval{}, false
		}
		if a.K == 'e' || b.K == 'e' {
			if a.K == 'e' && b.K == 'e' {
				eq := a.B == b.B && a.B // nil == nil only
				if !a.B && !b.B {
					return e.bad("comparison of two non-nil errors")
				}
				switch x.Op {
				case token.EQL:
					return sval{K: 'b', B: eq}, true
				case token.NEQ:
					return sval{K: 'b', B: !eq}, true
				}
			}
			return sval{}, false
		}
		if a.K == 's' && b.K == 's' {
			switch x.Op {
			case token.EQL:
				return sval{K: 'b', B: a.S == b.S}, true
			case token.NEQ:
				return sval{K: 'b', B: a.S != b.S}, true
			case token.ADD:
				return sval{K: 's', S: a.S + b.S}, true
			case token.LSS:
				return sval{K: 'b', B: a.S < b.S}, true
			}
		}
		if a.K == 'f' && b.K == 'f' {
			switch x.Op {
			case token.EQL:
				return sval{K: 'b', B: a.F == b.F}, true
			case token.NEQ:
				return sval{K: 'b', B: a.F != b.F}, true
			case token.LSS:
				return sval{K: 'b', B: a.F < b.F}, true
			case token.LEQ:
				return sval{K: 'b', B: a.F <= b.F}, true
			case token.GTR:
				return sval{K: 'b', B: a.F > b.F}, true
			case token.GEQ:
				return sval{K: 'b', B: a.F >= b.F}, true
			}
		}
		if a.K == 'i' && b.K == 'i' {
			var rt types.Type
			if e.ctx != nil {
				rt = e.ctx.termType(x)
			}
			switch x.Op {
			case token.ADD:
				return sval{K: 'i', I: e.wrapInt(a.I+b.I, rt)}, true
			case token.SUB:
				return sval{K: 'i', I: e.wrapInt(a.I-b.I, rt)}, true
			case token.MUL:
				return sval{K: 'i', I: e.wrapInt(a.I*b.I, rt)}, true
			case token.QUO:
				if b.I == 0 {
					e.panic = "integer divide by zero"
					return sval{}, false
				}
				return sval{K: 'i', I: e.wrapInt(a.I/b.I, rt)}, true
			case token.REM:
				if b.I == 0 {
					e.panic = "integer divide by zero"
					return sval{}, false
				}
				return sval{K: 'i', I: a.I % b.I}, true
			case token.EQL:
				return sval{K: 'b', B: a.I == b.I}, true
			case token.NEQ:
				return sval{K: 'b', B: a.I != b.I}, true
			case token.LSS:
				return sval{K: 'b', B: a.I < b.I}, true
			case token.LEQ:
				return sval{K: 'b', B: a.I <= b.I}, true
			case token.GTR:
				return sval{K: 'b', B: a.I > b.I}, true
			case token.GEQ:
				return sval{K: 'b', B: a.I >= b.I}, true
			}
		}
		if a.K == 'b' && b.K == 'b' {
			switch x.Op {
			case token.EQL:
				return sval{K: 'b', B: a.B == b.B}, true
			case token.NEQ:
				return sval{K: 'b', B: a.B != b.B}, true
			}
		}
	case TCall:
		if x.Fun == nil || x.Fun.Pkg() == nil {
			break
		}
		if fn := x.Fun.FullName(); fn == "fmt.Errorf" || fn == "errors.New" {
			return sval{K: 'e', B: false}, true // a freshly made error: not nil, whatever its text
		}
		var args []sval
		for _, a := range x.Args {
			v, ok := e.val(a)
			if !ok {
				return sval{}, false
			}
			args = append(args, v)
		}
		isS := func(i int) bool { return i < len(args) && args[i].K == 's' }
		isI := func(i int) bool { return i < len(args) && args[i].K == 'i' }
		I := func(v int) sval { return sval{K: 'i', I: int64(v)} }
		Bv := func(v bool) sval { return sval{K: 'b', B: v} }
		switch x.Fun.FullName() {
		case "strings.Index":
			if isS(0) && isS(1) {
				return I(strings.Index(args[0].S, args[1].S)), true
			}
		case "strings.IndexByte":
			if isS(0) && isI(1) {
				return I(strings.IndexByte(args[0].S, byte(args[1].I))), true
			}
		case "strings.IndexRune":
			if isS(0) && isI(1) {
				return I(strings.IndexRune(args[0].S, rune(args[1].I))), true
			}
		case "strings.IndexAny":
			if isS(0) && isS(1) {
				return I(strings.IndexAny(args[0].S, args[1].S)), true
			}
		case "strings.LastIndex":
			if isS(0) && isS(1) {
				return I(strings.LastIndex(args[0].S, args[1].S)), true
			}
		case "strings.Contains":
			if isS(0) && isS(1) {
				return Bv(strings.Contains(args[0].S, args[1].S)), true
			}
		case "strings.ContainsAny":
			if isS(0) && isS(1) {
				return Bv(strings.ContainsAny(args[0].S, args[1].S)), true
			}
		case "strings.ContainsRune":
			if isS(0) && isI(1) {
				return Bv(strings.ContainsRune(args[0].S, rune(args[1].I))), true
			}
		case "strings.HasPrefix":
			if isS(0) && isS(1) {
				return Bv(strings.HasPrefix(args[0].S, args[1].S)), true
			}
		case "strings.HasSuffix":
			if isS(0) && isS(1) {
				return Bv(strings.HasSuffix(args[0].S, args[1].S)), true
			}
		case "strings.Count":
			if isS(0) && isS(1) {
				return I(strings.Count(args[0].S, args[1].S)), true
			}
		case "strings.Repeat":
			if isS(0) && isI(1) && args[1].I >= 0 && args[1].I <= 64 {
				return sval{K: 's', S: strings.Repeat(args[0].S, int(args[1].I))}, true
			}
		case "strconv.FormatBool":
			if len(args) == 1 && args[0].K == 'b' {
				return sval{K: 's', S: strconv.FormatBool(args[0].B)}, true
			}
		case "strconv.Itoa":
			if isI(0) {
				return sval{K: 's', S: strconv.FormatInt(args[0].I, 10)}, true
			}
		case "strings.TrimPrefix":
			if isS(0) && isS(1) {
				return sval{K: 's', S: strings.TrimPrefix(args[0].S, args[1].S)}, true
			}
		case "strings.TrimSuffix":
			if isS(0) && isS(1) {
				return sval{K: 's', S: strings.TrimSuffix(args[0].S, args[1].S)}, true
			}
		case "strings.LastIndexByte":
			if isS(0) && isI(1) {
				return I(strings.LastIndexByte(args[0].S, byte(args[1].I))), true
			}
		case "strings.Cut":
			if isS(0) && isS(1) {
				before, after, found := strings.Cut(args[0].S, args[1].S)
				return sval{K: 't', Tup: []sval{{K: 's', S: before}, {K: 's', S: after}, Bv(found)}}, true
			}
		case "strings.CutPrefix":
			if isS(0) && isS(1) {
				after, found := strings.CutPrefix(args[0].S, args[1].S)
				return sval{K: 't', Tup: []sval{{K: 's', S: after}, Bv(found)}}, true
			}
		case "strings.CutSuffix":
			if isS(0) && isS(1) {
				before, found := strings.CutSuffix(args[0].S, args[1].S)
				return sval{K: 't', Tup: []sval{{K: 's', S: before}, Bv(found)}}, true
			}
		case "strconv.ParseInt":
			if isS(0) && isI(1) && isI(2) {
				v, err := strconv.ParseInt(args[0].S, int(args[1].I), int(args[2].I))
				return sval{K: 't', Tup: []sval{{K: 'i', I: v}, {K: 'e', B: err == nil}}}, true
			}
		case "strconv.ParseFloat":
			if isS(0) && isI(1) {
				v, err := strconv.ParseFloat(args[0].S, int(args[1].I))
				return sval{K: 't', Tup: []sval{{K: 'f', F: v}, {K: 'e', B: err == nil}}}, true
			}
		case "strconv.ParseBool":
			if isS(0) {
				v, err := strconv.ParseBool(args[0].S)
				return sval{K: 't', Tup: []sval{Bv(v), {K: 'e', B: err == nil}}}, true
			}
		case "strconv.ParseUint":
			if isS(0) && isI(1) && isI(2) {
				v, err := strconv.ParseUint(args[0].S, int(args[1].I), int(args[2].I))
				return sval{K: 't', Tup: []sval{{K: 'i', I: int64(v)}, {K: 'e', B: err == nil}}}, true
			}
		case "strconv.Atoi":
			if isS(0) {
				v, err := strconv.Atoi(args[0].S)
				return sval{K: 't', Tup: []sval{{K: 'i', I: int64(v)}, {K: 'e', B: err == nil}}}, true
			}
		}
	}
	return e.bad("term outside the string-folding vocabulary: " + key(t))
}

// shortPaths enumerates all strings over the alphabet up to the given length.
func shortStrings(alphabet string, maxLen int) []string {
	out := []string{""}
	prev := []string{""}
	for l := 1; l <= maxLen; l++ {
		var cur []string
		for _, p := range prev {
			for _, ch := range alphabet {
				cur = append(cur, p+string(ch))
			}
		}
		out = append(out, cur...)
		prev = cur
	}
	return out
}

// foldLoop executes a counted loop concretely over folded values: per iteration the feasible iteration path is selected by folding
// its conditions, and the loop-carried integer variables are updated from the path's final environment; then the post statement.
// Returns the values of the loop-carried variables after the loop. Effects inside the loop are not allowed (pure counting loops).
func (c *Ctx) foldLoop(l *LoopRec, hook func(Term) (sval, bool), limit int) (map[types.Object]sval, string) {
	return c.foldLoopMem(l, hook, limit, nil)
}

// foldLoopMem: as foldLoop; mem holds the folded values of addressed locals (by the key of the variable term): stores to such a local
// inside the loop are applied to it, loads of it (*&v) read it.
func (c *Ctx) foldLoopMem(l *LoopRec, hook func(Term) (sval, bool), limit int, mem map[string]sval) (map[types.Object]sval, string) {
	return c.foldLoopExit(l, hook, limit, mem, nil)
}

// loopExit: how a folded loop was left — Idx is the index of the iteration path that returned or panicked from inside (-1: the loop ran
// out or was left by break); the values returned are then those the leaving round began with (the convention of in-loop exits).
type loopExit struct{ Idx int }

// foldLoopExit: as foldLoopMem; with exit != nil a round that returns or panics ends the fold and is reported there.
func (c *Ctx) foldLoopExit(l *LoopRec, hook func(Term) (sval, bool), limit int, mem map[string]sval, exit *loopExit) (map[types.Object]sval, string) {
	if exit != nil {
		exit.Idx = -1
	}
	if l.For == nil || l.CondT == nil {
		return nil, "not a counted loop"
	}
	state := map[types.Object]sval{}
	for o, t := range l.Init {
		e := &strEnv{hook: hook, ctx: c}
		v, ok := e.val(t)
		if !ok {
			return nil, "loop initialiser cannot be folded: " + e.fail
		}
		state[o] = v
	}
	cur := mem
	h := func(t Term) (sval, bool) {
		if lv, ok := t.(TLoop); ok && lv.ID == l.ID {
			if v, ok := state[lv.Obj]; ok {
				return v, true
			}
		}
		if d, ok := t.(TDeref); ok && cur != nil {
			if a, ok := d.X.(TAddr); ok {
				if v, ok := cur[key(a.X)]; ok {
					return v, true
				}
			}
		}
		return hook(t)
	}
	for it := 0; it < limit; it++ {
		cur = mem
		e := &strEnv{hook: h, ctx: c}
		cv, ok := e.val(l.CondT)
		if e.panic != "" {
			return nil, e.panic
		}
		if !ok || cv.K != 'b' {
			return nil, "loop condition cannot be folded: " + e.fail
		}
		if !cv.B {
			return state, ""
		}
		var sel *Path
		var selMem map[string]sval
		for _, ip := range l.Iter {
			feasible := true
			if mem != nil {
				cur = map[string]sval{}
				for k, v := range mem {
					cur[k] = v
				}
			}
			for _, st := range ip.Steps {
				switch st.Kind {
				case "store":
					tv, isVar := st.LHS.(TVar)
					if !isVar || cur == nil {
						return nil, "effect inside a folded loop"
					}
					e2 := &strEnv{hook: h, ctx: c}
					v, ok := e2.val(st.RHS)
					if e2.panic != "" {
						return nil, e2.panic
					}
					if !ok {
						return nil, "store inside the loop cannot be folded: " + e2.fail
					}
					cur[key(tv)] = v
				case "cond":
					e2 := &strEnv{hook: h, ctx: c}
					v, ok := e2.val(st.Cond.T)
					if e2.panic != "" {
						return nil, e2.panic
					}
					if !ok || v.K != 'b' {
						return nil, "condition inside the loop cannot be folded: " + e2.fail
					}
					if v.B != st.Cond.Truth {
						feasible = false
					}
				default:
					return nil, "effect inside a folded loop"
				}
				if !feasible {
					break
				}
			}
			if feasible {
				if sel != nil {
					return nil, "two feasible iteration paths"
				}
				sel, selMem = ip, cur
			}
		}
		if sel != nil && exit != nil && (sel.End == "return" || sel.End == "panic") {
			for k, ip := range l.Iter {
				if ip == sel {
					exit.Idx = k
				}
			}
			return state, ""
		}
		if sel == nil || (sel.End != "fall" && sel.End != "continue" && sel.End != "break") {
			return nil, "no continuing iteration path"
		}
		if mem != nil && selMem != nil {
			for k, v := range selMem {
				mem[k] = v
			}
		}
		cur = mem
		next := map[types.Object]sval{}
		for o := range state {
			if t, ok := sel.Env[o]; ok {
				e3 := &strEnv{hook: h, ctx: c}
				v, ok := e3.val(t)
				if !ok {
					return nil, "loop variable update cannot be folded: " + e3.fail
				}
				next[o] = v
			} else {
				next[o] = state[o]
			}
		}
		state = next
		if sel.End == "break" {
			return state, "" // left by break: the post statement does not run
		}
		// post statement on integers
		if l.Post != nil || l.PostStep != nil {
			ints := map[types.Object]int64{}
			for o, v := range state {
				if v.K == 'i' {
					ints[o] = v.I
				}
			}
			sim := &loopSim{c: c, l: l, state: ints}
			if !sim.post() {
				return nil, sim.why
			}
			for o, v := range sim.state {
				state[o] = sval{K: 'i', I: v}
			}
		}
	}
	return nil, "loop does not terminate within the folding limit"
}
