package main

// Finite folding of SX terms over concrete short strings (tree-form paths): strings, bytes, ints, booleans, error nil-ness.
// The string functions are interpreted by the standard library itself (the trusted table of DESIGN.md §7).

import (
	"go/constant"
	"go/token"
	"go/types"
	"strconv"
	"strings"
)

type sval struct {
	K   byte // 's' string, 'i' int/byte/rune, 'b' bool, 'e' error (B = is nil), 't' tuple
	S   string
	I   int64
	B   bool
	Tup []sval
}

type strEnv struct {
	hook  func(t Term) (sval, bool)
	fail  string
	panic string // run-time panic the expression would raise (index out of range)
}

func (e *strEnv) bad(w string) (sval, bool) {
	if e.fail == "" {
		e.fail = w
	}
	return sval{}, false
}

func (e *strEnv) val(t Term) (sval, bool) {
	if e.hook != nil {
		if v, ok := e.hook(t); ok {
			return v, true
		}
	}
	switch x := t.(type) {
	case TConst:
		switch x.Val.Kind() {
		case constant.String:
			return sval{K: 's', S: constant.StringVal(x.Val)}, true
		case constant.Int:
			i, _ := constant.Int64Val(x.Val)
			return sval{K: 'i', I: i}, true
		case constant.Bool:
			return sval{K: 'b', B: constant.BoolVal(x.Val)}, true
		}
	case TNil:
		return sval{K: 'e', B: true}, true
	case TConv:
		v, ok := e.val(x.X)
		if !ok {
			return sval{}, false
		}
		if b, isB := x.To.Underlying().(*types.Basic); isB {
			switch {
			case b.Info()&types.IsInteger != 0 && v.K == 'i':
				return v, true
			case b.Info()&types.IsString != 0 && v.K == 'i':
				return sval{K: 's', S: string(rune(v.I))}, true
			case b.Info()&types.IsString != 0 && v.K == 's':
				return v, true
			}
		}
	case TProj:
		v, ok := e.val(x.X)
		if !ok {
			return sval{}, false
		}
		if v.K == 't' && x.K < len(v.Tup) {
			return v.Tup[x.K], true
		}
	case tTuple:
		var out sval
		out.K = 't'
		for _, el := range x.Elts {
			v, ok := e.val(el)
			if !ok {
				return sval{}, false
			}
			out.Tup = append(out.Tup, v)
		}
		return out, true
	case TBuiltin:
		if x.Name == "len" && len(x.Args) == 1 {
			v, ok := e.val(x.Args[0])
			if ok && v.K == 's' {
				return sval{K: 'i', I: int64(len(v.S))}, true
			}
			return sval{}, false
		}
	case TIndex:
		s, ok1 := e.val(x.X)
		i, ok2 := e.val(x.I)
		if ok1 && ok2 && s.K == 's' && i.K == 'i' {
			if i.I < 0 || i.I >= int64(len(s.S)) {
				e.panic = "index out of range"
				return sval{K: 'i'}, true
			}
			return sval{K: 'i', I: int64(s.S[i.I])}, true
		}
		return sval{}, false
	case TSlice:
		s, ok := e.val(x.X)
		if !ok || s.K != 's' {
			return sval{}, false
		}
		lo, hi := int64(0), int64(len(s.S))
		if x.Lo != nil {
			v, ok := e.val(x.Lo)
			if !ok || v.K != 'i' {
				return sval{}, false
			}
			lo = v.I
		}
		if x.Hi != nil {
			v, ok := e.val(x.Hi)
			if !ok || v.K != 'i' {
				return sval{}, false
			}
			hi = v.I
		}
		if lo < 0 || hi > int64(len(s.S)) || lo > hi {
			e.panic = "slice bounds out of range"
			return sval{K: 's'}, true
		}
		return sval{K: 's', S: s.S[lo:hi]}, true
	case TUn:
		v, ok := e.val(x.X)
		if !ok {
			return sval{}, false
		}
		switch {
		case x.Op == token.NOT && v.K == 'b':
			return sval{K: 'b', B: !v.B}, true
		case x.Op == token.SUB && v.K == 'i':
			return sval{K: 'i', I: -v.I}, true
		}
	case TBin:
		if x.Op == token.LAND || x.Op == token.LOR {
			a, ok := e.val(x.X)
			if !ok || a.K != 'b' {
				return sval{}, false
			}
			if (x.Op == token.LAND && !a.B) || (x.Op == token.LOR && a.B) {
				return a, true
			}
			return e.val(x.Y)
		}
		a, ok1 := e.val(x.X)
		b, ok2 := e.val(x.Y)
		if !ok1 || !ok2 {
			return sval{}, false
		}
		if a.K == 'e' || b.K == 'e' {
			if a.K == 'e' && b.K == 'e' {
				eq := a.B == b.B && a.B // nil == nil only
				if !a.B && !b.B {
					return e.bad("comparison of two non-nil errors")
				}
				switch x.Op {
				case token.EQL:
					return sval{K: 'b', B: eq}, true
				case token.NEQ:
					return sval{K: 'b', B: !eq}, true
				}
			}
			return sval{}, false
		}
		if a.K == 's' && b.K == 's' {
			switch x.Op {
			case token.EQL:
				return sval{K: 'b', B: a.S == b.S}, true
			case token.NEQ:
				return sval{K: 'b', B: a.S != b.S}, true
			case token.ADD:
				return sval{K: 's', S: a.S + b.S}, true
			case token.LSS:
				return sval{K: 'b', B: a.S < b.S}, true
			}
		}
		if a.K == 'i' && b.K == 'i' {
			switch x.Op {
			case token.ADD:
				return sval{K: 'i', I: a.I + b.I}, true
			case token.SUB:
				return sval{K: 'i', I: a.I - b.I}, true
			case token.MUL:
				return sval{K: 'i', I: a.I * b.I}, true
			case token.EQL:
				return sval{K: 'b', B: a.I == b.I}, true
			case token.NEQ:
				return sval{K: 'b', B: a.I != b.I}, true
			case token.LSS:
				return sval{K: 'b', B: a.I < b.I}, true
			case token.LEQ:
				return sval{K: 'b', B: a.I <= b.I}, true
			case token.GTR:
				return sval{K: 'b', B: a.I > b.I}, true
			case token.GEQ:
				return sval{K: 'b', B: a.I >= b.I}, true
			}
		}
		if a.K == 'b' && b.K == 'b' {
			switch x.Op {
			case token.EQL:
				return sval{K: 'b', B: a.B == b.B}, true
			case token.NEQ:
				return sval{K: 'b', B: a.B != b.B}, true
			}
		}
	case TCall:
		if x.Fun == nil || x.Fun.Pkg() == nil {
			break
		}
		var args []sval
		for _, a := range x.Args {
			v, ok := e.val(a)
			if !ok {
				return sval{}, false
			}
			args = append(args, v)
		}
		isS := func(i int) bool { return i < len(args) && args[i].K == 's' }
		isI := func(i int) bool { return i < len(args) && args[i].K == 'i' }
		I := func(v int) sval { return sval{K: 'i', I: int64(v)} }
		Bv := func(v bool) sval { return sval{K: 'b', B: v} }
		switch x.Fun.FullName() {
		case "strings.Index":
			if isS(0) && isS(1) {
				return I(strings.Index(args[0].S, args[1].S)), true
			}
		case "strings.IndexByte":
			if isS(0) && isI(1) {
				return I(strings.IndexByte(args[0].S, byte(args[1].I))), true
			}
		case "strings.IndexRune":
			if isS(0) && isI(1) {
				return I(strings.IndexRune(args[0].S, rune(args[1].I))), true
			}
		case "strings.IndexAny":
			if isS(0) && isS(1) {
				return I(strings.IndexAny(args[0].S, args[1].S)), true
			}
		case "strings.LastIndex":
			if isS(0) && isS(1) {
				return I(strings.LastIndex(args[0].S, args[1].S)), true
			}
		case "strings.Contains":
			if isS(0) && isS(1) {
				return Bv(strings.Contains(args[0].S, args[1].S)), true
			}
		case "strings.ContainsAny":
			if isS(0) && isS(1) {
				return Bv(strings.ContainsAny(args[0].S, args[1].S)), true
			}
		case "strings.ContainsRune":
			if isS(0) && isI(1) {
				return Bv(strings.ContainsRune(args[0].S, rune(args[1].I))), true
			}
		case "strings.HasPrefix":
			if isS(0) && isS(1) {
				return Bv(strings.HasPrefix(args[0].S, args[1].S)), true
			}
		case "strings.HasSuffix":
			if isS(0) && isS(1) {
				return Bv(strings.HasSuffix(args[0].S, args[1].S)), true
			}
		case "strings.Count":
			if isS(0) && isS(1) {
				return I(strings.Count(args[0].S, args[1].S)), true
			}
		case "strings.Repeat":
			if isS(0) && isI(1) && args[1].I >= 0 && args[1].I <= 64 {
				return sval{K: 's', S: strings.Repeat(args[0].S, int(args[1].I))}, true
			}
		case "strings.TrimPrefix":
			if isS(0) && isS(1) {
				return sval{K: 's', S: strings.TrimPrefix(args[0].S, args[1].S)}, true
			}
		case "strconv.ParseInt":
			if isS(0) && isI(1) && isI(2) {
				v, err := strconv.ParseInt(args[0].S, int(args[1].I), int(args[2].I))
				return sval{K: 't', Tup: []sval{{K: 'i', I: v}, {K: 'e', B: err == nil}}}, true
			}
		case "strconv.ParseUint":
			if isS(0) && isI(1) && isI(2) {
				v, err := strconv.ParseUint(args[0].S, int(args[1].I), int(args[2].I))
				return sval{K: 't', Tup: []sval{{K: 'i', I: int64(v)}, {K: 'e', B: err == nil}}}, true
			}
		case "strconv.Atoi":
			if isS(0) {
				v, err := strconv.Atoi(args[0].S)
				return sval{K: 't', Tup: []sval{{K: 'i', I: int64(v)}, {K: 'e', B: err == nil}}}, true
			}
		}
	}
	return e.bad("term outside the string-folding vocabulary: " + key(t))
}

// shortPaths enumerates all strings over the alphabet up to the given length.
func shortStrings(alphabet string, maxLen int) []string {
	out := []string{""}
	prev := []string{""}
	for l := 1; l <= maxLen; l++ {
		var cur []string
		for _, p := range prev {
			for _, ch := range alphabet {
				cur = append(cur, p+string(ch))
			}
		}
		out = append(out, cur...)
		prev = cur
	}
	return out
}

// foldLoop executes a counted loop concretely over folded values: per iteration the feasible iteration path is selected by folding
// its conditions, and the loop-carried integer variables are updated from the path's final environment; then the post statement.
// Returns the values of the loop-carried variables after the loop. Effects inside the loop are not allowed (pure counting loops).
func (c *Ctx) foldLoop(l *LoopRec, hook func(Term) (sval, bool), limit int) (map[types.Object]sval, string) {
	if l.For == nil || l.CondT == nil {
		return nil, "not a counted loop"
	}
	state := map[types.Object]sval{}
	for o, t := range l.Init {
		e := &strEnv{hook: hook}
		v, ok := e.val(t)
		if !ok {
			return nil, "loop initialiser cannot be folded: " + e.fail
		}
		state[o] = v
	}
	h := func(t Term) (sval, bool) {
		if lv, ok := t.(TLoop); ok && lv.ID == l.ID {
			if v, ok := state[lv.Obj]; ok {
				return v, true
			}
		}
		return hook(t)
	}
	for it := 0; it < limit; it++ {
		e := &strEnv{hook: h}
		cv, ok := e.val(l.CondT)
		if e.panic != "" {
			return nil, e.panic
		}
		if !ok || cv.K != 'b' {
			return nil, "loop condition cannot be folded: " + e.fail
		}
		if !cv.B {
			return state, ""
		}
		var sel *Path
		for _, ip := range l.Iter {
			feasible := true
			for _, st := range ip.Steps {
				switch st.Kind {
				case "cond":
					e2 := &strEnv{hook: h}
					v, ok := e2.val(st.Cond.T)
					if e2.panic != "" {
						return nil, e2.panic
					}
					if !ok || v.K != 'b' {
						return nil, "condition inside the loop cannot be folded: " + e2.fail
					}
					if v.B != st.Cond.Truth {
						feasible = false
					}
				default:
					return nil, "effect inside a folded loop"
				}
				if !feasible {
					break
				}
			}
			if feasible {
				if sel != nil {
					return nil, "two feasible iteration paths"
				}
				sel = ip
			}
		}
		if sel == nil || (sel.End != "fall" && sel.End != "continue") {
			return nil, "no continuing iteration path"
		}
		next := map[types.Object]sval{}
		for o := range state {
			if t, ok := sel.Env[o]; ok {
				e3 := &strEnv{hook: h}
				v, ok := e3.val(t)
				if !ok {
					return nil, "loop variable update cannot be folded: " + e3.fail
				}
				next[o] = v
			} else {
				next[o] = state[o]
			}
		}
		state = next
		// post statement on integers
		if l.Post != nil {
			ints := map[types.Object]int64{}
			for o, v := range state {
				if v.K == 'i' {
					ints[o] = v.I
				}
			}
			sim := &loopSim{c: c, l: l, state: ints}
			if !sim.post() {
				return nil, sim.why
			}
			for o, v := range sim.state {
				state[o] = sval{K: 'i', I: v}
			}
		}
	}
	return nil, "loop does not terminate within the folding limit"
}
