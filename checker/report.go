package main

// E0 — obligations, reporting, evidence, known findings, replay files.

import (
	"bufio"
	"encoding/json"
	"fmt"
	"go/token"
	"os"
	"path/filepath"
	"sort"
	"strings"
)

type Status int

const (
	Discharged Status = iota
	Violated
	Undecided
	AnchorMissing
)

func (s Status) String() string {
	return [...]string{"DISCHARGED", "VIOLATED", "UNDECIDED", "ANCHOR-MISSING"}[s]
}

// Obligation is one decided instance of one rule on one construct.
type Obligation struct {
	Rule      string // e.g. C19.R1
	Construct string // e.g. (*list).Insert#ret2  — never a line number
	Pos       string // file:line (diagnostic only; not part of the key)
	Status    Status
	Why       string // fact used (discharged) or reason (otherwise)
	Trivial   bool   // discharged without a non-trivial fact
	Config    string
}

func (o *Obligation) Key() string { return o.Rule + "/" + o.Construct }

type Report struct {
	Prop     string
	obls     []*Obligation
	index    map[string]*Obligation
	floors   map[string][2]int // rule -> {count, floor}
	notes    []string
	counters map[string]int
	assume   map[string]bool
}

func newReport(prop string) *Report {
	return &Report{Prop: prop, index: map[string]*Obligation{}, floors: map[string][2]int{}, counters: map[string]int{}, assume: map[string]bool{}}
}

func (r *Report) add(o *Obligation) {
	k := o.Key() + "@" + o.Config
	if prev, ok := r.index[k]; ok {
		// same key decided twice: keep the worse verdict (a rule may visit a construct on several paths)
		if o.Status > prev.Status || (o.Status == prev.Status && prev.Status != Discharged && prev.Why != o.Why && !strings.Contains(prev.Why, o.Why)) {
			if o.Status == prev.Status {
				prev.Why += "; " + o.Why
			} else {
				*prev = *o
			}
		}
		return
	}
	r.index[k] = o
	r.obls = append(r.obls, o)
}

// Floor records that rule matched n instances and needs at least floor.
func (r *Report) Floor(rule string, n, floor int) {
	r.floors[rule] = [2]int{n, floor}
}

func (r *Report) Count(name string, n int) { r.counters[name] += n }
func (r *Report) Assume(s string)          { r.assume[s] = true }
func (r *Report) Note(f string, a ...any)  { r.notes = append(r.notes, fmt.Sprintf(f, a...)) }

// ---- known findings

type Known struct {
	findings map[string]string // "Cxx key" -> description
	fixed    []string
}

func loadKnown(path string) (*Known, error) {
	k := &Known{findings: map[string]string{}}
	f, err := os.Open(path)
	if err != nil {
		if os.IsNotExist(err) {
			return k, nil
		}
		return nil, err
	}
	defer f.Close()
	sc := bufio.NewScanner(f)
	for sc.Scan() {
		line := strings.TrimSpace(sc.Text())
		if line == "" || strings.HasPrefix(line, "#") {
			continue
		}
		switch {
		case strings.HasPrefix(line, "finding:"):
			// finding: property=Cxx key=<rule>/<construct> <description>
			var prop, key string
			rest := strings.Fields(strings.TrimPrefix(line, "finding:"))
			desc := []string{}
			for _, w := range rest {
				switch {
				case strings.HasPrefix(w, "property=") && prop == "":
					prop = strings.TrimPrefix(w, "property=")
				case strings.HasPrefix(w, "key=") && key == "":
					key = strings.TrimPrefix(w, "key=")
				default:
					desc = append(desc, w)
				}
			}
			if prop == "" || key == "" {
				return nil, fmt.Errorf("malformed finding line: %s", line)
			}
			k.findings[prop+" "+key] = strings.Join(desc, " ")
		case strings.HasPrefix(line, "fixed:"):
			k.fixed = append(k.fixed, line)
		default:
			return nil, fmt.Errorf("malformed known-findings line: %s", line)
		}
	}
	return k, sc.Err()
}

// ---- evidence

type evidence struct {
	PropertyID  string         `json:"property_id"`
	Tier        string         `json:"tier"`
	Seed        int            `json:"seed"`
	Level       string         `json:"level"`
	Coverage    map[string]any `json:"coverage"`
	Assumptions []string       `json:"assumptions"`
	WallS       float64        `json:"wall_s"`
	Violations  int            `json:"violations"`
}

type finishOpts struct {
	Tier, EvidencePath, ReplayDir string
	Seed                          int
	Wall                          float64
	Known                         *Known
	Explanation                   string
	Configs                       []string
	Only                          string // replay: restrict verdict to this key
	Extra                         map[string]any
}

// finish prints diagnostics, writes evidence and replay files, returns exit code.
func (r *Report) finish(o finishOpts) int {
	// floors become obligations
	var rules []string
	for rule := range r.floors {
		rules = append(rules, rule)
	}
	sort.Strings(rules)
	for _, rule := range rules {
		cf := r.floors[rule]
		ob := &Obligation{Rule: rule, Construct: "instance-floor", Trivial: true}
		if cf[0] < cf[1] {
			ob.Status = AnchorMissing
			ob.Why = fmt.Sprintf("rule matched %d instances, fewer than the %d confirmed by hand (anchor moved or removed; a rule matching nothing would pass vacuously)", cf[0], cf[1])
		} else {
			ob.Why = fmt.Sprintf("%d instances >= floor %d", cf[0], cf[1])
		}
		r.add(ob)
	}
	sort.SliceStable(r.obls, func(i, j int) bool {
		if r.obls[i].Key() != r.obls[j].Key() {
			return r.obls[i].Key() < r.obls[j].Key()
		}
		return r.obls[i].Config < r.obls[j].Config
	})
	if o.Only != "" {
		var keep []*Obligation
		for _, ob := range r.obls {
			if ob.Key() == o.Only {
				keep = append(keep, ob)
			}
		}
		if len(keep) == 0 {
			fmt.Printf("replay: obligation %s no longer exists on this tree\n", o.Only)
			keep = append(keep, &Obligation{Rule: strings.SplitN(o.Only, "/", 2)[0], Construct: strings.SplitN(o.Only+"/", "/", 3)[1], Status: AnchorMissing, Why: "obligation not produced on this tree"})
		}
		r.obls = keep
	}
	discharged, nontrivial := 0, map[string]bool{}
	var bad []*Obligation
	knownSeen := map[string]bool{}
	for _, ob := range r.obls {
		if ob.Status == Discharged {
			discharged++
			if !ob.Trivial {
				nontrivial[ob.Key()] = true
			}
			continue
		}
		if desc, ok := o.Known.findings[r.Prop+" "+ob.Key()]; ok && ob.Status == Violated {
			if !knownSeen[ob.Key()] {
				knownSeen[ob.Key()] = true
				fmt.Printf("KNOWN-FINDING: property=%s %s %s\n", r.Prop, ob.Key(), desc)
			}
			continue
		}
		bad = append(bad, ob)
	}
	os.MkdirAll(o.ReplayDir, 0o755)
	// remove stale replay files of this property
	if old, _ := filepath.Glob(filepath.Join(o.ReplayDir, r.Prop+"-*.json")); o.Only == "" {
		for _, f := range old {
			os.Remove(f)
		}
	}
	seenBad := map[string]bool{}
	n := 0
	for _, ob := range bad {
		cfg := ""
		if ob.Config != "" {
			cfg = " [" + ob.Config + "]"
		}
		fmt.Printf("%s: %s %s: %s: %s%s\n", ob.Pos, ob.Rule, ob.Construct, ob.Status, ob.Why, cfg)
		if seenBad[ob.Key()] {
			continue
		}
		seenBad[ob.Key()] = true
		n++
		rp := filepath.Join(o.ReplayDir, fmt.Sprintf("%s-%d.json", r.Prop, n))
		if o.Only == "" {
			b, _ := json.MarshalIndent(map[string]any{"property": r.Prop, "rule": ob.Rule, "construct": ob.Construct, "key": ob.Key(), "pos": ob.Pos, "status": ob.Status.String(), "why": ob.Why, "config": ob.Config}, "", " ")
			os.WriteFile(rp, b, 0o644)
		}
		fmt.Printf("VIOLATION property=%s replay=%s\n", r.Prop, rp)
	}
	// samples: a few discharged non-trivial obligations + all non-discharged
	var samples []any
	perRule := map[string]int{}
	for _, ob := range r.obls {
		if ob.Status == Discharged && (ob.Trivial || perRule[ob.Rule] >= 3) {
			continue
		}
		perRule[ob.Rule]++
		samples = append(samples, map[string]string{"key": ob.Key(), "pos": ob.Pos, "status": ob.Status.String(), "fact": ob.Why})
		if len(samples) >= 60 {
			break
		}
	}
	if len(samples) == 0 {
		for _, ob := range r.obls {
			samples = append(samples, map[string]string{"key": ob.Key(), "pos": ob.Pos, "status": ob.Status.String(), "fact": ob.Why})
			if len(samples) >= 5 {
				break
			}
		}
	}
	inst := map[string]any{}
	for _, rule := range rules {
		cf := r.floors[rule]
		inst[rule] = map[string]int{"matched": cf[0], "floor": cf[1]}
	}
	perRuleTotal := map[string]int{}
	for _, ob := range r.obls {
		perRuleTotal[ob.Rule]++
	}
	cov := map[string]any{
		"explanation":          o.Explanation,
		"obligations":          len(r.obls),
		"discharged":           discharged,
		"evaluations":          len(r.obls),
		"distinct_nontrivial":  len(nontrivial),
		"rule":                 "one obligation per (rule, construct) pair re-derived from /repo's type-checked source on this run; non-trivial = discharged through a computed fact (dominator, interval, origin set, transition table, resolved callee), not a mere presence test; instance-floor obligations are counted as trivial",
		"samples":              samples,
		"obligations_per_rule": perRuleTotal,
		"rule_instances":       inst,
		"configurations":       o.Configs,
		"counters":             r.counters,
		"notes":                r.notes,
		"known_findings":       len(knownSeen),
		"exhaustive":           false,
		"checker_cmd":          "bin/anycheck -prop " + r.Prop + " -tier " + o.Tier,
	}
	for k, v := range o.Extra {
		cov[k] = v
	}
	var as []string
	for a := range r.assume {
		as = append(as, a)
	}
	sort.Strings(as)
	ev := evidence{PropertyID: r.Prop, Tier: o.Tier, Seed: o.Seed, Level: "other", Coverage: cov, Assumptions: as, WallS: o.Wall, Violations: n}
	if o.EvidencePath != "" && o.Only == "" {
		b, _ := json.MarshalIndent(ev, "", " ")
		os.MkdirAll(filepath.Dir(o.EvidencePath), 0o755)
		if err := os.WriteFile(o.EvidencePath, append(b, '\n'), 0o644); err != nil {
			fmt.Fprintln(os.Stderr, "cannot write evidence:", err)
			return 2
		}
	}
	fmt.Printf("%s %s: %d obligations, %d discharged, %d known findings, %d violations (%.1fs)\n", r.Prop, o.Tier, len(r.obls), discharged, len(knownSeen), n, o.Wall)
	if n > 0 {
		return 1
	}
	return 0
}

func posStr(fset *token.FileSet, p token.Pos) string {
	if !p.IsValid() {
		return "-"
	}
	q := fset.Position(p)
	return fmt.Sprintf("%s:%d", q.Filename, q.Line)
}
